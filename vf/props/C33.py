"""C33 -- cached state never leaks stale or wrong results into later calls.

Observed : (1) a fixed probe set (seeded per shard) evaluated after random histories (5..200 steps: evaluations at random
           precisions / arguments / contexts of cache-touching functions, aborted calls through instrument.Failpoint) in
           the worker, and the same probes in NEW interpreters (vf.history: all probes in two different orders in two
           interpreters + every probe family in an interpreter of its own);
           (2) matrix objects going through mutations (element / slice assignment, rows=, cols=, swap_row, copy, extend,
           in-place operators, precision changes) interleaved with LU_decomp / lu / det / inverse / lu_solve, compared
           with a brand-new matrix object of the same content (same process) and with a new interpreter (sample);
           (3) memoize'd functions (equal-hash keys 2, 2.0, mpf(2)), odefun interpolants (object with history against a
           new object), contexts mp / clone / iv / fp;
           (4) cache reads themselves through ReturnTap: constant_memo wrapper, log_int_fixed, mpf_bernoulli,
           QuadratureRule.get_nodes, LU_decomp, memoize.f_cached; hit / miss counters per cache (taps + line anchors).
Oracle   : correctly rounded families bit-identical between history and new interpreter; all others
           |hist - fresh| <= 2^(8-p) |fresh|;  and every probe value (history and fresh alike) within 2^(8-p) of a consensus
           reference (release 1.3.0 at p+64 and 2p+200 bits and the tree at 3p+300 bits, closed forms for quad / memoize /
           odefun) computed in a separate interpreter -- "both wrong the same way" is not accepted.
           Matrices: exact rational residual  |P A - L U| <= 2^(4-p) n |L||U|  against the CURRENT content.
           Taps: returned fixed-point constants / integer logarithms / Bernoulli numbers accurate at the REQUESTED precision
           (integer enclosures of C17, release 1.3.0 log, exact Bernoulli numbers), quadrature nodes carry >= prec bits,
           memoize recomputes when the stored precision is below the working precision.
"""
import math, time, sys
from fractions import Fraction
from vf import gens as G
from vf import history as H
from vf import catalog as K

PROP = 'C33'
LEVEL = 'exploration'
NEEDS_REF = True
RULE = ('seeded histories of cache-touching steps followed by a read-back of a seeded probe set; one case = one probe value '
        'after one history compared with new-interpreter values and the consensus reference; non-trivial when the history '
        'contained a step of the same cache family at a different precision or an aborted call; distinct = distinct '
        '(seed, shard, episode, probe). matrix cases: one use of a factorising entry point on a mutated object; '
        'non-trivial when the object held a cached factorisation or was mutated since creation')
ASSUMPTIONS = ['new interpreters (subprocess) start with empty caches; the two evaluation orders and the per-family isolated '
               'interpreters agree with each other (checked, disagreement is reported)',
               'consensus reference: release 1.3.0 at two precisions and the tree at 3p+300 bits agree to 2^-(p+32); closed '
               'forms for quad / memoize / odefun probes; probes are chosen away from zeros of the functions',
               'exact rational arithmetic (fractions.Fraction) for matrix residuals; integer enclosures of vf/props/C17.py '
               'for the constant taps; exact Bernoulli numbers from tangent numbers',
               'hit/miss counters read private names of the tree (cache dictionaries, source lines); when a name no longer '
               'resolves the counter is reported unresolved and not required']
LEVEL_TEXT = ('exploration: seeded histories (5..200 steps, with injected aborts) over the cache inventory of DESIGN section '
              '3/C33, probe read-back compared with new interpreters and a consensus reference; matrix-object mutation '
              'histories with exact residual oracle; cache-read taps with accuracy oracles')
LEVEL_NOTE = ('histories, precisions and crash points not generated are not covered; aborts are injected at Python function '
              'entries only (not between two bytecodes of one function)')
TECHNIQUE = 'runtime monitoring: history replay against fresh processes + cache-read taps + exact residual monitors'
SHARD_TIMEOUT = {'quick': 900, 'thorough': 2400}

R_, C_, I_ = K.R, K.C, K.I
CRCONST = ['pi', 'e', 'ln2', 'ln10', 'phi', 'degree']
OTHERCONST = ['euler', 'catalan', 'apery', 'khinchin', 'glaisher', 'mertens']
IVCONST = ['pi', 'e', 'ln2', 'ln10', 'phi', 'euler', 'catalan']
TOL_BITS = 8


# =======================================================================================
# step / probe language
# =======================================================================================
# {'k':'fn','ctx':'mp|clone|iv|fp','f':name,'a':[specs],'p':prec}         function evaluation
# {'k':'const','ctx':'mp|iv','c':name,'p':prec,'m':mode}                  constant
# {'k':'quad','g':integrand,'ab':[a,b],'method':m,'p':prec,'ctx':'mp|fp'} quadrature (ab: small ints, 'inf')
# {'k':'memo','g':name,'x':'i2|f2|m2|i3|m3|mh','p':prec}                  memoize'd function with equal-hash keys
# {'k':'ode','name':n,'p0':creation prec,'x':[num,den],'p':prec}          odefun interpolant
# {'k':'abort','n':k,'step':{...}}                                        inner step killed at the k-th function entry

def _rarg(r, bits, lo, hi, sign=None):
    return R_(K.raw_rand(r, bits, lo, hi, sign))


def _bits(r):
    return r.choice([6, 12, 30, 53])


FN = {
    # name: (family, generator of args, precision cap, contexts, mpmath function name)
    'log':      ('elem', lambda r: [_rarg(r, _bits(r), -3, 8, 0)], 3200, ('mp', 'clone', 'iv', 'fp'), 'log'),
    'exp':      ('elem', lambda r: [_rarg(r, _bits(r), -6, 4)], 3200, ('mp', 'clone', 'iv', 'fp'), 'exp'),
    'atan':     ('elem', lambda r: [_rarg(r, _bits(r), -6, 6)], 3200, ('mp', 'clone', 'fp'), 'atan'),
    'cos':      ('elem', lambda r: [_rarg(r, _bits(r), -4, 8)], 3200, ('mp', 'clone', 'iv', 'fp'), 'cos'),
    'sin':      ('elem', lambda r: [_rarg(r, _bits(r), -4, 8)], 3200, ('mp', 'clone', 'iv', 'fp'), 'sin'),
    'zeta_int': ('zeta', lambda r: [I_(r.choice([2, 3, 4, 5, 6, 7, 8, 9, 11, 15, 20, 33, 50, 70, 120, -1, -3, -7, -19]))], 1100, ('mp', 'clone'), 'zeta'),
    'zeta_real': ('zeta', lambda r: [_rarg(r, r.choice([6, 12]), 1, 4, 0)], 700, ('mp', 'clone'), 'zeta'),
    'zeta_cplx': ('zeta', lambda r: [C_(K.raw_rand(r, 8, 1, 2, 0), K.raw_rand(r, 8, 2, 6, 0))], 260, ('mp',), 'zeta'),
    'altzeta':  ('zeta', lambda r: [_rarg(r, 8, 0, 4, 0)], 500, ('mp',), 'altzeta'),
    'gamma':    ('gamma', lambda r: [_rarg(r, _bits(r), -2, 5, 0)], 900, ('mp', 'clone', 'iv', 'fp'), 'gamma'),
    'rgamma':   ('gamma', lambda r: [_rarg(r, _bits(r), -2, 5, 0)], 900, ('mp', 'clone'), 'rgamma'),
    'gamma_big': ('gamma', lambda r: [_rarg(r, 12, 6, 10, 0)], 900, ('mp', 'clone'), 'gamma'),
    'loggamma': ('gamma', lambda r: [_rarg(r, 12, 3, 12, 0)], 900, ('mp', 'clone'), 'loggamma'),
    'factorial': ('gamma', lambda r: [_rarg(r, 12, 0, 6, 0)], 900, ('mp',), 'factorial'),
    'gamma_c':  ('gamma', lambda r: [C_(K.raw_rand(r, 8, 0, 3, 0), K.raw_rand(r, 8, 0, 3))], 300, ('mp',), 'gamma'),
    'bernoulli': ('bernoulli', lambda r: [I_(r.choice([2, 4, 6, 8, 10, 12, 14, 20, 30, 38, 50, 64, 100, 150, 200, 280, 1, 0, 3]))], 1100, ('mp', 'clone', 'fp'), 'bernoulli'),
    'hyp1f1':   ('hyp', lambda r: [_rarg(r, 6, -2, 3, 0), _rarg(r, 6, -1, 3, 0), _rarg(r, 12, -3, 3, 0)], 1000, ('mp', 'clone'), 'hyp1f1'),
    'hyp2f1':   ('hyp', lambda r: [_rarg(r, 6, -2, 2, 0), _rarg(r, 6, -2, 2, 0), _rarg(r, 6, 0, 3, 0), _rarg(r, 12, -5, -1, 0)], 1000, ('mp', 'clone'), 'hyp2f1'),
    'hyp0f1':   ('hyp', lambda r: [_rarg(r, 6, -1, 3, 0), _rarg(r, 12, -3, 3, 0)], 1000, ('mp',), 'hyp0f1'),
    'hyp1f1_c': ('hyp', lambda r: [_rarg(r, 6, -2, 3, 0), _rarg(r, 6, -1, 3, 0), C_(K.raw_rand(r, 8, -2, 2, 0), K.raw_rand(r, 8, -2, 2))], 500, ('mp',), 'hyp1f1'),
    'erf':      ('hyp', lambda r: [_rarg(r, 12, -3, 2, 0)], 1000, ('mp', 'clone', 'fp'), 'erf'),
    'besselj':  ('hyp', lambda r: [I_(r.randint(0, 3)), _rarg(r, 12, -3, 1, 0)], 1000, ('mp', 'clone'), 'besselj'),
    'besseli':  ('hyp', lambda r: [_rarg(r, 6, -1, 2, 0), _rarg(r, 12, -3, 2, 0)], 800, ('mp',), 'besseli'),
    'airyai':   ('airy', lambda r: [_rarg(r, 12, -3, 2, 0)], 700, ('mp', 'clone'), 'airyai'),
    'airybi':   ('airy', lambda r: [_rarg(r, 12, -3, 2, 0)], 700, ('mp', 'clone'), 'airybi'),
    # Riemann-Siegel (and its coefficient cache) is used for |t| > 500*prec only
    'siegelz':  ('rs', lambda r: [I_(r.choice([40000, 60000, 100000]))], 70, ('mp',), 'siegelz'),
    'fibonacci': ('int', lambda r: [I_(r.choice([5, 10, 30, 77, 150, 300]))], 1200, ('mp',), 'fibonacci'),
    'eulernum': ('int', lambda r: [I_(r.choice([2, 4, 8, 10, 20, 36]))], 1200, ('mp',), 'eulernum'),
    'primepi':  ('int', lambda r: [I_(r.choice([10, 100, 1000, 5000]))], 400, ('mp',), 'primepi'),
    'zetazero': ('zz', lambda r: [I_(r.choice([1, 2, 3]))], 90, ('mp',), 'zetazero_memoized'),
}
EXACT_FAMS = ('int',)
FAM_OF_CACHE = {}


def _mp():
    import mpmath
    return mpmath


STATE = {}


def state():
    if not STATE:
        m = _mp()
        STATE['clone'] = m.mp.clone()
        STATE['memo'] = {}
        STATE['ode'] = {}
        STATE['calls'] = {}
    return STATE


def _ctx(lib, name):
    if name == 'mp':
        return lib.mp
    if name == 'iv':
        return lib.iv
    if name == 'fp':
        return lib.fp
    if name == 'clone':
        if lib is _mp():
            return state()['clone']
        return lib.mp
    raise ValueError(name)


def _raw_float(raw):
    s, m, e, b = raw
    v = math.ldexp(int(m), e)
    return -v if s else v


def _build(ctx, cname, spec):
    if spec[0] == 'I':
        return spec[1]
    if cname == 'fp':
        if spec[0] == 'R':
            return _raw_float(spec[1])
        return complex(_raw_float(spec[1]), _raw_float(spec[2]))
    if cname == 'iv':
        raw = (spec[1][0], int(spec[1][1]), spec[1][2], spec[1][3])
        return ctx.make_mpf((raw, raw))
    return K.build(ctx, spec)


MEMO_FUNCS = {
    'msqrt': (lambda mp, x: mp.sqrt(x)),
    'mexp':  (lambda mp, x: mp.exp(x)),
    'mzeta': (lambda mp, x: mp.zeta(x + 1)),
    'mgam':  (lambda mp, x: mp.gamma(mp.mpf(x) / 3)),
}
MEMO_KEYS = {'i2': lambda mp: 2, 'f2': lambda mp: 2.0, 'm2': lambda mp: mp.mpf(2),
             'i3': lambda mp: 3, 'm3': lambda mp: mp.mpf(3), 'f3': lambda mp: 3.0}

ODES = {
    # name: (F(x,y), x0, y0, closed form)
    'exp':  (lambda mp: (lambda x, y: y), 0, 1, lambda mp, x: mp.exp(x)),
    'dec':  (lambda mp: (lambda x, y: -2 * y), 0, 3, lambda mp, x: 3 * mp.exp(-2 * x)),
    'osc':  (lambda mp: (lambda x, y: [y[1], -y[0]]), 0, [1, 0], lambda mp, x: [mp.cos(x), -mp.sin(x)]),
}

QUADS = {
    # name: (integrand(ctx), antiderivative(ctx) or None)
    'exp':  (lambda c: c.exp, lambda c: c.exp),
    'cos':  (lambda c: c.cos, lambda c: c.sin),
    'poly': (lambda c: (lambda x: 3 * x * x + 2 * x + 1), lambda c: (lambda x: x * x * x + x * x + x)),
    'rat':  (lambda c: (lambda x: 1 / (1 + x * x)), lambda c: c.atan),
    'gauss': (lambda c: (lambda x: c.exp(-x * x)), None),
}


def _memo_get(mp, g):
    st = state()
    if g not in st['memo']:
        fn = MEMO_FUNCS[g]
        calls = st['calls']
        calls[g] = 0

        def target(x, _fn=fn, _g=g):
            calls[_g] += 1
            return _fn(mp, x)
        target._vf_memo_name = g
        st['memo'][g] = mp.memoize(target)
    return st['memo'][g]


def _ode_get(mp, name, p0):
    st = state()
    key = (name, p0)
    if key not in st['ode']:
        F, x0, y0, _ = ODES[name]
        old = mp.prec
        mp.prec = p0
        try:
            st['ode'][key] = mp.odefun(F(mp), x0, y0)
        finally:
            mp.prec = old
    return st['ode'][key]


def _ode_segments(f):
    """number of Taylor segments held by an interpolant (read through its closure), or None"""
    try:
        for cell in f.__closure__:
            v = cell.cell_contents
            if callable(v) and getattr(v, '__name__', '') == 'get_series':
                for c2 in v.__closure__:
                    w = c2.cell_contents
                    if isinstance(w, list) and w and isinstance(w[0], tuple) and len(w[0]) == 3:
                        return len(w)
    except Exception:
        pass
    return None


def evaluate(step, lib=None, plain=False):
    """execute one (non-abort) step in the given library (default: the tree).  plain=True evaluates memoize / odefun /
    quad steps through their closed forms (used for the reference)."""
    lib = lib or _mp()
    k = step['k']
    p = step['p']
    cname = step.get('ctx', 'mp')
    ctx = _ctx(lib, cname)
    mp = lib.mp if cname in ('iv', 'fp') else ctx
    old = (lib.mp.prec, lib.iv.prec, ctx.prec)
    try:
        if cname != 'fp':
            ctx.prec = p
        if k == 'fn':
            fam, gen, cap, ctxs, fname = FN[step['f']]
            if plain and fname == 'zetazero_memoized':
                fname = 'zetazero'
            if cname == 'iv' and fname == 'log':
                fname = 'ln'
            args = [_build(ctx, cname, s) for s in step['a']]
            return getattr(ctx, fname)(*args)
        if k == 'const':
            c = getattr(ctx, step['c'])
            if cname == 'iv':
                return ctx.make_mpf(c._mpi_)
            if step.get('m', 'n') == 'n' and step.get('route') == 'pos':
                return +c
            return c(prec=p, rounding=step.get('m', 'n'))
        if k == 'quad':
            f, F = QUADS[step['g']]
            a, b = [(ctx.inf if x == 'inf' else (-ctx.inf if x == '-inf' else (ctx.mpf(x[0]) / x[1] if cname != 'fp' else x[0] / x[1])))
                    for x in step['ab']]
            if plain:
                if F is None:
                    return ctx.sqrt(ctx.pi)
                return F(ctx)(b) - F(ctx)(a)
            kw = {}
            if step.get('method'):
                kw['method'] = step['method']
            return ctx.quad(f(ctx), [a, b], **kw)
        if k == 'memo':
            x = MEMO_KEYS[step['x']](ctx)
            if plain:
                return +MEMO_FUNCS[step['g']](ctx, x)
            return _memo_get(ctx, step['g'])(x)
        if k == 'ode':
            x = ctx.mpf(step['x'][0]) / step['x'][1]
            if plain:
                v = ODES[step['name']][3](ctx, x)
                return [+t for t in v] if isinstance(v, list) else +v
            f = _ode_get(ctx, step['name'], step['p0'])
            st = state()
            n0 = _ode_segments(f)
            v = f(x)
            n1 = _ode_segments(f)
            if n0 is not None and n1 is not None:
                key = 'ode-hit' if n1 == n0 else 'ode-miss'
                st['calls'][key] = st['calls'].get(key, 0) + 1
            return v
        raise ValueError(k)
    finally:
        lib.mp.prec, lib.iv.prec = old[0], old[1]
        if cname not in ('fp',):
            ctx.prec = old[2]


_codes = None


def failpoint_codes():
    global _codes
    if _codes is None:
        _codes = H.module_codes(['mpmath.libmp.libelefun', 'mpmath.libmp.gammazeta', 'mpmath.libmp.libhyper',
                                 'mpmath.libmp.libintmath', 'mpmath.calculus.quadrature', 'mpmath.calculus.odes',
                                 'mpmath.matrices.linalg', 'mpmath.functions.bessel', 'mpmath.functions.zeta',
                                 'mpmath.functions.rszeta', 'mpmath.functions.hypergeometric', 'mpmath.ctx_base'])
    return _codes


def run_step(step):
    """history step executor (worker and new interpreters)"""
    if step['k'] == 'abort':
        st = H.aborted_call(failpoint_codes(), step['n'], lambda: evaluate(step['step']))
        return ['abort-step', st[0], str(st[1])]
    if step['k'] == 'mat':
        return mat_probe(step)
    return evaluate(step)


def eval_probe(probe):
    if probe['k'] == 'mat':
        return mat_probe(probe)
    return evaluate(probe)


def reference_probe(probe):
    """separate interpreter: release at p+64 and 2p+200, tree at 3p+300 (closed forms for quad / memo / ode)"""
    from vf import refmodel
    Rl = refmodel.ref()
    p = probe['p'] if probe.get('ctx') != 'fp' else 53
    out = []
    q = dict(probe)
    if q.get('ctx') in ('iv', 'fp', 'clone'):
        q['ctx'] = 'mp'
    if q['k'] == 'const':
        q['m'] = 'n'
    for lib, pp in ((Rl, p + 64), (Rl, 2 * p + 200), (_mp(), 3 * p + 300)):
        q2 = dict(q); q2['p'] = pp
        try:
            out.append(evaluate(q2, lib=lib, plain=True))
        except Exception as e:
            out.append('EXC:' + type(e).__name__)
    return out


# =======================================================================================
# generators
# =======================================================================================

def pick_prec(r, cap):
    x = r.random()
    if x < 0.35:
        p = r.choice([15, 24, 30, 53, 53, 64, 80, 100, 113, 150, 200, 333])
    elif x < 0.55:
        p = r.randint(10, 400)
    elif x < 0.75:
        p = r.choice([380, 399, 400, 401, 420, 599, 600, 601, 1000, 1001])
    elif x < 0.9:
        p = r.choice([2400, 2499, 2500, 2501, 2520, 2999, 3000, 3001, 3021, 3100])
    else:
        p = r.randint(10, 1200)
    return max(10, min(p, cap))


def gen_fn_step(r, fname=None, p=None, ctx=None):
    fname = fname or r.choice(list(FN))
    fam, gen, cap, ctxs, _ = FN[fname]
    c = ctx or (r.choice(ctxs) if r.random() < 0.35 else 'mp')
    if c not in ctxs:
        c = 'mp'
    pc = cap if c == 'mp' else min(cap, 400)
    a = gen(r)
    if fname == 'bernoulli' and c == 'fp' and a[0][1] > 100:
        a = [I_(r.choice([2, 4, 10, 20, 38, 64, 100]))]       # B_n overflows a double from n ~ 260 on (not a cache matter)
    return {'k': 'fn', 'ctx': c, 'f': fname, 'a': a, 'p': p or pick_prec(r, pc)}


def gen_step(r):
    x = r.random()
    if x < 0.50:
        return gen_fn_step(r)
    if x < 0.62:
        c = r.choice(CRCONST + OTHERCONST)
        if r.random() < 0.15:
            return {'k': 'const', 'ctx': 'iv', 'c': r.choice(IVCONST), 'p': pick_prec(r, 1200), 'm': 'iv'}
        cap = 3200 if c in CRCONST + ['euler', 'catalan', 'apery'] else 500
        return {'k': 'const', 'ctx': 'mp', 'c': c, 'p': pick_prec(r, cap), 'm': r.choice(G.MODES)}
    if x < 0.74:
        g = r.choice(list(QUADS))
        if g == 'gauss':
            ab = ['-inf', 'inf']
        else:
            a = r.randint(-4, 4)
            ab = [[a, 2], [a + r.randint(1, 6), 2]]
        c = 'fp' if r.random() < 0.08 else 'mp'
        # (fp.quad(method='gauss-legendre') does not terminate on the unchanged tree -- a C24 matter, kept out of here)
        meth = r.choice([None, 'tanh-sinh', 'gauss-legendre']) if (g != 'gauss' and c == 'mp') else None
        p = pick_prec(r, 260)
        if meth == 'gauss-legendre':
            p = max(p, 24)      # below 16 bits GaussLegendre.calc_nodes never terminates (Newton tolerance 2^-(prec+8) at 1.5 prec bits)
        return {'k': 'quad', 'g': g, 'ab': ab, 'method': meth, 'p': p, 'ctx': c}
    if x < 0.86:
        return {'k': 'memo', 'g': r.choice(list(MEMO_FUNCS)), 'x': r.choice(list(MEMO_KEYS)), 'p': pick_prec(r, 400)}
    return {'k': 'ode', 'name': r.choice(list(ODES)), 'p0': r.choice([40, 53, 80]), 'x': [r.randint(0, 24), 8], 'p': pick_prec(r, 160)}


def gen_history(r, probes):
    n = r.choice([5, 8, 12, 20, 40, 80, 200]) if r.random() < 0.85 else r.randint(5, 200)
    steps = []
    focus = r.random() < 0.5
    fams = r.sample(sorted(set(v[0] for v in FN.values())), 2)
    for i in range(n):
        if focus and r.random() < 0.6:
            # stress the caches the probes read: same function as a probe at another precision / argument
            q = r.choice(probes)
            s = dict(q)
            s.pop('id', None); s.pop('fam', None)
            if q['k'] == 'fn':
                s = gen_fn_step(r, fname=q['f'], ctx=q.get('ctx'))
                if r.random() < 0.5 or q['f'] == 'bernoulli':
                    s['a'] = q['a']
            else:
                cap = {'const': 3200 if q.get('c') in CRCONST else 500, 'quad': 260, 'memo': 400, 'ode': 160}[q['k']]
                s['p'] = pick_prec(r, cap)
                if s.get('method') == 'gauss-legendre':
                    s['p'] = max(s['p'], 24)
        else:
            s = gen_step(r)
        if r.random() < 0.12 and s.get('ctx', 'mp') in ('mp', 'clone'):
            s = {'k': 'abort', 'n': r.choice([1, 2, 3, 5, 8, 13, 21, 40, 90, 200, 500, 1500]), 'step': s}
        steps.append(s)
    return steps


def build_probes(r):
    """the fixed probe set of a shard (depends on the seed only through r)"""
    P = []

    def add(fam, s, exact=False):
        s = dict(s); s['fam'] = fam; s['id'] = len(P); s['exact'] = bool(exact)
        P.append(s)
    for c in ['pi', 'e', 'ln2', 'ln10', 'phi', 'degree']:
        add('const', {'k': 'const', 'ctx': 'mp', 'c': c, 'p': r.choice([24, 53, 100, 333, 1000, 3001]), 'm': r.choice(G.MODES)}, exact=True)
    for c in ['euler', 'catalan', 'apery', 'khinchin', 'glaisher']:
        add('const', {'k': 'const', 'ctx': 'mp', 'c': c, 'p': r.choice([24, 53, 100, 333]), 'm': 'n'})
    add('const', {'k': 'const', 'ctx': 'iv', 'c': r.choice(IVCONST), 'p': r.choice([53, 200]), 'm': 'iv'}, exact=False)
    for f in ['log', 'exp', 'atan', 'cos', 'sin']:
        for p in (r.choice([30, 53, 100]), r.choice([399, 401, 600]), r.choice([2499, 2501, 2999, 3001])):
            add('elem', gen_fn_step(r, f, p, 'mp'))
    add('elem', gen_fn_step(r, 'log', 200, 'iv'))
    add('elem', gen_fn_step(r, 'cos', 100, 'iv'))
    add('elem', gen_fn_step(r, 'exp', 53, 'fp'))
    add('elem', gen_fn_step(r, 'log', 120, 'clone'))
    for f, ps in (('zeta_int', [53, 200, 600]), ('zeta_real', [53, 300]), ('zeta_cplx', [53, 150]), ('altzeta', [100])):
        for p in ps:
            add('zeta', gen_fn_step(r, f, p, 'mp'))
    for f, ps in (('gamma', [53, 150, 420, 700]), ('rgamma', [100]), ('gamma_big', [53, 300]), ('loggamma', [120]),
                  ('factorial', [64]), ('gamma_c', [80])):
        for p in ps:
            add('gamma', gen_fn_step(r, f, p, 'mp'))
    add('gamma', gen_fn_step(r, 'gamma', 53, 'fp'))
    for p in (53, 100, 333, 1000):
        add('bernoulli', gen_fn_step(r, 'bernoulli', p, 'mp'))
    add('bernoulli', gen_fn_step(r, 'bernoulli', 53, 'fp'))
    for f, ps in (('hyp1f1', [53, 400]), ('hyp2f1', [100]), ('hyp0f1', [53]), ('hyp1f1_c', [80]), ('erf', [53, 500]),
                  ('besselj', [53, 300]), ('besseli', [100])):
        for p in ps:
            add('hyp', gen_fn_step(r, f, p, 'mp'))
    add('hyp', gen_fn_step(r, 'hyp1f1', 90, 'clone'))
    for f in ('airyai', 'airybi'):
        for p in (53, 200):
            add('airy', gen_fn_step(r, f, p, 'mp'))
    add('airy', gen_fn_step(r, 'airyai', 100, 'clone'))
    for p in (30, 53, 64):
        add('rs', gen_fn_step(r, 'siegelz', p, 'mp'))
    for f in ('fibonacci', 'eulernum', 'primepi'):
        add('int', gen_fn_step(r, f, r.choice([53, 400]), 'mp'), exact=True)
    add('zz', gen_fn_step(r, 'zetazero', 60, 'mp'))
    for g in ('exp', 'cos', 'poly', 'rat'):
        a = r.randint(-2, 2)
        for p, m in ((53, None), (r.choice([100, 200]), r.choice(['tanh-sinh', 'gauss-legendre']))):
            add('quad', {'k': 'quad', 'g': g, 'ab': [[a, 2], [a + r.randint(2, 5), 2]], 'method': m, 'p': p, 'ctx': 'mp'})
    for g in MEMO_FUNCS:
        for x, p in ((r.choice(['i2', 'f2', 'm2']), r.choice([53, 120])), (r.choice(['i3', 'm3']), r.choice([200, 380]))):
            add('memo', {'k': 'memo', 'g': g, 'x': x, 'p': p})
    for nm in ODES:
        add('ode', {'k': 'ode', 'name': nm, 'p0': r.choice([40, 53, 80]), 'x': [r.randint(2, 20), 8], 'p': r.choice([30, 40, 53, 120])})
    return P


# =======================================================================================
# comparisons
# =======================================================================================

def _eff_prec(probe):
    if probe.get('ctx') == 'fp':
        return 53
    if probe['k'] == 'ode':
        return min(probe['p'], probe['p0'])
    return probe['p']


def _scale(probe, enc):
    return 'max' if (isinstance(enc, list) and enc and enc[0] in ('c', 'l', 'm', 'dc')) else 'leaf'


def _as_f(enc):
    """floats / ints of the fp context become exact raw leaves so that history.close can compare them"""
    if isinstance(enc, list) and enc:
        if enc[0] == 'd':
            f = float.fromhex(enc[1])
            if f != f or f in (float('inf'), float('-inf')):
                return enc
            return H.enc_raw(K.raw_from_float(f))
        if enc[0] == 'dc':
            return ['c', _as_f(['d', enc[1]]), _as_f(['d', enc[2]])]
        if enc[0] == 'z':
            n = int(enc[1], 16)
            from vf.exactq import canon
            return H.enc_raw(canon(1 if n < 0 else 0, abs(n), 0))
        if enc[0] in ('c', 'l', 'i'):
            return [enc[0]] + [_as_f(x) for x in enc[1:]]
    return enc


def cmp_rounding_level(probe, a, b, slack=TOL_BITS):
    """(verdict, worst units) for 'a equals b up to rounding level at the probe precision'"""
    if a == b:
        return 'held', 0.0
    if H.is_exc(a) or H.is_exc(b):
        return 'violated', float('inf')
    p = _eff_prec(probe)
    fa, fb = _as_f(a), _as_f(b)
    if probe['k'] == 'quad':
        return cmp_abs_or_rel(fa, fb, p, slack + 4)
    ok, worst = H.close(fa, fb, p, slack, scale=_scale(probe, fb))
    return ('held' if ok else 'violated'), worst


def cmp_abs_or_rel(a, b, p, slack):
    la, sa = H.leaves(a)
    lb, sb = H.leaves(b)
    if sa != sb or len(la) != 1:
        return 'violated', float('inf')
    x, y = H.raw_to_fraction(la[0]), H.raw_to_fraction(lb[0])
    if x is None or y is None:
        return ('held', 0.0) if la == lb else ('violated', float('inf'))
    d = abs(x - y) / max(1, abs(y))
    u = float(d * (1 << p)) if d < (1 << 60) else float('inf')
    return ('held' if d * (1 << p) <= (1 << slack) else 'violated'), u


def make_reference(probe, triple):
    """consensus: triple = [R1@p+64, R1@2p+200, tree@3p+300] (encoded).  Returns the encoded reference or (None, why)."""
    if isinstance(triple, tuple) or triple is None or H.is_exc(triple):
        return None, 'reference interpreter failed'
    if not (isinstance(triple, list) and triple and triple[0] == 'l' and len(triple) == 4):
        return None, 'reference shape'
    a, b, c = [_as_f(x) for x in triple[1:]]
    for x in (a, b, c):
        if isinstance(x, str):
            return None, 'reference raised ' + str(x)
    p = _eff_prec(probe)
    sc = _scale(probe, b)
    if probe['k'] == 'quad':
        v1, _ = cmp_abs_or_rel(a, b, p + 32, 0)
        v2, _ = cmp_abs_or_rel(c, b, p + 32, 0)
        ok1, ok2 = v1 == 'held', v2 == 'held'
    else:
        ok1, _ = H.close(a, b, p + 32, 0, scale=sc)
        ok2, _ = H.close(c, b, p + 32, 0, scale=sc)
    if not ok1:
        return None, 'R1 not self-consistent'
    if not ok2:
        return None, 'reference-conflict R1 vs tree@hi'
    return b, 'R1+R2'


def cmp_reference(probe, v, ref):
    """value against the consensus reference: 2^TOL_BITS units (1 ulp for the correctly rounded constants),
    guard band 2^-10 units -> undecided"""
    if H.is_exc(v):
        return 'violated', float('inf')
    p = _eff_prec(probe)
    fv = _as_f(v)
    tol = float(1 << (TOL_BITS + (4 if probe['k'] == 'quad' else 0)))
    if probe['k'] == 'const' and probe.get('ctx') == 'mp' and probe['c'] in CRCONST:
        # correctly rounded: <= 1/2 ulp (nearest) or < 1 ulp (directed); one ulp is at most 2 units of 2^-p relative
        tol = 2.0 if probe.get('m', 'n') != 'n' else 1.0
    if probe['k'] == 'ode' or (probe['k'] == 'fn' and probe['f'] == 'zetazero'):
        tol *= 64          # odefun / zetazero accuracy belongs to C34 / C41; only gross errors are asserted here
    if isinstance(fv, list) and fv and fv[0] == 'i':
        # interval result: both endpoints near the reference point value
        worst = 0.0
        for end in fv[1:]:
            ok, w = H.close(end, ref, p, 60, scale='leaf')
            worst = max(worst, w)
    elif probe['k'] == 'quad':
        _, worst = cmp_abs_or_rel(fv, ref, p, 60)
    else:
        ok, worst = H.close(fv, ref, p, 60, scale=_scale(probe, ref))
    if worst >= tol * (1 + 2.0 ** -10):
        return 'violated', worst
    if worst <= tol * (1 - 2.0 ** -10):
        return 'held', worst
    return 'undecided', worst


CACHE_OF_PROBE = {
    'const': 'constant_memo', 'elem': 'elementary-tables', 'zeta': 'zeta-caches', 'gamma': 'gamma-caches',
    'bernoulli': 'bernoulli_cache', 'hyp': 'hyp_summators', 'airy': '_misc_const_cache', 'rs': '_rs_cache',
    'int': 'integer-caches', 'zz': 'memoize', 'quad': 'quad-nodes', 'memo': 'memoize', 'ode': 'odefun-segments',
}


def family_of_step(s):
    if s['k'] == 'abort':
        return family_of_step(s['step'])
    if s['k'] == 'fn':
        return FN[s['f']][0]
    return s['k']


def how_stale(probe, steps):
    """mechanism label for a stale read, from the history alone (fixed partition): what happened to the probe's cache
    family before the read-back"""
    fam = probe['fam']
    same = [s for s in steps if family_of_step(s) == fam]
    aborted = [s for s in same if s['k'] == 'abort']
    ps = [(s['step']['p'] if s['k'] == 'abort' else s['p']) for s in same]
    if aborted:
        return 'after-aborted-call'
    if not same:
        return 'unrelated-history'
    if any(q < probe['p'] for q in ps) and any(q > probe['p'] for q in ps):
        return 'lower-and-higher-precision-before'
    if any(q < probe['p'] for q in ps):
        return 'lower-precision-before'
    if any(q > probe['p'] for q in ps):
        return 'higher-precision-before'
    return 'same-precision-before'


# =======================================================================================
# matrices: object with history against a brand-new object with the same content
# =======================================================================================

def _frac(x):
    """exact Fraction of an mpf entry (or Python number)"""
    if hasattr(x, '_mpf_'):
        v = H.raw_to_fraction(tuple(x._mpf_))
        return v
    if isinstance(x, (int, float)):
        return Fraction(x)
    return None


def mat_content(A):
    """exact content of a real mp matrix: (rows, cols, [[raw...]])"""
    return [A.rows, A.cols, [[tuple(A[i, j]._mpf_) for j in range(A.cols)] for i in range(A.rows)]]


def mat_build(mp, content):
    rows, cols, ent = content
    M = mp.matrix(rows, cols)
    for i in range(rows):
        for j in range(cols):
            raw = ent[i][j]
            M[i, j] = mp.make_mpf((raw[0], int(raw[1]), raw[2], raw[3]))
    return M


def mat_use(mp, A, op, rhs=None):
    """one factorising entry point on A; returns a plain structure of mp numbers / matrices"""
    if op == 'LU_decomp':
        LU, p = mp.LU_decomp(A)
        return [LU.copy(), list(p)]
    if op == 'lu':
        P, L, U = mp.lu(A)
        return [P, L, U]
    if op == 'det':
        return mp.det(A)
    if op == 'inverse':
        return mp.inverse(A)
    if op == 'lu_solve':
        return mp.lu_solve(A, rhs)
    if op == 'powm1':
        return A ** -1
    raise ValueError(op)


def mat_probe(probe):
    """new-interpreter / replay form: {'k':'mat','content':..., 'op':..., 'p':..., 'rhs':[raw..]}"""
    mp = _mp().mp
    old = mp.prec
    mp.prec = probe['p']
    try:
        A = mat_build(mp, probe['content'])
        rhs = None
        if probe.get('rhs') is not None:
            rhs = mp.matrix([mp.make_mpf((t[0], int(t[1]), t[2], t[3])) for t in probe['rhs']])
        return mat_use(mp, A, probe['op'], rhs)
    finally:
        mp.prec = old


def lu_residual_ok(content, LU, piv, prec):
    """exact check that the packed factors (LU, pivots) reproduce the CURRENT content:
    |P A - L U|_ij <= 2^(4-prec) n (|L||U|)_ij   (Gaussian elimination backward error bound with slack 16).
    Returns (ok, worst ratio as float)."""
    rows, cols, ent = content
    n = rows
    if LU.rows != n or LU.cols != n or rows != cols:
        return False, float('inf')
    A = [[H.raw_to_fraction(tuple(ent[i][j])) for j in range(n)] for i in range(n)]
    for k, pk in enumerate(piv):
        if pk is not None and pk != k:
            A[k], A[pk] = A[pk], A[k]
    F = [[_frac(LU[i, j]) for j in range(n)] for i in range(n)]
    if any(x is None for row in F for x in row):
        return True, 0.0
    worst = Fraction(0)
    bound = Fraction(16 * n, 1 << prec)
    ok = True
    for i in range(n):
        for j in range(n):
            s = Fraction(0); e = Fraction(0)
            for k in range(n):
                l = F[i][k] if k < i else (Fraction(1) if k == i else Fraction(0))
                u = F[k][j] if k <= j else Fraction(0)
                s += l * u
                e += abs(l * u)
            d = abs(A[i][j] - s)
            if d > bound * e:
                ok = False
            if e:
                worst = max(worst, d / (bound * e))
            elif d:
                ok = False
                worst = max(worst, Fraction(10**9))
    return ok, float(worst)


MAT_USES = ['LU_decomp', 'lu', 'det', 'inverse', 'lu_solve', 'LU_decomp', 'lu']
MAT_MUTS = ['prec', 'prec', 'set', 'set', 'slice-row', 'slice-col', 'resize', 'rows', 'cols', 'swap', 'copy', 'extend', 'inplace', 'setdiag']


def rand_entry(mp, r):
    return mp.mpf(r.randint(-40, 40)) / r.choice([1, 2, 4, 8, 3, 7])


def mat_episode(rec, r, eid, fresh_queue):
    mp = _mp().mp
    old = mp.prec
    try:
        p = r.choice([24, 53, 53, 80, 113, 200])
        mp.prec = p
        n = r.randint(2, 5)
        A = mp.matrix(n)
        for i in range(n):
            for j in range(n):
                A[i, j] = rand_entry(mp, r)
            A[i, i] = A[i, i] + r.choice([-1, 1]) * (50 + r.randint(0, 30))
        log = []            # mutation kinds since the cached factorisation was stored
        fill_prec = None
        nsteps = r.randint(5, 40)
        hist = [('create', n, p)]
        for step in range(nsteps):
            if r.random() < 0.45:
                # ---------------- mutation ----------------
                m = r.choice(MAT_MUTS)
                rows, cols = A.rows, A.cols
                if m == 'prec':
                    p = r.choice([24, 30, 53, 64, 100, 150, 200, 300, 400])
                    mp.prec = p
                elif m == 'set':
                    A[r.randrange(rows), r.randrange(cols)] = rand_entry(mp, r)
                    log.append('setitem')
                elif m == 'setdiag':
                    for i in range(min(rows, cols)):
                        A[i, i] = 60 + r.randint(0, 40)
                    log.append('setitem')
                elif m == 'slice-row':
                    i = r.randrange(rows)
                    A[i, :] = mp.matrix([[rand_entry(mp, r) for _ in range(cols)]])
                    log.append('slice')
                elif m == 'slice-col':
                    j = r.randrange(cols)
                    A[:, j] = mp.matrix([rand_entry(mp, r) for _ in range(rows)])
                    log.append('slice')
                elif m == 'resize':
                    k = max(1, min(6, rows + r.choice([-1, -1, 1])))
                    A.rows = k
                    A.cols = k
                    log.append('resize')
                    if k > rows:
                        A[k - 1, k - 1] = 70 + r.randint(0, 9)
                        log.append('setitem')
                elif m == 'rows':
                    A.rows = max(1, min(6, rows + r.choice([-1, 1])))
                    log.append('resize')
                elif m == 'cols':
                    A.cols = max(1, min(6, cols + r.choice([-1, 1])))
                    log.append('resize')
                elif m == 'swap':
                    if rows > 1:
                        i, j = r.sample(range(rows), 2)
                        mp.swap_row(A, i, j)
                        log.append('swap_row')
                elif m == 'copy':
                    A = A.copy()
                    log = ['new-object']
                elif m == 'extend':
                    B = mp.extend(A, [rand_entry(mp, r) for _ in range(rows)])
                    if r.random() < 0.5:
                        A = B
                        log = ['new-object']
                elif m == 'inplace':
                    k = r.choice(['*=', '+=', '-=', '/='])
                    if k == '*=':
                        A *= 2
                    elif k == '/=':
                        A /= 2
                    elif k == '+=':
                        A += mp.eye(rows) if rows == cols else mp.zeros(rows, cols)
                    else:
                        A -= mp.eye(rows) if rows == cols else mp.zeros(rows, cols)
                    log.append('inplace-op')
                hist.append((m, A.rows, A.cols, p))
                rec.cls('matrix-mutation/' + m)
                continue
            # ---------------- use ----------------
            op = r.choice(MAT_USES)
            content = mat_content(A)
            cached = getattr(A, '_LU', None) is not None
            rhs = None
            rhs_raw = None
            if op == 'lu_solve':
                rhs = mp.matrix([rand_entry(mp, r) for _ in range(A.rows)])
                rhs_raw = [tuple(rhs[i]._mpf_) for i in range(A.rows)]
            probe = {'k': 'mat', 'content': content, 'op': op, 'p': p, 'rhs': rhs_raw}
            v_hist = H.safe(lambda _: mat_use(mp, A, op, rhs), None)
            v_twin = H.safe(mat_probe, probe)
            now_cached = getattr(A, '_LU', None) is not None
            mutated = bool(log)
            if cached:
                rec.event('cache matrix._LU: read with a stored factorisation present')
                if fill_prec is not None and p > fill_prec:
                    how = 'precision-raised'
                else:
                    how = None
                if 'resize' in log:
                    how = 'resize'
                elif how is None and log:
                    how = log[0]
                elif how is None:
                    how = 'same-precision' if fill_prec == p else 'precision-lowered'
            else:
                how = 'no-cache'
            rec.case((rec.shard.get('seed'), rec.shard.get('shard'), 'mat', eid, step), cached or mutated,
                     cls='matrix/%s/%s' % (op, how))
            case = {'kind': 'matrix', 'op': op, 'prec': p, 'cache_filled_at_prec': fill_prec, 'since_fill': log[:12],
                    'content': content, 'rhs': rhs_raw, 'history': hist[-25:]}
            entry = 'matrix._LU' if op in ('LU_decomp', 'lu') else 'matrix.' + op
            verdict, worst = cmp_rounding_level({'k': 'mat', 'p': p}, v_hist, v_twin, slack=TOL_BITS + 4)
            if verdict != 'held':
                rec.violation('C33/%s/%s' % (entry, how),
                              '%s on a matrix object with history differs from the same call on a new object with the same '
                              'content (prec %d; cached factorisation %s; since then: %s)'
                              % (op, p, ('stored at prec %s' % fill_prec) if cached else 'absent', ','.join(log[:6]) or '-'),
                              case, observed=v_hist, expected=v_twin, severity=None)
            elif op == 'LU_decomp' and not H.is_exc(v_hist):
                # hook invariant on the value handed out: the factors reproduce the CURRENT matrix
                LU, piv = mp.LU_decomp(A)
                ok, w = lu_residual_ok(content, LU, piv, p)
                rec.event('LU residual checked exactly against the current content')
                if not ok:
                    rec.violation('C33/%s/%s' % (entry, how), 'LU factors handed out do not reproduce the current matrix content '
                                  '(exact residual %.3g times the bound)' % w, case, observed=v_hist, expected='P A = L U within 16 n u |L||U|')
            if not H.is_exc(v_hist):
                rec.maximum('matrix: |object with history - new object| in units of 2^-p', worst, None)
            # bookkeeping of the cache state
            if now_cached and not cached:
                fill_prec = p
                log = []
            elif now_cached:
                lp = getattr(A, '_LU_prec', None)
                if isinstance(lp, int) and lp != fill_prec:
                    fill_prec = lp              # a tree that records the precision re-factorised at the current one
                    log = []
            elif not now_cached:
                fill_prec = None
                log = []
            if len(fresh_queue) < fresh_queue.cap and r.random() < 0.3:
                fresh_queue.append((probe, v_twin))
    finally:
        mp.prec = old


class Queue(list):
    cap = 60


# =======================================================================================
# cache-read taps (ReturnTap) and hit / miss anchors
# =======================================================================================

LINE_ANCHORS = {
    # cache: (hit-line anchors, fill-line anchors)
    'log_taylor_cache': ([r'mpmath.libmp.libelefun:log_taylor_cached@a, log_a = log_taylor_cache\['],
                         [r'mpmath.libmp.libelefun:log_taylor_cached@log_taylor_cache\[n, cached_prec\] = ']),
    'atan_taylor_cache': ([r'mpmath.libmp.libelefun:atan_taylor_get_cached@a, atan_a = atan_taylor_cache\['],
                          [r'mpmath.libmp.libelefun:atan_taylor_get_cached@atan_taylor_cache\[n, prec2\] = ']),
    'cos_sin_cache': ([r'mpmath.libmp.libelefun:cos_sin_basecase@cos_t, sin_t = cos_sin_cache\[n\]'],
                      [r'mpmath.libmp.libelefun:cos_sin_basecase@cos_sin_cache\[n\] = ']),
    'zeta_int_cache': ([r'mpmath.libmp.gammazeta:mpf_zeta_int@return mpf_pos\(zeta_int_cache'],
                       [r'mpmath.libmp.gammazeta:mpf_zeta_int@zeta_int_cache\[s\] = ']),
    'borwein_cache': ([r'mpmath.libmp.gammazeta:borwein_coefficients@return borwein_cache\[n\]'],
                      [r'mpmath.libmp.gammazeta:borwein_coefficients@borwein_cache\[n\] = ds']),
    'gamma_taylor_cache': ([r'mpmath.libmp.gammazeta:gamma_taylor_coefficients@return gamma_taylor_cache\[prec\], prec',
                            r'mpmath.libmp.gammazeta:gamma_taylor_coefficients@coeffs = \[x>>\(cprec-prec\)'],
                           [r'mpmath.libmp.gammazeta:gamma_taylor_coefficients@gamma_taylor_cache\[prec\] = A']),
    'gamma_stirling_cache': ([r'mpmath.libmp.gammazeta:stirling_coefficient@if n in gamma_stirling_cache'],
                             [r'mpmath.libmp.gammazeta:stirling_coefficient@gamma_stirling_cache\[n\] = p, q']),
    'hyp_summators': ([r'mpmath.ctx_mp:MPContext.hypsum@summator = ctx.hyp_summators\[key\]'],
                      [r'mpmath.ctx_mp:MPContext.hypsum@ctx.hyp_summators\[key\] = ']),
    '_misc_const_cache': ([r'mpmath.functions.bessel:_airyai_C1@return \+v'],
                          [r'mpmath.functions.bessel:_airyai_C1@cache\[name\] = \(prec, f\(ctx\)\)']),
    '_rs_cache': ([r'mpmath.functions.rszeta:coef@return _cache\[2\], _cache\[3\]'],
                  [r'mpmath.functions.rszeta:coef@ctx._rs_cache\[\x3a\] = data']),
    'fp._bernoulli_cache': ([r'mpmath.ctx_fp:FPContext.bernoulli@return cache\[n\]$'],
                            [r'mpmath.ctx_fp:FPContext.bernoulli@cache\[n\] = to_float']),
    'matrix._LU': ([r'mpmath.matrices.linalg:LinearAlgebraMethods.LU_decomp@return A\._LU'],
                   [r'mpmath.matrices.linalg:LinearAlgebraMethods.LU_decomp@orig\._LU = \(A, p\)']),
    'quad.standard_cache': ([r'mpmath.calculus.quadrature:QuadratureRule.get_nodes@nodes = self.standard_cache\[degree, prec\]'],
                            [r'mpmath.calculus.quadrature:QuadratureRule.get_nodes@self.standard_cache\[degree, prec\] = nodes']),
    'ifib._cache': ([r'mpmath.libmp.libintmath:ifib@return _cache\[n\]'], [r'mpmath.libmp.libintmath:ifib@_cache\[m\] = b']),
    'eulernum._cache': ([r'mpmath.libmp.libintmath:eulernum@^\s+return f$'], [r'mpmath.libmp.libintmath:eulernum@_cache\[n\] = ']),
    'primes sieve': ([r'mpmath.libmp.libintmath:list_primes'], []),
}
TAP_CACHES = ['constant_memo', 'log_int_cache', 'bernoulli_cache', 'quad.transformed_cache', 'memoize', 'odefun segments']
CONST_OF_FIXED = {'pi_fixed': 'pi', 'e_fixed': 'e', 'ln2_fixed': 'ln2', 'ln10_fixed': 'ln10', 'phi_fixed': 'phi',
                  'euler_fixed': 'euler', 'catalan_fixed': 'catalan', 'apery_fixed': 'apery', 'khinchin_fixed': 'khinchin'}
FIXED_TOL_UNITS = 64


class _Slot(object):
    def __init__(self, d, key):
        self.d, self.key = d, key

    def append(self, v):
        self.d[self.key] = v


class Taps(object):
    """ReturnTap on the cache-reading functions.  Counts hits / misses and checks that what a read hands back is accurate
    at the REQUESTED precision (independent oracles), whatever the cache contained."""

    def __init__(self, rec):
        from vf import instrument as I
        from vf.props import C17
        self.rec, self.I, self.C17 = rec, I, C17
        self.counts = {}
        self.stack = {}
        self.encl = {}          # constant name -> (W, lo, hi)
        self.logref = {}        # n -> (prec, fixed value) from the release
        self.T = None
        self.nchecked = {}
        m = _mp()
        names = {}

        def add(name, fn):
            if fn is not None and hasattr(fn, '__code__'):
                names[fn.__code__] = name
        add('constant_memo', I.resolve('mpmath.libmp.libelefun:pi_fixed'))
        add('log_int_fixed', I.resolve('mpmath.libmp.libelefun:log_int_fixed'))
        add('mpf_bernoulli', I.resolve('mpmath.libmp.gammazeta:mpf_bernoulli'))
        add('get_nodes', I.resolve('mpmath.calculus.quadrature:QuadratureRule.get_nodes'))
        add('LU_decomp', I.resolve('mpmath.matrices.linalg:LinearAlgebraMethods.LU_decomp'))
        try:
            add('f_cached', m.mp.memoize(len))
        except Exception:
            pass
        self.names = names
        self.unresolved = [n for n in ('constant_memo', 'log_int_fixed', 'mpf_bernoulli', 'get_nodes', 'LU_decomp', 'f_cached')
                           if n not in names.values()]
        self.tap = I.ReturnTap(names, self.on_return, self.on_start)

    def __enter__(self):
        self.tap.install()
        return self

    def __exit__(self, *a):
        self.tap.uninstall()
        for k, v in sorted(self.counts.items()):
            self.rec.event(k, v)
        for n in self.unresolved:
            self.rec.anchor('unresolved:tap:' + n, 1)
        return False

    def cnt(self, k, n=1):
        self.counts[k] = self.counts.get(k, 0) + n

    # ------------------------------------------------------------------------------
    def on_start(self, name, code, loc):
        # start / return are matched through the identity of the monitored frame (robust against unwinding: an
        # aborted call never returns, a later frame re-using the id overwrites the entry at its own start)
        st = _Slot(self.stack, (name, id(sys._getframe(2))))
        try:
            if name == 'constant_memo':
                f = loc.get('f')
                prec = loc.get('prec')
                hit = prec <= getattr(f, 'memo_prec', -1)
                st.append((getattr(f, '__name__', '?'), prec, hit))
            elif name == 'log_int_fixed':
                n, prec = loc.get('n'), loc.get('prec')
                import mpmath.libmp.libelefun as le
                ent = getattr(le, 'log_int_cache', {}).get(n)
                st.append((n, prec, bool(ent and ent[1] >= prec)))
            elif name == 'mpf_bernoulli':
                n, prec = loc.get('n'), loc.get('prec')
                import mpmath.libmp.gammazeta as gz
                hit = False
                if isinstance(prec, int) and isinstance(n, int):
                    wp = prec + 30
                    wp += 32 - (prec & 31)
                    ent = getattr(gz, 'bernoulli_cache', {}).get(wp)
                    hit = bool(ent and n in ent[0])
                st.append((n, prec, hit))
            elif name == 'get_nodes':
                s = loc.get('self')
                key = (loc.get('a'), loc.get('b'), loc.get('degree'), loc.get('prec'))
                hit = key in getattr(s, 'transformed_cache', {})
                st.append((loc.get('prec'), hit, type(getattr(s, 'ctx', None)).__name__))
            elif name == 'LU_decomp':
                A = loc.get('A')
                ctx = loc.get('ctx')
                content = None
                try:
                    if A.rows == A.cols and A.rows <= 6 and all(hasattr(A[i, j], '_mpf_') for i in range(A.rows) for j in range(A.cols)):
                        content = mat_content(A)
                except Exception:
                    content = None
                st.append((content, getattr(ctx, 'prec', None), getattr(A, '_LU', None) is not None and loc.get('use_cache', True)))
            elif name == 'f_cached':
                args, kwargs, cache, ctx, f = loc.get('args'), loc.get('kwargs'), loc.get('f_cache'), loc.get('ctx'), loc.get('f')
                key = (args, tuple(kwargs.items())) if kwargs else args
                ent = cache.get(key) if cache is not None else None
                prec = getattr(ctx, 'prec', None)
                hit = bool(ent and ent[0] >= prec)
                g = getattr(f, '_vf_memo_name', None)
                calls = state()['calls'].get(g) if g else None
                st.append((g, hit, calls, prec, ent[0] if ent else None))
        except Exception as e:
            st.append(None)
            self.cnt('tap handler errors')

    def on_return(self, name, code, ret):
        info = self.stack.pop((name, id(sys._getframe(2))), None)
        if info is None:
            return
        self.tap.active = False
        try:
            getattr(self, 'ret_' + name)(info, ret)
        except Exception as e:
            self.cnt('tap handler errors')
            self.rec.note('tap handler error', '%s: %r' % (name, e))
        finally:
            self.tap.active = True

    # ------------------------------------------------------------------------------
    def enclosure(self, cname, W):
        cur = self.encl.get(cname)
        if cur is None or cur[0] < W:
            W2 = max(W + 64, 2 * (cur[0] if cur else 0))
            if cname == 'khinchin' and W2 > 2200:
                return None
            lo, hi = self.C17.enclosure(cname, W2)
            cur = self.encl[cname] = (W2, lo, hi)
        return cur

    def ret_constant_memo(self, info, ret):
        fname, prec, hit = info
        self.cnt('cache constant_memo: ' + ('hit' if hit else 'miss'))
        cname = CONST_OF_FIXED.get(fname)
        if cname is None or not isinstance(ret, int) or not isinstance(prec, int) or prec < 1:
            return
        e = self.enclosure(cname, prec + 16)
        if e is None:
            return
        W, lo, hi = e
        sh = W - prec
        self.cnt('tap checks: fixed-point constant accurate at the requested precision')
        if (ret + FIXED_TOL_UNITS) << sh < lo or (ret - FIXED_TOL_UNITS) << sh > hi:
            dev = abs((ret << sh) - lo) >> sh
            self.rec.violation('C33/constant_memo/%s' % ('stale-or-wrong-read' if hit else 'wrong-recomputation'),
                               'constant_memo wrapper returned a fixed-point %s that is %s units off at the requested %d bits'
                               % (cname, dev if dev < 10**6 else '>1e6', prec),
                               {'kind': 'tap', 'tap': 'constant_memo', 'constant': cname, 'prec': prec, 'served_from_memo': hit},
                               observed=ret, expected={'scale': W, 'lo': lo, 'hi': hi})

    def ret_log_int_fixed(self, info, ret):
        n, prec, hit = info
        self.cnt('cache log_int_cache: ' + ('hit' if hit else 'miss'))
        k = self.nchecked['log'] = self.nchecked.get('log', 0) + 1
        if not isinstance(n, int) or n < 2 or not isinstance(prec, int) or prec < 2 or not isinstance(ret, int):
            return
        if not (n <= 24 or k % 23 == 0):
            return
        cur = self.logref.get(n)
        if cur is None or cur[0] < prec + 16:
            from vf import refmodel
            rmp = refmodel.ref().mp
            W = max(prec + 48, 2 * (cur[0] if cur else 0))
            old = rmp.prec
            rmp.prec = W + 10
            try:
                v = int(rmp.floor(rmp.ldexp(rmp.log(n), W)))
            finally:
                rmp.prec = old
            cur = self.logref[n] = (W, v)
        W, v = cur
        self.cnt('tap checks: log_int_fixed accurate at the requested precision')
        sh = W - prec
        if abs((ret << sh) - v) > (FIXED_TOL_UNITS << sh):
            self.rec.violation('C33/log_int_cache/%s' % ('stale-or-wrong-read' if hit else 'wrong-recomputation'),
                               'log_int_fixed(%d, %d) is %d units off' % (n, prec, abs((ret << sh) - v) >> sh),
                               {'kind': 'tap', 'tap': 'log_int_fixed', 'n': n, 'prec': prec, 'served_from_cache': hit},
                               observed=ret, expected={'scale': W, 'value': v})

    def ret_mpf_bernoulli(self, info, ret):
        n, prec, hit = info
        self.cnt('cache bernoulli_cache: ' + ('hit' if hit else 'miss'))
        if not isinstance(n, int) or n < 2 or n & 1 or n > 1200 or not isinstance(prec, int) or prec < 4:
            return
        k = self.nchecked['bern'] = self.nchecked.get('bern', 0) + 1
        if k > 3000 and k % 7:
            return
        if self.T is None:
            self.T = self.C17.tangent_numbers(600)
        B = self.C17.abs_bernoulli_even(self.T, n // 2)
        if (n // 2) % 2 == 0:
            B = -B
        try:
            v = H.raw_to_fraction(tuple(ret))
        except Exception:
            return
        if v is None:
            return
        self.cnt('tap checks: Bernoulli number accurate at the requested precision')
        if abs(v - B) * (1 << prec) > 64 * abs(B):
            err = float(abs(v - B) / abs(B))
            self.rec.violation('C33/bernoulli_cache/%s' % ('stale-or-wrong-read' if hit else 'wrong-computation'),
                               'mpf_bernoulli(%d, %d) has relative error %.3g' % (n, prec, err),
                               {'kind': 'tap', 'tap': 'mpf_bernoulli', 'n': n, 'prec': prec, 'served_from_cache': hit},
                               observed=ret, expected=str(B)[:80])

    def ret_get_nodes(self, info, ret):
        prec, hit, ctxname = info
        self.cnt('cache quad.transformed_cache: ' + ('hit' if hit else 'miss'))
        if ctxname != 'MPContext' or not isinstance(prec, int):
            return
        try:
            bcs = [x._mpf_[3] for x, w in ret if hasattr(x, '_mpf_')] + [w._mpf_[3] for x, w in ret if hasattr(w, '_mpf_')]
        except Exception:
            return
        if len(bcs) < 6:
            return
        self.cnt('tap checks: quadrature nodes carry at least the requested bits')
        if max(bcs) < prec - 8:
            self.rec.violation('C33/quad-nodes/%s' % ('stale-read' if hit else 'low-precision-computation'),
                               'get_nodes(prec=%d) handed out nodes whose longest mantissa has %d bits' % (prec, max(bcs)),
                               {'kind': 'tap', 'tap': 'get_nodes', 'prec': prec, 'served_from_cache': hit},
                               observed=max(bcs), expected='>= %d' % (prec - 8))

    def ret_LU_decomp(self, info, ret):
        content, prec, cached = info
        if cached:
            self.cnt('cache matrix._LU: hit (tap)')
        if content is None or prec is None or not isinstance(ret, tuple):
            return
        LU, piv = ret
        ok, w = lu_residual_ok(content, LU, piv, prec)
        self.cnt('tap checks: LU factors reproduce the current matrix')
        if not ok:
            self.rec.violation('C33/matrix._LU/tap-%s' % ('cached' if cached else 'computed'),
                               'LU_decomp returned factors that do not reproduce its argument at the working precision %d '
                               '(exact residual %.3g times the bound; %s)' % (prec, w, 'served from A._LU' if cached else 'freshly computed'),
                               {'kind': 'tap', 'tap': 'LU_decomp', 'prec': prec, 'content': content, 'served_from_cache': bool(cached)},
                               observed=H.enc(LU), expected='|P A - L U| <= 16 n 2^-prec |L||U|')

    def ret_f_cached(self, info, ret):
        g, hit, calls, prec, cprec = info
        self.cnt('cache memoize: ' + ('hit' if hit else 'miss'))
        if g is None:
            return
        now = state()['calls'].get(g)
        self.cnt('tap checks: memoize recomputes below the working precision')
        if not hit and now == calls:
            self.rec.violation('C33/memoize/reused-below-precision',
                               'memoize wrapper returned without calling the function although the stored precision %s is below the '
                               'working precision %s' % (cprec, prec), {'kind': 'tap', 'tap': 'memoize', 'g': g, 'prec': prec, 'stored': cprec},
                               observed='no call', expected='recomputation')


# =======================================================================================
# shards
# =======================================================================================

N_SHARDS = 16
EPISODES = {'quick': 26, 'thorough': 330}
MAT_EPISODES = {'quick': 60, 'thorough': 900}
CLEAN = {'quick': 3, 'thorough': 30}


def shards(tier, seed):
    return [{'n': EPISODES[tier]} for _ in range(N_SHARDS)]


def all_anchor_names():
    out = []
    for hits, fills in LINE_ANCHORS.values():
        out += hits + fills
    return out


def fresh_baseline(rec, probes):
    """new-interpreter values of every probe: two orders + one interpreter per family; consensus references"""
    fams = sorted(set(q['fam'] for q in probes))
    sets = [[q for q in probes if q['fam'] == f] for f in fams]
    t0 = time.time()
    per_order, dis = H.fresh_batched('vf.props.C33:eval_probe', sets, timeout=900)
    iso = H.fresh_isolated('vf.props.C33:eval_probe', sets, timeout=600)
    refs = H.fresh_isolated('vf.props.C33:reference_probe', [probes], timeout=1200)[0]
    rec.event('new interpreters spawned', len(per_order) + len(sets) + 1)
    rec.note('baseline seconds', round(time.time() - t0, 1))
    fresh = {}          # probe id -> list of (label, encoded value)
    for lab, od in zip(('new interpreter, forward order', 'new interpreter, reverse order'), per_order):
        if isinstance(od, tuple):
            rec.undecided('new interpreter failed: ' + od[1][:100])
            continue
        for qs, vs in zip(sets, od):
            for q, v in zip(qs, vs):
                fresh.setdefault(q['id'], []).append((lab, v))
    for qs, vs in zip(sets, iso):
        if isinstance(vs, tuple):
            rec.undecided('new interpreter failed: ' + vs[1][:100])
            continue
        for q, v in zip(qs, vs):
            fresh.setdefault(q['id'], []).append(('interpreter of its own family', v))
    ref = {}
    if isinstance(refs, tuple):
        rec.undecided('reference interpreter failed: ' + refs[1][:100])
        refs = [None] * len(probes)
    for q, t in zip(probes, refs):
        ref[q['id']] = make_reference(q, t)
    return fresh, ref


def key_for(probe, how):
    return 'C33/%s/%s' % (CACHE_OF_PROBE.get(probe['fam'], probe['fam']), how)


def check_probe_value(rec, probe, v, fresh, ref, ident, how, label, case, nontrivial):
    """one probe value (after a history, or from a new interpreter) against the other interpreters and the reference"""
    rec.case(ident, nontrivial, cls='probe/%s/%s/%s' % (probe['fam'], 'exact' if probe['exact'] else 'approx', how))
    bad = False
    for lab, w in fresh.get(probe['id'], []):
        if lab == label:
            continue
        if probe['exact']:
            verdict, worst = ('held', 0.0) if v == w else ('violated', float('inf'))
        else:
            verdict, worst = cmp_rounding_level(probe, v, w)
            if worst == worst and worst != float('inf'):
                rec.maximum('|%s - fresh| in units of 2^-p: %s' % ('history' if label == 'history' else 'fresh', probe['fam']), worst,
                            {'probe': probe})
        if v == w:
            rec.event('probe values bit-identical to a new interpreter')
        else:
            rec.event('probe values equal to a new interpreter up to rounding level only')
        if verdict != 'held':
            rec.violation(key_for(probe, how),
                          'value after %s differs from %s beyond rounding level (%s)'
                          % ('a history' if label == 'history' else 'a new interpreter', lab,
                             'bit-identity required' if probe['exact'] else '%.3g units of 2^-p' % worst),
                          case, observed=v, expected=w, severity=None)
            bad = True
            break
    rv, why = ref.get(probe['id'], (None, 'no reference'))
    if rv is None:
        rec.undecided('no consensus reference: ' + str(why), {'probe': probe})
        return
    verdict, worst = cmp_reference(probe, v, rv)
    if verdict == 'violated' and not bad:
        rec.violation(key_for(probe, how) + '/accuracy',
                      'probe value is %.3g units of 2^-p away from the consensus reference (%s)' % (worst, label),
                      case, observed=v, expected=rv, severity=None)
    elif verdict == 'undecided':
        rec.undecided('probe error within the guard band of the tolerance', case)
    elif worst == worst and worst != float('inf'):
        rec.maximum('error against the consensus reference in units of 2^-p: ' + probe['fam'], worst, {'probe': probe})


def run_shard(shard, rec):
    from vf.instrument import AnchorCount
    tier = shard['tier']
    r = G.rng(PROP, shard['seed'], shard['shard'])
    probes = build_probes(r)
    fresh, ref = fresh_baseline(rec, probes)
    # the new interpreters against each other and against the reference (each probe individually)
    for q in probes:
        vals = fresh.get(q['id'], [])
        if not vals:
            rec.undecided('no new-interpreter value', {'probe': q})
            continue
        lab, v = vals[0]
        check_probe_value(rec, q, v, fresh, ref, ('fresh', shard['seed'], shard['shard'], q['id']), 'fresh-order', lab,
                          {'kind': 'fresh', 'probe': q}, False)
    st = state()
    queue = Queue()
    byid = dict((q['id'], q) for q in probes)
    t_end = time.time() + (SHARD_TIMEOUT[tier] * 0.55)
    with AnchorCount(rec, all_anchor_names()) as ac, Taps(rec) as taps:
        for ep in range(shard['n']):
            if time.time() > t_end:
                rec.note('episodes cut short by the time cap', ep)
                break
            steps = gen_history(r, probes)
            res = H.run_steps(run_step, steps)
            rec.event('histories executed in the worker')
            rec.event('history steps executed', len(steps))
            for s, v in zip(steps, res):
                if s['k'] == 'abort':
                    rec.cls('abort-step/' + str(v[2] if isinstance(v, list) and len(v) > 2 else v))
                    if isinstance(v, list) and len(v) > 2 and v[2] == 'aborted':
                        rec.event('calls aborted by a failpoint')
                else:
                    rec.cls('history-step/%s/%s' % (family_of_step(s), s.get('ctx', 'mp')))
            # read-back: probes of the families the history touched + a random sample of the others
            fams = set(family_of_step(s) for s in steps)
            chosen = [q for q in probes if q['fam'] in fams or q['k'] in fams]
            rest = [q for q in probes if q not in chosen]
            r.shuffle(rest)
            chosen = chosen[:40] + rest[:8]
            r.shuffle(chosen)
            for q in chosen:
                v = H.safe(eval_probe, q)
                how = how_stale(q, steps)
                case = {'kind': 'history', 'probe': q, 'steps': steps, 'how': how}
                check_probe_value(rec, q, v, fresh, ref, ('hist', shard['seed'], shard['shard'], ep, q['id']), how, 'history', case,
                                  how not in ('unrelated-history', 'same-precision-before'))
            rec.event('probe read-backs after a history', len(chosen))
        # ---- matrices ----
        for me in range(MAT_EPISODES[tier]):
            mat_episode(rec, r, me, queue)
        rec.event('matrix histories executed', MAT_EPISODES[tier])
        # odefun: object with history against a brand-new interpolant in the same process
        calls = st['calls']
        rec.event('cache odefun segments: hit', calls.get('ode-hit', 0))
        rec.event('cache odefun segments: miss', calls.get('ode-miss', 0))
    counts = dict(ac.counts)
    for cache, (hits, fills) in LINE_ANCHORS.items():
        if any(counts.get('unresolved:' + a) for a in hits + fills):
            rec.anchor('unresolved-cache:' + cache, 1)
            continue
        h = sum(counts.get(a, 0) for a in hits)
        f = sum(counts.get(a, 0) for a in fills)
        if cache in ('cos_sin_cache', 'gamma_stirling_cache', 'hyp_summators'):
            h = max(0, h - f)            # the anchored line is every read, including the one right after a fill
        rec.event('cache %s: hit' % cache, h)
        rec.event('cache %s: fill' % cache, f)
    # ---- matrix probes in a new interpreter (sample): the new object in this process == a new interpreter ----
    if queue:
        out = H.fresh_isolated('vf.props.C33:eval_probe', [[q for q, _ in queue]], timeout=300)[0]
        rec.event('new interpreters spawned')
        if isinstance(out, tuple):
            rec.undecided('new interpreter failed: ' + out[1][:100])
        else:
            for (q, v), w in zip(queue, out):
                rec.case(('matfresh', shard['seed'], shard['shard'], str(q)[:200]), False, cls='matrix-fresh/' + q['op'])
                if v != w:
                    rec.violation('C33/matrix/new-object-vs-new-interpreter',
                                  '%s on a brand-new matrix differs between the worker (after its history) and a new interpreter' % q['op'],
                                  {'kind': 'matfresh', 'probe': q}, observed=v, expected=w)
    # ---- clean-state histories in new interpreters ----
    for c in range(CLEAN[tier]):
        steps = gen_history(r, probes)
        sub = [q for q in probes if q['fam'] in set(family_of_step(s) for s in steps)][:30]
        out = H.fresh_history('vf.props.C33:run_step', steps, 'vf.props.C33:eval_probe', sub, timeout=600)
        rec.event('new interpreters spawned')
        if out[0] == 'ERR':
            rec.undecided('new interpreter failed: ' + out[1][:100])
            continue
        rec.event('clean-state histories executed in a new interpreter')
        for q, v in zip(sub, out[1]):
            how = how_stale(q, steps)
            check_probe_value(rec, q, v, fresh, ref, ('clean', shard['seed'], shard['shard'], c, q['id']), how, 'history',
                              {'kind': 'history', 'probe': q, 'steps': steps, 'how': how, 'clean_state': True},
                              how not in ('unrelated-history', 'same-precision-before'))


REQUIRED_CACHES = ['constant_memo', 'log_int_cache', 'bernoulli_cache', 'quad.transformed_cache', 'memoize', 'odefun segments',
                   'log_taylor_cache', 'atan_taylor_cache', 'cos_sin_cache', 'zeta_int_cache', 'borwein_cache',
                   'gamma_taylor_cache', 'gamma_stirling_cache', 'hyp_summators', '_misc_const_cache', '_rs_cache',
                   'fp._bernoulli_cache', 'matrix._LU', 'quad.standard_cache', 'ifib._cache', 'eulernum._cache']


def required(agg, tier):
    miss = []
    ev, an, cl = agg['events'], agg['anchors'], agg['classes']
    for c in REQUIRED_CACHES:
        if an.get('unresolved-cache:' + c):
            continue
        if not ev.get('cache %s: hit' % c):
            miss.append('cache %s: no hit observed (not read back) -> inconclusive for it' % c)
    for e in ('new interpreters spawned', 'probe read-backs after a history', 'calls aborted by a failpoint',
              'matrix histories executed', 'LU residual checked exactly against the current content',
              'cache matrix._LU: read with a stored factorisation present',
              'tap checks: fixed-point constant accurate at the requested precision',
              'tap checks: log_int_fixed accurate at the requested precision',
              'tap checks: Bernoulli number accurate at the requested precision',
              'tap checks: quadrature nodes carry at least the requested bits',
              'tap checks: LU factors reproduce the current matrix',
              'tap checks: memoize recomputes below the working precision',
              'clean-state histories executed in a new interpreter'):
        if not ev.get(e):
            miss.append('monitor event never seen: ' + e)
    for fam in sorted(set(CACHE_OF_PROBE)):
        if not any(k.startswith('probe/%s/' % fam) for k in cl):
            miss.append('probe family %s never read back' % fam)
    for ctx in ('mp', 'clone', 'iv', 'fp'):
        if not any(k.startswith('history-step/') and k.endswith('/' + ctx) for k in cl):
            miss.append('context %s never used in a history' % ctx)
    for m in MAT_MUTS:
        if not cl.get('matrix-mutation/' + m):
            miss.append('matrix mutation %s never exercised' % m)
    return miss


def replay(case, rec):
    c = case['case']
    kind = c.get('kind')
    if kind == 'matrix':
        # the recorded situation, rebuilt: factorise at the precision the cache was filled at, apply the recorded kind of
        # change, use again
        mp = _mp().mp
        old = mp.prec
        try:
            p0 = c.get('cache_filled_at_prec') or c['prec']
            content = c['content']
            mp.prec = p0
            A = mat_build(mp, content)
            since = c.get('since_fill') or []
            if 'resize' in since and content[0] == content[1]:
                n = content[0]
                B = mp.matrix(n + 1)
                for i in range(n):
                    for j in range(n):
                        B[i, j] = A[i, j]
                B[n, n] = 1
                mp.LU_decomp(B)
                B.rows = n; B.cols = n
                A = B
            else:
                mp.LU_decomp(A)
                # the recorded kind of mutation after the factors were stored
                if 'setitem' in since:
                    A[0, 0] = A[0, 0] + 1
                if 'slice' in since:
                    A[0, :] = A[0, :] * 2
                if 'swap_row' in since and A.rows > 1:
                    mp.swap_row(A, 0, 1)
            mp.prec = c['prec']
            probe = {'k': 'mat', 'content': mat_content(A), 'op': c['op'], 'p': c['prec'], 'rhs': c.get('rhs')}
            rhs = None
            if c.get('rhs') is not None:
                rhs = mp.matrix([mp.make_mpf((t[0], int(t[1]), t[2], t[3])) for t in c['rhs']])
            v_hist = H.safe(lambda _: mat_use(mp, A, c['op'], rhs), None)
            v_twin = H.safe(mat_probe, probe)
            rec.case(('replay-matrix', str(c)[:100]), True, cls='matrix/replay')
            verdict, worst = cmp_rounding_level({'k': 'mat', 'p': c['prec']}, v_hist, v_twin, slack=TOL_BITS + 4)
            if verdict != 'held':
                rec.violation(case.get('key', 'C33/matrix._LU/replay'), 'replayed: factorisation reused after the recorded change',
                              c, observed=v_hist, expected=v_twin)
        finally:
            mp.prec = old
    elif kind == 'history':
        q = c['probe']
        H.run_steps(run_step, c['steps'])
        v = H.safe(eval_probe, q)
        w = H.fresh_isolated('vf.props.C33:eval_probe', [[q]])[0]
        rec.case(('replay-history', q['id']), True, cls='probe/replay')
        if isinstance(w, tuple):
            rec.undecided('new interpreter failed')
            return
        verdict, worst = (('held', 0) if v == w[0] else ('violated', 0)) if q['exact'] else cmp_rounding_level(q, v, w[0])
        if verdict != 'held':
            rec.violation(case.get('key', 'C33/replay'), 'replayed: value after the recorded history differs from a new interpreter',
                          c, observed=v, expected=w[0])
    else:
        rec.undecided('tap / fresh-order cases are re-run by the seeded shard (--seed)')
