"""C26 -- numerical integration is accurate for well-behaved integrands.

Observed: results of quad / quadts / quadgl (method strings, rule classes, tuple/list/multi-point intervals, mpf /
int / float / mpc endpoints, error=True, maxdegree=) on generated integrands with closed-form integrals, 1-3
dimensions, finite / half-infinite / infinite ranges, reversed and complex-path intervals, p = 30..500; plus every
call of QuadratureRule.get_nodes (wrapped from outside): node-set invariants and cache identity.
Oracle: exact rational integrals (polynomials, 1/(x-c)^r) in Fraction; transcendental closed forms evaluated with the
reference release at 2p+200 / 2p+264 bits (vf.calcq.RefOracle), three-valued decision with a 2^-(p+30) guard band.
"""
import math, time
from fractions import Fraction as F
from vf import gens as G
from vf import calcq as Q

PROP = 'C26'
LEVEL = 'exploration'
NEEDS_REF = True
RULE = ('seeded generation inside a fixed list of cells (integrand family x rule x API form x interval kind x precision class); '
        'a case is non-trivial when it is inside the a-priori envelope and the integrand is not constant; '
        'distinct = distinct (family, parameters, points, precision, rule, api, variant)')
ASSUMPTIONS = ['closed forms are mathematically correct (every family agrees with the numerical results of the tree to ~2^-p on hundreds of in-envelope cases per run; a wrong closed form would show up as a systematic violation)',
               'mpmath 1.3.0 elementary functions / erfc at 2p+200 bits are accurate to 2^-(p+60) (checked per case by a second evaluation at 2p+264 bits)',
               'vf.calcq exact Fraction / Gaussian-rational arithmetic is correct',
               'envelope fixed a priori: analytic inside the Bernstein ellipse rho>=3 of every sub-interval, |k|(b-a)<=40, '
               'L1-conditioning <= 2^8, infinite ranges only with Gaussian / e^(-cx) decay (1/4<=c<=4) and the tanh-sinh rule '
               '(the documentation says Gauss-Legendre handles infinite intervals worse)']
_TS = float(__import__('os').environ.get('VERIF_DEV_TIMEOUT_SCALE', '1'))     # development only (overloaded machine)
SHARD_TIMEOUT = {'quick': int(420 * _TS), 'thorough': int(3000 * _TS)}
LEVEL_TEXT = ('exploration: ~3*10^3 (quick) / ~4*10^4 (thorough) integrals of the real code decided against closed forms, '
              'with metamorphic monitors (reversal, splitting, alias equality, error=True) and an invariant monitor on every '
              'get_nodes call (moments of the returned node set, cache identity)')
LEVEL_NOTE = ('trusted base: vf/calcq.py, Fraction arithmetic, reference release 1.3.0 for elementary closed forms at 2p+200 bits '
              '(tier: closed-form via reference release); integrands / intervals not generated are not covered')
TECHNIQUE = 'runtime monitoring: closed-form oracle on results + invariant monitor at the node-cache hook + metamorphic monitors'

import os
DEV_SCALE = float(os.environ.get('VERIF_DEV_SCALE', '1'))      # development only (mutant sweeps on a busy machine); 1 in every registered command
TOL = 10           # |v - V| <= 2^(TOL-p) max(1,|V|)
KAPPA_MAX = 8      # log2 of the admitted L1 conditioning  int|f| / max(1,|V|)
RHO_SUM = F(5, 3)  # (|s-a|+|s-b|)/|b-a| >= (rho+1/rho)/2 = 5/3  <=>  singularity s outside the Bernstein ellipse rho=3
PRECS_LOW = [30, 35, 40, 53, 64, 80, 100, 113, 120]
PRECS_MID = [150, 200, 250]
PRECS_HIGH = [333, 400, 500]


# ---------------------------------------------------------------------------------------
# integrand families: tree-side callable and (independent) closed form
# ---------------------------------------------------------------------------------------
def _poly_tree(mp, cs):
    cs = [Q.mk(mp, c) for c in cs]

    def P(x):
        s = cs[-1]
        for c in reversed(cs[:-1]):
            s = s * x + c
        return s
    return P


def _poly_int_exact(cs, a, b):
    """exact integral of sum c_j x^j from a to b; a, b Gaussian rationals (re, im)"""
    tot = (F(0), F(0))
    for j, c in enumerate(cs):
        c = Q.dy(c)
        if c:
            t = Q.csub(Q.cpow(b, j + 1), Q.cpow(a, j + 1))
            tot = Q.cadd(tot, Q.cscale(t, c / (j + 1)))
    return tot


def _poly_derivs(cs):
    """list of coefficient lists of P, P', P'' ... (Fractions)"""
    out = [[Q.dy(c) for c in cs]]
    while len(out[-1]) > 1:
        c = out[-1]
        out.append([c[j] * j for j in range(1, len(c))])
    return out


def _G_ref(rmp, cs, z, phi, x):
    """antiderivative of P(t) exp(z t + i phi) at t = x (reference arithmetic, complex):
    e^{i phi} e^{z x} sum_j (-1)^j P^(j)(x) / z^(j+1)"""
    s = rmp.mpc(0)
    zi = 1 / z
    zp = zi
    for j, c in enumerate(_poly_derivs(cs)):
        pv = rmp.mpc(0)
        for cc in reversed(c):
            pv = pv * x + Q.rq(rmp, cc)
        s += (-1) ** j * pv * zp
        zp *= zi
    return rmp.exp(z * x + rmp.mpc(0, 1) * phi) * s


class Fam(object):
    """one generated integrand; .tree(mp) -> callable, .oracle(a, b) -> exact value or RefOracle for the integral a..b
    (a, b exact Gaussian rationals or '+inf' / '-inf'), .singularities -> list of complex poles (Gaussian rationals),
    .l1(a, b) -> upper bound (Fraction) of int |f| along the segment, or None when not applicable"""
    entire = True
    complex_valued = False

    def __init__(self, d):
        self.d = d

    def poles(self):
        return []


class Poly(Fam):
    def tree(self, mp):
        return _poly_tree(mp, self.d['c'])

    def oracle(self, a, b):
        v = _poly_int_exact(self.d['c'], a, b)
        return v if (a[1] or b[1]) else v[0]

    def l1(self, a, b):
        L = Q.csub(b, a)
        if a[1] == 0 and b[1] == 0:
            lo, hi = min(a[0], b[0]), max(a[0], b[0])
            tot = F(0)
            for j, c in enumerate(self.d['c']):
                c = abs(Q.dy(c))
                if not c:
                    continue
                # int_lo^hi |x|^j dx
                if lo >= 0 or hi <= 0:
                    t = abs(abs(hi) ** (j + 1) - abs(lo) ** (j + 1)) / (j + 1)
                else:
                    t = (hi ** (j + 1) + (-lo) ** (j + 1)) / (j + 1)
                tot += c * t
            return tot
        m2 = max(Q.cabs2(a), Q.cabs2(b))
        m = Q.isqrt_floor(m2) + F(1, 1 << 60)
        Ln = Q.isqrt_floor(Q.cabs2(L)) + F(1, 1 << 60)
        return sum(abs(Q.dy(c)) * m ** j for j, c in enumerate(self.d['c'])) * Ln

    def constant(self):
        return all(not c[0] for c in self.d['c'][1:])


class PE(Fam):
    """P(x) * E(x),  E in exp(kx) | cos(wx+phi) | sin(wx+phi) | exp(kx)cos(wx+phi) | exp(kx)sin(wx+phi) | cexp = exp((k+iw)x)"""

    def __init__(self, d):
        Fam.__init__(self, d)
        self.complex_valued = d['E'] == 'cexp'

    def tree(self, mp):
        d = self.d
        P = _poly_tree(mp, d['c'])
        k, w, phi = Q.mk(mp, d['k']), Q.mk(mp, d['w']), Q.mk(mp, d['phi'])
        E = d['E']
        triv = len(d['c']) == 1 and d['c'][0] == [1, 0]
        if E == 'exp':
            g = lambda x: mp.exp(k * x)
        elif E == 'cos':
            g = lambda x: mp.cos(w * x + phi)
        elif E == 'sin':
            g = lambda x: mp.sin(w * x + phi)
        elif E == 'expcos':
            g = lambda x: mp.exp(k * x) * mp.cos(w * x + phi)
        elif E == 'expsin':
            g = lambda x: mp.exp(k * x) * mp.sin(w * x + phi)
        elif E == 'cexp':
            z = mp.mpc(k, w)
            g = lambda x: mp.exp(z * x)
        else:
            raise ValueError(E)
        if triv:
            return g
        return lambda x: P(x) * g(x)

    def zc(self):
        d = self.d
        k = Q.dy(d['k']) if d['E'] in ('exp', 'expcos', 'expsin', 'cexp') else F(0)
        w = Q.dy(d['w']) if d['E'] != 'exp' else F(0)
        return k, w

    def oracle(self, a, b):
        d = self.d
        k, w = self.zc()
        phi = Q.dy(d['phi']) if d['E'] in ('cos', 'sin', 'expcos', 'expsin') else F(0)
        E = d['E']
        cs = d['c']

        def fn(rmp):
            z = rmp.mpc(Q.rq(rmp, k), Q.rq(rmp, w))
            ph = Q.rq(rmp, phi)
            tot = rmp.mpc(0)
            for x, sg in ((b, 1), (a, -1)):
                if isinstance(x, str):
                    continue          # decaying end: antiderivative -> 0
                tot += sg * _G_ref(rmp, cs, z, ph, Q.rc(rmp, x))
            if E in ('exp', 'cos', 'expcos'):
                return tot.real if not _cplx(a, b) else tot
            if E in ('sin', 'expsin'):
                return tot.imag
            return tot
        return Q.RefOracle(fn)

    def real_part_ok(self, a, b):
        """cos / sin forms are Re / Im of the complex antiderivative only on a real path"""
        return not _cplx(a, b) or self.d['E'] in ('exp', 'cexp')

    def l1(self, a, b):
        """upper bound of int |P E| along the segment: max|P| * max|E| * length (floats rounded up)"""
        if isinstance(a, str) or isinstance(b, str):
            return None
        k, w = self.zc()
        mx = math.sqrt(float(max(Q.cabs2(a), Q.cabs2(b)))) * 1.0001 + 1e-300
        pm = sum(abs(float(Q.dy(c))) * mx ** j for j, c in enumerate(self.d['c']))
        ex = max(float(k * x[0] - w * x[1]) for x in (a, b))
        if self.d['E'] in ('cos', 'sin'):
            ex = max(abs(float(w * x[1])) for x in (a, b))
        L = math.sqrt(float(Q.cabs2(Q.csub(b, a))))
        try:
            return F(pm * math.exp(ex) * L * 1.001)
        except (OverflowError, ValueError):
            return None

    def constant(self):
        return False


class TrigProd(Fam):
    """t1(al x + p1) * t2(be x + p2), t in sin/cos"""

    def tree(self, mp):
        d = self.d
        al, be, p1, p2 = (Q.mk(mp, d[n]) for n in ('al', 'be', 'p1', 'p2'))
        f1 = mp.sin if d['t1'] == 'sin' else mp.cos
        f2 = mp.sin if d['t2'] == 'sin' else mp.cos
        return lambda x: f1(al * x + p1) * f2(be * x + p2)

    def oracle(self, a, b):
        d = self.d
        al, be, p1, p2 = (Q.dy(d[n]) for n in ('al', 'be', 'p1', 'p2'))
        t1, t2 = d['t1'], d['t2']
        # product to sum: list of (coef, kind, gamma, delta)
        sm, df = (al + be, p1 + p2), (al - be, p1 - p2)
        if (t1, t2) == ('sin', 'cos'):
            terms = [(F(1, 2), 'sin') + sm, (F(1, 2), 'sin') + df]
        elif (t1, t2) == ('cos', 'sin'):
            terms = [(F(1, 2), 'sin') + sm, (F(-1, 2), 'sin') + df]
        elif (t1, t2) == ('cos', 'cos'):
            terms = [(F(1, 2), 'cos') + df, (F(1, 2), 'cos') + sm]
        else:
            terms = [(F(1, 2), 'cos') + df, (F(-1, 2), 'cos') + sm]

        def fn(rmp):
            tot = rmp.mpf(0)
            for co, kind, ga, de in terms:
                g, dl = Q.rq(rmp, ga), Q.rq(rmp, de)
                for x, sg in ((b, 1), (a, -1)):
                    xr = Q.rq(rmp, x[0])
                    if ga == 0:
                        anti = xr * (rmp.sin(dl) if kind == 'sin' else rmp.cos(dl))
                    elif kind == 'sin':
                        anti = -rmp.cos(g * xr + dl) / g
                    else:
                        anti = rmp.sin(g * xr + dl) / g
                    tot += sg * Q.rq(rmp, co) * anti
            return tot
        return Q.RefOracle(fn)

    def l1(self, a, b):
        return abs(b[0] - a[0])

    def constant(self):
        return False


class Lorentz(Fam):
    """(al x + be) / ((x-m)^2 + s^2): poles m +- i s"""
    entire = False

    def tree(self, mp):
        d = self.d
        al, be, m, s = (Q.mk(mp, d[n]) for n in ('al', 'be', 'm', 's'))
        s2 = s * s
        return lambda x: (al * x + be) / ((x - m) ** 2 + s2)

    def poles(self):
        m, s = Q.dy(self.d['m']), Q.dy(self.d['s'])
        return [(m, s), (m, -s)]

    def oracle(self, a, b):
        al, be, m, s = (Q.dy(self.d[n]) for n in ('al', 'be', 'm', 's'))

        def fn(rmp):
            A, B, M, S = (Q.rq(rmp, t) for t in (al, be, m, s))
            xa, xb = Q.rq(rmp, a[0]), Q.rq(rmp, b[0])
            r = (A * M + B) / S * (rmp.atan((xb - M) / S) - rmp.atan((xa - M) / S))
            if al:
                r += A / 2 * rmp.log(((xb - M) ** 2 + S * S) / ((xa - M) ** 2 + S * S))
            return r
        return Q.RefOracle(fn)

    def l1(self, a, b):
        al, be, m, s = (Q.dy(self.d[n]) for n in ('al', 'be', 'm', 's'))
        mx = max(abs(a[0]), abs(b[0]))
        return (abs(al) * mx + abs(be)) / (s * s) * abs(b[0] - a[0])

    def constant(self):
        return False


class Recip(Fam):
    """1 / (x-c)^r, real pole c off the interval; r = 1 -> log (reference), r >= 2 -> exact rational"""
    entire = False

    def tree(self, mp):
        c = Q.mk(mp, self.d['c0'])
        r = self.d['r']
        return lambda x: 1 / (x - c) ** r

    def poles(self):
        return [(Q.dy(self.d['c0']), F(0))]

    def oracle(self, a, b):
        c, r = Q.dy(self.d['c0']), self.d['r']
        if r >= 2:
            return (-1 / ((r - 1) * (b[0] - c) ** (r - 1))) - (-1 / ((r - 1) * (a[0] - c) ** (r - 1)))
        q = (b[0] - c) / (a[0] - c)
        return Q.RefOracle(lambda rmp: rmp.log(Q.rq(rmp, q)))

    def l1(self, a, b):
        c, r = Q.dy(self.d['c0']), self.d['r']
        dmin = min(abs(a[0] - c), abs(b[0] - c))
        return abs(b[0] - a[0]) / dmin ** r

    def constant(self):
        return False


class Gauss(Fam):
    """x^n exp(-c (x-m)^2) [* cos(w x) when n == 0 and m == 0]   on infinite / half-infinite ranges"""

    def tree(self, mp):
        d = self.d
        c, m, w = Q.mk(mp, d['cc']), Q.mk(mp, d['m']), Q.mk(mp, d['w'])
        n = d['n']
        if d['w'][0]:
            return lambda x: mp.exp(-c * x * x) * mp.cos(w * x)
        if n == 0:
            return lambda x: mp.exp(-c * (x - m) ** 2)
        return lambda x: x ** n * mp.exp(-c * (x - m) ** 2)

    def oracle(self, a, b):
        d = self.d
        c, m, w, n = Q.dy(d['cc']), Q.dy(d['m']), Q.dy(d['w']), d['n']

        def fn(rmp):
            C, M, W = Q.rq(rmp, c), Q.rq(rmp, m), Q.rq(rmp, w)
            spc = rmp.sqrt(rmp.pi / C)
            if w:
                return spc * rmp.exp(-W * W / (4 * C))          # whole line only

            def J(j, t):       # int_t^inf u^j e^{-C u^2} du
                if j == 0:
                    return spc / 2 * rmp.erfc(rmp.sqrt(C) * t)
                if j == 1:
                    return rmp.exp(-C * t * t) / (2 * C)
                return t * rmp.exp(-C * t * t) / (2 * C) + J(0, t) / (2 * C)
            Mj = [spc, 0, spc / (2 * C)]
            whole = sum(math.comb(n, j) * M ** (n - j) * Mj[j] for j in range(n + 1))

            def tail(x):       # int_x^inf
                t = Q.rq(rmp, x[0]) - M
                return sum(math.comb(n, j) * M ** (n - j) * J(j, t) for j in range(n + 1))
            if a == '-inf' and b == '+inf':
                return whole
            if b == '+inf':
                return tail(a)
            if a == '-inf':
                return whole - tail(b)
            return tail(a) - tail(b)
        return Q.RefOracle(fn)

    def constant(self):
        return False


FAMS = {'poly': Poly, 'pe': PE, 'trigprod': TrigProd, 'lorentz': Lorentz, 'recip': Recip, 'gauss': Gauss}


def _cplx(a, b):
    return (not isinstance(a, str) and a[1] != 0) or (not isinstance(b, str) and b[1] != 0)


def fam_of(d):
    return FAMS[d['fam']](d)


# ---------------------------------------------------------------------------------------
# envelope (fixed a priori; evaluated on the case description before anything is run)
# ---------------------------------------------------------------------------------------
def pt(x):
    """point description -> Gaussian rational or '+inf'/'-inf'.  forms: [n,e] real, [[n,e],[n,e]] complex, 'inf', '-inf'"""
    if isinstance(x, str):
        return '+inf' if x in ('inf', '+inf') else '-inf'
    if isinstance(x[0], (list, tuple)):
        return (Q.dy(x[0]), Q.dy(x[1]))
    return (Q.dy(x), F(0))


def envelope(fam, pts, rule, V_hint=None):
    """-> (inside: bool, reasons: [str]) for a 1-D integral over consecutive points pts (exact)"""
    why = []
    d = fam.d
    inf = any(isinstance(x, str) for x in pts)
    if inf:
        if d['fam'] == 'gauss':
            pass
        elif d['fam'] == 'pe' and d['E'] in ('exp', 'expcos', 'expsin'):
            k = Q.dy(d['k'])
            # decay towards the infinite end with rate 1/4 <= c <= 4
            if not (F(1, 4) <= abs(k) <= 4):
                why.append('decay rate outside [1/4, 4]')
            if any(x == '+inf' for x in pts) and k > 0 or any(x == '-inf' for x in pts) and k < 0:
                why.append('integrand grows towards the infinite end')
            if d['E'] != 'exp' and abs(Q.dy(d['w'])) > abs(k):
                why.append('oscillation faster than the decay on an infinite range (documented example: cos(x)/exp(x))')
        else:
            why.append('infinite range without Gaussian / exponential decay')
        if rule == 'gl':
            why.append('Gauss-Legendre on an infinite range (documented as handled worse)')
        if d['fam'] == 'gauss':
            c = Q.dy(d['cc'])
            if not (F(1, 4) <= c <= 4):
                why.append('decay rate outside [1/4, 4]')
            if Q.dy(d['w']) ** 2 > c:
                why.append('oscillation faster than the decay on an infinite range')
        for x in pts:
            if not isinstance(x, str) and (abs(x[0]) > 8 or x[1] != 0):
                why.append('finite end of an infinite range outside [-8, 8] or complex')
    for a, b in zip(pts[:-1], pts[1:]):
        if isinstance(a, str) or isinstance(b, str):
            continue
        L2 = Q.cabs2(Q.csub(b, a))
        if L2 == 0:
            continue
        # poles: Bernstein ellipse rho >= 3 of the sub-interval
        for s in fam.poles():
            da2, db2 = Q.cabs2(Q.csub(s, a)), Q.cabs2(Q.csub(s, b))
            # |s-a| + |s-b| >= 5/3 |b-a| : use lower bounds of the square roots (sound towards 'outside envelope')
            lhs = Q.isqrt_floor(da2) + Q.isqrt_floor(db2)
            rhs = RHO_SUM * (Q.isqrt_floor(L2) + F(1, 1 << 60))
            if lhs < rhs:
                why.append('pole inside the Bernstein ellipse rho=3 of a sub-interval')
        # rates / frequencies
        if d['fam'] == 'pe':
            k, w = fam.zc()
            if (k * k + w * w) * L2 > 1600:
                why.append('|k|(b-a) > 40')
        if d['fam'] == 'trigprod':
            al, be = abs(Q.dy(d['al'])), abs(Q.dy(d['be']))
            if (al + be) ** 2 * L2 > 1600:
                why.append('|k|(b-a) > 40')
        if d['fam'] == 'gauss' and not inf:
            why.append('gaussian family is only used on infinite ranges')
        if L2 > 64 * 64:
            why.append('sub-interval longer than 64')
    return (not why), why


def kappa_ok(l1, V):
    """L1 conditioning  int|f| <= 2^KAPPA_MAX * max(1,|V|)   (V exact Fraction / pair or float magnitude)"""
    if l1 is None:
        return True
    if isinstance(V, tuple):
        m = max(F(1), Q.isqrt_floor(Q.cabs2(V)))
    else:
        m = max(F(1), abs(V))
    return l1 <= (1 << KAPPA_MAX) * m


# ---------------------------------------------------------------------------------------
# invariant monitor at the get_nodes hook
# ---------------------------------------------------------------------------------------
# log2 of the discretisation error of the tanh-sinh rule with step 2^-m for 1, x, x^2 on [-1,1] (mathematical property
# of the rule, computed once from its definition at 6000 bits), with an 8x margin
TS_DISC = {1: -7, 2: -29, 3: -80, 4: -188, 5: -410, 6: -860, 7: -1765, 8: -3582}


class NodeHook(object):
    def __init__(self, rec):
        self.rec = rec
        self.reg = {}        # id(rule) -> state
        self.calls = 0
        self.current = None  # description of the quad call in progress (for witnesses)

    def install(self):
        from mpmath.calculus import quadrature as Qm
        self.Qm = Qm
        self.orig = Qm.QuadratureRule.__dict__['get_nodes']
        hook = self

        def get_nodes(rule, a, b, degree, prec, verbose=False):
            nodes = hook.orig(rule, a, b, degree, prec, verbose)
            try:
                hook.observe(rule, a, b, degree, prec, nodes)
            except Exception as e:        # a monitor bug must not look like a library failure
                hook.rec.event('hook-internal-error:' + type(e).__name__)
            return nodes
        Qm.QuadratureRule.get_nodes = get_nodes
        return self

    def uninstall(self):
        self.Qm.QuadratureRule.get_nodes = self.orig
        self.rec.event('get_nodes: cached node list returned', sum(st.get('hits', 0) for st in self.reg.values()))

    # -----------------------------------------------------------------
    @staticmethod
    def _val(ctx, x):
        x = ctx.convert(x)
        if hasattr(x, '_mpf_'):
            if ctx.isinf(x):
                return '+inf' if x > 0 else '-inf'
            return (Q.fr(x), F(0))
        if ctx.isinf(x):
            return 'cinf'
        return Q.cfr(x)

    def observe(self, rule, a, b, degree, prec, nodes):
        rec = self.rec
        self.calls += 1
        ctx = rule.ctx
        kind = type(rule).__name__
        va, vb = self._val(ctx, a), self._val(ctx, b)
        K = (kind, va, vb, degree, prec)
        st = self.reg.get(id(rule))
        if st is None or st['rule'] is not rule or st['tc'] is not rule.transformed_cache:
            st = self.reg[id(rule)] = {'rule': rule, 'tc': rule.transformed_cache, 'keys': set(), 'ids': {}, 'cum': {},
                                       'order': [], 'verified': set(), 'hits': 0}
        # ---- cache identity ------------------------------------------------
        first = st['ids'].get(id(nodes))
        if first is not None:
            st['hits'] = st.get('hits', 0) + 1
            if first != K:
                rec.violation('C26/get_nodes/cache-entry-returned-for-different-request',
                              'get_nodes returned a cached node list that was stored for another (a,b,degree,prec)',
                              {'request': _kstr(K), 'stored_for': _kstr(first), 'during': self.current},
                              observed=_kstr(first), expected=_kstr(K))
        tc = rule.transformed_cache
        if len(tc) != len(st['keys']):
            for k in tc:
                if k not in st['keys']:
                    st['keys'].add(k)
                    st['ids'].setdefault(id(tc[k]), K)
        sc = rule.standard_cache.get((degree, prec))
        if sc is not None and sc is nodes:
            st['ids'].setdefault(id(sc), K)
        if first == K:
            if id(nodes) in st['verified']:
                return                  # this very list was already checked for this very request
            st['verified'].add(id(nodes))
        # ---- node-set invariants on finite intervals -------------------------
        if isinstance(va, str) or isinstance(vb, str):
            rec.event('get_nodes: infinite interval (identity monitor only)')
            return
        mom = _moments(nodes)
        if mom is None:
            rec.violation('C26/get_nodes/non-finite-node', 'node list contains a non-finite node or weight',
                          {'request': _kstr(K), 'during': self.current})
            return
        if kind == 'GaussLegendre':
            self._check_moments(K, mom, 0, 'C26/get_nodes/moments/gauss-legendre')
        elif kind == 'TanhSinh':
            ck = (va, vb, prec)
            cum = st['cum'].get(ck)
            if cum is None:
                cum = st['cum'][ck] = {}
                st['order'].append(ck)
                if len(st['order']) > 256:
                    st['cum'].pop(st['order'].pop(0), None)
            cum[degree] = mom
            if all(dd in cum for dd in range(1, degree + 1)):
                disc = TS_DISC.get(degree, -4000)
                if disc <= -(prec + 6):
                    S = [tuple(sum(cum[dd][j][c] for dd in range(1, degree + 1)) / (1 << degree) for c in (0, 1))
                         for j in range(3)]
                    self._check_moments(K, S, 0, 'C26/get_nodes/moments/tanh-sinh')
                else:
                    rec.event('get_nodes: tanh-sinh degree below the accuracy of the rule itself (not asserted)')
        else:
            rec.event('get_nodes: custom rule (identity monitor only)')

    def _check_moments(self, K, mom, slack, key):
        kind, a, b, degree, prec = K
        rec = self.rec
        L = Q.csub(b, a)
        absL = Q.isqrt_floor(Q.cabs2(L)) + F(1, 1 << 60)
        mx = max(F(1), Q.isqrt_floor(max(Q.cabs2(a), Q.cabs2(b))) + F(1, 1 << 60))
        worst = None
        for j in range(3):
            exact = Q.cscale(Q.csub(Q.cpow(b, j + 1), Q.cpow(a, j + 1)), F(1, j + 1))
            e2 = Q.cabs2(Q.csub(mom[j], exact))
            scale = absL * mx ** j
            T = F(2) ** (-prec + slack) * scale
            units = 0.5 * Q.log2f(e2) - Q.log2f(scale) + prec if e2 else -1e9
            if worst is None or units > worst:
                worst = units
            if e2 > T * T:
                rec.violation(key, 'nodes returned by get_nodes do not integrate x^%d to 2^-prec * scale' % j,
                              {'request': _kstr(K), 'moment': j, 'during': self.current},
                              observed='error 2^%.1f * 2^-prec * scale' % units, expected='<= 2^%d' % slack)
        rec.event('get_nodes: node-set moments checked')
        rec.maximum('log2 node-moment error / (2^-prec * scale) [%s]' % kind, worst, _kstr(K))


def _kstr(K):
    kind, a, b, degree, prec = K

    def s(x):
        if isinstance(x, str):
            return x
        return '%s%s' % (float(x[0]), ('%+gj' % float(x[1])) if x[1] else '')
    return '%s [%s, %s] degree=%d prec=%d' % (kind, s(a), s(b), degree, prec)


def _moments(nodes):
    """exact sum w, sum w x, sum w x^2 of a node list as Gaussian rationals [(re, im)] * 3"""
    # accumulate as integers on a common binary scale
    acc = [[0, 0], [0, 0], [0, 0]]
    E = None
    items = []
    for x, w in nodes:
        try:
            xr, xi = _parts(x)
            wr, wi = _parts(w)
        except ValueError:
            return None
        items.append((xr, xi, wr, wi))
    # common exponent: min over all
    emin = 0
    for it in items:
        for (m, e) in it:
            if m and e < emin:
                emin = e

    def sc(me, base):
        m, e = me
        return m << (e - base) if m else 0
    ex, ew = emin, emin
    for (xr, xi, wr, wi) in items:
        X = (sc(xr, ex), sc(xi, ex))
        W = (sc(wr, ew), sc(wi, ew))
        acc[0][0] += W[0]; acc[0][1] += W[1]
        WX = (W[0] * X[0] - W[1] * X[1], W[0] * X[1] + W[1] * X[0])
        acc[1][0] += WX[0]; acc[1][1] += WX[1]
        WXX = (WX[0] * X[0] - WX[1] * X[1], WX[0] * X[1] + WX[1] * X[0])
        acc[2][0] += WXX[0]; acc[2][1] += WXX[1]
    out = []
    for j in range(3):
        sh = -(ew + j * ex)
        out.append((F(acc[j][0], 1 << sh) if sh >= 0 else F(acc[j][0] << -sh),
                    F(acc[j][1], 1 << sh) if sh >= 0 else F(acc[j][1] << -sh)))
    return out


def _parts(v):
    """mpf / mpc -> ((man, exp), (man, exp)) signed"""
    if hasattr(v, '_mpf_'):
        return _me(v._mpf_), (0, 0)
    re, im = v._mpc_
    return _me(re), _me(im)


def _me(t):
    s, m, e, bc = t
    if not m:
        if e:
            raise ValueError('non-finite')
        return (0, 0)
    return (-int(m) if s else int(m), e)


# ---------------------------------------------------------------------------------------
# running one described case
# ---------------------------------------------------------------------------------------
def _float_ok(q):
    return abs(q.numerator).bit_length() <= 53 and -1000 < -(q.denominator.bit_length() - 1) and q.denominator.bit_length() < 1000


def _endpoint(mp, x, form):
    """build an endpoint object from its exact description in a given *operand type*:
    'mpf' | 'py' (int or float when exact) | 'pyfloat' / 'pycomplex' (Python float / complex objects, exact value of the double) |
    'mpc' | 'str' (decimal string, only where the short repr is the exact value) | 'mixed' (type chosen per endpoint from its value)"""
    if isinstance(x, str):
        return mp.inf if x in ('inf', '+inf') else mp.ninf
    cplx = isinstance(x[0], (list, tuple))
    if form == 'mixed':
        h = (x[0][0] if cplx else x[0]) % 5
        form = (['pycomplex', 'mpc', 'pycomplex', 'mpc', 'pycomplex'] if cplx else ['pyfloat', 'mpf', 'py', 'str', 'mpc'])[h]
    if cplx:
        re, im = Q.dy(x[0]), Q.dy(x[1])
        if form in ('pycomplex', 'pyfloat', 'py') and _float_ok(re) and _float_ok(im):
            return complex(float(re), float(im))
        return Q.mkc(mp, x)
    q = Q.dy(x)
    if form == 'py':
        if q.denominator == 1:
            return int(q)
        if _float_ok(q):
            return float(q)
    if form in ('pyfloat', 'pycomplex') and _float_ok(q):
        return float(q) if form == 'pyfloat' else complex(float(q), 0.0)
    if form == 'str' and _float_ok(q):
        t = repr(float(q))
        try:
            if F(t) == q and 'e' not in t:
                return t
        except ValueError:
            pass
    if form == 'mpc':
        return mp.mpc(Q.mk(mp, q), 0)
    return Q.mk(mp, q)


def _call(mp, f, ivs, rule, api, kw):
    from mpmath.calculus.quadrature import TanhSinh, GaussLegendre
    kw = dict(kw)
    if api == 'short':
        fn = mp.quadts if rule == 'ts' else mp.quadgl
    elif api == 'class':
        fn = mp.quad
        kw['method'] = TanhSinh if rule == 'ts' else GaussLegendre
    elif api == 'default' and rule == 'ts':
        fn = mp.quad
    else:
        fn = mp.quad
        kw['method'] = 'tanh-sinh' if rule == 'ts' else 'gauss-legendre'
    return fn(f, *ivs, **kw)


def _raw(v):
    if hasattr(v, '_mpf_'):
        return ('f', v._mpf_)
    if hasattr(v, '_mpc_'):
        return ('c', v._mpc_)
    return ('o', repr(v))


def mech_key(desc, variant):
    d0 = desc['f'][0]
    fam = d0['fam'] + ('/' + d0['E'] if d0['fam'] == 'pe' else '')
    pts = desc['ivs'][0]
    rng = 'infinite' if any(isinstance(x, str) for x in pts) else ('complex-path' if any(
        not isinstance(x, str) and isinstance(x[0], (list, tuple)) for x in pts) else 'finite')
    return 'C26/%s/%s/%s/dim%d/%s' % ('tanh-sinh' if desc['rule'] == 'ts' else 'gauss-legendre', fam, rng,
                                      len(desc['ivs']), variant)


def run_desc(mp, rec, desc, hook=None):
    """desc: {'f': [famdesc per dimension] (product of 1-D factors) or {'nd': ...}, 'ivs': [[points]...], 'prec', 'rule',
    'api', 'form', 'variants': [...], 'kw': {...}}"""
    p = desc['prec']
    rule = desc['rule']
    dim = len(desc['ivs'])
    fams = [fam_of(d) for d in desc['f']]
    ptsx = [[pt(x) for x in iv] for iv in desc['ivs']]
    # ---- envelope, before anything is run -------------------------------------
    inside, why = True, []
    for fm, pts in zip(fams, ptsx):
        ok, w = envelope(fm, pts, rule)
        if fm.d['fam'] == 'pe' and not fm.real_part_ok(pts[0], pts[-1]):
            ok = False; w.append('real/imaginary-part closed form on a complex path')
        inside &= ok; why += w
    # ---- oracle: product of 1-D integrals (separable), each the sum over its sub-intervals -----------
    oracles = [fm.oracle(pts[0], pts[-1]) for fm, pts in zip(fams, ptsx)]
    if desc.get('nonsep'):
        oracle = nonsep_oracle(desc['nonsep'], ptsx)
    elif dim == 1:
        oracle = oracles[0]
    elif all(not isinstance(o, Q.RefOracle) for o in oracles):
        oracle = oracles[0]
        for o in oracles[1:]:
            oracle = oracle * o
    else:
        def fn(rmp, oracles=oracles):
            r = rmp.mpf(1)
            for o in oracles:
                if isinstance(o, Q.RefOracle):
                    r = r * o.fn(rmp)
                else:
                    r = r * (Q.rc(rmp, o) if isinstance(o, tuple) else Q.rq(rmp, o))
            return r
        oracle = Q.RefOracle(fn)
    # conditioning  int|f| <= 2^KAPPA_MAX max(1,|V|)  (only where an a-priori L1 bound exists: finite 1-D ranges)
    if inside and dim == 1 and all(not isinstance(x, str) for x in ptsx[0]):
        parts = [fams[0].l1(a, b) for a, b in zip(ptsx[0][:-1], ptsx[0][1:]) if a != b]
        if parts and all(t is not None for t in parts):
            l1 = sum(parts)
            if isinstance(oracle, Q.RefOracle):
                V, _ = oracle.value(p)
                okk = V is None or float(l1) <= 2.0 ** KAPPA_MAX * max(1.0, float(abs(V)))
            else:
                okk = kappa_ok(l1, oracle)
            if not okk:
                inside = False; why.append('L1 conditioning above 2^%d' % KAPPA_MAX)
    # ---- tree side --------------------------------------------------------------
    trees = [fm.tree(mp) for fm in fams]
    if desc.get('nonsep'):
        f = nonsep_tree(mp, desc['nonsep'])
    elif dim == 1:
        f = trees[0]
    elif dim == 2:
        f = lambda x, y: trees[0](x) * trees[1](y)
    else:
        f = lambda x, y, z: trees[0](x) * trees[1](y) * trees[2](z)
    form = desc.get('form', 'mpf')
    rec.event('limit operand type: ' + form)

    def intervals(ptlists, tup=False):
        out = []
        for pl in ptlists:
            iv = [_endpoint(mp, x, form) for x in pl]
            out.append(tuple(iv) if tup else iv)
        return out
    nontriv = inside and not all(fm.constant() for fm in fams)
    ident = (repr(desc['f']), repr(desc.get('nonsep')), repr(desc['ivs']), p, rule, desc['api'], form)
    cellname = '%s/%s/dim%d/%s' % ('+'.join(d['fam'] + ('.' + d['E'] if d['fam'] == 'pe' else '') for d in desc['f'])
                                   if not desc.get('nonsep') else 'nonsep.' + desc['nonsep']['kind'],
                                   rule, dim, 'in' if inside else 'outside-envelope')
    old = mp.prec
    results = {}
    try:
        mp.prec = p
        variants = ['base'] + list(desc.get('variants', []))
        for var in variants:
            kw = dict(desc.get('kw', {}))
            pl = desc['ivs']
            api = desc['api']
            orc = oracle
            negate = False
            if var == 'reversed':
                pl = [list(reversed(pl[0]))] + list(pl[1:])
                negate = True
            elif var == 'split':
                pl = [desc['split']] + list(pl[1:])
            elif var == 'alias':
                api = 'string' if desc['api'] != 'string' else 'short'
            elif var == 'error':
                kw['error'] = True
            elif var == 'tuple':
                pass
            elif var == 'maxdegree':
                kw['maxdegree'] = desc['maxdegree']
            if hook is not None:
                hook.current = {'f': desc['f'], 'ivs': pl, 'prec': p, 'rule': rule, 'variant': var}
            try:
                v = _call(mp, f, intervals(pl, tup=(var == 'tuple')), rule, api, kw)
            except Exception as e:
                if var == 'split' and not _split_inside(fams, desc, rule):
                    continue
                rec.case(ident + (var,), nontriv, cls=cellname + '/' + var)
                if inside:
                    rec.violation(mech_key(desc, 'exception/' + type(e).__name__), 'quad raised %s: %s' % (type(e).__name__, str(e)[:100]),
                                  dict(desc, variant=var), observed=repr(e)[:200], expected='a value')
                else:
                    rec.note('outside envelope: exception', {'desc': desc, 'exc': repr(e)[:100]})
                continue
            err = None
            if var == 'error':
                v, err = v
            results[var] = v
            v_in = inside
            if var == 'split':
                v_in = inside and _split_inside(fams, desc, rule)
            if negate:
                vv = -v
            else:
                vv = v
            rec.case(ident + (var,), nontriv and v_in, cls=cellname + '/' + var)
            verdict, units, tier, expect = Q.decide(vv, orc, p, TOL)
            rec.event('decided by: ' + tier)
            case = dict(desc, variant=var, why_outside=why)
            if verdict == 'held':
                if v_in:
                    rec.maximum('log2 err/(2^-p max(1,|V|)) inside envelope [%s]' % rule, units, case)
            elif verdict == 'violated':
                if v_in:
                    rec.violation(classify(mp, desc, f, intervals(pl, tup=(var == 'tuple')), rule, api, kw, var),
                                  'integral off by 2^%.1f * 2^-p * max(1,|V|) (allowed 2^%d) [%s]' % (units, TOL, var),
                                  case, observed=Q.show(v), expected=('-(%s)' % expect) if negate else expect,
                                  severity=round(min(units, 1e6), 1))
                else:
                    rec.note('outside envelope: error above tolerance', {'case': case, 'log2_err_units': units}, cap=40)
                    rec.event('outside-envelope cases above tolerance (observed, not asserted)')
            else:
                rec.undecided(verdict, case)
            if var == 'base' and len(rec.samples) < 8 and v_in:
                rec.sample({'case': desc, 'value': Q.show(v), 'expected': expect, 'tier': tier, 'log2_err_units': units})
            # bit-level relations between variants
            if var in ('alias', 'tuple', 'error') and 'base' in results:
                rec.event('alias/tuple/error=True results compared bitwise with the base call')
                if _raw(v) != _raw(results['base']):
                    rec.violation('C26/equivalence/' + var, {'alias': 'quadts/quadgl differs from quad(method=...)',
                                                             'tuple': 'tuple interval gives a different value than a list interval',
                                                             'error': 'error=True changes the returned value'}[var],
                                  dict(desc, variant=var), observed=Q.show(v), expected=Q.show(results['base']))
            if var == 'error':
                rec.event('error=True estimates seen')
                try:
                    if not (err >= 0):
                        rec.violation('C26/error-estimate/negative', 'error estimate is negative or nan', dict(desc, variant=var),
                                      observed=Q.show(err), expected='>= 0')
                except Exception:
                    pass
            if var == 'reversed' and 'base' in results:
                rec.event('reversed limits: exactly negated' if _raw(-v) == _raw(results['base']) else 'reversed limits: negated within tolerance only')
    finally:
        mp.prec = old
        if hook is not None:
            hook.current = None


def classify(mp, desc, f, ivs, rule, api, kw, var):
    """mechanism key of an accuracy violation: did the error estimator accept the result (estimate <= eps/8, the
    documented stopping rule of summation()) although it is off, or did quad run out of degrees and say so?"""
    pts = desc['ivs'][0]
    rng = 'infinite' if any(isinstance(x, str) for x in pts) else ('complex-path' if any(
        isinstance(x[0], (list, tuple)) for x in pts) else 'finite')
    rl = 'tanh-sinh' if rule == 'ts' else 'gauss-legendre'
    dim = len(desc['ivs'])
    try:
        kw = dict(kw); kw['error'] = True
        v, est = _call(mp, f, ivs, rule, api, kw)
        accepted = est <= mp.eps / 8
    except Exception:
        accepted = None
    if accepted:
        return 'C26/estimate_error/accepted-early/%s/%s/dim%d' % (rl, rng, dim)
    if accepted is None:
        return mech_key(desc, 'accuracy')
    return 'C26/not-converged-at-maxdegree/%s/%s/dim%d/%s' % (rl, rng, dim, desc['f'][0]['fam'])


def _split_inside(fams, desc, rule):
    ok, _ = envelope(fams[0], [pt(x) for x in desc['split']], rule)
    return ok


# ---- non-separable multi-dimensional integrands -----------------------------------------------------------------
def nonsep_tree(mp, nd):
    kind = nd['kind']
    if kind == 'cos2':
        al, be, ph = (Q.mk(mp, nd[n]) for n in ('al', 'be', 'ph'))
        return lambda x, y: mp.cos(al * x + be * y + ph)
    if kind == 'exp3':
        ks = [Q.mk(mp, k) for k in nd['k']]
        return lambda x, y, z: mp.exp(ks[0] * x + ks[1] * y + ks[2] * z)
    if kind == 'polynd':
        terms = [(Q.mk(mp, c), e) for c, e in nd['terms']]
        dim = nd['dim']
        if dim == 2:
            return lambda x, y: sum(c * x ** e[0] * y ** e[1] for c, e in terms)
        return lambda x, y, z: sum(c * x ** e[0] * y ** e[1] * z ** e[2] for c, e in terms)
    raise ValueError(kind)


def nonsep_oracle(nd, ptsx):
    kind = nd['kind']
    ends = [(p[0][0], p[-1][0]) for p in ptsx]      # real boxes
    if kind == 'polynd':
        tot = F(0)
        for c, e in nd['terms']:
            t = Q.dy(c)
            for (a, b), k in zip(ends, e):
                t *= (b ** (k + 1) - a ** (k + 1)) / (k + 1)
            tot += t
        return tot
    if kind == 'cos2':
        al, be, ph = (Q.dy(nd[n]) for n in ('al', 'be', 'ph'))
        (a, b), (c, d) = ends

        def fn(rmp):
            A, B, P = Q.rq(rmp, al), Q.rq(rmp, be), Q.rq(rmp, ph)
            C = lambda x, y: rmp.cos(A * Q.rq(rmp, x) + B * Q.rq(rmp, y) + P)
            return -(C(b, d) - C(b, c) - C(a, d) + C(a, c)) / (A * B)
        return Q.RefOracle(fn)
    if kind == 'exp3':
        ks = [Q.dy(k) for k in nd['k']]

        def fn(rmp):
            r = rmp.mpf(1)
            for k, (a, b) in zip(ks, ends):
                K = Q.rq(rmp, k)
                r *= (rmp.exp(K * Q.rq(rmp, b)) - rmp.exp(K * Q.rq(rmp, a))) / K
            return r
        return Q.RefOracle(fn)
    raise ValueError(kind)


# ---------------------------------------------------------------------------------------
# generators (cells are a fixed list; the seed only varies the parameters inside a cell)
# ---------------------------------------------------------------------------------------
def rd(r, lo, hi, bits=4):
    """random dyadic in [lo, hi] with `bits` fractional bits, as [n, e]"""
    return [r.randint(int(lo * (1 << bits)), int(hi * (1 << bits))), -bits]


_F53 = [False]       # generator switch: endpoints with a full 53-bit mantissa (sums / differences inexact in double arithmetic)


def rd_end(r, lo, hi, bits):
    """an interval endpoint: few-bit dyadic, or (switch on) a double with a full 53-bit mantissa, exactly as [n, e]"""
    if not _F53[0]:
        return rd(r, lo, hi, bits)
    while True:
        v = r.uniform(lo, hi)
        if abs(v) > 1e-3:
            break
    m, e = math.frexp(v)
    return [int(m * (1 << 53)) | 1, e - 53]


def rd_nz(r, lo, hi, bits=4):
    while True:
        d = rd(r, lo, hi, bits)
        if d[0]:
            return d


def _interval(r, maxlen=16, span=8, bits=6, minlen=F(1, 16)):
    while True:
        a, b = rd_end(r, -span, span, bits), rd_end(r, -span, span, bits)
        L = abs(Q.dy(a) - Q.dy(b))
        if minlen <= L <= maxlen:
            return (a, b) if Q.dy(a) < Q.dy(b) else (b, a)


def _cinterval(r, span=3, bits=4):
    while True:
        a = [rd_end(r, -span, span, bits), rd_end(r, -span, span, bits)]
        b = [rd_end(r, -span, span, bits), rd_end(r, -span, span, bits)]
        L2 = Q.cabs2(Q.csub(pt(a), pt(b)))
        if F(1, 64) <= L2 <= 36 and (a[1][0] or b[1][0]):
            return a, b


def _poly_coeffs(r, deg, benign=True):
    """dyadic coefficients; benign: positive leading structure so that the integral does not cancel massively"""
    cs = []
    for j in range(deg + 1):
        n = r.randint(-9, 9) if not benign else r.randint(0, 9) * (1 if r.random() < 0.8 else -1)
        cs.append([n, -r.choice([0, 1, 2, 3])])
    if cs[-1][0] == 0:
        cs[-1] = [1, 0]
    return cs


def _split_points(r, a, b, n=None):
    """interior points on the straight segment a..b (descriptions)"""
    n = n or r.choice([1, 1, 2, 3])
    ts = sorted(set(F(r.randint(1, 15), 16) for _ in range(n)))
    out = [a]
    ca, cb = pt(a), pt(b)
    for t in ts:
        z = Q.cadd(ca, Q.cscale(Q.csub(cb, ca), t))
        if _F53[0]:
            # interior points that are themselves doubles (nearest double of the point on the segment; the integrands used
            # with complex paths are entire, so the path need not stay on the straight segment)
            z = (F(float(z[0])), F(float(z[1])))
        out.append(_desc_of(z, complex_=isinstance(a[0], (list, tuple))))
    out.append(b)
    return out


def _desc_of(z, complex_=False):
    def dyad(q):
        d = q.denominator
        assert d & (d - 1) == 0
        return [q.numerator, -(d.bit_length() - 1)]
    if complex_:
        return [dyad(z[0]), dyad(z[1])]
    return dyad(z[0])


def guess_degree(p):
    return int(4 + max(0, math.log2(p / 30.0))) + 2


CELLS = [
    'poly/real', 'poly/real-hi', 'poly/complex', 'poly/multipoint', 'poly/ill-conditioned',
    'pe.exp/real', 'pe.cos/real', 'pe.sin/real', 'pe.expcos/real', 'pe.expsin/real', 'pe.cexp/real',
    'pe.exp/complex', 'pe.cexp/complex', 'pe/fast-rate',
    'trigprod/real', 'lorentz/in', 'lorentz/wide', 'recip/in', 'recip/near',
    'gauss/whole', 'gauss/half', 'pe.exp/inf', 'pe.expcos/inf', 'inf/gl',
    'dim2/sep', 'dim2/cos2', 'dim2/poly', 'dim3/poly', 'dim3/exp3', 'dim2/inf',
    'cacheseq/ts', 'cacheseq/gl', 'unit/interval',
    # operand types of the limits: Python float / complex objects with full 53-bit mantissas (exact value of the double is
    # the mathematical limit), mixed types within one interval, float split points; always on fresh (cold-cache) intervals
    'float53/poly', 'float53/pe', 'float53/complex', 'float53/halfinf', 'float53/dim2', 'mixed/poly', 'mixed/pe',
]
HEAVY = {'float53/dim2': 100, 'dim2/sep': 53, 'dim2/cos2': 53, 'dim2/poly': 64, 'dim3/poly': 32, 'dim3/exp3': 30, 'dim2/inf': 35}   # precision caps


F53_BASE = {'float53/poly': ['poly/real', 'poly/multipoint'], 'float53/pe': ['pe.exp/real', 'pe.cos/real', 'pe.expcos/real', 'trigprod/real'],
            'float53/complex': ['poly/complex', 'pe.cexp/complex', 'pe.exp/complex'], 'float53/halfinf': ['pe.exp/inf', 'gauss/half'],
            'float53/dim2': ['dim2/sep'], 'mixed/poly': ['poly/multipoint', 'poly/real'], 'mixed/pe': ['pe.sin/real', 'pe.cexp/complex']}


def gen_case(r, cell, p, idx):
    """-> case description (JSON-able) for the cell at precision p"""
    if cell in F53_BASE:
        base = r.choice(F53_BASE[cell])
        if p < 80:                       # a 53-bit contamination is only visible above ~65 bits
            p = r.choice([80, 100, 120, 150])
        if base in HEAVY:
            p = 80
        _F53[0] = True
        try:
            desc = gen_case(r, base, p, idx)
        finally:
            _F53[0] = False
        desc['cell'] = cell
        desc['form'] = 'mixed' if cell.startswith('mixed') else ('pycomplex' if 'complex' in cell else 'pyfloat')
        return desc
    rule = 'ts' if (idx // len(CELLS)) % 2 == 0 else 'gl'
    api = ['string', 'short', 'class', 'default'][(idx // (2 * len(CELLS))) % 4]
    if api == 'default' and rule == 'gl':
        api = 'string'
    form = r.choice(['mpf', 'mpf', 'py', 'mpc'])
    desc = {'prec': p, 'rule': rule, 'api': api, 'form': form, 'cell': cell}
    variants1d = ['reversed', 'split', 'alias', 'error', 'tuple', 'maxdegree']
    fam, kind = cell.split('/')
    nv = 2
    if fam == 'poly':
        if kind == 'complex':
            a, b = _cinterval(r)
            deg = r.choice([1, 2, 3, 5, 8, 13])
            desc['form'] = 'mpf'
        elif kind == 'real-hi':
            a, b = _interval(r, maxlen=4, span=2)
            deg = r.choice([13, 20, 30])
        else:
            a, b = _interval(r)
            deg = r.choice([0, 1, 2, 3, 5, 8])
        cs = _poly_coeffs(r, deg, benign=(kind != 'ill-conditioned'))
        if kind == 'ill-conditioned':
            # (x - m)^odd-like cancellation: antisymmetric polynomial on a symmetric interval plus a tiny constant
            h = rd(r, 1, 6, 3)
            a, b = [-h[0], h[1]], [h[0] + r.choice([0, 1]), h[1]]
            cs = [[r.choice([0, 1]), -8]] + [[r.randint(1, 9) * (j % 2), 0] for j in range(1, deg + 2)]
        desc['f'] = [{'fam': 'poly', 'c': cs}]
        desc['ivs'] = [[a, b]]
        if kind == 'multipoint':
            desc['ivs'] = [_split_points(r, a, b, n=r.choice([1, 2, 3]))]
    elif fam.startswith('pe'):
        E = fam.split('.')[1] if '.' in fam else r.choice(['exp', 'cos', 'sin', 'expcos', 'cexp'])
        deg = r.choice([0, 0, 1, 2, 3])
        cs = [[1, 0]] if deg == 0 else _poly_coeffs(r, deg)
        if kind == 'inf':
            c = rd(r, 0.25, 4, 3)
            k = [-c[0], c[1]]
            a = rd_end(r, -3, 6, 3)
            ivs = [a, 'inf']
            if r.random() < 0.3:           # mirrored: growth rate towards -inf end is decay
                k = c
                ivs = ['-inf', a]
            cf = float(Q.dy(c))
            w = rd_nz(r, -cf, cf, 3) if r.random() < 0.65 else rd_nz(r, -4, 4, 3)
            desc['rule'] = 'ts'
            desc['f'] = [{'fam': 'pe', 'E': E, 'c': cs, 'k': k, 'w': w, 'phi': rd(r, -3, 3, 3)}]
            desc['ivs'] = [ivs]
            desc['form'] = 'mpf'
            desc['variants'] = [r.choice(['reversed', 'alias', 'error'])]
            return desc
        if kind == 'complex':
            a, b = _cinterval(r)
            desc['form'] = 'mpf'
        else:
            a, b = _interval(r)
        L = math.sqrt(float(Q.cabs2(Q.csub(pt(a), pt(b)))))
        if kind != 'fast-rate':
            zlo, zhi = 1.0 / 16, min(39.5 / L, 32.0)
        else:
            zlo, zhi = 41.0 / L, 200.0 / L
        zz = zlo + (zhi - zlo) * r.random() ** 2
        th = r.uniform(0.15, math.pi / 2 - 0.15)
        sk, sw = r.choice([-1, 1]), r.choice([-1, 1])

        def q4(v, nz):
            n = int(round(v * 16))
            if nz and n == 0:
                n = 1
            return [n, -4]
        if E == 'exp':
            k, w = q4(sk * zz, True), [0, 0]
        elif E in ('cos', 'sin'):
            k, w = [0, 0], q4(sw * zz, True)
        else:
            k, w = q4(sk * zz * math.cos(th), True), q4(sw * zz * math.sin(th), True)
        desc['f'] = [{'fam': 'pe', 'E': E, 'c': cs, 'k': k, 'w': w, 'phi': rd(r, -3, 3, 3)}]
        desc['ivs'] = [[a, b]]
    elif fam == 'trigprod':
        a, b = _interval(r)
        L = float(Q.dy(b) - Q.dy(a))
        m = min(20.0 / L, 25)
        desc['f'] = [{'fam': 'trigprod', 't1': r.choice(['sin', 'cos']), 't2': r.choice(['sin', 'cos']),
                      'al': rd_nz(r, -m, m, 3), 'be': rd_nz(r, -m, m, 3), 'p1': rd(r, -3, 3, 2), 'p2': rd(r, -3, 3, 2)}]
        if r.random() < 0.25:
            desc['f'][0]['be'] = list(desc['f'][0]['al'])     # zero difference frequency
        desc['ivs'] = [[a, b]]
    elif fam == 'lorentz':
        s = rd(r, 0.25, 3, 3)
        m = rd(r, -2, 2, 3)
        S, M = float(Q.dy(s)), Q.dy(m)
        if kind == 'in':
            # sub-intervals of half-length <= 3/4 s around points near m
            h = F(int(S * 0.7 * 16), 16)
            h = max(h, F(1, 16))
            c0 = M + Q.dy(rd(r, -2, 2, 3))
            npts = r.choice([1, 2, 4])
            pts = [c0 + h * 2 * (i - npts / F(2)) for i in range(npts + 1)]
            ivs = [_desc_of((q, F(0))) for q in pts]
        else:
            a, b = _interval(r, maxlen=20, span=10)
            ivs = [a, b]
        desc['f'] = [{'fam': 'lorentz', 'al': rd(r, -2, 2, 2), 'be': rd_nz(r, -3, 3, 2), 'm': m, 's': s}]
        desc['ivs'] = [ivs]
    elif fam == 'recip':
        a, b = _interval(r, maxlen=6)
        L = Q.dy(b) - Q.dy(a)
        gap = (L * r.choice([F(1, 2), 1, 2, 5])) if kind == 'in' else L * r.choice([F(1, 16), F(1, 8), F(1, 4)])
        gap = max(gap, F(1, 64))
        c0 = (Q.dy(b) + gap) if r.random() < 0.5 else (Q.dy(a) - gap)
        desc['f'] = [{'fam': 'recip', 'c0': _desc_of((c0, F(0))), 'r': r.choice([1, 1, 2, 3])}]
        desc['ivs'] = [[a, b]]
    elif fam == 'gauss':
        c = rd(r, 0.25, 4, 3)
        n = r.choice([0, 0, 1, 2])
        m = rd(r, -2, 2, 3)
        w = [0, 0]
        if kind == 'whole':
            ivs = ['-inf', 'inf']
            if r.random() < 0.35:
                sq = math.sqrt(float(Q.dy(c)))
                n, m, w = 0, [0, 0], (rd_nz(r, -sq, sq, 3) if r.random() < 0.65 else rd_nz(r, -4, 4, 3))
        else:
            e = rd_end(r, -3, 3, 3)
            ivs = [e, 'inf'] if r.random() < 0.6 else ['-inf', e]
        desc['rule'] = 'ts'
        desc['f'] = [{'fam': 'gauss', 'cc': c, 'n': n, 'm': m, 'w': w}]
        desc['ivs'] = [ivs]
        desc['form'] = 'mpf'
        desc['variants'] = [r.choice(['reversed', 'alias', 'error', 'tuple'])]
        return desc
    elif fam == 'inf':       # Gauss-Legendre on infinite ranges: observation only
        desc['rule'] = 'gl'
        c = rd(r, 0.5, 2, 2)
        if r.random() < 0.5:
            desc['f'] = [{'fam': 'gauss', 'cc': c, 'n': 0, 'm': [0, 0], 'w': [0, 0]}]
            desc['ivs'] = [['-inf', 'inf']]
        else:
            desc['f'] = [{'fam': 'pe', 'E': 'exp', 'c': [[1, 0]], 'k': [-c[0], c[1]], 'w': [0, 0], 'phi': [0, 0]}]
            desc['ivs'] = [[[0, 0], 'inf']]
        desc['form'] = 'mpf'
        desc['variants'] = []
        return desc
    elif fam in ('dim2', 'dim3'):
        desc['form'] = 'mpf'
        desc['variants'] = []
        dim = 2 if fam == 'dim2' else 3
        if kind == 'sep':
            fs, ivs = [], []
            for _ in range(2):
                a, b = _interval(r, maxlen=3, span=3, bits=3)
                ch = r.choice(['poly', 'exp', 'cos'])
                if ch == 'poly':
                    fs.append({'fam': 'poly', 'c': _poly_coeffs(r, r.choice([1, 2, 4]))})
                else:
                    fs.append({'fam': 'pe', 'E': ch, 'c': [[1, 0]], 'k': rd_nz(r, -2, 2, 2), 'w': rd_nz(r, -3, 3, 2), 'phi': rd(r, -2, 2, 2)})
                ivs.append([a, b])
            desc['f'] = fs; desc['ivs'] = ivs
        elif kind == 'cos2':
            desc['nonsep'] = {'kind': 'cos2', 'al': rd_nz(r, -3, 3, 2), 'be': rd_nz(r, -3, 3, 2), 'ph': rd(r, -2, 2, 2)}
            desc['f'] = [{'fam': 'poly', 'c': [[1, 0], [1, 0]]}] * 2        # placeholders for the envelope (entire)
            desc['ivs'] = [list(_interval(r, maxlen=3, span=3, bits=3)) for _ in range(2)]
        elif kind == 'poly':
            terms = [([r.randint(1, 9), -r.choice([0, 1, 2])], [r.randint(0, 4 if dim == 2 else 2) for _ in range(dim)])
                     for _ in range(r.randint(1, 4))]
            desc['nonsep'] = {'kind': 'polynd', 'dim': dim, 'terms': terms}
            desc['f'] = [{'fam': 'poly', 'c': [[1, 0], [1, 0]]}] * dim
            desc['ivs'] = [list(_interval(r, maxlen=3, span=3, bits=3)) if dim == 2 else list(_interval(r, maxlen=1, span=1, bits=3, minlen=F(1, 4)))
                           for _ in range(dim)]
            if dim == 3:
                desc['rule'] = 'gl'
        elif kind == 'exp3':
            desc['nonsep'] = {'kind': 'exp3', 'k': [rd_nz(r, -2, 2, 2) for _ in range(3)]}
            desc['f'] = [{'fam': 'poly', 'c': [[1, 0], [1, 0]]}] * 3
            desc['ivs'] = [list(_interval(r, maxlen=1, span=1, bits=3, minlen=F(1, 4))) for _ in range(3)]
            desc['rule'] = 'gl'
        elif kind == 'inf':
            desc['rule'] = 'ts'
            fs, ivs = [], []
            for _ in range(2):
                c = rd(r, 0.5, 2, 2)
                fs.append({'fam': 'pe', 'E': 'exp', 'c': [[1, 0]], 'k': [-c[0], c[1]], 'w': [0, 0], 'phi': [0, 0]})
                ivs.append([rd(r, 0, 2, 2), 'inf'])
            desc['f'] = fs; desc['ivs'] = ivs
        return desc
    elif fam == 'cacheseq':
        desc['rule'] = 'ts' if kind == 'ts' else 'gl'
        desc['api'] = r.choice(['string', 'short'])
        a, b = _interval(r, bits=10)
        if r.random() < 0.5:
            desc['f'] = [{'fam': 'poly', 'c': _poly_coeffs(r, r.choice([2, 5, 9]))}]
        else:
            desc['f'] = [{'fam': 'pe', 'E': r.choice(['exp', 'cos']), 'c': [[1, 0]], 'k': rd_nz(r, -2, 2, 3), 'w': rd_nz(r, -3, 3, 3),
                          'phi': rd(r, -2, 2, 2)}]
        desc['ivs'] = [[a, b]]
        desc['form'] = 'mpf'
        p1 = p
        p2 = p + r.choice([15, 30, 47, 100]) if r.random() < 0.7 else max(30, p - r.choice([15, 23]))
        desc['seq'] = [p1, p1, p1, p2, p2, p2, p1]
        desc['variants'] = []
        return desc
    elif fam == 'unit':
        # [-1, 1]: transform_nodes hands out the standard node list itself
        desc['f'] = [{'fam': 'poly', 'c': _poly_coeffs(r, r.choice([2, 4, 7]))}] if r.random() < 0.5 else \
            [{'fam': 'pe', 'E': 'exp', 'c': [[1, 0]], 'k': rd_nz(r, -3, 3, 3), 'w': [0, 0], 'phi': [0, 0]}]
        desc['ivs'] = [[[-1, 0], [1, 0]]]
    else:
        raise ValueError(cell)
    # variants for finite 1-D cases
    a, b = desc['ivs'][0][0], desc['ivs'][0][-1]
    vs = [variants1d[(idx + j * 5) % len(variants1d)] for j in range(nv)]
    if p > 130:
        vs = vs[:1]
    if 'maxdegree' in vs:
        if p > 120 or (desc['rule'] == 'gl' and p > 64):
            vs.remove('maxdegree')
        else:
            desc['maxdegree'] = guess_degree(p) + 1
    if 'split' in vs:
        if len(desc['ivs'][0]) == 2:
            desc['split'] = _split_points(r, a, b)
        else:
            vs.remove('split')
    desc['variants'] = vs
    return desc


# seed-independent regression witnesses (found by this check inside the envelope); run by shard 0 of every tier
WITNESSES = [
    {'prec': 150, 'rule': 'ts', 'api': 'string', 'form': 'mpf', 'cell': 'gauss/half', 'variants': [],
     'f': [{'fam': 'gauss', 'cc': [15, -3], 'n': 0, 'm': [11, -3], 'w': [0, 0]}], 'ivs': [[[11, -3], 'inf']]},
    {'prec': 113, 'rule': 'ts', 'api': 'string', 'form': 'mpf', 'cell': 'pe.exp/inf', 'variants': [],
     'f': [{'fam': 'pe', 'E': 'exp', 'c': [[5, 0], [-4, 0], [4, 0]], 'k': [-19, -3], 'w': [0, 0], 'phi': [0, 0]}],
     'ivs': [[[21, -3], 'inf']]},
    {'prec': 58, 'rule': 'ts', 'api': 'short', 'form': 'mpf', 'cell': 'lorentz/in', 'variants': [],
     'f': [{'fam': 'lorentz', 'al': [0, -2], 'be': [-2, -2], 'm': [-12, -3], 's': [15, -3]}],
     'ivs': [[[-31, -2], [-41, -3], [-5, -1], [1, -3], [11, -2]]]},
    {'prec': 53, 'rule': 'ts', 'api': 'string', 'form': 'mpf', 'cell': 'gauss/half', 'variants': [],
     'f': [{'fam': 'gauss', 'cc': [30, -3], 'n': 1, 'm': [-15, -3], 'w': [0, 0]}], 'ivs': [['-inf', [23, -3]]]},
    {'prec': 53, 'rule': 'ts', 'api': 'string', 'form': 'mpf', 'cell': 'gauss/whole', 'variants': [],
     'f': [{'fam': 'gauss', 'cc': [1, 0], 'n': 0, 'm': [0, 0], 'w': [0, 0]}], 'ivs': [['-inf', 'inf']]},
]


def run_any(mp, rec, desc, hook=None):
    if 'seq' in desc:
        for i, pp in enumerate(desc['seq']):
            sub = dict(desc, prec=pp, seq_full=desc['seq'], seq_pos=i)
            del sub['seq']
            run_desc(mp, rec, sub, hook)
        rec.event('cache sequences (same interval, changing precision) run')
    else:
        run_desc(mp, rec, desc, hook)


# ---------------------------------------------------------------------------------------
N_SHARDS = 16


def shards(tier, seed):
    out = []
    for i in range(N_SHARDS):
        if tier == 'quick':
            precs = [PRECS_LOW[(i + j * 3) % len(PRECS_LOW)] for j in range(2)] + [31 + (i * 7) % 90]
            n = 34
            if i % 4 == 1:
                precs.append(PRECS_MID[(i // 4) % 3]); n = 26
            if i == 6:
                precs.append(333); n = 22
            if i == 14:
                precs.append(500); n = 20
        else:
            precs = [PRECS_LOW[(i + j) % len(PRECS_LOW)] for j in range(5)] + [31 + (i * 7 + j * 13) % 100 for j in range(3)]
            precs += [PRECS_MID[i % 3], PRECS_MID[(i + 1) % 3]]
            n = 330
            if i % 3 == 0:
                precs.append(PRECS_HIGH[(i // 3) % 3])
        out.append({'precs': precs, 'n': max(4, int(n * DEV_SCALE))})
    return out


def run_shard(shard, rec):
    import mpmath
    mp = mpmath.mp
    r = G.rng(PROP, shard['seed'], shard['shard'])
    from vf.instrument import AnchorCount
    hook = NodeHook(rec).install()
    anchors = ['mpmath.calculus.quadrature:QuadratureRule.transform_nodes', 'mpmath.calculus.quadrature:QuadratureRule.summation',
               'mpmath.calculus.quadrature:QuadratureRule.estimate_error', 'mpmath.calculus.quadrature:TanhSinh.calc_nodes',
               'mpmath.calculus.quadrature:GaussLegendre.calc_nodes', 'mpmath.calculus.quadrature:TanhSinh.sum_next',
               'mpmath.calculus.quadrature:QuadratureMethods.quad']
    try:
        with AnchorCount(rec, anchors):
            idx = shard['shard'] * 5
            precs = shard['precs']
            if shard['shard'] == 0:
                for wdesc in WITNESSES:
                    run_any(mp, rec, dict(wdesc), hook)
                rec.event('fixed witnesses run', len(WITNESSES))
            n = shard['n']
            for pi, p in enumerate(precs):
                # fewer cases at the expensive precisions
                m = n if p <= 130 else (max(6, n // 3) if p <= 250 else (max(4, n // 6) if p < 450 else max(3, n // 12)))
                for j in range(m):
                    cell = CELLS[idx % len(CELLS)]
                    cap = HEAVY.get(cell)
                    pp = p
                    if cap is not None:
                        if p > 130:
                            idx += 1
                            cell = CELLS[idx % len(CELLS)]
                            if cell in HEAVY:
                                idx += 1
                                continue
                        else:
                            pp = min(p, cap)
                    desc = gen_case(r, cell, pp, idx)
                    idx += 1
                    t0 = time.process_time()
                    run_any(mp, rec, desc, hook)
                    rec.maximum('cpu seconds for one case [%s]' % cell, round(time.process_time() - t0, 2), {'prec': pp, 'rule': desc['rule']})
    finally:
        hook.uninstall()
    rec.event('get_nodes calls observed', hook.calls)
    rec.maximum('cpu seconds for one shard', round(time.process_time(), 1), {'shard': shard['shard'], 'precs': shard['precs']})
    rec.note('shard seconds', [shard['shard'], round(time.process_time(), 1), shard['precs']], cap=20)


def required(agg, tier):
    miss = []
    ev = agg['events']
    if not ev.get('get_nodes calls observed'):
        miss.append('the get_nodes hook saw no call')
    if not ev.get('get_nodes: node-set moments checked'):
        miss.append('no node set was checked against its moments')
    if not ev.get('get_nodes: cached node list returned'):
        miss.append('no cache hit was observed at the get_nodes hook')
    if not ev.get('cache sequences (same interval, changing precision) run'):
        miss.append('no cache sequence was run')
    cl = agg['classes']
    for need in ('poly', 'pe.exp', 'pe.cos', 'trigprod', 'lorentz', 'recip', 'gauss', 'nonsep.cos2', 'nonsep.polynd'):
        if not any(k.startswith(need) and '/in/' in k for k in cl):
            miss.append('no in-envelope case of family %s' % need)
    for rule in ('/ts/', '/gl/'):
        if not any(rule in k for k in cl):
            miss.append('rule %s never used' % rule)
    for var in ('reversed', 'split', 'alias', 'error'):
        if not any(k.endswith('/' + var) for k in cl):
            miss.append('metamorphic variant %s never run' % var)
    for need in ('pyfloat', 'pycomplex', 'mixed'):
        if not agg['events'].get('limit operand type: ' + need):
            miss.append('no integral with limits of operand type %s' % need)
    for d in ('dim2', 'dim3'):
        if not any('/%s/' % d in k for k in cl):
            miss.append('no %s integral' % d)
    return miss


def replay(case, rec):
    import mpmath
    mp = mpmath.mp
    c = case['case']
    if 'request' in c and 'during' in c:       # a hook violation: re-run the quad call it happened in (with its history)
        c = c['during'] or {}
        if not c:
            rec.undecided('hook violation without a recorded call')
            return
        c = dict(c, api='string', variants=[])
    desc = {k: v for k, v in c.items() if k not in ('variant', 'why_outside')}
    if 'variants' not in desc or c.get('variant') not in (None, 'base'):
        desc['variants'] = [c['variant']] if c.get('variant') not in (None, 'base') else desc.get('variants', [])
    if 'seq_full' in desc:
        desc['seq'] = desc.pop('seq_full')
        desc.pop('seq_pos', None)
    hook = NodeHook(rec).install()
    try:
        run_any(mp, rec, desc, hook)
    finally:
        hook.uninstall()
