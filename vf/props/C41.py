"""C41 -- Riemann zeta zeros are located and counted correctly.

Observed (tree, public API): zetazero(n) raw value, zetazero(-n), nzeros(t), grampoint(m), backlunds(t).
Oracle (does not use the tree's zetazero/nzeros code path): signs of the Riemann-Siegel Z function taken from the
*reference release* (mpmath 1.3.0 as mpmath_ref: fp.siegelz for the grid sweep, mp.siegelz at two precisions for every
sign that is used in a verdict, the tree's own siegelz at 3p as an extra source for the brackets around returned zeros),
behind the small interface ``zsign(t) -> +1 / -1 / None`` (class ZOracle) so that a rigorous ball-arithmetic Z can be
swapped in later.

  index     one grid sweep per block of the t-axis (spacing <= (mean gap)/40, local-extremum refinement); one trusted
            point per run of constant sign; L = sign changes among trusted points below the returned zero is a lower
            bound for the number of zeros below it.  Blocks start at tabulated heights T_k with N(T_k) known (table
            BASE, produced by the same sweep run from t = 0 and re-verified by every run: the sign changes counted in
            each swept block must equal the tabulated difference).
  accuracy  Z changes sign between gamma (1 - 2^(10-p)) and gamma (1 + 2^(10-p)).
"""
import math, time
from fractions import Fraction
from vf import gens as G

PROP = 'C41'
LEVEL = 'exploration'
NEEDS_REF = True
RULE = ('zero indices n enumerated per block of the t-axis (quick: a seeded sample of the indices <= 2000 in every block, '
        'always including the neighbourhoods of Gram-law failures; thorough: every n <= 10^4 plus windows up to n = 10^5 and '
        'the Lehmer pair); heights t = one trusted point inside every gap between consecutive zeros, the Gram points of the '
        'block, and gamma_n (1 +- 2^(12-p)); every case is non-trivial (no closed form); distinct = distinct (kind, n or t, p)')
ASSUMPTIONS = ['signs of the reference release\'s Riemann-Siegel Z (mpmath 1.3.0, fp sweep + mp.siegelz at two precisions, '
               'trusted only when |Z| exceeds 2^20 times the evaluation noise at both precisions and the signs agree) are correct',
               'Z has no positive local minimum / negative local maximum for t > 10 (Riemann hypothesis verified far beyond 10^5): '
               'used only to decide where the sweep refines, not for any violation',
               'the table BASE of (T_k, N(T_k)) was produced by the same sweep from t = 0; a sweep of block k re-verifies '
               'N(T_k+1) - N(T_k) in every run']
SHARD_TIMEOUT = {'quick': 1500, 'thorough': 9000}      # hang detection only; generous because the machine is shared
LEVEL_TEXT = ('exploration: every sampled zero index is verified by counting sign changes of an independently evaluated Z(t) '
              'from a tabulated height (chain of blocks re-verified from t = 0 by the run) and by a sign change of Z in a '
              '2^(10-p) relative bracket around the returned ordinate; nzeros/backlunds are compared with the oracle count at a '
              'trusted point of every gap and at Gram points; grampoint with the reference theta at p+60 bits')
LEVEL_NOTE = ('trusted base: sign of Z(t) from the reference release evaluated at two precisions with a 20-bit guard (not a '
              'rigorous enclosure; ZOracle.zsign is the seam for the ball-arithmetic Riemann-Siegel evaluation with Gabcke\'s '
              'bound), tabulated N(T_k) (re-verified by the sweep, fully for t < 9880, by the Backlund/Turing mean of S(t) '
              'above). Rosser-rule exceptions (n > 1.3*10^7) are out of reach of the run-time budget; indices not sampled are '
              'not covered')
TECHNIQUE = 'runtime oracle monitor: independent sign-change counting of Z(t) + bracketing of every returned zero'

TWO_PI = 2 * math.pi


def meangap(t):
    return TWO_PI / math.log(max(t, 30.0) / TWO_PI)


def to_fraction(t):
    if isinstance(t, Fraction):
        return t
    if isinstance(t, (int, float)):
        return Fraction(t)
    if hasattr(t, '_mpf_'):
        s, m, e, b = t._mpf_
        m = int(m)
        v = Fraction(m << e) if e >= 0 else Fraction(m, 1 << -e)
        return -v if s else v
    raise TypeError(type(t))


# ---------------------------------------------------------------------------------------
# the oracle
# ---------------------------------------------------------------------------------------
class ZOracle(object):
    """Signs of Z(t).  ``zfast(t)`` -> float (cheap, untrusted; used to place grid points), ``zsign(t)`` -> +1/-1/None
    (trusted or unknown).  t is a float, int or Fraction (exact dyadic).  Replace this class by a rigorous one to raise
    the level of the check; nothing else in the module evaluates Z."""

    GUARD = 20          # bits between the evaluation noise and the smallest |Z| whose sign is believed
    LADDER = (83, 113, 173, 293)

    def __init__(self, extra=None):
        from vf import refmodel
        self.R = refmodel.ref()
        self.rmp = self.R.mp
        self.rfp = self.R.fp
        self.extra = extra          # optional second source: callable (Fraction t) -> (+1/-1/None)
        self.n_fast = 0
        self.n_mp = 0
        self.conflicts = 0
        self.resolution = 0         # highest precision that was needed

    def noise(self, P, t):
        return math.ldexp(64.0 * (1.0 + abs(float(t))), -P)

    def zfast(self, t):
        self.n_fast += 1
        return float(self.rfp.siegelz(float(t)))

    def _mpf(self, t):
        q = to_fraction(t)
        n, d = q.numerator, q.denominator
        assert d & (d - 1) == 0
        return self.rmp.ldexp(self.rmp.mpf(n), -(d.bit_length() - 1))

    def zmp(self, t, P):
        """(float value, trusted sign or 0) from the reference mp.siegelz at P bits"""
        rmp = self.rmp
        old = rmp.prec
        self.n_mp += 1
        try:
            rmp.prec = P + 10
            x = self._mpf(t)
            rmp.prec = P
            v = rmp.siegelz(x)
            m = rmp.mag(v) if v else -10**9
            f = float(v) if -1000 < m < 1000 else 0.0
        finally:
            rmp.prec = old
        thr = math.log2(self.noise(P, t)) + self.GUARD
        if m > thr + 1:
            return f, (1 if v > 0 else -1)
        return f, 0

    def zsign(self, t, minprec=0, use_fast=True):
        """trusted sign: two evaluations at different precisions, each above its own noise threshold, same sign
        (+ the optional extra source must not contradict)."""
        got = []
        if use_fast and minprec <= 53:
            try:
                v = self.zfast(t)
                if abs(v) > self.noise(53, t) * 2.0 ** self.GUARD:
                    got.append(1 if v > 0 else -1)
            except Exception:
                pass
        ladder = [P for P in self.LADDER if P >= minprec]
        if len(ladder) < 3:
            ladder = [minprec, minprec + 40, minprec + 100, minprec + 220]
        for P in ladder:
            v, s = self.zmp(t, P)
            if P > self.resolution:
                self.resolution = P
            if s:
                got.append(s)
            else:
                got = []          # a lower precision said "large", this one says "small": start again
            if len(got) >= 2:
                break
        if len(got) < 2:
            return None
        if got[-1] != got[-2]:
            self.conflicts += 1
            return None
        if self.extra is not None:
            e = self.extra(to_fraction(t))
            if e is not None and e != got[-1]:
                self.conflicts += 1
                return None
        return got[-1]


class Sweep(object):
    """One pass over [a, b]: fp grid, refinement of suspicious extrema, one trusted point per sign run.
    Result: self.points = sorted [(t, sign)] of trusted points (a and b included when their sign is trusted)."""

    DENS = 40

    def __init__(self, orc, a, b):
        self.orc = orc
        self.a, self.b = float(a), float(b)
        self.unresolved = []        # local extrema of |Z| that could not be explained
        self.untrusted_runs = 0
        self.grid = 0
        self.refined = 0
        self.points = []
        self._run()

    def _grid(self):
        a, b = self.a, self.b
        ts = []
        # a few points outside on both sides so that extrema at the ends are seen
        t = a - 3 * meangap(a) / self.DENS
        while t < b + 3 * meangap(b) / self.DENS:
            if not ts or t > ts[-1]:
                ts.append(t)
            t += meangap(t) / self.DENS
        ts = [t for t in ts if t > 9.0]
        ts.extend([a, b])
        return sorted(set(ts))

    def _minimise(self, s, t0, t1, t2, v1):
        """golden-section search for a point with s*Z < 0 inside (t0, t2), starting from the grid minimum t1"""
        f = self.orc.zfast
        gr = 0.3819660112501051
        lo, mid, hi, vmid = t0, t1, t2, v1
        extra = []
        for _ in range(60):
            if (hi - mid) > (mid - lo):
                x = mid + gr * (hi - mid)
            else:
                x = mid - gr * (mid - lo)
            if x == mid or not (lo < x < hi):
                break
            vx = f(x)
            self.refined += 1
            extra.append((x, vx))
            if s * vx < 0:
                return extra, True
            if s * vx < s * vmid:
                if x > mid:
                    lo = mid
                else:
                    hi = mid
                mid, vmid = x, vx
            else:
                if x > mid:
                    hi = x
                else:
                    lo = x
            if hi - lo < 1e-9 * max(1.0, mid):
                break
        return extra, False

    def _run(self):
        orc = self.orc
        ts = self._grid()
        vs = [orc.zfast(t) for t in ts]
        self.grid = len(ts)
        pts = list(zip(ts, vs))
        # refinement: a local minimum of |Z| without sign change hides a pair of zeros
        add = []
        for i in range(1, len(pts) - 1):
            (t0, v0), (t1, v1), (t2, v2) = pts[i - 1], pts[i], pts[i + 1]
            if v0 == 0 or v1 == 0 or v2 == 0:
                continue
            s = 1 if v1 > 0 else -1
            if (v0 > 0) == (v1 > 0) == (v2 > 0) and abs(v1) < abs(v0) and abs(v1) <= abs(v2):
                extra, found = self._minimise(s, t0, t1, t2, v1)
                add.extend(extra)
                if not found:
                    self.unresolved.append((t1, min([abs(v1)] + [abs(v) for _, v in extra])))
        if add:
            pts = sorted(set(pts + add))
        # runs of constant fp sign -> representative with the largest |Z| -> trusted sign
        out = []
        i, n = 0, len(pts)
        while i < n:
            j = i
            sg = pts[i][1] > 0
            while j + 1 < n and (pts[j + 1][1] > 0) == sg and pts[j + 1][1] != 0:
                j += 1
            run = [p for p in pts[i:j + 1] if self.a <= p[0] <= self.b]
            if run:
                run.sort(key=lambda p: -abs(p[1]))
                ok = False
                for t, v in run[:3]:
                    s = orc.zsign(t)
                    if s is not None and (s > 0) == sg:
                        out.append((t, s))
                        ok = True
                        break
                if not ok:
                    self.untrusted_runs += 1
            i = j + 1
        # block ends
        for t in (self.a, self.b):
            if not any(p[0] == t for p in out):
                s = orc.zsign(t)
                if s is not None:
                    out.append((t, s))
        out.sort()
        self.points = out

    def changes(self):
        return count_changes(self.points)


def count_changes(points):
    c = 0
    for i in range(1, len(points)):
        if points[i][1] != points[i - 1][1]:
            c += 1
    return c


# ---------------------------------------------------------------------------------------
# tabulated heights T_k (trusted points of the sweep, inside a gap between zeros) with N(T_k).
# Produced offline by exactly the Sweep above run from t = 10 (N(10) = 0: the first zero is 14.13) in chunks;
# every run re-verifies the difference N(T_k+1) - N(T_k) of each block it sweeps.
# ---------------------------------------------------------------------------------------
BASE = [
    (10.0, 0), (278.7677393294386, 125), (471.7464009222871, 250), (647.0077204871302, 375),
    (812.0037443080066, 500), (970.6081249551894, 625), (1124.190136555832, 750), (1273.7352686121715, 875),
    (1419.946197537239, 1000), (1563.7591409221504, 1125), (1705.099469837722, 1250), (1844.2260450149786, 1375),
    (1981.369343776362, 1500), (2117.2893476363442, 1625), (2251.43542985067, 1750), (2384.2300475741017, 1875),
    (2515.8990106372758, 2000), (2646.172350025791, 2125), (2776.124657385131, 2250), (2904.2788494383917, 2375),
    (3031.976807376188, 2500), (3158.8763014600086, 2625), (3284.797352933693, 2750), (3409.9225543739285, 2875),
    (3533.7275047658477, 3000), (3657.5673920237496, 3125), (3780.841251066808, 3250), (3902.956732011724, 3375),
    (4024.8314181946303, 3500), (4146.245264014215, 3625), (4266.788388470828, 3750), (4387.006248080343, 3875),
    (4506.932594944497, 4000), (4625.922576700848, 4125), (4744.720856739163, 4250), (4863.060510160092, 4375),
    (4980.738988106288, 4500), (5098.3767757347305, 4625), (5215.3988301431, 4750), (5332.2050954464385, 4875),
    (5448.354252326269, 5000), (5564.0405578942655, 5125), (5679.732416944994, 5250), (5795.133103520938, 5375),
    (5909.857415179325, 5500), (6024.484861726835, 5625), (6138.918206720842, 5750), (6252.619716668928, 5875),
    (6366.277839396659, 6000), (6479.170110839877, 6125), (6592.523270462917, 6250), (6705.276548189875, 6375),
    (6818.226097518065, 6500), (6930.071431611528, 6625), (7041.932901527373, 6750), (7153.900820586625, 6875),
    (7265.3519867846835, 7000), (7376.379694340389, 7125), (7487.630715834184, 7250), (7598.462763824321, 7375),
    (7708.79093030899, 7500), (7819.1480862726885, 7625), (7929.142063543587, 7750), (8038.923818266631, 7875),
    (8148.626755272521, 8000), (8258.361354192626, 8125), (8367.8879071109, 8250), (8477.099186225882, 8375),
    (8585.888671126932, 8500), (8694.519728159716, 8625), (8802.971987551153, 8750), (8911.082246213497, 8875),
    (9019.184399673017, 9000), (9126.764840169133, 9125), (9234.709615613769, 9250), (9342.458259049812, 9375),
    (9449.904736221515, 9500), (9557.415266966027, 9625), (9664.411964531215, 9750), (9771.175334341346, 9875),
    (9878.154894437697, 10000), (10726.883115101085, 11000), (10769.15542525151, 11050), (14041.110576019712, 15000),
    (14082.073426455403, 15050), (18046.80343400844, 20000), (18086.487814563054, 20050), (25755.52496985221, 30000),
    (25792.947801080718, 30050), (33190.40068393447, 40000), (33226.93727045264, 40050), (40433.95441424423, 50000),
    (40469.79697762985, 50050), (47531.42224357591, 60000), (47566.82461676647, 60050), (54511.914920962045, 70000),
    (54546.592036738955, 70050), (61394.31491496268, 80000), (61428.45792853815, 80050), (68193.94772233577, 90000),
    (68227.79963174362, 90050), (74251.52693320466, 99000), (74284.91084836963, 99050), (74921.34650397362, 100000),
    (74954.51441135583, 100050),
]
BASE_N = dict((n, t) for t, n in BASE)

GRAM_LAW_FAILURES = [126, 134, 195, 211, 232, 254, 288, 367, 377, 379, 397, 400, 461, 507, 518, 529, 567, 578, 595, 618,
                     626, 637, 654, 668, 692]
OTHER_PRECS = [30, 80, 113, 200]


def blocks_for(tier):
    """[(n0, n1)] blocks of zero indices n0 < n <= n1 (both ends tabulated)"""
    have = sorted(BASE_N)
    if tier == 'quick':
        return [(a, b) for a, b in zip(have, have[1:]) if b <= 2000 and b - a == 125]
    out = [(a, b) for a, b in zip(have, have[1:]) if b <= 10000 and b - a == 125]
    out += [(a, b) for a, b in zip(have, have[1:]) if a > 10000 and b - a == 50]
    return out


# High-precision stratum at large heights (added after a seeded change was missed): the Newton refinement ladder of
# separate_my_zero only has several levels for precisions above ~200 bits, and its guard bits only matter for t >~ 2^14.
HP_WINDOWS = [(17900, 20050), (29950, 30050), (49950, 50050), (99950, 100050)]
HP_PRECS = [210, 250, 333, 432]


def hp_cases(tier, seed):
    import random
    r = random.Random('C41-hp:%s' % seed)
    out = []
    nq = 6 if tier == 'quick' else 48
    for i in range(nq):
        a, b = HP_WINDOWS[0] if (tier == 'quick' or i % 2 == 0) else HP_WINDOWS[1 + (i // 2) % 3]
        # mostly the two highest precisions (several refinement levels); window ends are always included
        pp = HP_PRECS[3 - (i % 4 == 3) - 2 * (i % 8 == 5)] if i % 2 == 0 else HP_PRECS[2 + (i % 4 == 1)]
        n = [b - 51, a + 100][i] if i < 2 else r.randint(a, b)
        out.append([n, pp])
    return out


def shards(tier, seed):
    bl = blocks_for(tier)
    k = 16
    hp = hp_cases(tier, seed)
    if tier == 'quick':
        return [{'blocks': [b]} for b in bl] + [{'blocks': [], 'hp': hp[:3]}, {'blocks': [], 'hp': hp[3:]}]
    # thorough: blocks dealt round-robin (cost grows slowly with t); the windows above 10^4 are spread as well
    out = [{'blocks': []} for _ in range(k)]
    for i, b in enumerate(bl):
        out[i % k]['blocks'].append(b)
    out = [s for s in out if s['blocks']]
    for j in range(0, len(hp), 6):
        out.append({'blocks': [], 'hp': hp[j:j + 6]})
    return out


# ---------------------------------------------------------------------------------------
def _tree():
    import mpmath
    return mpmath.mp


class TreeZ(object):
    """extra sign source for the brackets: the tree's own siegelz (not its zetazero/nzeros code) at 3p bits"""

    def __init__(self, mp, p):
        self.mp, self.P = mp, 3 * p
        self.calls = 0

    def __call__(self, q):
        mp = self.mp
        old = mp.prec
        self.calls += 1
        try:
            mp.prec = self.P
            n, d = q.numerator, q.denominator
            x = mp.ldexp(mp.mpf(n), -(d.bit_length() - 1))
            v = mp.siegelz(x)
            if not v:
                return None
            thr = math.log2(64.0 * (1.0 + float(q))) - self.P + 20
            if mp.mag(v) > thr + 1:
                return 1 if v > 0 else -1
            return None
        except Exception:
            return None
        finally:
            mp.prec = old


def select_indices(r, n0, n1, tier, special):
    allidx = list(range(n0 + 1, n1 + 1))
    if tier == 'thorough':
        return allidx
    want = set()
    for n in special:
        for d in (-1, 0, 1):
            if n0 < n + d <= n1:
                want.add(n + d)
    want.update([n0 + 1, n0 + 2, n1 - 1, n1])
    budget = 28
    pool = [n for n in allidx if n not in want]
    r.shuffle(pool)
    # consecutive pairs so that monotonicity and "between consecutive returned zeros" are exercised
    while len(want) < budget and pool:
        n = pool.pop()
        want.add(n)
        if n + 1 <= n1:
            want.add(n + 1)
    return sorted(want)[:budget + 10]


def check_block(mp, rec, r, tier, n0, n1):
    from vf import refmodel
    fhalf = (0, 1, -1, 1)
    t_a, t_b = BASE_N[n0], BASE_N[n1]
    orc = ZOracle()
    R = orc.R
    sw = Sweep(orc, t_a, t_b)
    pts = sw.points
    local = count_changes(pts)
    rec.event('grid points evaluated (reference fp Z)', sw.grid + sw.refined)
    rec.event('trusted points (reference Z at two precisions)', len(pts))
    rec.event('local extrema refined', len(sw.unresolved) + 0)
    rec.event('blocks swept', 1)
    ok_block = (local == n1 - n0 and pts and pts[0][0] == t_a and pts[-1][0] == t_b and not sw.unresolved)
    if ok_block:
        rec.event('blocks whose sign-change count equals the tabulated N(T_k+1) - N(T_k)', 1)
    else:
        rec.note('block count mismatch', {'block': [n0, n1], 'sign_changes': local, 'unresolved': sw.unresolved[:3],
                                          'untrusted_runs': sw.untrusted_runs})
    # cumulative oracle count at every trusted point
    cum = [0]
    for i in range(1, len(pts)):
        cum.append(cum[-1] + (1 if pts[i][1] != pts[i - 1][1] else 0))
    # Backlund / Turing consistency monitor: N(t) - 1 - theta(t)/pi = S(t) has mean ~ 0 over a block; a table entry that
    # is off by one shifts the mean by one.  Not a violation by itself: it only withdraws the oracle (-> undecided).
    rfp0 = R.fp
    Svals = [(n0 + c) - 1 - float(rfp0.siegeltheta(t)) / math.pi for (t, s), c in zip(pts, cum)]
    meanS = sum(Svals) / max(1, len(Svals))
    rec.maximum('|mean of S(t)| over the trusted points of a block (Backlund/Turing monitor)', abs(meanS), {'block': [n0, n1]})
    if abs(meanS) > 0.6:
        ok_block = False
        rec.note('Backlund mean implausible', {'block': [n0, n1], 'mean S': meanS})
    gaps = {}           # zero count N -> a trusted point t with N(t) = n0 + c
    for (t, s), c in zip(pts, cum):
        gaps.setdefault(n0 + c, t)

    # Gram points of the block (reference), with trusted signs -> zeros per Gram interval (sampling emphasis + nzeros heights)
    rfp = R.fp
    m_lo = int(math.floor(float(rfp.siegeltheta(t_a)) / math.pi)) + 1
    m_hi = int(math.floor(float(rfp.siegeltheta(t_b)) / math.pi))
    gram = []
    for m in range(m_lo, m_hi + 1):
        g = float(rfp.grampoint(m))
        if t_a < g < t_b:
            s = orc.zsign(g)
            if s is not None:
                gram.append((g, s, m))
    merged = sorted([(t, s, None) for t, s in pts] + gram)
    special = set(GRAM_LAW_FAILURES)
    c = 0
    last_gram = None
    for i, (t, s, m) in enumerate(merged):
        if i and merged[i - 1][1] != s:
            c += 1
        if m is not None:
            if last_gram is not None and last_gram[1] == m - 1 and c - last_gram[0] != 1:
                special.add(n0 + c)          # Gram interval with 0 or >= 2 zeros
                rec.event('Gram intervals not containing exactly one zero', 1)
            last_gram = (c, m)
    # the tree's own Gram points as heights for nzeros (t equal to a subdivision point of the tree's block search):
    # around every irregular Gram interval and every 4th otherwise
    near = set()
    for n in special:
        near.update(range(n - 3, n + 2))
    tgram = []
    for m in range(m_lo, m_hi + 1):
        if m in near or m % 4 == 0 or (tier == 'thorough' and m % 2 == 0):
            try:
                gt = to_fraction(mp.grampoint(m))
            except Exception:
                continue
            if Fraction(t_a) < gt < Fraction(t_b):
                s = orc.zsign(gt)
                if s is not None:
                    tgram.append((gt, s, m))

    idxs = select_indices(r, n0, n1, tier, special)
    p = mp.prec
    assert p == 53
    treez = TreeZ(mp, p)
    zeros = {}
    brackets = []
    for n in idxs:
        case = {'n': n, 'prec': p}
        try:
            z = mp.zetazero(n)
        except Exception as e:
            rec.case(('zetazero', n, p), True, cls='zetazero/exception')
            rec.violation('C41/zetazero/exception', 'zetazero(%d) raised %s' % (n, type(e).__name__), case, repr(e), 'a zero')
            continue
        if not hasattr(z, '_mpc_'):
            rec.violation('C41/zetazero/type', 'zetazero does not return an mpc', case, repr(z), 'mpc')
            continue
        re_, im_ = z._mpc_
        cls = 'zetazero/gram-failure-region' if n in special else 'zetazero/regular'
        rec.case(('zetazero', n, p), True, cls=cls)
        if tuple(re_) != fhalf:
            rec.violation('C41/zetazero/real-part', 'real part of zetazero(n) is not exactly 1/2', case, tuple(re_), fhalf)
        if im_[0] or not im_[1] or im_[3] > p:
            rec.violation('C41/zetazero/imag-form', 'imaginary part not a positive p-bit number', case, tuple(im_), 'positive, <= %d bits' % p)
            continue
        gam = to_fraction(z.imag)
        zeros[n] = gam
        brackets.append((n, gam))
    # brackets around the returned ordinates
    verdict_points = []
    for n, gam in brackets:
        # second source (tree siegelz at 3p): every zero in quick, every 4th + Gram-failure regions in thorough (cost)
        use_tree = tier == 'quick' or n % 4 == 0 or n in special
        res = bracket_zero(orc, treez if use_tree else None, gam, p)
        case = {'n': n, 'prec': p, 'gamma': float(gam)}
        if res is None:
            rec.undecided('sign of Z not resolved next to the returned zero', case)
            continue
        lo, hi, slo, shi, k = res
        if k:
            rec.maximum('bracket widened by factor 4^k to resolve the sign of Z', k, case)
        verdict_points.append((lo, slo, ('lo', n, k)))
        verdict_points.append((hi, shi, ('hi', n, k)))
    rec.event('bracket signs from the tree siegelz at 3p (second source)', treez.calls)
    allp = sorted([(Fraction(t), s, None) for t, s in pts] + [(Fraction(g), s, ('gram', m)) for g, s, m in gram] +
                  [(g, s, ('tgram', m)) for g, s, m in tgram] + verdict_points,
                  key=lambda x: x[0])
    c = 0
    count_at = {}
    for i, (t, s, tag) in enumerate(allp):
        if i and allp[i - 1][1] != s:
            c += 1
        if tag is not None:
            count_at[tag[:2]] = (c, tag)
    for n, gam in brackets:
        if ('lo', n) not in count_at:
            continue
        clo, tag = count_at[('lo', n)]
        chi, _ = count_at[('hi', n)]
        k = tag[2]
        case = {'n': n, 'prec': p, 'gamma': float(gam), 'block': [n0, n1]}
        rec.case(('accuracy', n, p), True, cls='accuracy/bracket 2^(10-p)*4^%d' % k)
        inside = chi - clo
        if inside == 0:
            # no zero of Z within gamma (1 +- 2^(10-p) 4^k): how far is the nearest one?
            w = nearest_change(orc, gam, p, k)
            rec.violation('C41/zetazero/imag-accuracy', 'Z does not change sign in the bracket around the returned ordinate',
                          case, {'nearest sign change within relative': w}, 'sign change within 2^(10-p)', severity=w)
            continue
        if k > 0:
            rec.note('accuracy decided only at a widened bracket', case)
        if not ok_block:
            rec.undecided('oracle block count differs from the table: index not decided', case)
            continue
        idx = n0 + clo + 1
        rec.case(('index', n, p), True, cls='index/' + ('gram-failure-region' if n in special else 'regular'))
        if idx == n and inside == 1:
            continue
        if idx > n:
            rec.violation('C41/zetazero/index-too-late', 'at least n zeros of Z lie below the ordinate returned for index n',
                          case, {'sign changes below': idx - 1}, n - 1)
            continue
        if inside > 1 and idx <= n < idx + inside:
            rec.undecided('several sign changes inside the bracket', case)
            continue
        # fewer sign changes found than n-1: reference release decides whether the tree or the oracle is short
        try:
            gr = to_fraction(R.mp.zetazero(n).imag)
        except Exception:
            gr = None
        if gr is not None and abs(gr - gam) <= gam * Fraction(1, 1 << (p - 12)):
            rec.undecided('oracle found fewer zeros below gamma than the tree and the reference release agree on', case)
        else:
            rec.violation('C41/zetazero/index-too-early', 'returned ordinate lies below the n-th sign change of Z and differs from the reference release',
                          case, float(gam), None if gr is None else float(gr))
    # monotonic
    ks = sorted(zeros)
    for a, b in zip(ks, ks[1:]):
        if b == a + 1:
            rec.case(('mono', a), True, cls='monotonic')
            if not zeros[a] < zeros[b]:
                rec.violation('C41/zetazero/monotonic', 'zetazero(n) >= zetazero(n+1)', {'n': a}, float(zeros[a]), float(zeros[b]))
    # conjugates and other precisions (sample)
    sub = [n for n in idxs if n in zeros]
    r.shuffle(sub)
    for n in sub[:4 if tier == 'quick' else 10]:
        zc = mp.zetazero(-n)
        rec.case(('conj', n), True, cls='conjugate')
        z = mp.mpc(0.5, 0)
        want = (fhalf, (1,) + tuple(mp.zetazero(n)._mpc_[1])[1:])
        if tuple(map(tuple, zc._mpc_)) != want:
            rec.violation('C41/zetazero/conjugate', 'zetazero(-n) is not the conjugate of zetazero(n)', {'n': n}, zc._mpc_, want)
    for n in sub[4:6 if tier == 'quick' else 8]:
        pp = OTHER_PRECS[(n + n0) % len(OTHER_PRECS)]
        check_other_prec(mp, rec, orc, n, pp, zeros[n])
    # nzeros / backlunds at one trusted point of every gap, at Gram points, next to returned zeros
    heights = []
    step = 1 if tier == 'thorough' else 1
    for N, t in sorted(gaps.items())[::step]:
        heights.append((Fraction(t), N, 'gap'))
    for g, s, m in gram[::(1 if tier == 'thorough' else 2)]:
        cc = count_at.get(('gram', m))
        if cc:
            heights.append((Fraction(g), n0 + cc[0], 'gram'))
    for g, s, m in tgram:
        cc = count_at.get(('tgram', m))
        if cc:
            heights.append((g, n0 + cc[0], 'tree-gram'))
    for n, gam in brackets:
        if tier == 'thorough' and n % 2 and n not in special:
            continue
        if ('lo', n) in count_at and count_at[('hi', n)][0] - count_at[('lo', n)][0] == 1 and count_at[('lo', n)][1][2] == 0:
            lo = gam - gam * Fraction(1, 1 << (p - 10))
            hi = gam + gam * Fraction(1, 1 << (p - 10))
            heights.append((lo, n0 + count_at[('lo', n)][0], 'below-zero'))
            heights.append((hi, n0 + count_at[('hi', n)][0], 'above-zero'))
    if ok_block:
        check_counts(mp, rec, R, heights, p, 3 if tier == 'quick' else 4)
    else:
        rec.undecided('oracle block count differs from the table: nzeros not decided', {'block': [n0, n1]})
    # grampoint
    for m in range(m_lo, m_hi + 1, 1 if tier == 'thorough' else 3):
        check_gram(mp, rec, R, m, p)
    rec.event('reference mp.siegelz evaluations', orc.n_mp)
    rec.event('oracle sign conflicts', orc.conflicts)
    rec.maximum('highest precision needed for a trusted sign', orc.resolution, {'block': [n0, n1]})


def frac_to_mpf(mp, q):
    n, d = q.numerator, q.denominator
    assert d & (d - 1) == 0
    old = mp.prec
    mp.prec = max(53, abs(n).bit_length() + 5)
    try:
        return mp.ldexp(mp.mpf(n), -(d.bit_length() - 1))
    finally:
        mp.prec = old


def bracket_zero(orc, treez, gam, p):
    """trusted signs at gamma (1 -+ 2^(10-p) 4^k) for the smallest k that resolves them"""
    for k in range(0, 8):
        e = p - 10 - 2 * k
        if e < 8:
            break
        d = gam * Fraction(1, 1 << e)
        lo, hi = gam - d, gam + d
        orc.extra = treez
        try:
            slo = orc.zsign(lo, minprec=p + 30, use_fast=False)
            shi = orc.zsign(hi, minprec=p + 30, use_fast=False) if slo is not None else None
        finally:
            orc.extra = None
        if slo is not None and shi is not None:
            return lo, hi, slo, shi, k
    return None


def nearest_change(orc, gam, p, k0):
    """log2 of the relative distance at which Z is first seen to have the other sign (severity of an inaccurate zero)"""
    for k in range(k0 + 1, 24):
        e = p - 10 - 2 * k
        if e < 2:
            break
        d = gam * Fraction(1, 1 << e)
        a, b = orc.zsign(gam - d), orc.zsign(gam + d)
        if a is not None and b is not None and a != b:
            return -e
    return 0


def check_other_prec(mp, rec, orc, n, pp, gam53):
    old = mp.prec
    case = {'n': n, 'prec': pp}
    try:
        mp.prec = pp
        z = mp.zetazero(n)
    except Exception as e:
        rec.violation('C41/zetazero/exception', 'zetazero(%d) raised %s at prec %d' % (n, type(e).__name__, pp), case, repr(e), 'a zero')
        return
    finally:
        mp.prec = old
    rec.case(('zetazero', n, pp), True, cls='zetazero/prec=%d' % pp)
    re_, im_ = z._mpc_
    if tuple(re_) != (0, 1, -1, 1):
        rec.violation('C41/zetazero/real-part', 'real part of zetazero(n) is not exactly 1/2', case, tuple(re_), (0, 1, -1, 1))
    if im_[3] > pp:
        rec.violation('C41/zetazero/imag-form', 'imaginary part has more than p bits', case, im_[3], pp)
    gam = to_fraction(z.imag)
    treez = TreeZ(mp, pp)
    res = bracket_zero(orc, treez, gam, pp)
    if res is None:
        rec.undecided('sign of Z not resolved next to the returned zero', case)
        return
    lo, hi, slo, shi, k = res
    if k:
        rec.maximum('bracket widened by factor 4^k to resolve the sign of Z', k, case)
    rec.case(('accuracy', n, pp), True, cls='accuracy/prec=%d bracket 2^(10-p)*4^%d' % (pp, k))
    if slo == shi:
        rec.violation('C41/zetazero/imag-accuracy', 'Z does not change sign in the bracket around the returned ordinate',
                      case, {'signs': [slo, shi]}, 'sign change within 2^(10-p)', severity=nearest_change(orc, gam, pp, k))
        return
    # same zero as at 53 bits (index): the two brackets must overlap
    tol = gam53 * Fraction(1, 1 << (min(pp, 53) - 11))
    if abs(gam - gam53) > tol:
        rec.violation('C41/zetazero/precision-dependent-index', 'zetazero(n) at another precision is a different zero',
                      case, float(gam), float(gam53))


def check_counts(mp, rec, R, heights, p, bstep=1):
    rmp = R.mp
    for hi_, (q, N, kind) in enumerate(heights):
        t = frac_to_mpf(mp, q)
        case = {'t': float(q), 'kind': kind, 'expected': N}
        try:
            got = mp.nzeros(t)
        except Exception as e:
            rec.case(('nzeros', str(q)), True, cls='nzeros/' + kind)
            rec.violation('C41/nzeros/exception/' + kind, 'nzeros(t) raised %s' % type(e).__name__, case, repr(e), N)
            continue
        rec.case(('nzeros', str(q)), True, cls='nzeros/' + kind)
        if got != N or not isinstance(got, int):
            rec.violation('C41/nzeros/' + kind, 'nzeros(t) differs from the number of sign changes of Z below t', case, got, N)
        if kind in ('gap', 'gram', 'tree-gram') and hi_ % bstep == 0:
            # backlunds: S(t) = N(t) - 1 - theta(t)/pi, theta from the reference release at p+60 bits
            old = rmp.prec
            rmp.prec = p + 60
            try:
                x = rmp.mpf(q.numerator) / q.denominator
                S = N - 1 - rmp.siegeltheta(x) / rmp.pi
                try:
                    b = mp.backlunds(t)
                except Exception as e:
                    rec.violation('C41/backlunds/exception', 'backlunds(t) raised', case, repr(e), float(S))
                    continue
                from vf.refmodel import to_ref
                err = abs(to_ref(rmp, b) - S)
                units = float(err * 2 ** p / max(1, N))
                rec.case(('backlunds', str(q)), True, cls='backlunds/' + kind)
                rec.maximum('|backlunds - S| in units of 2^-p max(1,N)', units, case)
                rec.maximum('|S(t)| seen (Backlund consistency monitor)', float(abs(S)), case)
                if units > 16.0 + 2.0 ** -20:
                    rec.violation('C41/backlunds', 'backlunds(t) differs from N(t) - 1 - theta(t)/pi', case, float(b), float(S), severity=units)
                if abs(S) > 3:
                    rec.note('implausible S(t): oracle count or table suspicious', case)
            finally:
                rmp.prec = old


def check_gram(mp, rec, R, m, p):
    rmp = R.mp
    case = {'m': m, 'prec': p}
    try:
        g = mp.grampoint(m)
    except Exception as e:
        rec.case(('gram', m, p), True, cls='grampoint')
        rec.violation('C41/grampoint/exception', 'grampoint raised %s' % type(e).__name__, case, repr(e), None)
        return
    rec.case(('gram', m, p), True, cls='grampoint')
    from vf.refmodel import to_ref
    old = rmp.prec
    rmp.prec = p + 60
    try:
        x = to_ref(rmp, g)
        th = rmp.siegeltheta(x) - m * rmp.pi
        d1 = rmp.siegeltheta(x, derivative=1)
        dg = abs(th / d1)                       # distance to the true Gram point (first order; theta'' is tiny)
        units = float(dg / abs(x) * 2 ** p)
        rec.maximum('grampoint error in units of 2^-p relative', units, case)
        if units > 16.0 + 2.0 ** -20:
            rec.violation('C41/grampoint', 'theta(grampoint(m)) differs from m*pi by more than 2^(4-p) relative in t', case,
                          float(th), 0.0, severity=units)
    finally:
        rmp.prec = old


def run_shard(shard, rec):
    mp = _tree()
    mp.prec = 53
    r = G.rng(PROP, shard['seed'], shard['shard'])
    from vf.instrument import AnchorCount
    with AnchorCount(rec, ['mpmath.functions.zetazeros:separate_zeros_in_block', 'mpmath.functions.zetazeros:find_rosser_block_zero',
                           'mpmath.functions.zetazeros:separate_my_zero', 'mpmath.functions.zetazeros:count_to',
                           'mpmath.functions.zetazeros:gram_index', 'mpmath.functions.zetazeros:nzeros',
                           'mpmath.functions.zetazeros:zetazero', 'mpmath.functions.zeta:grampoint']):
        for n0, n1 in shard['blocks']:
            check_block(mp, rec, r, shard['tier'], n0, n1)
        for n, pp in shard.get('hp', []):
            # accuracy of the ordinate at high precision and large height (index: same zero as at 53 bits)
            mp.prec = 53
            g53 = to_fraction(mp.zetazero(n).imag)
            check_other_prec(mp, rec, ZOracle(), n, pp, g53)
            rec.event('high-precision zeros checked (t > 2^14, prec > 200)', 1)


def required(agg, tier):
    miss = []
    ev = agg['events']
    if not ev.get('high-precision zeros checked (t > 2^14, prec > 200)', 0):
        miss.append('no high-precision zero at large height was checked')
    nb = ev.get('blocks swept', 0)
    if not nb:
        miss.append('no block swept')
    if ev.get('blocks whose sign-change count equals the tabulated N(T_k+1) - N(T_k)', 0) != nb:
        miss.append('the oracle sweep disagrees with the table BASE in %d block(s)' % (nb - ev.get('blocks whose sign-change count equals the tabulated N(T_k+1) - N(T_k)', 0)))
    for c in ('zetazero/regular', 'zetazero/gram-failure-region', 'index/regular', 'nzeros/gap', 'nzeros/gram', 'nzeros/tree-gram', 'nzeros/below-zero',
              'nzeros/above-zero', 'backlunds/gap', 'grampoint', 'conjugate', 'monotonic'):
        if not agg['classes'].get(c):
            miss.append('class %s never observed' % c)
    for a in ('mpmath.functions.zetazeros:separate_zeros_in_block', 'mpmath.functions.zetazeros:count_to'):
        if a in agg['anchors'] and not agg['anchors'][a]:
            miss.append('anchor %s never reached' % a)
    return miss


def replay(case, rec):
    mp = _tree()
    mp.prec = 53
    c = case['case']
    import random
    r = random.Random(0)
    if 'block' in c:
        n0, n1 = c['block']
        check_block(mp, rec, r, 'thorough' if n1 - n0 <= 60 else 'quick', n0, n1)
    elif 'm' in c:
        from vf import refmodel
        check_gram(mp, rec, refmodel.ref(), c['m'], c.get('prec', 53))
    elif 't' in c:
        from vf import refmodel
        q = Fraction(c['t'])
        check_counts(mp, rec, refmodel.ref(), [(q, c['expected'], c['kind'])], 53)
    elif 'n' in c:
        n = c['n']
        have = sorted(BASE_N)
        for a, b in zip(have, have[1:]):
            if a < n <= b:
                check_block(mp, rec, r, 'thorough' if b - a <= 60 else 'quick', a, b)
                return
        rec.undecided('index outside the tabulated blocks')
    else:
        rec.undecided('case not replayable')
