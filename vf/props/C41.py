"""C41 -- Riemann zeta zeros are located and counted correctly.

Observed (tree, public API): zetazero(n) raw value, zetazero(-n), nzeros(t), grampoint(m), backlunds(t).
Oracle (does not use the tree's zetazero/nzeros code path): signs of the Riemann-Siegel Z function taken from the
*reference release* (mpmath 1.3.0 as mpmath_ref: fp.siegelz for the grid sweep, mp.siegelz at two precisions for every
sign that is used in a verdict, the tree's own siegelz at 3p as an extra source for the brackets around returned zeros),
behind the small interface ``zsign(t) -> +1 / -1 / None`` (class ZOracle) so that a rigorous ball-arithmetic Z can be
swapped in later.

  index     one grid sweep per block of the t-axis (spacing <= (mean gap)/40, local-extremum refinement); one trusted
            point per run of constant sign; L = sign changes among trusted points below the returned zero is a lower
            bound for the number of zeros below it.  Blocks start at tabulated heights T_k with N(T_k) known (table
            BASE, produced by the same sweep run from t = 0 and re-verified by every run: the sign changes counted in
            each swept block must equal the tabulated difference).
  accuracy  Z changes sign between gamma (1 - 2^(10-p)) and gamma (1 + 2^(10-p)).
"""
import math, time
from fractions import Fraction
from vf import gens as G

PROP = 'C41'
LEVEL = 'exploration'
NEEDS_REF = True
RULE = ('zero indices n enumerated per block of the t-axis (quick: a seeded sample of the indices <= 2000 in every block, '
        'always including the neighbourhoods of Gram-law failures; thorough: every n <= 10^4 plus windows up to n = 10^5 and '
        'the Lehmer pair); heights t = one trusted point inside every gap between consecutive zeros, the Gram points of the '
        'block, and gamma_n (1 +- 2^(12-p)); every case is non-trivial (no closed form); distinct = distinct (kind, n or t, p)')
ASSUMPTIONS = ['signs of the reference release\'s Riemann-Siegel Z (mpmath 1.3.0, fp sweep + mp.siegelz at two precisions, '
               'trusted only when |Z| exceeds 2^20 times the evaluation noise at both precisions and the signs agree) are correct',
               'Z has no positive local minimum / negative local maximum for t > 10 (Riemann hypothesis verified far beyond 10^5): '
               'used only to decide where the sweep refines, not for any violation',
               'the table BASE of (T_k, N(T_k)) was produced by the same sweep from t = 0; a sweep of block k re-verifies '
               'N(T_k+1) - N(T_k) in every run']
SHARD_TIMEOUT = {'quick': 400, 'thorough': 3000}
LEVEL_TEXT = ('exploration: every sampled zero index is verified by counting sign changes of an independently evaluated Z(t) '
              'from a tabulated height (chain of blocks re-verified from t = 0 by the run) and by a sign change of Z in a '
              '2^(10-p) relative bracket around the returned ordinate; nzeros/backlunds are compared with the oracle count at a '
              'trusted point of every gap and at Gram points; grampoint with the reference theta at p+60 bits')
LEVEL_NOTE = ('trusted base: sign of Z(t) from the reference release evaluated at two precisions with a 20-bit guard (not a '
              'rigorous enclosure; ZOracle.zsign is the seam for the ball-arithmetic Riemann-Siegel evaluation with Gabcke\'s '
              'bound), tabulated N(T_k) (re-verified by the sweep, fully for t < 9880, by the Backlund/Turing mean of S(t) '
              'above). Rosser-rule exceptions (n > 1.3*10^7) are out of reach of the run-time budget; indices not sampled are '
              'not covered')
TECHNIQUE = 'runtime oracle monitor: independent sign-change counting of Z(t) + bracketing of every returned zero'

TWO_PI = 2 * math.pi


def meangap(t):
    return TWO_PI / math.log(max(t, 30.0) / TWO_PI)


def to_fraction(t):
    if isinstance(t, Fraction):
        return t
    if isinstance(t, (int, float)):
        return Fraction(t)
    if hasattr(t, '_mpf_'):
        s, m, e, b = t._mpf_
        m = int(m)
        v = Fraction(m << e) if e >= 0 else Fraction(m, 1 << -e)
        return -v if s else v
    raise TypeError(type(t))


# ---------------------------------------------------------------------------------------
# the oracle
# ---------------------------------------------------------------------------------------
class ZOracle(object):
    """Signs of Z(t).  ``zfast(t)`` -> float (cheap, untrusted; used to place grid points), ``zsign(t)`` -> +1/-1/None
    (trusted or unknown).  t is a float, int or Fraction (exact dyadic).  Replace this class by a rigorous one to raise
    the level of the check; nothing else in the module evaluates Z."""

    GUARD = 20          # bits between the evaluation noise and the smallest |Z| whose sign is believed
    LADDER = (83, 113, 173, 293)

    def __init__(self, extra=None):
        from vf import refmodel
        self.R = refmodel.ref()
        self.rmp = self.R.mp
        self.rfp = self.R.fp
        self.extra = extra          # optional second source: callable (Fraction t) -> (+1/-1/None)
        self.n_fast = 0
        self.n_mp = 0
        self.conflicts = 0
        self.resolution = 0         # highest precision that was needed

    def noise(self, P, t):
        return math.ldexp(64.0 * (1.0 + abs(float(t))), -P)

    def zfast(self, t):
        self.n_fast += 1
        return float(self.rfp.siegelz(float(t)))

    def _mpf(self, t):
        q = to_fraction(t)
        n, d = q.numerator, q.denominator
        assert d & (d - 1) == 0
        return self.rmp.ldexp(self.rmp.mpf(n), -(d.bit_length() - 1))

    def zmp(self, t, P):
        """(float value, trusted sign or 0) from the reference mp.siegelz at P bits"""
        rmp = self.rmp
        old = rmp.prec
        self.n_mp += 1
        try:
            rmp.prec = P + 10
            x = self._mpf(t)
            rmp.prec = P
            v = rmp.siegelz(x)
            m = rmp.mag(v) if v else -10**9
            f = float(v) if -1000 < m < 1000 else 0.0
        finally:
            rmp.prec = old
        thr = math.log2(self.noise(P, t)) + self.GUARD
        if m > thr + 1:
            return f, (1 if v > 0 else -1)
        return f, 0

    def zsign(self, t, minprec=0, use_fast=True):
        """trusted sign: two evaluations at different precisions, each above its own noise threshold, same sign
        (+ the optional extra source must not contradict)."""
        got = []
        if use_fast and minprec <= 53:
            try:
                v = self.zfast(t)
                if abs(v) > self.noise(53, t) * 2.0 ** self.GUARD:
                    got.append(1 if v > 0 else -1)
            except Exception:
                pass
        for P in self.LADDER:
            if P < minprec:
                continue
            v, s = self.zmp(t, P)
            if P > self.resolution:
                self.resolution = P
            if s:
                got.append(s)
            else:
                got = []          # a lower precision said "large", this one says "small": start again
            if len(got) >= 2:
                break
        if len(got) < 2:
            return None
        if got[-1] != got[-2]:
            self.conflicts += 1
            return None
        if self.extra is not None:
            e = self.extra(to_fraction(t))
            if e is not None and e != got[-1]:
                self.conflicts += 1
                return None
        return got[-1]


class Sweep(object):
    """One pass over [a, b]: fp grid, refinement of suspicious extrema, one trusted point per sign run.
    Result: self.points = sorted [(t, sign)] of trusted points (a and b included when their sign is trusted)."""

    DENS = 40

    def __init__(self, orc, a, b):
        self.orc = orc
        self.a, self.b = float(a), float(b)
        self.unresolved = []        # local extrema of |Z| that could not be explained
        self.untrusted_runs = 0
        self.grid = 0
        self.refined = 0
        self.points = []
        self._run()

    def _grid(self):
        a, b = self.a, self.b
        ts = []
        # a few points outside on both sides so that extrema at the ends are seen
        t = a - 3 * meangap(a) / self.DENS
        while t < b + 3 * meangap(b) / self.DENS:
            if not ts or t > ts[-1]:
                ts.append(t)
            t += meangap(t) / self.DENS
        ts = [t for t in ts if t > 9.0]
        ts.extend([a, b])
        return sorted(set(ts))

    def _minimise(self, s, t0, t1, t2, v1):
        """golden-section search for a point with s*Z < 0 inside (t0, t2), starting from the grid minimum t1"""
        f = self.orc.zfast
        gr = 0.3819660112501051
        lo, mid, hi, vmid = t0, t1, t2, v1
        extra = []
        for _ in range(60):
            if (hi - mid) > (mid - lo):
                x = mid + gr * (hi - mid)
            else:
                x = mid - gr * (mid - lo)
            if x == mid or not (lo < x < hi):
                break
            vx = f(x)
            self.refined += 1
            extra.append((x, vx))
            if s * vx < 0:
                return extra, True
            if s * vx < s * vmid:
                if x > mid:
                    lo = mid
                else:
                    hi = mid
                mid, vmid = x, vx
            else:
                if x > mid:
                    hi = x
                else:
                    lo = x
            if hi - lo < 1e-9 * max(1.0, mid):
                break
        return extra, False

    def _run(self):
        orc = self.orc
        ts = self._grid()
        vs = [orc.zfast(t) for t in ts]
        self.grid = len(ts)
        pts = list(zip(ts, vs))
        # refinement: a local minimum of |Z| without sign change hides a pair of zeros
        add = []
        for i in range(1, len(pts) - 1):
            (t0, v0), (t1, v1), (t2, v2) = pts[i - 1], pts[i], pts[i + 1]
            if v0 == 0 or v1 == 0 or v2 == 0:
                continue
            s = 1 if v1 > 0 else -1
            if (v0 > 0) == (v1 > 0) == (v2 > 0) and abs(v1) < abs(v0) and abs(v1) <= abs(v2):
                extra, found = self._minimise(s, t0, t1, t2, v1)
                add.extend(extra)
                if not found:
                    self.unresolved.append((t1, min([abs(v1)] + [abs(v) for _, v in extra])))
        if add:
            pts = sorted(set(pts + add))
        # runs of constant fp sign -> representative with the largest |Z| -> trusted sign
        out = []
        i, n = 0, len(pts)
        while i < n:
            j = i
            sg = pts[i][1] > 0
            while j + 1 < n and (pts[j + 1][1] > 0) == sg and pts[j + 1][1] != 0:
                j += 1
            run = [p for p in pts[i:j + 1] if self.a <= p[0] <= self.b]
            if run:
                run.sort(key=lambda p: -abs(p[1]))
                ok = False
                for t, v in run[:3]:
                    s = orc.zsign(t)
                    if s is not None and (s > 0) == sg:
                        out.append((t, s))
                        ok = True
                        break
                if not ok:
                    self.untrusted_runs += 1
            i = j + 1
        # block ends
        for t in (self.a, self.b):
            if not any(p[0] == t for p in out):
                s = orc.zsign(t)
                if s is not None:
                    out.append((t, s))
        out.sort()
        self.points = out

    def changes(self):
        return count_changes(self.points)


def count_changes(points):
    c = 0
    for i in range(1, len(points)):
        if points[i][1] != points[i - 1][1]:
            c += 1
    return c
