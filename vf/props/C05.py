"""C05 -- comparisons are exact and equal numbers hash equally.

Observed: <, <=, >, >=, ==, != between mpf and mpf/int/float in both operand orders, ==/!= between mpc/mpf and
mpc/mpf/complex/int/float, hash() of mpf/mpc objects that are equal to an int/float/complex/mpf/mpc, and dict/set
look-ups through equal keys of different type.
Oracle: exact comparison of the exact values (exactq); CPython's own hash of the equal int/float/complex
(and exactq.pyhash, an independent implementation of the numeric-hash rule, for values no builtin can hold)."""
import math
from vf import exactq as Q
from vf import gens as G
from vf import exact_extra as X

PROP = 'C05'
LEVEL = 'exploration'
RULE = ('seeded stratified generation: relation kind x right-hand type x operand-shape class; a comparison case is non-trivial '
        'when the operands are special, have the same leading-bit position (so that mantissas decide) or are equal; a hash case '
        'is non-trivial when the two objects are equal and of different type (or mpf vs mpc); distinct = distinct (kind, operands, type)')
ASSUMPTIONS = ['exactq.cmp (integer comparison after alignment) is correct; CPython\'s hash of int/float/complex is the reference',
               'operands are injected exactly through ctx.make_mpf/make_mpc (raw tuples)',
               'nan hashes are not compared (nan is unequal to everything)']
SHARD_TIMEOUT = {'quick': 600, 'thorough': 3600}
LEVEL_TEXT = ('exploration: ~5*10^5 (quick) / ~6*10^6 (thorough) generated pairs; every ordering/equality result compared with the exact '
              'relation, every pair of equal numbers of different type compared by hash and used as interchangeable dict/set keys')
LEVEL_NOTE = 'trusted base: vf/exactq.py comparison + CPython hash(); inputs not generated are not covered'
TECHNIQUE = 'runtime reference-model monitor: exact-relation oracle on comparisons, hash-contract monitor on equal pairs'

CASES = {'quick': 14000, 'thorough': 170000}
_BIG = 0.0              # share of precisions drawn from the 2500..3500 list (thorough tier only)
KINDS = ['cmp-mpf', 'cmp-int', 'cmp-float', 'cmp-sametop', 'cmp-equal', 'cmp-special', 'cmp-bigint', 'eq-complex',
         'cmp-ctxprec-float', 'cmp-ctxprec-int', 'cmp-ctxprec-mpf',
         'hash-int', 'hash-float', 'hash-complex', 'hash-mpc-real', 'hash-minus1', 'hash-special', 'hash-hugeexp']
HP = Q._HP


def shards(tier, seed):
    return [{'n': CASES[tier]} for _ in range(16)]


def _mp():
    import mpmath
    return mpmath.mp


# ---------------------------------------------------------------------------------------
# exact relation
# ---------------------------------------------------------------------------------------

def ext_cmp(a, b):
    """three-way comparison on the extended reals; None if unordered (nan)"""
    if a == Q.NAN or b == Q.NAN:
        return None
    if Q.is_special(a) or Q.is_special(b):
        ra = {Q.PINF: 2, Q.NINF: -2}.get(a, 0) if Q.is_special(a) else 0
        rb = {Q.PINF: 2, Q.NINF: -2}.get(b, 0) if Q.is_special(b) else 0
        return (ra > rb) - (ra < rb)
    return Q.cmp(a, b)


def expected_ops(c):
    if c is None:
        return {'<': False, '<=': False, '>': False, '>=': False, '==': False, '!=': True}
    return {'<': c < 0, '<=': c <= 0, '>': c > 0, '>=': c >= 0, '==': c == 0, '!=': c != 0}


def do_ops(x, y):
    return {'<': x < y, '<=': x <= y, '>': x > y, '>=': x >= y, '==': x == y, '!=': x != y}


def cmp_path(a, b):
    """mechanism key part: which documented stage of the comparison decides"""
    if not a[1] or not b[1]:
        return 'zero-or-special'
    if a[0] != b[0]:
        return 'different-sign'
    if a[2] == b[2]:
        return 'same-exponent'
    if a[2] + a[3] != b[2] + b[3]:
        return 'different-leading-bit'
    return 'same-leading-bit-subtraction'


def to_ex(ty, v):
    if ty == 'mpf':
        return Q.from_raw(v)
    if ty == 'int':
        return Q.from_int(v)
    return Q.from_float(v)


def check_cmp(mp, rec, cell, a, ty, v, braw=None):
    """a raw (left, mpf); right operand of type ty with value v (raw for mpf)"""
    A, B = Q.from_raw(a), to_ex(ty, v)
    c = ext_cmp(A, B)
    exp = expected_ops(c)
    x = mp.make_mpf(a)
    y = mp.make_mpf(v) if ty == 'mpf' else v
    got = do_ops(x, y)
    # reflected: y on the left
    cr = None if c is None else -c
    exp_r = expected_ops(cr)
    got_r = do_ops(y, x)
    if braw is None and ty == 'mpf':
        braw = v
    path = cmp_path(a, braw) if braw is not None else 'other'
    nontrivial = c is None or c == 0 or path in ('same-leading-bit-subtraction', 'zero-or-special', 'same-exponent')
    ctxp = CTX['prec']
    longer = (a[3] > ctxp) or (braw is not None and braw[3] > ctxp)
    rec.case((cell, X.rid(a), ty, repr(v) if ty != 'mpf' else X.rid(v), ctxp), nontrivial or longer,
             cls='%s/%s/%s%s' % (cell, ty, path, '/operand-longer-than-context-prec' if longer else ''))
    case = {'kind': 'cmp', 'a': a, 'type': ty, 'b': v if ty == 'mpf' else repr(v), 'braw': braw, 'ctx_prec': ctxp}
    rec.sample(case)
    if c is not None:
        # trichotomy monitor: exactly one of <, ==, > (independent of the oracle's value)
        for g, side in ((got, 'mpf op y'), (got_r, 'y op mpf')):
            if (g['<'] is True) + (g['=='] is True) + (g['>'] is True) != 1 or g['<='] is not (g['<'] or g['==']) \
                    or g['>='] is not (g['>'] or g['==']) or g['!='] is (g['==']):
                rec.violation('C05/trichotomy/%s/%s' % (ty, path), 'comparison operators are mutually inconsistent (%s)' % side, case,
                              g, 'exactly one of <, ==, >')
    for g, e, side in ((got, exp, 'mpf op y'), (got_r, exp_r, 'y op mpf')):
        bad = [k for k in e if g[k] is not e[k]]
        if bad:
            rec.violation('C05/cmp/%s/%s' % (ty, path), 'comparison %s (%s) disagrees with the exact relation' % (bad, side), case,
                          {k: g[k] for k in bad}, {k: e[k] for k in bad})


# ---------------------------------------------------------------------------------------
# hashes
# ---------------------------------------------------------------------------------------

def hash_key_mpf(a):
    sign, man, exp, bc = a
    if not man:
        return 'C05/hash/mpf/zero-or-special'
    return 'C05/hash/mpf/%s-exponent%s' % ('negative' if exp < 0 else 'nonnegative', '/negative-value' if sign else '')


def ref_hash_real(a):
    """hash of the exact real value by the CPython numeric-hash rule (independent implementation)"""
    return Q.pyhash(Q.from_raw(a))


def raw_component_hash(a):
    """the numeric hash of a real *before* CPython's final -1 -> -2 substitution"""
    if not a[1]:
        return ref_hash_real(a)
    h = Q.pyhash(Q.from_raw((0, a[1], a[2], a[3])))      # of |x|: never negative
    return -h if a[0] else h


def hash_key_mpc(z):
    """mechanism partition fixed a priori from CPython's documented complex-hash rule:
    (1) the wrapped combination is negative as a signed machine word, (2) a component hash is -1 (CPython stores -2), (3) neither"""
    hr, hi = ref_hash_real(z[0]), ref_hash_real(z[1])
    if hr is None or hi is None:
        return 'C05/hash/mpc/nan'
    comb = (hr + X._IMAG * hi) % (1 << X._W)
    if comb >= 1 << (X._W - 1):
        return 'C05/hash/mpc/signed-combined-negative'
    if raw_component_hash(z[0]) == -1 or raw_component_hash(z[1]) == -1:
        return 'C05/hash/mpc/component-hash-minus-one'
    return 'C05/hash/mpc/other'


def check_equal_pair(mp, rec, cell, xo, xdesc, xkey, yo, ydesc, ykey, ident, want_equal=True):
    """xo, yo objects that are mathematically equal: must compare equal, hash equal, and be interchangeable as keys"""
    rec.case(ident, True, cls='%s/%s~%s' % (cell, xdesc, ydesc))
    case = {'kind': 'hash', 'x': xdesc, 'y': ydesc, 'ident': ident}
    eq1, eq2 = (xo == yo), (yo == xo)
    if not (eq1 is True and eq2 is True):
        rec.violation('C05/eq/%s~%s' % (xdesc, ydesc), 'mathematically equal numbers do not compare equal', case, [eq1, eq2], [True, True])
        return
    hx, hy = hash(xo), hash(yo)
    if hx != hy:
        # attribute to the mp-object whose hash deviates from the builtin one (or to the mpc when both are mp objects)
        key = xkey if ykey is None else (ykey if xkey is None else (xkey if 'mpc' in xkey else ykey))
        rec.violation(key, 'equal numbers hash differently: hash(%s)=%d, hash(%s)=%d' % (xdesc, hx, ydesc, hy), case, hx, hy)
        return
    ok = True
    try:
        d = {xo: 'v'}
        ok = (d[yo] == 'v') and (yo in {xo}) and (xo in {yo: 1}) and len({xo, yo}) == 1
    except KeyError:
        ok = False
    if not ok:
        rec.violation('C05/dict/%s~%s' % (xdesc, ydesc), 'equal numbers are not interchangeable as dict/set keys', case, False, True)


def hash_cases_real(mp, rec, cell, a, allow_int=True):
    """all equal representations of the real raw value a"""
    x = mp.make_mpf(a)
    idb = (cell, X.rid(a))
    zc = mp.make_mpc((a, Q.fzero))
    check_equal_pair(mp, rec, cell, zc, 'mpc', hash_key_mpc((a, Q.fzero)), x, 'mpf', hash_key_mpf(a), idb + ('mpc-mpf',))
    n = X.as_int(a, 300000) if allow_int else None
    if n is not None:
        check_equal_pair(mp, rec, cell, x, 'mpf', hash_key_mpf(a), n, 'int', None, idb + ('int',))
        check_equal_pair(mp, rec, cell, zc, 'mpc', hash_key_mpc((a, Q.fzero)), n, 'int', None, idb + ('mpc-int',))
    f = X.as_float(a)
    if f is not None and f == f:
        check_equal_pair(mp, rec, cell, x, 'mpf', hash_key_mpf(a), f, 'float', None, idb + ('float',))
        check_equal_pair(mp, rec, cell, zc, 'mpc', hash_key_mpc((a, Q.fzero)), f, 'float', None, idb + ('mpc-float',))
        check_equal_pair(mp, rec, cell, zc, 'mpc', hash_key_mpc((a, Q.fzero)), complex(f, 0.0), 'complex', None, idb + ('mpc-complex',))
        check_equal_pair(mp, rec, cell, x, 'mpf', hash_key_mpf(a), complex(f, 0.0), 'complex', None, idb + ('mpf-complex',))
    # independent rule for values no builtin holds: observed, and asserted only through the mpf~mpc pair above
    ref = ref_hash_real(a)
    if ref is not None and n is None and f is None:
        rec.cls('observed/mpf-hash-%s-numeric-hash-rule' % ('matches' if hash(x) == ref else 'differs-from'))


def double_raw(r, kind=None):
    """a raw real that is exactly a double"""
    kind = kind or r.choice(['small-int', 'frac', 'wide', 'subnormal', 'big', 'neg-int', 'pow2'])
    s = r.randint(0, 1)
    if kind == 'small-int':
        return Q.canon(s, r.randint(1, 100), 0)
    if kind == 'neg-int':
        return Q.canon(1, r.randint(1, 1 << r.choice([3, 20, 52])), 0)
    if kind == 'frac':
        return Q.canon(s, G.mantissa(r, r.randint(1, 53)), -r.randint(1, 80))
    if kind == 'wide':
        return Q.canon(s, G.mantissa(r, r.randint(1, 53)), r.randint(-1074, 960))
    if kind == 'subnormal':
        b = r.randint(1, 20)
        return Q.canon(s, G.mantissa(r, b), -1074 + r.randint(0, 5))
    if kind == 'big':
        b = r.randint(1, 53)
        return Q.canon(s, G.mantissa(r, b), 1024 - b - r.randint(0, 3))
    return Q.canon(s, 1, r.randint(-1074, 1023))


def neg(t):
    return (1 - t[0], t[1], t[2], t[3]) if t[1] else t


# ---------------------------------------------------------------------------------------
CTX = {'prec': 53}


def run_case(mp, rec, r, i):
    """every case runs under its own context precision (comparisons, equality and hashes must not depend on it):
    half of the cases at 1..60 bits, the rest from the shared precision list"""
    kind = KINDS[i % len(KINDS)]
    p = G.pick_prec(r, big=(_BIG > 0 and r.random() < _BIG))
    if kind.startswith('cmp-ctxprec') or r.random() < 0.5:
        p = r.randint(1, 60)
    old = mp.prec
    CTX['prec'] = p
    try:
        mp.prec = p
        _run_case(mp, rec, r, kind, p)
    finally:
        mp.prec = old


def ctx_neighbours(r, v_ex, p):
    """raw reals within one rounding step of the exact value v at the context precision p: its roundings in the five modes,
    and the p-bit values one ulp beyond them"""
    t = Q.round_to(v_ex, p, r.choice(G.MODES))
    if not t[1]:
        return t
    k = r.random()
    if k < 0.6:
        return t
    # one unit in the last place (of the p-bit format) away
    sign, man, exp, bc = t
    sh = p - bc
    m2 = (int(man) << sh) + r.choice([-1, 1]) if sh >= 0 else int(man) + r.choice([-1, 1])
    if m2 <= 0:
        return t
    return Q.canon(sign, m2, exp - max(sh, 0))


def _run_case(mp, rec, r, kind, p):
    if kind == 'cmp-ctxprec-float':
        # a float with a full 53-bit mantissa (more bits than the context precision) against mpf values next to it
        b = Q.canon(r.randint(0, 1), G.mantissa(r, 53, r.choice(['rand', 'ones', 'pow2p1', 'lowones'])), r.randint(-60, 60) - 52)
        f = X.as_float(b)
        a = b if r.random() < 0.15 else ctx_neighbours(r, Q.from_raw(b), p)
        check_cmp(mp, rec, kind, a, 'float', f, b)
        return
    if kind == 'cmp-ctxprec-int':
        nb = r.choice([p + 1, p + 2, 2 * p + 3, 64, 65, 200])
        n = r.choice([-1, 1]) * (G.mantissa(r, nb) << r.choice([0, 0, 1, 5]))
        nr = Q.canon(1 if n < 0 else 0, abs(n), 0)
        a = nr if r.random() < 0.15 else ctx_neighbours(r, Q.from_int(n), p)
        check_cmp(mp, rec, kind, a, 'int', n, nr)
        return
    if kind == 'cmp-ctxprec-mpf':
        b = Q.canon(r.randint(0, 1), G.mantissa(r, r.choice([p + 1, p + 2, 2 * p + 1, 3 * p + 5, 120])), G.exponent(r, p, wild=False))
        a = b if r.random() < 0.15 else ctx_neighbours(r, Q.from_raw(b), p)
        if r.random() < 0.5:
            a, b = b, a
        check_cmp(mp, rec, kind, a, 'mpf', b)
        return
    if kind == 'cmp-mpf':
        a = G.raw_real(r, p, special=0.02)
        b = G.raw_real(r, p, special=0.02)
        if r.random() < 0.3:
            b = (a[0], b[1], b[2], b[3]) if b[1] else b
        check_cmp(mp, rec, kind, a, 'mpf', b)
    elif kind == 'cmp-int':
        a = G.raw_real(r, p, wild=False, special=0.02)
        A = Q.from_raw(a)
        if Q.is_special(A) or abs(a[2]) > 3000:
            n = r.randint(-10**6, 10**6)
        else:
            n = Q.floor_ex(A)
            n = (n.n << n.e if n.e >= 0 else n.n) + r.choice([-1, 0, 0, 1, 2])
        check_cmp(mp, rec, kind, a, 'int', n, Q.canon(1 if n < 0 else 0, abs(n), 0))
    elif kind == 'cmp-bigint':
        k = r.choice([1023, 1024, 1025, 2000, 5000])
        n = r.choice([-1, 1]) * ((1 << k) + r.choice([0, 1, -1, r.getrandbits(k)]))
        nr = Q.canon(1 if n < 0 else 0, abs(n), 0)
        how = r.random()
        if how < 0.3:
            a = nr
        elif how < 0.6:
            a = Q.round_to(Q.from_int(n), r.choice([p, 53, 24]), r.choice(G.MODES))
        else:
            a = Q.canon(nr[0], (abs(n) << 3) + r.choice([-1, 1]), -3)
        check_cmp(mp, rec, kind, a, 'int', n, nr)
    elif kind == 'cmp-float':
        how = r.random()
        if how < 0.08:
            f = r.choice([math.inf, -math.inf, math.nan, 0.0, -0.0])
            b = {math.inf: Q.finf, -math.inf: Q.fninf}.get(f, Q.fzero) if f == f else Q.fnan
        else:
            b = double_raw(r)
            f = X.as_float(b)
        how = r.random()
        if how < 0.3:
            a = b
        elif how < 0.6 and b[1]:
            k = r.choice([1, 5, 60, 200])
            a = Q.canon(b[0], (int(b[1]) << k) + r.choice([-1, 1]), b[2] - k)
        else:
            a = G.raw_real(r, p, special=0.05)
        check_cmp(mp, rec, kind, a, 'float', f, b)
    elif kind == 'cmp-sametop':
        # same sign, same leading-bit position, different exponents: the mantissas decide
        ba = G.mant_bits(r, p)
        ma = G.mantissa(r, ba)
        e = G.exponent(r, p)
        s = r.randint(0, 1)
        a = Q.canon(s, ma, e)
        how = r.random()
        if how < 0.35:
            k = r.choice([1, 2, 7, p, 3 * p, 1000, 20000])
            b = Q.canon(s, (ma << k) + r.choice([-1, 1]) * r.choice([1, 1, G.mantissa(r, max(1, k // 2))]), e - k)
        elif how < 0.7:
            bb = max(1, G.mant_bits(r, p))
            mb = G.mantissa(r, bb)
            b = Q.canon(s, mb, e + ba - bb)
        else:
            # b = a truncated (shorter mantissa, larger exponent)
            k = r.randint(1, max(1, ba - 1))
            mb = (ma >> k) | 1 if (ma >> k) else 1
            b = Q.canon(s, mb, e + k)
        if r.random() < 0.5:
            a, b = b, a
        check_cmp(mp, rec, kind, a, 'mpf', b)
    elif kind == 'cmp-equal':
        a = G.raw_real(r, p, special=0.05)
        ty = r.choice(['mpf', 'int', 'float'])
        if ty == 'int':
            n = X.as_int(a, 5000)
            if n is None:
                a = Q.canon(r.randint(0, 1), G.mantissa(r, r.randint(1, 200)), r.choice([0, 0, 1, 61, 62, 122, 1000]))
                n = X.as_int(a, 5000)
            check_cmp(mp, rec, kind, a, 'int', n, a)
        elif ty == 'float':
            f = X.as_float(a)
            if f is None or f != f:
                a = double_raw(r)
                f = X.as_float(a)
            check_cmp(mp, rec, kind, a, 'float', f, a)
        else:
            check_cmp(mp, rec, kind, a, 'mpf', a)
    elif kind == 'cmp-special':
        a = r.choice(G.SPECIALS) if r.random() < 0.7 else G.raw_real(r, p)
        ty = r.choice(['mpf', 'float', 'int'])
        if ty == 'mpf':
            b = r.choice(G.SPECIALS) if r.random() < 0.7 else G.raw_real(r, p)
            check_cmp(mp, rec, kind, a, 'mpf', b)
        elif ty == 'float':
            f = r.choice([math.inf, -math.inf, math.nan, 0.0, -0.0, 1.5, -2.0])
            check_cmp(mp, rec, kind, a, 'float', f)
        else:
            check_cmp(mp, rec, kind, a, 'int', r.choice([0, 1, -1, 10**30, -10**30]))
    elif kind == 'eq-complex':
        check_eq_complex(mp, rec, r, kind, p)
    elif kind == 'hash-int':
        k = r.choice([0, 0, 1, 30, 60, 61, 62, 63, 64, 121, 122, 123, 1000, 5000, 100000 if r.random() < 0.05 else 183])
        a = Q.canon(r.randint(0, 1), G.mantissa(r, r.choice([1, 2, 10, 53, 61, 62, 100, 200])), k)
        hash_cases_real(mp, rec, kind, a)
    elif kind == 'hash-float':
        hash_cases_real(mp, rec, kind, double_raw(r))
    elif kind == 'hash-minus1':
        # values whose reduced hash is 0, 1, -1 (-> -2), P-1, ... : multiples of P = 2^61-1 plus small offsets
        m = r.choice([1, 2, 3, r.randint(1, 1 << 40)]) * HP + r.choice([-2, -1, 0, 1, 2])
        n = r.choice([-1, 1]) * m
        if r.random() < 0.2:
            n = r.choice([-1, -2, 1, 2, -HP, HP, -HP - 1, HP + 1, -(1 << 61), 1 << 61])
        a = Q.canon(1 if n < 0 else 0, abs(n), r.choice([0, 0, 61, 122]))
        hash_cases_real(mp, rec, kind, a)
        if r.random() < 0.5:
            # also as imaginary part / both parts
            f1, f2 = double_raw(r, 'small-int'), double_raw(r, 'neg-int')
            z = r.choice([(Q.fzero, a), (a, a), (a, neg(a)), (f1, f2), (f2, f1)])
            hash_cases_complex(mp, rec, kind, z)
    elif kind == 'hash-complex':
        z = (double_raw(r), double_raw(r))
        if r.random() < 0.3:
            z = (r.choice([Q.fzero, z[0]]), z[1]) if r.random() < 0.5 else (z[0], Q.fzero)
        hash_cases_complex(mp, rec, kind, z)
    elif kind == 'hash-mpc-real':
        a = G.raw_real(r, p, special=0, zero=0.05)
        hash_cases_real(mp, rec, kind, a, allow_int=(abs(a[2]) < 10000))
    elif kind == 'hash-special':
        a = r.choice([Q.finf, Q.fninf, Q.fzero])
        hash_cases_real(mp, rec, kind, a)
        z = (r.choice([Q.finf, Q.fninf, Q.fzero, double_raw(r)]), r.choice([Q.finf, Q.fninf, Q.fzero, double_raw(r)]))
        hash_cases_complex(mp, rec, kind, z)
    elif kind == 'hash-hugeexp':
        a = Q.canon(r.randint(0, 1), G.mantissa(r, r.choice([1, 3, 53, 100])), r.choice(G.BIG_EXPS) + r.randint(-70, 70))
        hash_cases_real(mp, rec, kind, a, allow_int=(0 <= a[2] < 2 * 10**6 and r.random() < 0.02))


def hash_cases_complex(mp, rec, cell, z):
    zc = mp.make_mpc(z)
    fa, fb = X.as_float(z[0]), X.as_float(z[1])
    idb = (cell, X.rid(z[0]), X.rid(z[1]))
    if fa is not None and fb is not None and fa == fa and fb == fb:
        check_equal_pair(mp, rec, cell, zc, 'mpc', hash_key_mpc(z), complex(fa, fb), 'complex', None, idb + ('complex',))
    else:
        hr, hi = ref_hash_real(z[0]), ref_hash_real(z[1])
        if hr is not None and hi is not None:
            rec.cls('observed/mpc-hash-%s-complex-hash-rule' % ('matches' if hash(zc) == X.complex_hash_ref(hr, hi) else 'differs-from'))


def check_eq_complex(mp, rec, r, cell, p):
    def part():
        x = r.random()
        if x < 0.08:
            return r.choice([Q.finf, Q.fninf, Q.fnan])
        if x < 0.25:
            return Q.fzero
        if x < 0.6:
            return double_raw(r)
        return G.raw_real(r, p, special=0, zero=0)
    z = (part(), part())
    how = r.choice(['same', 'same', 'lastbit', 'other', 'swap', 'negim', 'zeroim'])
    w = z
    if how == 'lastbit':
        i = r.randint(0, 1)
        t = z[i]
        if t[1]:
            k = r.choice([1, p, p + 1, 200])
            t2 = Q.canon(t[0], (int(t[1]) << k) + r.choice([-1, 1]), t[2] - k)
            w = (t2, z[1]) if i == 0 else (z[0], t2)
    elif how == 'other':
        w = (part(), part())
    elif how == 'swap':
        w = (z[1], z[0])
    elif how == 'negim':
        w = (z[0], neg(z[1]) if z[1][1] else z[1])
    elif how == 'zeroim':
        z = (z[0], Q.fzero)
        w = z
    lt = r.choice(['mpc', 'mpc', 'mpf']) if z[1] == Q.fzero else 'mpc'
    x = mp.make_mpc(z) if lt == 'mpc' else mp.make_mpf(z[0])
    cands = ['mpc']
    fa, fb = X.as_float(w[0]), X.as_float(w[1])
    if fa is not None and fb is not None:
        cands.append('complex')
    if w[1] == Q.fzero:
        cands.append('mpf')
        if fa is not None:
            cands.append('float')
        if X.as_int(w[0], 5000) is not None:
            cands.append('int')
    ty = r.choice(cands)
    if ty == 'mpc': y = mp.make_mpc(w)
    elif ty == 'complex': y = complex(fa, fb)
    elif ty == 'mpf': y = mp.make_mpf(w[0])
    elif ty == 'float': y = fa
    else: y = X.as_int(w[0], 5000)
    nan = Q.fnan in z or Q.fnan in w
    want = (z == w) and not nan
    got = {'==': x == y, '!=': x != y, 'r==': y == x, 'r!=': y != x}
    exp = {'==': want, '!=': not want, 'r==': want, 'r!=': not want}
    rec.case((cell, X.rid(z[0]), X.rid(z[1]), X.rid(w[0]), X.rid(w[1]), lt, ty), how != 'other' or nan, cls='%s/%s~%s/%s' % (cell, lt, ty, how))
    bad = [k for k in exp if got[k] is not exp[k]]
    if bad:
        rec.violation('C05/eq-complex/%s~%s%s' % (lt, ty, '/nan' if nan else ''), 'complex equality %s disagrees with exact componentwise equality' % bad,
                      {'kind': 'eq-complex', 'z': z, 'w': w, 'left': lt, 'right': ty}, {k: got[k] for k in bad}, {k: exp[k] for k in bad})


def run_shard(shard, rec):
    global _BIG
    if shard.get('tier') == 'thorough':
        _BIG = 0.12
    mp = _mp()
    r = G.rng(PROP, shard['seed'], shard['shard'])
    from vf.instrument import AnchorCount
    with AnchorCount(rec, ['mpmath.libmp.libmpf:mpf_cmp', 'mpmath.libmp.libmpf:mpf_hash', 'mpmath.libmp.libmpc:mpc_hash',
                           'mpmath.libmp.libmpf:mpf_sub',
                           'mpmath.ctx_mp_python:_mpc.__eq__', 'mpmath.ctx_mp_python:_mpf._cmp']):
        base = shard['shard'] * 1009
        for k in range(shard['n']):
            run_case(mp, rec, r, base + k)
    rec.event('relations / hash pairs compared with the exact relation', rec.evals)


def required(agg, tier):
    miss = []
    cl = agg['classes']
    for kind in KINDS:
        if not any(k.startswith(kind + '/') for k in cl):
            miss.append('no %s case observed' % kind)
    if not any('same-leading-bit-subtraction' in k for k in cl):
        miss.append('subtraction fallback of the comparison never exercised')
    for pair in ('mpf~int', 'mpf~float', 'mpc~complex', 'mpc~mpf', 'mpc~int'):
        if not any(k.endswith('/' + pair) for k in cl):
            miss.append('no equal pair %s hashed' % pair)
    return miss


def replay(case, rec):
    mp = _mp()
    from vf.core import unjson_int
    c = case['case']

    def raw(t):
        return (int(t[0]), unjson_int(t[1]), unjson_int(t[2]), int(t[3]))
    if c.get('kind') == 'cmp':
        CTX['prec'] = int(c.get('ctx_prec', 53))
        mp.prec = CTX['prec']
        a = raw(c['a'])
        ty = c['type']
        if ty == 'mpf':
            check_cmp(mp, rec, 'replay', a, 'mpf', raw(c['b']))
        elif ty == 'int':
            check_cmp(mp, rec, 'replay', a, 'int', int(c['b']), raw(c['braw']) if c.get('braw') else None)
        else:
            check_cmp(mp, rec, 'replay', a, 'float', float(c['b']), raw(c['braw']) if c.get('braw') else None)
    elif c.get('kind') == 'hash':
        idt = c['ident']
        cell = idt[0]
        if len(idt) == 3:          # real value
            t = idt[1]
            a = Q.canon(int(t[0]), unjson_int(t[1]), unjson_int(t[2]))
            if not unjson_int(t[1]):
                a = {0: Q.fzero, -456: Q.finf, -789: Q.fninf}.get(unjson_int(t[2]), Q.fnan)
            hash_cases_real(mp, rec, 'replay', a)
        else:
            def part(t):
                if not unjson_int(t[1]):
                    return {0: Q.fzero, -456: Q.finf, -789: Q.fninf}.get(unjson_int(t[2]), Q.fnan)
                return Q.canon(int(t[0]), unjson_int(t[1]), unjson_int(t[2]))
            hash_cases_complex(mp, rec, 'replay', (part(idt[1]), part(idt[2])))
    else:
        rec.undecided('replay of %s cases re-runs the seeded shard instead' % c.get('kind'))
