"""C16 -- interval comparisons are sound three-valued predicates.

Observed: results of  <  <=  >  >=  ==  !=  and  ``in``  between iv.mpf intervals and between intervals and numbers
(int, float, mp.mpf, decimal string; number on either side), read back from the real operators.
Oracle: (1) on a 7-value endpoint grid (incl. +-inf) the *definition*: the relation is evaluated for every pair of
member points on a refined lattice (grid values + one point strictly between neighbours), True/False/None by
all/none/some; membership by set inclusion.  (2) for random big endpoints the endpoint formulas over exact rational
comparison (vf/exactq.cmp); the formulas are themselves cross-checked against (1) on the whole grid in every worker."""
import functools
from vf import exactq as Q
from vf import gens as G

PROP = 'C16'
LEVEL = 'exploration'
EXHAUSTIVE = True
RULE = ('two parts. (a) EXHAUSTIVE sub-space (the "exhaustive: true" flag refers to this part only): every ordered pair of '
        'intervals with endpoints in the 7-value grid {-inf,-3,-1/2,0,1,5/2,+inf} (28 intervals incl. point intervals, '
        '784 pairs, each built from raw endpoints and through the iv.mpf([a,b]) constructor) and every (interval, grid number) '
        'pair with the number given as int/float/mp.mpf/str on either side, under all 7 operators; the enumeration is split '
        'over the shards and required() verifies that the number of enumerated cases equals the size of the space. '
        '(b) seeded random cases: endpoints are raw reals with 1..5000-bit mantissas and exponents up to +-10^18, +-inf, '
        'forced equal / adjacent endpoints (touching, nested, identical, point), number operands exactly representable. '
        '(c) float / int / decimal-string numbers that are NOT representable at iv.prec (iv.prec in 5..60 and 100) against intervals whose '
        'endpoints are the neighbours of the number at iv.prec, both operand orders: accepted are the verdict for the exact number or None '
        '(order relations), the verdict for the exact number or for its outward enclosure (== != in). '
        'A case is non-trivial unless the operands are strictly disjoint with four finite endpoints; '
        'distinct = distinct (operator, left operand, right operand, construction route)')
ASSUMPTIONS = ['intervals are closed sets of extended reals (an infinite endpoint is a member point), as in the endpoint tests of the code and docs',
               'exactq.cmp (Python int comparison) is correct; the finite lattice decides the definition because the relations depend on order only',
               'a number operand denotes the single exact number; the code converts it to its outward enclosure first, which may only weaken True/False to None',
               'Fraction/mpq operands, which the interval context cannot convert, are observed, not asserted']
LEVEL_TEXT = ('exhaustive over the 7-value endpoint grid (definition evaluated over member points) + exploration: ~10^6 (quick) / '
              '~10^7 (thorough) random big-endpoint comparisons decided by exact rational comparison of endpoints')
LEVEL_NOTE = 'exhaustive only for the stated grid sub-space; elsewhere held on what was generated; trusted base vf/exactq.cmp'
TECHNIQUE = 'runtime reference-model monitor: every observed comparison result decided from the definition / exact endpoint comparison'

NSHARDS = 16
RANDOM = {'quick': 5000, 'thorough': 50000}
OPS = ['<', '<=', '>', '>=', '==', '!=', 'in']
OPNAME = {'<': 'lt', '<=': 'le', '>': 'gt', '>=': 'ge', '==': 'eq', '!=': 'ne', 'in': 'in'}

fz, finf, fninf = Q.fzero, Q.finf, Q.fninf
GRID = [fninf, (1, 3, 0, 2), (1, 1, -1, 1), fz, (0, 1, 0, 1), (0, 5, -1, 3), finf]
GRID_STR = ['-inf', '-3', '-0.5', '0', '1', '2.5', 'inf']
GRID_INT = [None, -3, None, 0, 1, None, None]
GRID_FLOAT = [float('-inf'), -3.0, -0.5, 0.0, 1.0, 2.5, float('inf')]


def shards(tier, seed):
    return [{'n': RANDOM[tier]} for _ in range(NSHARDS)]


# ---------------------------------------------------------------------------------------
# oracle 1: the definition on a lattice
# ---------------------------------------------------------------------------------------
import operator as _op
_REL = {'<': _op.lt, '<=': _op.le, '>': _op.gt, '>=': _op.ge}


def lattice_members(i, j):
    """member points of [GRID[i], GRID[j]] on the refined lattice: grid value k -> rank 2k, a point strictly between
    grid values k and k+1 -> rank 2k+1"""
    return range(2 * i, 2 * j + 1)


def definition(op, S, T):
    """S, T = (i, j) grid index pairs.  Result by the definition over member points."""
    s, t = lattice_members(*S), lattice_members(*T)
    if op in _REL:
        f = _REL[op]
        seen = set()
        for x in s:
            for y in t:
                seen.add(f(x, y))
        if seen == {True}:
            return True
        if seen == {False}:
            return False
        return None
    if op == 'in':
        return set(s) <= set(t)
    same = (S == T)
    return same if op == '==' else (not same)


# ---------------------------------------------------------------------------------------
# oracle 2: endpoint formulas over exact comparison
# ---------------------------------------------------------------------------------------
def _val(a):
    return Q.from_raw(a) if isinstance(a, tuple) else a


def cmpx(a, b):
    """exact three-way comparison of two extended reals given as raw tuples or exact values (Ex, possibly rational; no nan)"""
    A, B = _val(a), _val(b)
    ra = {Q.NINF: -1, Q.PINF: 1}.get(A, 0) if Q.is_special(A) else 0
    rb = {Q.NINF: -1, Q.PINF: 1}.get(B, 0) if Q.is_special(B) else 0
    if Q.is_special(A) or Q.is_special(B):
        if A == Q.NAN or B == Q.NAN:
            raise ValueError('nan endpoint')
        if Q.is_special(A) and Q.is_special(B):
            return (ra > rb) - (ra < rb)
        return ra if Q.is_special(A) else -rb
    return Q.cmp(A, B)


def formula(op, s, t):
    (sa, sb), (ta, tb) = s, t
    if op == '<':
        if cmpx(sb, ta) < 0: return True
        if cmpx(sa, tb) >= 0: return False
        return None
    if op == '<=':
        if cmpx(sb, ta) <= 0: return True
        if cmpx(sa, tb) > 0: return False
        return None
    if op == '>':
        return formula('<', t, s)
    if op == '>=':
        return formula('<=', t, s)
    if op == 'in':
        return cmpx(ta, sa) <= 0 and cmpx(sb, tb) <= 0
    same = cmpx(sa, ta) == 0 and cmpx(sb, tb) == 0
    return same if op == '==' else not same


def config(s, t):
    """a-priori partition of the relative position of two intervals"""
    (sa, sb), (ta, tb) = s, t
    ps, pt = cmpx(sa, sb) == 0, cmpx(ta, tb) == 0
    if cmpx(sa, ta) == 0 and cmpx(sb, tb) == 0:
        return 'identical-point' if ps else 'identical'
    c1, c2 = cmpx(sb, ta), cmpx(tb, sa)
    if c1 < 0 or c2 < 0:
        return 'disjoint'
    if c1 == 0 or c2 == 0:
        if ps or pt:
            return 'point-on-endpoint'
        return 'touching'
    # proper overlap of interiors (or a point strictly inside)
    a, b = cmpx(sa, ta), cmpx(sb, tb)
    if (a >= 0 and b <= 0) or (a <= 0 and b >= 0):
        if ps or pt:
            return 'point-inside'
        return 'nested-shared-endpoint' if (a == 0 or b == 0) else 'nested'
    return 'overlap'


def selfcheck():
    """formulas == definition on the whole grid (harness consistency; raises on mismatch)"""
    n = 0
    ivs = [(i, j) for i in range(7) for j in range(i, 7)]
    for S in ivs:
        for T in ivs:
            s = (GRID[S[0]], GRID[S[1]]); t = (GRID[T[0]], GRID[T[1]])
            for op in OPS:
                if definition(op, S, T) != formula(op, s, t):
                    raise AssertionError('harness oracle mismatch %r %r %r' % (op, S, T))
                n += 1
    return n


# ---------------------------------------------------------------------------------------
# operands
# ---------------------------------------------------------------------------------------
def _ctx():
    import mpmath
    return mpmath.mp, mpmath.iv


class Inexact(object):
    """a number operand that is not representable at iv.prec: its exact value and its outward enclosure at iv.prec"""

    def __init__(self, exact, enclosure):
        self.exact = exact
        self.enclosure = enclosure

    def point(self):
        return (self.exact, self.exact)


def build(mp, iv, d):
    """operand description -> (object, kind label, exact endpoints (raw, raw) | Inexact)"""
    k = d['kind']
    if k == 'iv':
        a, b = tuple(d['a']), tuple(d['b'])
        if d.get('via') == 'ctor':
            x = iv.mpf([mp.make_mpf(a), mp.make_mpf(b)])
        else:
            x = iv.make_mpf((a, b))
        got = x._mpi_
        return x, 'iv', (tuple(got[0]), tuple(got[1]))
    if k == 'mpf':
        raw = tuple(d['raw'])
        return mp.make_mpf(raw), 'mpf', (raw, raw)
    if k in ('int', 'float', 'str'):
        v = d['v']
        if k == 'int':
            E = Q.Ex(v)
        elif k == 'float':
            E = Q.from_float(v)
        else:
            E = Q.parse_decimal(v)
        if Q.is_special(E):
            raw = Q.raw_of_special(E)
            return v, k, (raw, raw)
        if Q.fits(E, iv.prec):
            raw = Q.exact_raw(E)
            return v, k, (raw, raw)
        # not representable at iv.prec: exact value + the outward-rounded enclosure the documented conversion produces
        return v, k, Inexact(E, (Q.round_to(E, iv.prec, 'f'), Q.round_to(E, iv.prec, 'c')))
    raise ValueError(k)


def apply(op, x, y):
    if op == '<': return x < y
    if op == '<=': return x <= y
    if op == '>': return x > y
    if op == '>=': return x >= y
    if op == '==': return x == y
    if op == '!=': return x != y
    return x in y


def run_case(mp, iv, rec, desc, want=None, part='random'):
    """desc = {'op', 'l': operand, 'r': operand, 'prec'}; ``want`` may carry the definition-based expectation (grid part)"""
    op = desc['op']
    old = iv.prec
    iv.prec = desc['prec']
    try:
        x, kx, ex = build(mp, iv, desc['l'])
        y, ky, ey = build(mp, iv, desc['r'])
        kinds = kx + '-' + ky
        if isinstance(ex, Inexact) or isinstance(ey, Inexact):
            run_inexact(rec, desc, op, x, y, ex, ey, kinds)
            return
        if want is not None and (ex != want[1] or ey != want[2]):
            # construction did not give the intended grid interval: a harness/constructor matter, not a comparison verdict
            rec.undecided('grid operand not constructed exactly', desc)
            return
        exp = formula(op, ex, ey)
        if want is not None:
            exp_def = want[0]
            if exp_def is not exp and exp_def != exp:
                raise AssertionError('harness oracle mismatch')
            exp = exp_def
        cfg = config(ex, ey)
        inf_involved = any(e in (finf, fninf) for e in ex + ey)
        ident = (op, desc['l'], desc['r'])
        rec.case(repr(ident), cfg != 'disjoint' or inf_involved, cls='%s/%s/%s' % (OPNAME[op], exp, cfg))
        rec.cls('operands:' + kinds)
        rec.cls('part:' + part)
        rec.sample(desc)
        group = 'order' if op in _REL else ('in' if op == 'in' else 'eqne')
        try:
            got = apply(op, x, y)
        except Exception as e:
            rec.violation('C16/raises/%s/%s/%s' % (group, kinds, type(e).__name__),
                          'comparison %s between %s raises instead of returning a verdict' % (op, kinds), desc,
                          observed=repr(e), expected=exp)
            return
        if got is not exp and not (isinstance(got, bool) and isinstance(exp, bool) and got == exp):
            rec.violation('C16/%s/%s/%s' % (OPNAME[op], cfg, kinds),
                          'interval comparison %s gives %r, definition over member points gives %r (%s operands)' % (op, got, exp, cfg),
                          desc, observed=repr(got), expected=repr(exp))
    finally:
        iv.prec = old


def run_inexact(rec, desc, op, x, y, ex, ey, kinds):
    """a number operand that is not representable at iv.prec.  The statement speaks about member points: the member set of a
    number is the single exact number.  The code converts the number to the outward-rounded interval first, which can only turn
    a definite answer into None (always sound) -- and, for == / != / in, compares with that enclosure.  Accepted therefore:
      order relations   the verdict for the exact number, or None
      == != in          the verdict for the exact number, or the verdict for the outward enclosure at iv.prec
    anything else (a definite True/False that is wrong for the exact number and for its enclosure) is a violation."""
    px = ex.point() if isinstance(ex, Inexact) else ex
    py = ey.point() if isinstance(ey, Inexact) else ey
    cx = ex.enclosure if isinstance(ex, Inexact) else ex
    cy = ey.enclosure if isinstance(ey, Inexact) else ey
    exact_v = formula(op, px, py)
    encl_v = formula(op, cx, cy)
    if op in _REL:
        if encl_v is not None and encl_v is not exact_v:
            raise AssertionError('harness: enclosure verdict contradicts the exact verdict')
        accepted = [exact_v, None]
    else:
        accepted = [exact_v, encl_v]
    near = 'endpoint-within-enclosure' if any(cmpx(cx[0] if isinstance(ex, Inexact) else cy[0], e) <= 0 and cmpx(e, cx[1] if isinstance(ex, Inexact) else cy[1]) <= 0
                                               for e in (py if isinstance(ex, Inexact) else px)) else 'endpoints-elsewhere'
    rec.case(repr((op, desc['l'], desc['r'], desc['prec'])), True, cls='%s/inexact-number/%s/accept:%s' % (OPNAME[op], near, '|'.join(sorted(set(map(str, accepted))))))
    rec.cls('operands:' + kinds + ':inexact')
    rec.cls('part:inexact-number')
    group = 'order' if op in _REL else ('in' if op == 'in' else 'eqne')
    try:
        got = apply(op, x, y)
    except Exception as e:
        rec.violation('C16/raises/%s/%s/%s' % (group, kinds, type(e).__name__),
                      'comparison %s between %s raises instead of returning a verdict' % (op, kinds), desc, observed=repr(e), expected=repr(accepted))
        return
    if not any(got is a for a in accepted):
        rec.violation('C16/%s/inexact-number/%s' % (OPNAME[op], kinds),
                      'comparison %s with a number that is not representable at iv.prec gives %r; for the exact number it is %r (for its outward enclosure %r)'
                      % (op, got, exact_v, encl_v), desc, observed=repr(got), expected=' or '.join(map(repr, accepted)))


# ---------------------------------------------------------------------------------------
# (a) the exhaustive grid
# ---------------------------------------------------------------------------------------
def grid_cases():
    """deterministic enumeration of the whole grid sub-space -> (desc, (definition verdict, exact l, exact r))"""
    ivs = [(i, j) for i in range(7) for j in range(i, 7)]

    def ivd(I, via):
        return {'kind': 'iv', 'a': GRID[I[0]], 'b': GRID[I[1]], 'via': via}

    def nums(k):
        out = [{'kind': 'mpf', 'raw': GRID[k]}, {'kind': 'float', 'v': GRID_FLOAT[k]}, {'kind': 'str', 'v': GRID_STR[k]}]
        if GRID_INT[k] is not None:
            out.append({'kind': 'int', 'v': GRID_INT[k]})
        return out
    for S in ivs:
        es = (GRID[S[0]], GRID[S[1]])
        for T in ivs:
            et = (GRID[T[0]], GRID[T[1]])
            for op in OPS:
                w = definition(op, S, T)
                for via in ('raw', 'ctor'):
                    yield {'op': op, 'l': ivd(S, via), 'r': ivd(T, via), 'prec': 53}, (w, es, et)
        for k in range(7):
            P = (k, k)
            ep = (GRID[k], GRID[k])
            for nd in nums(k):
                for op in OPS:
                    # interval OP number
                    if op != 'in':
                        yield {'op': op, 'l': ivd(S, 'raw'), 'r': nd, 'prec': 53}, (definition(op, S, P), es, ep)
                    # number OP interval  (for 'in': number in interval)
                    yield {'op': op, 'l': nd, 'r': ivd(S, 'raw'), 'prec': 53}, (definition(op, P, S), ep, es)


_GRID_TOTAL = None


def grid_total():
    global _GRID_TOTAL
    if _GRID_TOTAL is None:
        _GRID_TOTAL = sum(1 for _ in grid_cases())
    return _GRID_TOTAL


# ---------------------------------------------------------------------------------------
# (b) random big-endpoint cases
# ---------------------------------------------------------------------------------------
def _value(r, p):
    while True:
        t = G.raw_real(r, p, special=0.08)
        if t != Q.fnan:
            return t


def _neighbour(r, t):
    """a value a tiny relative distance from finite nonzero t (differs far below its last bit)"""
    sign, man, exp, bc = t
    if not man:
        return (r.randint(0, 1), 1, -r.choice([1, 60, 2000, 10**6]), 1)
    k = r.choice([1, 2, 30, 200])
    return Q.canon(sign, (man << k) + r.choice([-1, 1]), exp - k)


def random_case(r):
    p = G.pick_prec(r)
    m = r.choice([1, 2, 2, 3, 3, 4, 4])
    vals = [_value(r, p) for _ in range(m)]
    if r.random() < 0.4:
        vals.append(_neighbour(r, r.choice(vals)))
    # distinct, sorted exactly
    uniq = []
    for v in sorted(vals, key=functools.cmp_to_key(cmpx)):
        if not uniq or cmpx(uniq[-1], v) != 0:
            uniq.append(v)
    n = len(uniq)

    def interval():
        i = r.randrange(n); j = r.randrange(n)
        if i > j:
            i, j = j, i
        return uniq[i], uniq[j]
    s, t = interval(), interval()
    via = 'ctor' if r.random() < 0.25 else 'raw'

    def opd(iv_):
        a, b = iv_
        if a == b and r.random() < 0.6:
            # a number instead of a point interval
            f = r.random()
            if f < 0.5:
                return {'kind': 'mpf', 'raw': a}
            sign, man, exp, bc = a
            if not man:
                if a == fz:
                    return {'kind': 'int', 'v': 0} if f < 0.75 else {'kind': 'float', 'v': 0.0}
                return {'kind': 'float', 'v': float('inf') if a == finf else float('-inf')} if f < 0.8 else \
                       {'kind': 'str', 'v': 'inf' if a == finf else '-inf'}
            v = G.as_python_number(r, a)
            if v is None or bc > p:
                return {'kind': 'mpf', 'raw': a}
            return {'kind': type(v).__name__, 'v': v}
        return {'kind': 'iv', 'a': a, 'b': b, 'via': via}
    l, rr = opd(s), opd(t)
    if l['kind'] != 'iv' and rr['kind'] != 'iv':
        rr = {'kind': 'iv', 'a': t[0], 'b': t[1], 'via': via}
    return l, rr, p


INEXACT_PRECS = list(range(5, 61)) + [100]
DECIMALS = ['0.1', '-0.1', '0.3', '3.3', '-2.675', '1e-5', '123456789.123', '0.7', '1.1', '-9.99', '2.5e10', '1e23', '0.000123', '-1e-9', '33.33', '0.2']


def inexact_case(r):
    """(left, right, prec): a float / int / decimal-string number that is NOT representable at iv.prec against an interval whose
    endpoints are the neighbours of the number at iv.prec (its outward enclosure, one step further out, the number itself)"""
    P = r.choice(INEXACT_PRECS)
    kind = r.choice(['float', 'float', 'int', 'int', 'str'])
    while True:
        if kind == 'float':
            if P >= 53:
                kind = 'int'
                continue
            m = ((1 << 52) | r.getrandbits(52) | 1) if r.random() < 0.7 else G.mantissa(r, r.randint(P + 1, 53))
            v = float(m) * 2.0 ** r.randint(-200, 100) * r.choice([1, -1])
            E = Q.from_float(v)
            nd = {'kind': 'float', 'v': v}
        elif kind == 'int':
            b = r.choice([P + 1, P + 2, 2 * P, 53, 54, 64, 200, P + r.randint(1, 40)])
            v = r.choice([1, -1]) * (G.mantissa(r, b) << r.choice([0, 0, 0, 1, 5]))
            E = Q.Ex(v)
            nd = {'kind': 'int', 'v': v}
        else:
            v = r.choice(DECIMALS)
            E = Q.parse_decimal(v)
            nd = {'kind': 'str', 'v': v}
        if not Q.fits(E, P):
            break
    xl, xh = Q.round_to(E, P, 'f'), Q.round_to(E, P, 'c')

    def step(t, up):
        sign, man, exp, bc = t
        # next P-bit neighbour away from / towards zero is found by +-1 in the last place of the P-bit mantissa
        m = man << (P - bc)
        e = exp - (P - bc)
        val = (-m if sign else m) + (1 if up else -1)
        return Q.canon(1 if val < 0 else 0, abs(val), e) if val else Q.fzero
    cands = [xl, xh, step(xl, False), step(xh, True), fninf, finf, step(step(xl, False), False), step(step(xh, True), True)]
    if E.d == 1:
        cands.append(Q.exact_raw(E))          # the number itself as an (over-long) endpoint
        cands.append(Q.exact_raw(Q.add(E, Q.Ex(r.choice([1, -1]), 1, E.e - 3))))
    uniq = []
    for v_ in sorted(cands, key=functools.cmp_to_key(cmpx)):
        if not uniq or cmpx(uniq[-1], v_) != 0:
            uniq.append(v_)
    w = [4 if c in (xl, xh) else 1 for c in uniq]
    i = r.choices(range(len(uniq)), w)[0]
    j = r.choices(range(len(uniq)), w)[0]
    if i > j:
        i, j = j, i
    ivd = {'kind': 'iv', 'a': uniq[i], 'b': uniq[j], 'via': 'raw'}
    return nd, ivd, P


def run_shard(shard, rec):
    mp, iv = _ctx()
    r = G.rng(PROP, shard['seed'], shard['shard'])
    rec.event('harness: formula oracle == definition oracle on grid (cases)', selfcheck())
    from vf.instrument import AnchorCount
    with AnchorCount(rec, ['mpmath.libmp.libmpi:mpi_lt', 'mpmath.libmp.libmpi:mpi_le', 'mpmath.libmp.libmpi:mpi_gt',
                           'mpmath.libmp.libmpi:mpi_ge', 'mpmath.libmp.libmpi:mpi_eq', 'mpmath.libmp.libmpi:mpi_ne',
                           'mpmath.ctx_iv:ivmpf.__contains__', 'mpmath.ctx_iv:ivmpf._compare']):
        # (a) this shard's slice of the exhaustive grid
        n = 0
        for i, (desc, want) in enumerate(grid_cases()):
            if i % NSHARDS == shard['shard']:
                run_case(mp, iv, rec, desc, want, part='grid')
                n += 1
        rec.event('grid cases enumerated', n)
        # (b) random
        for i in range(shard['n']):
            l, rr, p = random_case(r)
            for op in OPS:
                if op == 'in' and rr['kind'] != 'iv':
                    continue
                run_case(mp, iv, rec, {'op': op, 'l': l, 'r': rr, 'prec': p})
        # (c) numbers that are not representable at iv.prec, against intervals hugging them
        for i in range(shard['n'] // 2):
            nd, ivd, P = inexact_case(r)
            for op in OPS:
                run_case(mp, iv, rec, {'op': op, 'l': nd, 'r': ivd, 'prec': P})
                if op != 'in':
                    run_case(mp, iv, rec, {'op': op, 'l': ivd, 'r': nd, 'prec': P})
    rec.event('comparison results decided', rec.evals)
    # observed, not asserted: operand types the interval context cannot convert
    if shard['shard'] == 0:
        from fractions import Fraction
        a = iv.mpf([1, 2])
        from mpmath.rational import mpq
        for name, t in (('Fraction', Fraction(3, 2)), ('mpq', mpq(3, 2))):
            for op in ('<', '==', 'in'):
                try:
                    res = repr(apply(op, t, a))
                except Exception as e:
                    res = type(e).__name__
                rec.note('number types outside the envelope', {'expr': '%s(3/2) %s iv.mpf([1,2])' % (name, op), 'result': res})


def required(agg, tier):
    miss = []
    ev = agg['events']
    if ev.get('grid cases enumerated', 0) != grid_total():
        miss.append('exhaustive grid not fully enumerated: %d of %d cases' % (ev.get('grid cases enumerated', 0), grid_total()))
    if agg['classes'].get('part:grid', 0) != grid_total():
        miss.append('exhaustive grid: only %d of %d cases were decided' % (agg['classes'].get('part:grid', 0), grid_total()))
    for op in OPS:
        verdicts = ('True', 'False', 'None') if op in _REL else ('True', 'False')
        for v in verdicts:
            if not any(k.startswith('%s/%s/' % (OPNAME[op], v)) for k in agg['classes']):
                miss.append('no %s case with expected verdict %s observed' % (op, v))
    for cfg in ('touching', 'nested', 'identical', 'overlap', 'disjoint', 'point-on-endpoint', 'point-inside', 'nested-shared-endpoint'):
        if not any(k.endswith('/' + cfg) for k in agg['classes']):
            miss.append('no %s configuration observed' % cfg)
    if not agg['classes'].get('part:inexact-number'):
        miss.append('no comparison with a number that is not representable at iv.prec')
    for k in ('float', 'int', 'str'):
        for side in ('%s-iv:inexact', 'iv-%s:inexact'):
            if not agg['classes'].get('operands:' + side % k):
                miss.append('no inexact-number case with operands ' + side % k)
    if not any('/inexact-number/endpoint-within-enclosure/' in c for c in agg['classes']):
        miss.append('no inexact-number case with an interval endpoint inside the enclosure of the number')
    if not agg['classes'].get('part:random'):
        miss.append('no random big-endpoint case')
    return miss


# ---------------------------------------------------------------------------------------
def _unjson_operand(d):
    from vf.core import unjson_int

    def raw(t):
        return (int(t[0]), unjson_int(t[1]), unjson_int(t[2]), int(t[3]))
    d = dict(d)
    if d['kind'] == 'iv':
        d['a'], d['b'] = raw(d['a']), raw(d['b'])
    elif d['kind'] == 'mpf':
        d['raw'] = raw(d['raw'])
    elif d['kind'] == 'int':
        d['v'] = unjson_int(d['v'])
    elif d['kind'] == 'float':
        d['v'] = float(d['v'])
    return d


def replay(case, rec):
    mp, iv = _ctx()
    c = case['case']
    desc = {'op': c['op'], 'l': _unjson_operand(c['l']), 'r': _unjson_operand(c['r']), 'prec': int(c['prec'])}
    run_case(mp, iv, rec, desc, part='replay')
