"""C35 -- integer relation results are genuine relations.

Observed: every vector returned by pslq, every polynomial returned by findpoly, every formula returned by identify.
Oracle: exact Fraction arithmetic on the exact (dyadic) input numbers: integrality, max|c_k| < maxcoeff,
(sum c_k x_k)^2 <= tol^2 * sum x_k^2; planted relations must be found; identify formulas are parsed by a restricted
evaluator (ast whitelist) and evaluated by the reference release at 2p+200 bits."""
import ast
import math
from fractions import Fraction as Fr
from vf import gens as G
from vf.builderM import fr, mk, hexq, unhexq, at_prec, dyadic, sqrt_up, flo

PROP = 'C35'
LEVEL = 'exploration'
NEEDS_REF = True
RULE = ('seeded stratified generation: entry point (pslq | findpoly | identify) x vector class (planted relation among random reals / '
        'among constants, no relation, scaled copy, small maxcoeff, user tol) x length 2..10 x precision 53..300; a case is non-trivial '
        'when the call returned a vector / polynomial / formula that the exact oracle then checked (None results are counted as class '
        'none; they are asserted only for planted relations inside the envelope); distinct = distinct (entry, inputs, options, precision)')
ASSUMPTIONS = ['Fraction arithmetic is exact; inputs are handed over as mpf values whose raw tuples define the exact x_k',
               'the bound is asserted as |sum c_k x_k| <= tol*||x||_2*(1+2^-10) + 2^-(p+20)*||x||_2 (fixed-point rounding of the '
               'implementation at p+60 bits; statement: within tolerance); envelope 2^-16 <= |x_k| <= 2^16, tol >= 2^(8-p)',
               'planted relations are asserted found only when maxsteps=3000 is passed, max|c| <= maxcoeff/10 and '
               '(n-1) log2(maxcoeff) <= 0.75 p - 20 (otherwise spurious small relations exist and may legitimately be returned first)',
               'findpoly: the powers x^i are formed by the library at precision p; allowance sum_i |a_i| i 2^(1-p) |x|^i',
               'identify envelope: 1/2 <= |x| <= 2, constants in [1/2, 2], maxcoeff 1000: a returned formula must evaluate within '
               '2^12*sqrt(tol)*max(1,|x|) of x (worst case of a quadratic with nearly double root: |t-u|^2 <= |P(t)|/|c|; inverse '
               'transforms have Lipschitz constant <= 2^5 and ||(t, constants)|| <= 2^7 in the envelope)',
               'formulas are evaluated by the reference release (mpmath 1.3.0) at 2p+200 bits through an ast whitelist']
LEVEL_TEXT = ('exploration: ~9*10^3 (quick) / ~4.5*10^4 (thorough) generated pslq / findpoly / identify calls on the real code; every returned '
              'object checked exactly against the exact inputs')
LEVEL_NOTE = 'inputs not generated are not covered; None results outside the planted envelope are not asserted'
TECHNIQUE = 'runtime result monitor: exact rational re-verification of every returned relation; restricted evaluator for identify formulas'
SHARD_TIMEOUT = {'quick': 1800, 'thorough': 7200}

NSHARDS = 16
COUNTS = {'quick': {'pslq': 420, 'findpoly': 90, 'identify': 40}, 'thorough': {'pslq': 2200, 'findpoly': 450, 'identify': 180}}
PRECS = [53, 64, 80, 100, 113, 150, 200, 250, 300]
CONSTS = ['pi', 'e', 'ln2', 'sqrt2', 'sqrt3', 'catalan', 'euler', 'phi', 'ln3', 'cbrt2']


def shards(tier, seed):
    return [{'counts': COUNTS[tier]} for _ in range(NSHARDS)]


def _mp():
    import mpmath
    return mpmath.mp


def _ref():
    from vf import refmodel
    return refmodel.ref().mp


def _const(M, name):
    return {'pi': lambda: +M.pi, 'e': lambda: +M.e, 'ln2': lambda: M.log(2), 'sqrt2': lambda: M.sqrt(2), 'sqrt3': lambda: M.sqrt(3),
            'catalan': lambda: +M.catalan, 'euler': lambda: +M.euler, 'phi': lambda: +M.phi, 'ln3': lambda: M.log(3),
            'cbrt2': lambda: M.cbrt(2)}[name]()


def _round_to(q, p):
    """a dyadic Fraction with at most p mantissa bits next to q (truncation; any p-bit value is a legitimate input)"""
    if q == 0:
        return Fr(0)
    s = -1 if q < 0 else 1
    a = abs(q)
    e = a.numerator.bit_length() - a.denominator.bit_length() - p
    while True:
        if e >= 0:
            m = a.numerator // (a.denominator << e)
        else:
            m = (a.numerator << (-e)) // a.denominator
        if m.bit_length() <= p:
            break
        e += 1
    return s * (Fr(m << e) if e >= 0 else Fr(m, 1 << (-e)))


# -----------------------------------------------------------------------------------------------------
# pslq
# -----------------------------------------------------------------------------------------------------
PSLQ_CELLS = [(k, n) for k in ('planted-rand', 'planted-const', 'planted-rand', 'norel', 'scaled', 'smallmax', 'usertol', 'planted-big')
              for n in (2, 3, 4, 5, 6, 8, 10)]


def _hi_values(kind, n, r, p):
    """n-1 base numbers as exact Fractions of ~p+80 bits (reference constants or random reals)"""
    rmp = _ref()
    vals = []
    with at_prec(rmp, p + 80):
        if kind == 'planted-const':
            names = r.sample(CONSTS, min(n - 1, len(CONSTS)))
            for nm in names:
                vals.append(fr(_const(rmp, nm)))
            while len(vals) < n - 1:
                vals.append(Fr(r.getrandbits(p + 40) | 1, 1 << (p + 38)) + Fr(1, 4))
        else:
            for _ in range(n - 1):
                vals.append(Fr(r.getrandbits(p + 40) | 1, 1 << (p + 38)) + Fr(1, 4))       # in (1/4, 4.25)
    return vals


def gen_pslq(r, i):
    kind, n = PSLQ_CELLS[i % len(PSLQ_CELLS)]
    p = PRECS[(i // len(PSLQ_CELLS)) % len(PRECS)] if r.random() < 0.7 else r.randint(53, 300)
    maxcoeff = 1000
    spec = {'sec': 'pslq', 'kind': kind, 'n': n, 'p': p}
    if kind.startswith('planted'):
        if kind == 'planted-big':
            maxcoeff = r.choice([10 ** 4, 10 ** 6])
        C = max(1, maxcoeff // 10)
        cm = r.choice([3, 10, C])
        base = _hi_values(kind, n, r, p)
        while True:
            c = [r.randint(-cm, cm) for _ in range(n)]
            if c[-1] != 0 and any(c[:-1]):
                break
        g = 0
        for v in c:
            g = math.gcd(g, v)
        c = [v // g for v in c]
        xn = -sum(ci * xi for ci, xi in zip(c, base)) / c[-1]
        xs = [_round_to(v, p) for v in base] + [_round_to(xn, p)]
        if not (Fr(1, 1 << 10) <= abs(xs[-1]) <= 1 << 10):
            xs[-1] = xs[-1] + 0      # keep; the envelope test below decides
        order = list(range(n))
        r.shuffle(order)
        xs = [xs[j] for j in order]
        c = [c[j] for j in order]
        spec.update(x=[hexq(v) for v in xs], planted=c, maxcoeff=maxcoeff, maxsteps=3000, tolk=None)
        return spec
    xs = [_round_to(Fr(r.getrandbits(p + 40) | 1, 1 << (p + 38)) + Fr(1, 4), p) * r.choice([-1, 1]) for _ in range(n)]
    tolk, maxsteps = None, r.choice([None, None, 100, 1000])
    if kind == 'scaled':
        k = r.choice([-14, -7, 5, 13])
        sc = Fr(2) ** k
        xs = [v * sc for v in xs]
    elif kind == 'smallmax':
        maxcoeff = r.choice([2, 5, 10, 50, 100])
    elif kind == 'usertol':
        tolk = r.choice([3, 7, 10, 14, 20, p // 2, p - 8])
        maxcoeff = r.choice([100, 1000, 10 ** 6, 10 ** 12])
    spec.update(x=[hexq(v) for v in xs], planted=None, maxcoeff=maxcoeff, maxsteps=maxsteps, tolk=tolk)
    return spec


def check_relation(rec, spec, xs, c, tolq, maxcoeff, p, keybase, allowance=Fr(0)):
    """exact verification of one returned coefficient vector; returns True when everything held"""
    n = len(xs)
    if not isinstance(c, list) or len(c) != n or not all(type(v) is int for v in c):
        rec.violation(keybase + '/not-integer-vector', 'result is not a list of n Python ints', spec, observed=repr(c)[:200])
        return False
    if not any(c):
        rec.violation(keybase + '/zero-vector', 'the zero vector was returned as a relation', spec, observed=c)
        return False
    mx = max(abs(v) for v in c)
    if not mx < maxcoeff:
        rec.violation(keybase + '/maxcoeff', 'max|c_k| >= maxcoeff', spec, observed=mx, expected='< %d' % maxcoeff)
        return False
    s = sum(ci * xi for ci, xi in zip(c, xs))
    n2 = sum(v * v for v in xs)
    nrm = sqrt_up(n2)
    bound = tolq * nrm * (1 + Fr(1, 1 << 10)) + Fr(1, 1 << (p + 20)) * nrm + allowance
    if s * s <= tolq * tolq * n2:
        return True
    if abs(s) > bound:
        sev = round(math.log2(flo(abs(s) / (tolq * nrm))), 1)
        rec.violation(keybase + '/not-a-relation', '|sum c_k x_k| > tol*||x||_2', spec,
                      observed={'c': c, 'abs_sum_over_tol_norm_log2': sev}, expected='<= tol*||x||', severity=sev)
        return False
    rec.undecided('relation residual within the fixed-point rounding band of tol*||x||', spec)
    return False


def run_pslq(mp, rec, spec):
    p, n = spec['p'], spec['n']
    xs = [unhexq(v) for v in spec['x']]
    maxcoeff = spec['maxcoeff']
    tolq = Fr(1, 1 << spec['tolk']) if spec['tolk'] is not None else Fr(1, 1 << int(p * 0.75))
    ident = ('pslq', repr(spec['x']), p, maxcoeff, spec['tolk'], spec['maxsteps'])
    kw = {'maxcoeff': maxcoeff}
    if spec['maxsteps'] is not None:
        kw['maxsteps'] = spec['maxsteps']
    inside = all(Fr(1, 1 << 16) <= abs(v) <= (1 << 16) for v in xs) and tolq >= Fr(2) ** (8 - p)
    for v in xs:      # harness self-check: every input is exactly representable at the working precision
        m = abs(v.numerator)
        assert v.denominator & (v.denominator - 1) == 0 and (m >> ((m & -m).bit_length() - 1)).bit_length() <= p, 'input not p-bit'
    with at_prec(mp, p):
        xv = [mk(mp, v) for v in xs]
        if spec['tolk'] is not None:
            kw['tol'] = mk(mp, tolq)
        try:
            c = mp.pslq(xv, **kw)
        except Exception as e:
            rec.case(ident, False, cls='pslq/%s/raised:%s' % (spec['kind'], type(e).__name__))
            # an exception is not a returned vector: the statement is vacuous for it (observation only)
            rec.note('pslq raised (not a returned vector; observation only)', {'p': p, 'error': '%s: %s' % (type(e).__name__, str(e)[:100])})
            return
    if not inside:
        rec.note('pslq outside the magnitude / tolerance envelope', {'p': p, 'result': repr(c)[:80]})
        return
    planted = spec['planted']
    if c is None:
        rec.case(ident, False, cls='pslq/%s/none' % spec['kind'])
        if planted is not None:
            env = (n - 1) * math.log2(maxcoeff) <= 0.75 * p - 20
            # premise of the statement: the relation must actually hold for the inputs AS GIVEN (rounded to p bits) within the
            # tolerance, with a 64x margin for the library's fixed-point arithmetic; otherwise None is a correct answer
            res = abs(sum(ci * xi for ci, xi in zip(planted, xs)))
            if env and res * 64 > tolq * max(abs(v) for v in xs):
                env = False
                rec.event('planted relation not within tol on the rounded inputs (premise fails; observation only)')
            if env:
                rec.event('planted relation inside the envelope: result asserted')
                rec.violation('C35/pslq/planted-not-found', 'pslq returned None although a small exact relation exists and the precision suffices',
                              spec, observed=None, expected=planted)
            else:
                rec.event('planted relation outside the precision envelope (observation only)')
        return
    rec.event('returned relation vectors verified exactly')
    ok = check_relation(rec, spec, xs, c, tolq, maxcoeff, p, 'C35/pslq')
    rec.case(ident, True, cls='pslq/%s/returned' % spec['kind'])
    if ok and planted is not None:
        env = (n - 1) * math.log2(maxcoeff) <= 0.75 * p - 20
        same = c == planted or c == [-v for v in planted]
        if env:
            rec.event('planted relation inside the envelope: result asserted')
            if same:
                rec.cls('pslq/planted-recovered')
            else:
                # a multiple of the planted relation is also "found up to scale"
                k = next(j for j, v in enumerate(planted) if v)
                if c[k] % planted[k] == 0 and [v * (c[k] // planted[k]) for v in planted] == c:
                    rec.cls('pslq/planted-recovered')
                else:
                    rec.undecided('a different relation that also satisfies the bound was returned', spec)
        else:
            rec.event('planted relation outside the precision envelope (observation only)')
            rec.cls('pslq/planted-outside-envelope/%s' % ('same' if same else 'other'))
    rec.sample({'entry': 'pslq', 'p': p, 'n': n, 'kind': spec['kind'], 'c': c})


# -----------------------------------------------------------------------------------------------------
# findpoly
# -----------------------------------------------------------------------------------------------------
ALGEBRAIC = [   # (name, minimal polynomial highest first, expression in reference library)
    ('sqrt2', [1, 0, -2], lambda M: M.sqrt(2)),
    ('phi', [1, -1, -1], lambda M: (1 + M.sqrt(5)) / 2),
    ('1+sqrt2', [1, -2, -1], lambda M: 1 + M.sqrt(2)),
    ('sqrt2+sqrt3', [1, 0, -10, 0, 1], lambda M: M.sqrt(2) + M.sqrt(3)),
    ('cbrt2', [1, 0, 0, -2], lambda M: M.cbrt(2)),
    ('cbrt2+1', [1, -3, 3, -3], lambda M: M.cbrt(2) + 1),
    ('2^(1/4)', [1, 0, 0, 0, -2], lambda M: M.root(2, 4)),
    ('2^(1/5)', [1, 0, 0, 0, 0, -2], lambda M: M.root(2, 5)),
    ('3^(1/6)', [1, 0, 0, 0, 0, 0, -3], lambda M: M.root(3, 6)),
    ('sqrt(2+sqrt2)', [1, 0, -4, 0, 2], lambda M: M.sqrt(2 + M.sqrt(2))),
    ('cos(2pi/7)', [8, 4, -4, -1], lambda M: M.cos(2 * M.pi / 7)),
    ('2cos(2pi/9)', [1, 0, -3, 1], lambda M: 2 * M.cos(2 * M.pi / 9)),
    ('cbrt2+sqrt2', [1, 0, -6, -4, 12, -24, -4], lambda M: M.cbrt(2) + M.sqrt(2)),
    ('7/10', [10, -7], lambda M: M.mpf(7) / 10),
    ('-22/7', [7, 22], lambda M: -M.mpf(22) / 7),
]


def gen_findpoly(r, i):
    kind = ('algebraic', 'algebraic', 'rational', 'transcendental', 'algebraic-lowdeg')[i % 5]
    p = PRECS[(i // 5) % len(PRECS)] if r.random() < 0.7 else r.randint(53, 300)
    spec = {'sec': 'findpoly', 'kind': kind, 'p': p, 'maxcoeff': 1000, 'tolk': None, 'maxsteps': 3000}
    if kind.startswith('algebraic'):
        j = r.randrange(len(ALGEBRAIC))
        d = len(ALGEBRAIC[j][1]) - 1
        spec.update(alg=j, n=(d + r.randint(0, 2)) if kind == 'algebraic' else max(1, d - 1))
    elif kind == 'rational':
        den = r.randint(1, 99)
        num = r.randint(-99, 99) or 1
        spec.update(q=hexq(Fr(num, den)), n=r.randint(1, 3))
    else:
        spec.update(const=r.choice(['pi', 'e', 'euler', 'catalan', 'ln2']), n=r.randint(1, 6),
                    maxcoeff=r.choice([10, 1000, 10 ** 5]), tolk=r.choice([None, 8, 16, 24]), maxsteps=r.choice([None, 1000]))
    return spec


def run_findpoly(mp, rec, spec):
    p, n = spec['p'], spec['n']
    rmp = _ref()
    planted = None
    with at_prec(rmp, p + 80):
        if 'alg' in spec:
            name, planted, fn = ALGEBRAIC[spec['alg']]
            xq = _round_to(fr(fn(rmp)), p)
        elif 'q' in spec:
            q = unhexq(spec['q'])
            xq = _round_to(q, p) if r_is_exact(q, p) else _nearest(q, p)
            planted = [q.denominator, -q.numerator]
        else:
            xq = _round_to(fr(_const(rmp, spec['const'])), p)
    maxcoeff = spec['maxcoeff']
    tolq = Fr(1, 1 << spec['tolk']) if spec['tolk'] is not None else Fr(1, 1 << int(p * 0.75))
    ident = ('findpoly', hexq(xq), n, p, maxcoeff, spec['tolk'], spec['maxsteps'])
    kw = {'maxcoeff': maxcoeff}
    if spec['maxsteps'] is not None:
        kw['maxsteps'] = spec['maxsteps']
    with at_prec(mp, p):
        if spec['tolk'] is not None:
            kw['tol'] = mk(mp, tolq)
        try:
            a = mp.findpoly(mk(mp, xq), n, **kw)
        except Exception as e:
            rec.case(ident, False, cls='findpoly/%s/raised:%s' % (spec['kind'], type(e).__name__))
            rec.note('findpoly raised (not a returned polynomial; observation only)',
                     {'p': p, 'error': '%s: %s' % (type(e).__name__, str(e)[:100])})
            return
    deg_planted = len(planted) - 1 if planted else None
    if a is None:
        rec.case(ident, False, cls='findpoly/%s/none' % spec['kind'])
        if planted is not None and n >= deg_planted and max(abs(v) for v in planted) <= maxcoeff // 10 \
                and deg_planted * math.log2(maxcoeff) <= 0.75 * p - 20 \
                and 64 * (abs(sum(v * xq ** j for j, v in enumerate(planted[::-1])))
                          + sum(abs(v) * j * Fr(2) ** (1 - p) * abs(xq) ** j for j, v in enumerate(planted[::-1]))) \
                <= tolq * max(1, abs(xq) ** deg_planted):
            # (last condition: the planted polynomial really vanishes at the p-bit input within tol, 64x margin, powers rounded)
            rec.event('planted relation inside the envelope: result asserted')
            rec.violation('C35/findpoly/planted-not-found', 'findpoly returned None for an algebraic number of degree <= n with small minimal polynomial',
                          spec, observed=None, expected=planted)
        return
    rec.event('returned polynomials verified exactly')
    rec.case(ident, True, cls='findpoly/%s/returned' % spec['kind'])
    if not isinstance(a, list) or not (2 <= len(a) <= n + 1):
        rec.violation('C35/findpoly/degree', 'findpoly returned a polynomial of degree > n (or a malformed result)', spec,
                      observed=repr(a)[:200], expected='degree <= %d' % n)
        return
    k = len(a) - 1
    # the library hands pslq the vector [1, x, x^2, ..] with powers rounded to p bits; compare against exact powers with an allowance
    xs = [xq ** j for j in range(k + 1)]
    allowance = sum(abs(v) * j * Fr(2) ** (1 - p) * abs(xq) ** j for j, v in zip(range(k + 1), a[::-1]) if type(v) is int)
    ok = check_relation(rec, spec, xs, a[::-1], tolq, maxcoeff, p, 'C35/findpoly', allowance=allowance)
    if ok and planted is not None and n >= deg_planted:
        if a == planted or a == [-v for v in planted]:
            rec.cls('findpoly/minimal-polynomial-recovered')
        else:
            rec.cls('findpoly/other-polynomial')
    rec.sample({'entry': 'findpoly', 'p': p, 'n': n, 'x': flo(xq), 'a': a})


def r_is_exact(q, p):
    d = q.denominator
    return d & (d - 1) == 0 and q.numerator.bit_length() <= p


def _nearest(q, p):
    """nearest p-bit dyadic to q"""
    lo = _round_to(q, p)
    if lo == q:
        return lo
    e = abs(q).numerator.bit_length() - abs(q).denominator.bit_length() - p
    ulp = Fr(2) ** e
    for cand in (lo, lo + ulp, lo - ulp, lo + 2 * ulp, lo - 2 * ulp):
        pass
    best = min((lo, lo + ulp, lo - ulp, lo + 2 * ulp, lo - 2 * ulp), key=lambda v: abs(v - q))
    return best


# -----------------------------------------------------------------------------------------------------
# identify
# -----------------------------------------------------------------------------------------------------
_ALLOWED_FUNCS = ('sqrt', 'exp', 'log')


def eval_formula(M, s, names):
    """restricted evaluator: + - * / ** unary minus, integers, sqrt/exp/log, and the given constant names.
    All numbers are reference-library mpf (so '2/3' is a true quotient)."""
    tree = ast.parse(s, mode='eval')

    def ev(node):
        if isinstance(node, ast.Expression):
            return ev(node.body)
        if isinstance(node, ast.Constant) and type(node.value) is int:
            return M.mpf(node.value)
        if isinstance(node, ast.BinOp):
            a, b = ev(node.left), ev(node.right)
            if isinstance(node.op, ast.Add):
                return a + b
            if isinstance(node.op, ast.Sub):
                return a - b
            if isinstance(node.op, ast.Mult):
                return a * b
            if isinstance(node.op, ast.Div):
                return a / b
            if isinstance(node.op, ast.Pow):
                return M.power(a, b)
            raise ValueError('operator')
        if isinstance(node, ast.UnaryOp) and isinstance(node.op, (ast.USub, ast.UAdd)):
            v = ev(node.operand)
            return -v if isinstance(node.op, ast.USub) else v
        if isinstance(node, ast.Call) and isinstance(node.func, ast.Name) and node.func.id in _ALLOWED_FUNCS \
                and len(node.args) == 1 and not node.keywords:
            return getattr(M, node.func.id)(ev(node.args[0]))
        if isinstance(node, ast.Name) and node.id in names:
            return names[node.id]
        raise ValueError('construct not allowed: %s' % ast.dump(node)[:60])
    return ev(tree)


IDENT_KINDS = ['rational', 'quadratic', 'lincomb', 'transform', 'product', 'random', 'lincomb-dict', 'negative']
CONST_SETS = [['pi'], ['e'], ['pi', 'e'], ['sqrt(2)', 'pi'], ['log(2)', 'catalan'], []]
# values of the base constants inside [1/2, 2]?  pi, e are not: the envelope is applied to the VALUES handed to identify,
# so constants are passed as a dict name -> value with values scaled into [1/2, 2] where needed
CONST_VALUES = {'pi4': lambda M: M.pi / 4, 'e2': lambda M: M.e / 2, 'ln2': lambda M: M.log(2), 'r2': lambda M: M.sqrt(2),
                'cat': lambda M: +M.catalan, 'eu': lambda M: +M.euler + 0}


def gen_identify(r, i):
    kind = IDENT_KINDS[i % len(IDENT_KINDS)]
    p = [100, 150, 200, 300, 64, 53, 113, 250][(i // len(IDENT_KINDS)) % 8]
    names = r.sample(sorted(CONST_VALUES), r.choice([0, 1, 1, 2]))
    if kind in ('lincomb', 'lincomb-dict', 'product') and not names:
        names = r.sample(sorted(CONST_VALUES), 1)
    spec = {'sec': 'identify', 'kind': kind, 'p': p, 'names': names, 'full': r.random() < 0.3, 'tolk': None}
    small = lambda: r.randint(1, 9)
    if kind == 'rational':
        spec['expr'] = ['q', r.randint(50, 200), 100]
    elif kind == 'quadratic':
        spec['expr'] = ['quad', small(), r.choice([2, 3, 5, 6, 7]), r.randint(3, 8)]      # (a + sqrt(b)) / c
    elif kind in ('lincomb', 'lincomb-dict'):
        spec['expr'] = ['lin', [r.randint(-5, 5) for _ in names], r.randint(1, 6), r.randint(-3, 3)]    # (sum k_i c_i + j)/d
    elif kind == 'transform':
        spec['expr'] = ['tr', r.choice(['exp', 'log', 'sqrt', 'sq', 'inv']), r.randint(1, 7), r.randint(2, 9)]
    elif kind == 'product':
        spec['expr'] = ['prod', [r.randint(-2, 2) for _ in names], r.choice([1, 2, 3, 5, 6]), r.choice([1, 2, 3, 4])]
    elif kind == 'negative':
        spec['expr'] = ['neg', r.randint(50, 200), 100]
    else:
        spec['expr'] = ['rand', r.getrandbits(64)]
        spec['tolk'] = r.choice([None, 10, 20])
    return spec


def _ident_value(M, spec, consts):
    e = spec['expr']
    if e[0] == 'q':
        return M.mpf(e[1]) / e[2]
    if e[0] == 'neg':
        return -M.mpf(e[1]) / e[2]
    if e[0] == 'quad':
        return (e[1] + M.sqrt(e[2])) / e[3]
    if e[0] == 'lin':
        v = M.mpf(e[3])
        for k, nm in zip(e[1], spec['names']):
            v += k * consts[nm]
        return v / e[2]
    if e[0] == 'tr':
        q = M.mpf(e[2]) / e[3]
        return {'exp': lambda: M.exp(q), 'log': lambda: M.log(1 + q), 'sqrt': lambda: M.sqrt(q), 'sq': lambda: q * q + 0,
                'inv': lambda: 1 / (1 + q)}[e[1]]()
    if e[0] == 'prod':
        v = M.mpf(e[2]) / e[3]
        for k, nm in zip(e[1], spec['names']):
            v *= consts[nm] ** k
        return v
    return M.mpf(e[1]) / (1 << 63) + 0.5       # 'rand' in [0.5, 2.5)


def run_identify(mp, rec, spec):
    p = spec['p']
    rmp = _ref()
    with at_prec(rmp, p + 80):
        cq = {nm: _round_to(fr(CONST_VALUES[nm](rmp)), p) for nm in spec['names']}
        xq = _round_to(fr(_ident_value(rmp, spec, {nm: mk(rmp, v) for nm, v in cq.items()})), p)
    tolq = Fr(1, 1 << spec['tolk']) if spec['tolk'] is not None else None
    ident = ('identify', hexq(xq), repr(sorted(cq)), p, spec['tolk'], spec['full'])
    inside = Fr(1, 2) <= abs(xq) <= 2 and all(Fr(1, 2) <= v <= 2 for v in cq.values())
    with at_prec(mp, p):
        consts = {nm: mk(mp, v) for nm, v in cq.items()}
        kw = {'full': spec['full']}
        if tolq is not None:
            kw['tol'] = mk(mp, tolq)
        try:
            res = mp.identify(mk(mp, xq), consts, **kw)
        except Exception as e:
            rec.case(ident, False, cls='identify/%s/raised:%s' % (spec['kind'], type(e).__name__))
            # raising is outside the statement ("every expression returned ..."): observation only
            rec.note('identify raised (no expression returned; observation only)',
                     {'x': flo(xq), 'constants': sorted(cq), 'full': spec['full'], 'p': p, 'error': '%s: %s' % (type(e).__name__, str(e)[:100])})
            rec.event('identify raised (observation only)')
            return
        # the default tolerance is eps**0.7 evaluated by the library at precision p: take its exact value from the same formula
        if tolq is None:
            tolq = fr(mp.eps ** 0.7)
    forms = res if isinstance(res, list) else ([res] if res is not None else [])
    if not forms:
        rec.case(ident, False, cls='identify/%s/none' % spec['kind'])
        return
    if not inside:
        rec.note('identify outside the envelope', {'x': flo(xq), 'forms': forms[:2]})
        return
    rec.case(ident, True, cls='identify/%s/returned' % spec['kind'])
    bound = Fr(1 << 12) * sqrt_up(tolq) * max(1, abs(xq))
    for s in forms[:12]:
        rec.event('identify formulas evaluated by the restricted evaluator')
        if not isinstance(s, str):
            rec.violation('C35/identify/not-a-string', 'identify returned a non-string formula', spec, observed=repr(s)[:100])
            continue
        try:
            with at_prec(rmp, 2 * p + 200):
                v = eval_formula(rmp, s, {nm: mk(rmp, q) for nm, q in cq.items()})
                if not hasattr(v, '_mpf_') or not rmp.isfinite(v):
                    raise ValueError('non-real value')
                d = abs(fr(v) - xq)
        except Exception as e:
            rec.violation('C35/identify/unevaluable', 'identify returned a formula the restricted evaluator cannot evaluate to a finite real',
                          spec, observed={'formula': s, 'error': '%s: %s' % (type(e).__name__, str(e)[:80])})
            continue
        if d * (1 - Fr(1, 1 << 60)) > bound:
            sev = round(math.log2(flo(d / bound)), 1)
            rec.violation('C35/identify/formula-not-x', 'identify returned a formula that does not evaluate to x within tolerance', spec,
                          observed={'formula': s, 'abs_diff': flo(d)}, expected={'bound': flo(bound)}, severity=sev)
        else:
            if d:
                rec.maximum('identify log2(|formula - x| / tol)', round(math.log2(flo(d / tolq)), 1), {'formula': s, 'p': p})
    rec.sample({'entry': 'identify', 'p': p, 'x': flo(xq), 'forms': forms[:3]})


RUNNERS = {'pslq': run_pslq, 'findpoly': run_findpoly, 'identify': run_identify}
GENS = {'pslq': gen_pslq, 'findpoly': gen_findpoly, 'identify': gen_identify}


def run_below53(mp, rec):
    """documented ValueError below 53 bits (statement vacuous); observation only"""
    with at_prec(mp, 40):
        try:
            mp.pslq([mp.mpf(1), mp.mpf(3)])
            rec.note('pslq below 53 bits did not raise', {})
        except ValueError:
            rec.event('pslq below 53 bits raised the documented ValueError')


def run_shard(shard, rec):
    mp = _mp()
    r = G.rng(PROP, shard['seed'], shard['shard'])
    from vf.instrument import AnchorCount
    k = shard['shard']
    with AnchorCount(rec, ['mpmath.identification:pslq', 'mpmath.identification:findpoly', 'mpmath.identification:identify']):
        for sec in ('pslq', 'findpoly', 'identify'):
            for i in range(shard['counts'][sec]):
                spec = GENS[sec](r, i * NSHARDS + k)
                mp.prec = 53
                try:
                    RUNNERS[sec](mp, rec, spec)
                finally:
                    mp.prec = 53
        run_below53(mp, rec)


def required(agg, tier):
    miss = []
    ev, cl = agg['events'], agg['classes']
    for name in ('returned relation vectors verified exactly', 'returned polynomials verified exactly',
                 'identify formulas evaluated by the restricted evaluator', 'planted relation inside the envelope: result asserted'):
        if not ev.get(name):
            miss.append('monitor saw nothing: ' + name)
    if not cl.get('pslq/planted-recovered'):
        miss.append('no planted relation was recovered')
    if not cl.get('findpoly/minimal-polynomial-recovered'):
        miss.append('no minimal polynomial was recovered')
    for k in ('rational', 'quadratic', 'lincomb', 'transform', 'product'):
        if not cl.get('identify/%s/returned' % k):
            miss.append('identify never returned a formula for class ' + k)
    return miss


def replay(case, rec):
    mp = _mp()
    spec = case['case']
    mp.prec = 53
    RUNNERS[spec['sec']](mp, rec, spec)
