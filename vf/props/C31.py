"""C31 -- eigen / singular value decompositions satisfy their identities; Gauss quadrature integrates polynomials.

Observed: outputs of eig (right / left / both / values only), eigsy, eighe, eigh, schur, hessenberg, svd_r, svd_c,
svd (full / reduced / values only), eig_sort, gauss_quadrature.
Oracle: residuals evaluated exactly with vf.linalgq on the returned dyadic entries; every comparison is an exact
rational inequality.  Gauss quadrature: exact rational sums of w_k F(x_k) against closed-form moments (exact
rationals, or gamma/beta values from the reference release at two precisions).

Readings fixed a priori (docs/C31.md):
* p = working precision (mp.prec); ||.|| = Frobenius norm on both sides (decided exactly through squares).
* eigenpairs: per vector  ||A v - e v||_2 <= 2^(10-p) ||A||_F ||v||_2  and v != 0  (mpmath does not normalise
  eigenvectors, so the residual is measured relative to the vector); left vectors alike.
* eigenvalues without vectors: sigma_min(A - e I) <= tau is necessary for a backward error tau; the check
  asserts the implied  |det(A - e I)| <= tau (||A||_F + |e|)^(n-1),  tau = 2^(10-p)||A||_F.
* Q T Q^H - A, A Q - Q diag(E), U S V - A: Frobenius <= 2^(10-p)||A||_F; orthonormality ||Q^H Q - I||_F <= 2^(10-p);
  Hessenberg / triangular structure: exact zeros.
* envelope ("moderate size and condition"): n <= 8, entries with exponents within 2^+-64; residuals are backward
  errors, so no bound on the eigenvector condition is needed; defective matrices are inside the envelope.
* gauss_quadrature: n <= 8, parameters dyadic in (-1, 6]; test polynomials F = x^k (F = (1+x)^k for Jacobi),
  k <= 2n-1;  |sum w F(x) - I(F)| <= 2^(10-p) * sum w |F(x)|.
"""
import math
from fractions import Fraction
from vf import exactq as Q
from vf import gens as G
from vf import linalgq as L

PROP = 'C31'
LEVEL = 'exploration'
NEEDS_REF = True
RULE = ('seeded stratified generation: routine x matrix class (general, symmetric, Hermitian, triangular, diagonal, defective '
        '(Jordan blocks under unimodular similarity), repeated eigenvalues, zero rows, rotation blocks, companion, graded) x '
        'real/complex x entry kind x size x precision; quadrature: family x n x parameters x precision; every case is '
        'non-trivial unless the matrix is diagonal/zero (decomposition is exact); distinct = distinct (routine, options, entries, p)')
ASSUMPTIONS = ['vf/linalgq.py exact products / determinants / integer-sqrt bounds are correct (self-tested)',
               'gamma/beta values for the Hermite, Laguerre, Chebyshev and Jacobi moments come from mpmath 1.3.0 at p+80 and '
               '2p+200 bits and must agree to 2^-(p+40); Legendre / Laguerre moments are exact rationals',
               'the norm / tolerance readings in the module docstring were fixed before looking at results']
LEVEL_TEXT = ('exploration: ~8*10^3 (quick) / ~10^5 (thorough) decompositions and quadrature rules computed by the real code, '
              'each residual evaluated exactly')
LEVEL_NOTE = 'trusted base: vf/linalgq.py, reference gamma values; matrices not generated are not covered'
TECHNIQUE = 'runtime reference-model monitor: exact residual evaluation of every returned decomposition'
SHARD_TIMEOUT = {'quick': 1000, 'thorough': 10800}   # thorough: a shard needs ~110 CPU-s; the cap only bounds hangs (a loaded machine at 5% CPU per worker exceeded the former 3000 s)

NSHARDS = 16
CASES = {'quick': 520, 'thorough': 6000}
MAXSIZE = {'quick': 5, 'thorough': 8}
PRECS = [30, 35, 53, 64, 100, 113, 200, 300]

GEN_KINDS = ['r-int', 'r-dyadic', 'r-decimal', 'r-tri', 'r-diag', 'r-defective', 'r-repeated', 'r-zerorows', 'r-companion',
             'r-rot', 'r-graded', 'c-int', 'c-dyadic', 'c-decimal', 'c-tri', 'c-diag', 'c-defective', 'c-repeated', 'c-zerorows']
SYM_KINDS = ['s-int', 's-dyadic', 's-decimal', 's-repeated', 's-diag', 's-tridiag', 's-zerorows', 's-graded', 's-blocks']
HERM_KINDS = ['h-int', 'h-dyadic', 'h-repeated', 'h-diag', 'h-blocks', 'h-decimal']
RECT_KINDS = ['r-int', 'r-dyadic', 'r-decimal', 'c-int', 'c-dyadic', 'r-rankdef', 'c-rankdef', 'r-zerorows', 'r-diag', 's-int', 'c-decimal']
QTYPES = ['legendre', 'legendre01', 'hermite', 'laguerre', 'glaguerre', 'chebyshev1', 'chebyshev2', 'jacobi']
SORTS = ['real', 'imag', 'abs', 'neg-real', 'default']


def cells():
    out = []
    for k in GEN_KINDS + SYM_KINDS + HERM_KINDS:
        for op in ('eig/right', 'eig/left', 'eig/both', 'eig/values', 'schur', 'hessenberg'):
            out.append((op, k))
    for k in SYM_KINDS:
        out += [('eigsy', k), ('eigsy/values', k), ('eigh', k)]
    for k in HERM_KINDS:
        out += [('eighe', k), ('eighe/values', k), ('eigh', k)]
    for k in SYM_KINDS[:3]:
        out.append(('eighe', k))
    for k in RECT_KINDS:
        for op in ('svd', 'svd/full', 'svd/values', 'svd_rc'):
            out.append((op, k))
    for k in ['r-int', 'c-int', 'r-repeated', 'c-dyadic', 's-int', 'r-rot']:
        for s in SORTS:
            out.append(('eig_sort/' + s, k))
    for q in QTYPES:
        for rep in range(6):
            out.append(('gauss/' + q, str(rep)))
    return out


CELLS = cells()


def shards(tier, seed):
    return [{'n': CASES[tier]} for _ in range(NSHARDS)]


def _mp():
    import mpmath
    return mpmath.mp


class Prec(object):
    def __init__(self, mp, p):
        self.mp, self.p = mp, p

    def __enter__(self):
        self.old = self.mp.prec
        self.mp.prec = self.p

    def __exit__(self, *a):
        self.mp.prec = self.old


# ---------------------------------------------------------------------------------------
# generators
# ---------------------------------------------------------------------------------------

def _dy(r, p, bits=None, emax=5):
    b = bits or r.choice([1, 2, 3, 8, p // 2, p - 1, p, p])
    b = max(1, min(b, p))
    m = G.mantissa(r, b)
    e = r.randint(-emax, emax) - b + r.randint(0, 3)
    v = Fraction(m) * L.pow2(e)
    return -v if r.random() < 0.5 else v


def _int(r, lim=9):
    return Fraction(r.randint(-lim, lim))


def _decstr(r):
    digs = r.randint(1, 5)
    s = '%d.%0*d' % (r.randint(0, 12), digs, r.randint(0, 10 ** digs - 1))
    return '-' + s if r.random() < 0.5 else s


def _dec(r, p):
    """a decimal literal rounded to p bits the way the string constructor must round it"""
    ex = Q.parse_decimal(_decstr(r))
    return L.raw_to_fraction(Q.round_to(ex, p, 'n'))


def unimodular(r, n, cplx=False):
    V = L.eye(n)
    for _ in range(2 * n):
        i, j = r.randrange(n), r.randrange(n)
        if i != j:
            c = Fraction(r.randint(-2, 2))
            if cplx and r.random() < 0.5:
                c = L.GQ(c, r.randint(-1, 1))
            V = [[V[a][b] + (c * V[j][b] if a == i else 0) for b in range(n)] for a in range(n)]
    return V


def scalar(r, p, ek, cplx):
    def one():
        if ek == 'int':
            return _int(r)
        if ek == 'decimal':
            return _dec(r, p)
        return _dy(r, p)
    if cplx:
        x = r.random()
        if x < 0.1:
            return L.GQ(0, one())
        if x < 0.2:
            return one()
        return L.GQ(one(), one())
    return one()


def gen_square(r, p, kind, n):
    cls, sub = kind.split('-', 1)
    cplx = cls in ('c', 'h')
    ek = sub if sub in ('int', 'dyadic', 'decimal') else r.choice(['int', 'int', 'dyadic'])

    def sc(c=cplx):
        return scalar(r, p, ek, c)
    if cls in ('r', 'c'):
        if sub in ('int', 'dyadic', 'decimal'):
            A = [[sc() for _ in range(n)] for _ in range(n)]
        elif sub == 'tri':
            up = r.random() < 0.5
            A = [[sc() if ((j >= i) if up else (j <= i)) else Fraction(0) for j in range(n)] for i in range(n)]
            if r.random() < 0.3 and n > 1:
                A[1][1] = A[0][0]
        elif sub == 'diag':
            A = L.diag([sc() for _ in range(n)])
        elif sub in ('defective', 'repeated'):
            J = L.zeros(n)
            k = 0
            while k < n:
                b = r.randint(1, n - k)
                lam = L.GQ(r.randint(-3, 3), r.randint(-2, 2)) if (cplx and r.random() < 0.6) else Fraction(r.randint(-3, 3))
                for t in range(b):
                    J[k + t][k + t] = lam
                    if t + 1 < b and sub == 'defective':
                        J[k + t][k + t + 1] = Fraction(1)
                k += b
            V = unimodular(r, n, cplx)
            A = L.mul(L.mul(V, J), L.inverse(V))
            A = [[L.simplify(v) for v in row] for row in A]
            if r.random() < 0.3:
                sh = L.pow2(r.randint(-20, 20))
                A = L.smul(sh, A)
        elif sub == 'zerorows':
            A = [[sc() for _ in range(n)] for _ in range(n)]
            k = r.randrange(n)
            A[k] = [Fraction(0)] * n
            if r.random() < 0.5:
                k2 = r.randrange(n)
                for i in range(n):
                    A[i][k2] = Fraction(0)
            if r.random() < 0.15:
                A = L.zeros(n)
        elif sub == 'companion':
            A = L.zeros(n)
            for i in range(1, n):
                A[i][i - 1] = Fraction(1)
            for i in range(n):
                A[i][n - 1] = _int(r, 20)
            if r.random() < 0.5:
                A = L.T(A)
        elif sub == 'rot':
            A = L.zeros(n)
            k = 0
            while k < n:
                if k + 1 < n and r.random() < 0.8:
                    a, b = _int(r), _int(r) or Fraction(1)
                    A[k][k], A[k][k + 1], A[k + 1][k], A[k + 1][k + 1] = a, -b, b, a
                    k += 2
                else:
                    A[k][k] = _int(r)
                    k += 1
            if r.random() < 0.6:
                V = unimodular(r, n)
                A = L.mul(L.mul(V, A), L.inverse(V))
        elif sub == 'graded':
            B = [[_int(r) for _ in range(n)] for _ in range(n)]
            d = [r.randint(-12, 12) for _ in range(n)]
            if r.random() < 0.5:
                A = [[B[i][j] * L.pow2(d[i] - d[j]) for j in range(n)] for i in range(n)]      # similarity scaling
            else:
                A = [[B[i][j] * L.pow2(d[i] + d[j]) for j in range(n)] for i in range(n)]
        else:
            raise ValueError(kind)
        return A
    # symmetric / Hermitian
    if sub in ('int', 'dyadic', 'decimal'):
        A = L.zeros(n)
        for i in range(n):
            A[i][i] = sc(False)
            for j in range(i + 1, n):
                A[i][j] = sc()
                A[j][i] = L.conj(A[i][j])
    elif sub == 'repeated':
        a = _int(r)
        v = [sc() for _ in range(n)]
        A = [[(a if i == j else 0) + v[i] * L.conj(v[j]) for j in range(n)] for i in range(n)]
        A = [[L.simplify(x) if i == j else x for j, x in enumerate(row)] for i, row in enumerate(A)]
        if r.random() < 0.3:
            A = L.diag([a] * n)
    elif sub == 'diag':
        A = L.diag([sc(False) for _ in range(n)])
    elif sub == 'tridiag':
        A = L.zeros(n)
        for i in range(n):
            A[i][i] = sc(False)
            if i + 1 < n:
                A[i][i + 1] = A[i + 1][i] = sc(False) if r.random() < 0.85 else Fraction(0)
    elif sub == 'zerorows':
        A = gen_square(r, p, cls + '-int', n)
        k = r.randrange(n)
        for i in range(n):
            A[i][k] = A[k][i] = Fraction(0)
    elif sub == 'graded':
        B = gen_square(r, p, cls + '-int', n)
        d = [r.randint(-12, 12) for _ in range(n)]
        A = [[B[i][j] * L.pow2(d[i] + d[j]) for j in range(n)] for i in range(n)]
    elif sub == 'blocks':
        A = L.zeros(n)
        k = 0
        while k < n:
            b = min(n - k, r.choice([1, 1, 2, 2, 3]))
            Bk = gen_square(r, p, cls + '-int', b)
            for i in range(b):
                for j in range(b):
                    A[k + i][k + j] = Bk[i][j]
            k += b
    else:
        raise ValueError(kind)
    return A


def gen_rect(r, p, kind, m, n):
    cls, sub = kind.split('-', 1)
    cplx = cls == 'c'
    if cls == 's':
        return gen_square(r, p, kind, n)
    ek = sub if sub in ('int', 'dyadic', 'decimal') else 'int'
    A = [[scalar(r, p, ek, cplx) for _ in range(n)] for _ in range(m)]
    if sub == 'rankdef' and m > 1:
        k = r.randrange(m)
        k2 = (k + 1) % m
        A[k] = [2 * v for v in A[k2]]
    elif sub == 'zerorows':
        A[r.randrange(m)] = [Fraction(0)] * n
        if r.random() < 0.2:
            A = L.zeros(m, n)
    elif sub == 'diag':
        A = [[A[i][j] if i == j else Fraction(0) for j in range(n)] for i in range(m)]
    return A


def envelope(A):
    """entries' exponents within 2^+-64"""
    for row in A:
        for v in row:
            for c in (L.re(v), L.im(v)):
                if c and not (L.pow2(-64) <= abs(c) <= L.pow2(64)):
                    return False
    return True


def ser(A):
    return [[[str(L.re(v)), str(L.im(v))] if isinstance(v, L.GQ) else str(v) for v in row] for row in A]


def deser(S):
    return [[L.GQ(Fraction(v[0]), Fraction(v[1])) if isinstance(v, list) else Fraction(v) for v in row] for row in S]


def key_of(A):
    return tuple(tuple((v.re, v.im) if isinstance(v, L.GQ) else v for v in row) for row in A)


def to_mp(mp, A, complex_typed=False):
    return L.to_mpmatrix(mp, A, force_complex=complex_typed)


# ---------------------------------------------------------------------------------------
# exact residual helpers
# ---------------------------------------------------------------------------------------

def log2r(num2, den2):
    """log2 sqrt(num2/den2) for evidence"""
    if not num2:
        return float('-inf')
    if not den2:
        return float('inf')
    return (L.approx_log2(num2) - L.approx_log2(den2)) / 2


def fro_check(rec, name, case, key, R, scale2, p, what):
    """||R||_F^2 <= 2^(2(10-p)) * scale2 ; returns True when held"""
    r2 = L.fro2(R)
    if r2 <= L.pow2(2 * (10 - p)) * scale2:
        if r2 and scale2:
            rec.maximum('log2(%s / 2^-p)' % name, round(log2r(r2, scale2) + p, 2), {'prec': p, 'op': case.get('op'), 'kind': case.get('kind'), 'n': case.get('n')})
        return True
    sev = round(log2r(r2, scale2) + p, 1) if scale2 else None
    rec.violation(key, what, case, observed={'log2_residual_over_scale': log2r(r2, scale2)}, expected={'log2_bound': 10 - p}, severity=sev)
    return False


def orth_check(rec, opname, case, Qq, p, which='Q', rows=False, cell=None):
    """columns (or rows) of Qq orthonormal within 2^(10-p) Frobenius"""
    G_ = L.mul(Qq, L.H(Qq)) if rows else L.mul(L.H(Qq), Qq)
    E = L.sub(G_, L.eye(len(G_)))
    return fro_check(rec, '||%s^H %s - I||_F %s' % (which, which, opname.split('/')[0]), case,
                     'C31/%s/orthonormality-%s%s' % (opname.split('/')[0], which, '/' + cell if cell else ''), E, Fraction(1), p,
                     '%s: %s is not orthonormal within 2^(10-p)' % (opname, which))


def is_real_type(x):
    return hasattr(x, '_mpf_') or (isinstance(x, (int, float)) and not isinstance(x, bool))


def eigvalue_det_check(rec, opname, case, Aq, evals, p):
    """necessary condition of a backward error <= tau for every returned eigenvalue"""
    n = len(Aq)
    a_hi = L.fro_bounds(Aq)[1]
    tau = L.pow2(10 - p) * a_hi
    for idx, e in enumerate(evals):
        M = [[Aq[i][j] - (e if i == j else 0) for j in range(n)] for i in range(n)]
        d2 = L.abs2(L.det(M))
        e_hi = L.abs_bounds(e)[1]
        bound = tau * (a_hi + e_hi) ** (n - 1)
        if d2 > bound * bound:
            rec.violation('C31/%s/eigenvalue-not-backward-stable' % opname.split('/')[0],
                          '%s: returned eigenvalue %d is not an eigenvalue of any A+E with ||E|| <= 2^(10-p)||A||_F (det criterion)' % (opname, idx),
                          case, observed={'eigenvalue': str(e), 'log2|det(A-eI)|': L.approx_log2(d2) / 2},
                          expected={'log2_bound': L.approx_log2(bound) if bound else None})
            return False
    return True


def pair_residuals(rec, opname, case, Aq, evals, vecs, p, left=False):
    """per vector ||A v - e v|| <= 2^(10-p) ||A||_F ||v||"""
    a2 = L.fro2(Aq)
    n = len(Aq)
    AH = L.T(Aq) if left else None
    for i in range(n):
        v = vecs[i]
        v2 = L.vec_norm2_sq(v)
        if v2 == 0:
            rec.violation('C31/%s/zero-eigenvector' % opname.split('/')[0], '%s: eigenvector %d is the zero vector' % (opname, i), case, None, None)
            return False
        e = evals[i]
        Av = L.matvec(AH, v) if left else L.matvec(Aq, v)          # left: (u A)_j = sum_i u_i A_ij = (A^T u)_j
        res = [x - e * y for x, y in zip(Av, v)]
        r2 = L.vec_norm2_sq(res)
        if r2 > L.pow2(2 * (10 - p)) * a2 * v2:
            rec.violation('C31/%s/%s-eigenpair-residual' % (opname.split('/')[0], 'left' if left else 'right'),
                          '%s: %s eigenpair %d residual exceeds 2^(10-p)||A||_F||v||' % (opname, 'left' if left else 'right', i), case,
                          observed={'log2_residual_over_scale': log2r(r2, a2 * v2), 'eigenvalue': str(e)}, expected={'log2_bound': 10 - p},
                          severity=round(log2r(r2, a2 * v2) + p, 1) if a2 else None)
            return False
        if r2 and a2:
            rec.maximum('log2(eigenpair residual /(||A|| ||v|| 2^-p)) eig', round(log2r(r2, a2 * v2) + p, 2),
                        {'prec': p, 'kind': case.get('kind'), 'n': n, 'left': left})
    return True


# ---------------------------------------------------------------------------------------
# checks
# ---------------------------------------------------------------------------------------

def stagnation_state(exc):
    """Runtime observation at the moment hessenberg_qr gave up: look into its frame (A, n0, n1, norm) and decide whether
    some subdiagonal entry of the active block is already at rounding-noise level -- |a_{k+1,k}| <= 8*eps*s with
    s = |a_kk| + |a_{k+1,k+1}| (or the matrix norm), i.e. it would have been deflated by the usual LAPACK-style test and
    only the much tighter threshold eps/(100 n) keeps the iteration going -- or whether the iteration really did not
    converge.  Returns 'stagnation-at-noise-level', 'not-converged' or 'unknown'."""
    tb = exc.__traceback__
    fr = None
    while tb is not None:
        if tb.tb_frame.f_code.co_name == 'hessenberg_qr':
            fr = tb.tb_frame
        tb = tb.tb_next
    if fr is None:
        return 'unknown'
    try:
        loc = fr.f_locals
        A, n0, n1, norm, ctx = loc['A'], loc['n0'], loc['n1'], loc['norm'], loc['ctx']
        eps8 = L.pow2(4 - ctx.prec)                     # 8 * eps, eps = 2^(1-prec)
        nq = abs(L.re(L.from_mp(norm)))
        for k in range(n0, n1 - 1):
            sub = L.abs_bounds(L.from_mp(A[k + 1, k]))[1]
            s_ = L.abs_bounds(L.from_mp(A[k, k]))[1] + L.abs_bounds(L.from_mp(A[k + 1, k + 1]))[1]
            if s_ < eps8 * nq:
                s_ = nq
            if sub <= eps8 * s_:
                return 'stagnation-at-noise-level'
        return 'not-converged'
    except Exception:
        return 'unknown'


def run_guarded(rec, opname, case, f):
    try:
        return f(), None
    except Exception as e:
        ename = type(e).__name__
        key = 'C31/%s/raised-%s' % (opname.split('/')[0], ename)
        if 'converge' in str(e):
            key = 'C31/%s/no-convergence' % opname.split('/')[0]
            if 'qr:' in str(e):
                key += '/' + stagnation_state(e)
        rec.violation(key, '%s raised %s inside the envelope' % (opname, ename), case, '%s: %s' % (ename, e), 'a decomposition')
        return None, e


def check_eig(mp, rec, r, op, kind, p, Aq):
    n = len(Aq)
    mode = op.split('/')[1]
    case = {'op': op, 'kind': kind, 'prec': p, 'n': n, 'A': ser(Aq)}
    nontriv = not L.is_upper(Aq) or not L.is_lower(Aq)
    rec.case((op, p, key_of(Aq)), nontriv, cls='%s/%s' % (op, kind))
    with Prec(mp, p):
        M = to_mp(mp, Aq, complex_typed=(kind[0] in 'ch' and r.random() < 0.3))
        kw = {'right': dict(), 'left': dict(left=True, right=False), 'both': dict(left=True, right=True),
              'values': dict(left=False, right=False)}[mode]
        out, exc = run_guarded(rec, op, case, lambda: mp.eig(M, **kw))
        if exc is not None:
            return
        if not L.equal(L.from_mpmatrix(M), Aq):
            rec.violation('C31/eig/input-overwritten', 'eig(overwrite_a=False) modified its argument', case, None, None)
            return
    if mode == 'values':
        if isinstance(out, tuple):
            key = 'C31/eig/1x1-values-only-returns-tuple' if n == 1 else 'C31/eig/values-only-returns-tuple'
            rec.violation(key, 'eig(A, left=False, right=False) returns a tuple (E, EL, ER) instead of the documented list E', case,
                          'tuple of length %d' % len(out), 'list E')
            out = out[0]
        E = [L.from_mp(e) for e in out]
        if len(E) != n:
            rec.violation('C31/eig/shape', 'wrong number of eigenvalues', case, len(E), n)
            return
        eigvalue_det_check(rec, op, case, Aq, E, p)
        return
    if mode == 'both':
        E, EL, ER = out
    elif mode == 'left':
        E, EL = out
        ER = None
    else:
        E, ER = out
        EL = None
    Eq = [L.from_mp(e) for e in E]
    if len(Eq) != n:
        rec.violation('C31/eig/shape', 'wrong number of eigenvalues', case, len(Eq), n)
        return
    if ER is not None:
        V = L.from_mpmatrix(ER)
        if L.shape(V) != (n, n):
            rec.violation('C31/eig/shape', 'ER has the wrong shape', case, L.shape(V), (n, n))
            return
        if not pair_residuals(rec, op, case, Aq, Eq, [L.column(V, i) for i in range(n)], p):
            return
    if EL is not None:
        U = L.from_mpmatrix(EL)
        if L.shape(U) != (n, n):
            rec.violation('C31/eig/shape', 'EL has the wrong shape', case, L.shape(U), (n, n))
            return
        pair_residuals(rec, op, case, Aq, Eq, [list(U[i]) for i in range(n)], p, left=True)
    if L.is_hermitian(Aq):
        worst = max((abs(L.im(e)) for e in Eq), default=0)
        if worst:
            rec.cls('note/eig-of-hermitian-has-nonzero-imag')


def check_eigh(mp, rec, r, op, kind, p, Aq):
    n = len(Aq)
    fn = op.split('/')[0]
    values_only = op.endswith('/values')
    case = {'op': op, 'kind': kind, 'prec': p, 'n': n, 'A': ser(Aq)}
    nontriv = not L.is_upper(Aq)
    rec.case((op, p, key_of(Aq)), nontriv, cls='%s/%s' % (op, kind))
    with Prec(mp, p):
        M = to_mp(mp, Aq)
        f = getattr(mp, fn)
        out, exc = run_guarded(rec, op, case, (lambda: f(M, eigvals_only=True)) if values_only else (lambda: f(M)))
        if exc is not None:
            return
        if not L.equal(L.from_mpmatrix(M), Aq):
            rec.violation('C31/%s/input-overwritten' % fn, '%s(overwrite_a=False) modified its argument' % fn, case, None, None)
            return
    E = out if values_only else out[0]
    Elist = [E[i] for i in range(len(E))]
    if len(Elist) != n:
        rec.violation('C31/%s/shape' % fn, 'wrong number of eigenvalues', case, len(Elist), n)
        return
    if not all(is_real_type(e) for e in Elist):
        rec.violation('C31/%s/eigenvalue-type-not-real' % fn, '%s: eigenvalues of a symmetric/Hermitian matrix are not of real type' % op, case,
                      [type(e).__name__ for e in Elist], 'mpf')
        return
    Eq = [L.from_mp(e) for e in Elist]
    if any(Eq[i] > Eq[i + 1] for i in range(n - 1)):
        rec.cls('note/%s-eigenvalues-not-ascending' % fn)
    if values_only:
        eigvalue_det_check(rec, op, case, Aq, Eq, p)
        return
    Qq = L.from_mpmatrix(out[1])
    if L.shape(Qq) != (n, n):
        rec.violation('C31/%s/shape' % fn, 'Q has the wrong shape', case, L.shape(Qq), (n, n))
        return
    if not orth_check(rec, op, case, Qq, p):
        return
    R = L.sub(L.mul(Aq, Qq), L.mul(Qq, L.diag(Eq)))
    fro_check(rec, '||A Q - Q diag(E)||_F/||A||_F %s' % fn, case, 'C31/%s/residual' % fn, R, L.fro2(Aq), p,
              '%s: A*Q - Q*diag(E) exceeds 2^(10-p)||A||_F' % op)


def check_schur_hess(mp, rec, r, op, kind, p, Aq):
    n = len(Aq)
    case = {'op': op, 'kind': kind, 'prec': p, 'n': n, 'A': ser(Aq)}
    rec.case((op, p, key_of(Aq)), not L.is_upper(Aq, 0 if op == 'schur' else 1), cls='%s/%s' % (op, kind))
    with Prec(mp, p):
        M = to_mp(mp, Aq, complex_typed=(kind[0] in 'ch' and r.random() < 0.3))
        out, exc = run_guarded(rec, op, case, lambda: getattr(mp, op)(M))
        if exc is not None:
            return
        if not L.equal(L.from_mpmatrix(M), Aq):
            rec.violation('C31/%s/input-overwritten' % op, '%s(overwrite_a=False) modified its argument' % op, case, None, None)
            return
    Qq, Tq = L.from_mpmatrix(out[0]), L.from_mpmatrix(out[1])
    if L.shape(Qq) != (n, n) or L.shape(Tq) != (n, n):
        rec.violation('C31/%s/shape' % op, 'factor shapes wrong', case, [L.shape(Qq), L.shape(Tq)], (n, n))
        return
    if not L.is_upper(Tq, 0 if op == 'schur' else 1):
        rec.violation('C31/%s/structure' % op, '%s: second factor is not %s' % (op, 'upper triangular' if op == 'schur' else 'upper Hessenberg'),
                      case, ser(Tq), None)
        return
    if not orth_check(rec, op, case, Qq, p):
        return
    R = L.sub(L.mul(L.mul(Qq, Tq), L.H(Qq)), Aq)
    fro_check(rec, '||Q T Q^H - A||_F/||A||_F %s' % op, case, 'C31/%s/residual' % op, R, L.fro2(Aq), p,
              '%s: Q*T*Q^H - A exceeds 2^(10-p)||A||_F' % op)


def check_svd(mp, rec, r, op, kind, p, Aq):
    m, n = L.shape(Aq)
    k = min(m, n)
    cplx = not L.is_real(Aq)
    case = {'op': op, 'kind': kind, 'prec': p, 'n': n, 'm': m, 'A': ser(Aq)}
    rec.case((op, p, key_of(Aq)), True, cls='%s/%s/%s' % (op, kind, 'C' if cplx else 'R'))
    full = op == 'svd/full'
    values = op == 'svd/values'
    with Prec(mp, p):
        M = to_mp(mp, Aq)
        if op == 'svd_rc':
            # svd_r is documented for real matrices only: it may be used only when no entry is complex-*typed*
            # (a GQ with zero imaginary part is injected as an mpc and belongs to svd_c)
            cplx_typed = any(isinstance(v, L.GQ) for row in Aq for v in row)
            u = None if cplx else r.random()          # drawn under the same condition as before: seeded case streams unchanged
            f = mp.svd_c if (cplx or cplx_typed or u < 0.3) else mp.svd_r
        else:
            f = mp.svd
        if values:
            out, exc = run_guarded(rec, op, case, lambda: f(M, compute_uv=False))
            if exc is None:
                ref_out, exc2 = run_guarded(rec, op, case, lambda: f(M))
                if exc2 is not None:
                    return
        else:
            out, exc = run_guarded(rec, op, case, lambda: f(M, full_matrices=full))
        if exc is not None:
            return
        if not L.equal(L.from_mpmatrix(M), Aq):
            rec.violation('C31/svd/input-overwritten', 'svd(overwrite_a=False) modified its argument', case, None, None)
            return
    S = out if values else out[1]
    Sl = [S[i] for i in range(len(S))]
    if len(Sl) != k:
        rec.violation('C31/svd/shape', 'wrong number of singular values', case, len(Sl), k)
        return
    if not all(is_real_type(s) for s in Sl):
        rec.violation('C31/svd/singular-value-type', 'singular values are not of real type', case, [type(s).__name__ for s in Sl], 'mpf')
        return
    Sq = [L.from_mp(s) for s in Sl]
    if any(s < 0 for s in Sq):
        rec.violation('C31/svd/negative-singular-value', 'a singular value is negative', case, [str(s) for s in Sq], '>= 0')
        return
    if any(Sq[i] < Sq[i + 1] for i in range(k - 1)):
        rec.violation('C31/svd/not-descending', 'singular values are not in descending order', case, [str(s) for s in Sq], 'descending')
        return
    a2 = L.fro2(Aq)
    if values:
        S2 = [L.from_mp(ref_out[1][i]) for i in range(k)]
        tau2 = L.pow2(2 * (11 - p)) * a2                     # 2*tau: both sets are within tau of the exact values (Weyl)
        for a, b in zip(Sq, S2):
            if (a - b) ** 2 > tau2:
                rec.violation('C31/svd/values-only-differs', 'svd(compute_uv=False) differs from the singular values of the full decomposition by more than 2*2^(10-p)||A||_F',
                              case, [str(a), str(b)], None)
                return
        return
    Uq, Vq = L.from_mpmatrix(out[0]), L.from_mpmatrix(out[2])
    su, sv = ((m, m), (n, n)) if full else ((m, k), (k, n))
    if L.shape(Uq) != su or L.shape(Vq) != sv:
        rec.violation('C31/svd/shape', 'U / V have the wrong shape', case, [L.shape(Uq), L.shape(Vq)], [su, sv])
        return
    rk = L.rank(Aq)
    cell = ('full-rank' if rk == k else 'rank-deficient') + ('/wide' if m < n else ('/tall' if m > n else '/square'))
    if not orth_check(rec, 'svd', case, Uq, p, 'U', cell=cell):
        return
    if not orth_check(rec, 'svd', case, Vq, p, 'V', rows=True, cell=cell):
        return
    if full:
        Sm = [[Sq[i] if i == j else Fraction(0) for j in range(n)] for i in range(m)]
    else:
        Sm = L.diag(Sq)
    R = L.sub(L.mul(L.mul(Uq, Sm), Vq), Aq)
    fro_check(rec, '||U S V - A||_F/||A||_F svd', case, 'C31/svd/reconstruction', R, a2, p, '%s: U*S*V - A exceeds 2^(10-p)||A||_F' % op)


def check_eig_sort(mp, rec, r, op, kind, p, Aq):
    n = len(Aq)
    how = op.split('/')[1]
    case = {'op': op, 'kind': kind, 'prec': p, 'n': n, 'A': ser(Aq)}
    with Prec(mp, p):
        M = to_mp(mp, Aq)
        try:
            E, EL, ER = mp.eig(M, left=True, right=True)
        except Exception:
            return
        E0 = [L.from_mp(e) for e in E]
        EL0, ER0 = L.from_mpmatrix(EL), L.from_mpmatrix(ER)
        before = [((E0[i].re, E0[i].im) if isinstance(E0[i], L.GQ) else (E0[i], Fraction(0)), key_of([EL0[i]]), key_of([L.column(ER0, i)]))
                  for i in range(n)]
        form = r.choice(['E', 'E,EL,ER', 'E,ER', 'E,EL'])
        args = {'E': (list(E),), 'E,EL,ER': (list(E), EL.copy(), ER.copy()), 'E,ER': (list(E), False, ER.copy()),
                'E,EL': (list(E), EL.copy(), False)}[form]
        kw = {}
        if how == 'neg-real':
            kw['f'] = lambda x: -mp.re(x)
        elif how != 'default':
            kw['f'] = how
        out, exc = run_guarded(rec, op, case, lambda: mp.eig_sort(*args, **kw))
        if exc is not None:
            rec.case((op, form, p, key_of(Aq)), True, cls='%s/%s' % (op, kind))
            return
    case['form'] = form
    rec.case((op, form, p, key_of(Aq)), n > 1, cls='%s/%s' % (op, kind))
    if form == 'E':
        Es, ELs, ERs = out, None, None
    elif form == 'E,EL,ER':
        Es, ELs, ERs = out
    elif form == 'E,ER':
        Es, ERs = out
        ELs = None
    else:
        Es, ELs = out
        ERs = None
    Eq = [L.from_mp(e) for e in Es]
    # ordering
    def keyv(e):
        if how in ('real', 'default'):
            return L.re(e)
        if how == 'neg-real':
            return -L.re(e)
        if how == 'imag':
            return L.im(e)
        return L.abs2(e)
    ks = [keyv(e) for e in Eq]
    slack = (1 + L.pow2(3 - p)) if how == 'abs' else 1
    for i in range(n - 1):
        if ks[i] > ks[i + 1] * slack and not (how == 'abs' and ks[i + 1] == 0 and ks[i] == 0):
            rec.violation('C31/eig_sort/order-%s' % how, 'eig_sort(f=%s): keys are not non-decreasing' % how, case,
                          [str(k) for k in ks], 'non-decreasing')
            return
    # the sorted output is a permutation of the input triples
    ELq = L.from_mpmatrix(ELs) if ELs is not None else EL0 and None
    ERq = L.from_mpmatrix(ERs) if ERs is not None else None
    after = []
    for i in range(n):
        e = Eq[i]
        ek = (e.re, e.im) if isinstance(e, L.GQ) else (e, Fraction(0))
        after.append((ek, key_of([ELq[i]]) if ELq is not None else None, key_of([L.column(ERq, i)]) if ERq is not None else None))
    bef = [(b[0], b[1] if ELq is not None else None, b[2] if ERq is not None else None) for b in before]
    if sorted(after, key=repr) != sorted(bef, key=repr):
        rec.violation('C31/eig_sort/not-a-permutation', 'eig_sort output is not a consistent permutation of (E, EL rows, ER columns)', case,
                      None, None)


# ---------------------------------------------------------------------------------------
# Gauss quadrature
# ---------------------------------------------------------------------------------------

def _ref_value(fn, p):
    """evaluate fn(rmp) in the reference library at two precisions; -> (lo, hi) Fractions or None"""
    from vf import refmodel
    rmp = refmodel.ref().mp
    old = rmp.prec
    try:
        rmp.prec = p + 80
        a = fn(rmp)
        rmp.prec = 2 * p + 200
        b = fn(rmp)
        qa, qb = L.from_mp(rmp.mpf(a)), L.from_mp(rmp.mpf(b))
    finally:
        rmp.prec = old
    if qb == 0:
        return (Fraction(0), Fraction(0)) if qa == 0 else None
    if abs(qa - qb) > L.pow2(-(p + 40)) * abs(qb):
        return None
    g = abs(qb) * L.pow2(-(p + 39))
    return qb - g, qb + g


def moment(qtype, k, a, b, p):
    """(lo, hi) enclosure of the integral of the test polynomial F_k against the weight"""
    def ex(q):
        return (q, q)
    if qtype == 'legendre':
        return ex(Fraction(2, k + 1) if k % 2 == 0 else Fraction(0))
    if qtype == 'legendre01':
        return ex(Fraction(1, k + 1))
    if qtype == 'laguerre':
        return ex(Fraction(math.factorial(k)))
    if qtype in ('hermite', 'chebyshev1', 'chebyshev2') and k % 2:
        return ex(Fraction(0))
    if qtype == 'hermite':
        return _ref_value(lambda m: m.gamma(m.mpf(k + 1) / 2), p)
    if qtype == 'chebyshev1':
        return _ref_value(lambda m: m.beta(m.mpf(k + 1) / 2, m.mpf(1) / 2), p)
    if qtype == 'chebyshev2':
        return _ref_value(lambda m: m.beta(m.mpf(k + 1) / 2, m.mpf(3) / 2), p)
    if qtype == 'glaguerre':
        if a.denominator == 1:
            return ex(Fraction(math.factorial(k + int(a))))
        return _ref_value(lambda m: m.gamma(k + 1 + m.mpf(a.numerator) / a.denominator), p)
    if qtype == 'jacobi':
        # F_k = (1+x)^k :  2^(a+b+k+1) B(a+1, b+k+1)
        return _ref_value(lambda m: m.mpf(2) ** (m.mpf(a.numerator) / a.denominator + m.mpf(b.numerator) / b.denominator + k + 1) *
                          m.beta(m.mpf(a.numerator) / a.denominator + 1, m.mpf(b.numerator) / b.denominator + k + 1), p)
    raise ValueError(qtype)


PARAMS = [Fraction(0), Fraction(-1, 2), Fraction(1, 2), Fraction(1), Fraction(2), Fraction(7, 2), Fraction(-3, 4), Fraction(1, 4),
          Fraction(5), Fraction(-15, 16), Fraction(6), Fraction(3, 8)]


def check_gauss(mp, rec, r, qtype, p, tier, n=None, a=None, b=None):
    n = n or r.randint(1, MAXSIZE[tier] if tier == 'quick' else 8)
    if qtype in ('glaguerre', 'jacobi'):
        a = a if a is not None else r.choice(PARAMS)
        b = b if b is not None else (r.choice(PARAMS) if qtype == 'jacobi' else Fraction(0))
    else:
        a = b = Fraction(0)
    case = {'op': 'gauss/' + qtype, 'n': n, 'alpha': str(a), 'beta': str(b), 'prec': p}
    rec.case(('gauss', qtype, n, a, b, p), True, cls='gauss/%s/n=%d' % (qtype, n))
    with Prec(mp, p):
        def call():
            if qtype in ('glaguerre', 'jacobi'):
                am, bm = L.to_mp_scalar(mp, a), L.to_mp_scalar(mp, b)
                if r.random() < 0.3 and a.denominator == 1 and b.denominator == 1:
                    am, bm = int(a), int(b)
                return mp.gauss_quadrature(n, qtype, am, bm)
            return mp.gauss_quadrature(n, qtype)
        out, exc = run_guarded(rec, 'gauss_quadrature/' + qtype, case, call)
        if exc is not None:
            return
    X, W = out
    try:
        xs = [L.from_mp(X[i]) for i in range(len(X))]
        ws = [L.from_mp(W[i]) for i in range(len(W))]
    except (ValueError, TypeError) as e:
        rec.violation('C31/gauss_quadrature/non-finite', 'nodes/weights are not finite numbers', case, repr(e), None)
        return
    if len(xs) != n or len(ws) != n or any(isinstance(v, L.GQ) for v in xs + ws):
        rec.violation('C31/gauss_quadrature/shape', 'nodes/weights: wrong count or not real', case, [len(xs), len(ws)], n)
        return
    worst = None
    for k in range(2 * n):
        if qtype == 'jacobi':
            terms = [w * (1 + x) ** k for x, w in zip(xs, ws)]
        else:
            terms = [w * x ** k for x, w in zip(xs, ws)]
        s = sum(terms, Fraction(0))
        sa = sum((abs(t) for t in terms), Fraction(0))
        mu = moment(qtype, k, a, b, p)
        if mu is None:
            rec.undecided('reference moment not self-consistent', case)
            return
        lo, hi = mu
        tol = L.pow2(10 - p) * sa
        dist = lo - s if s < lo else (s - hi if s > hi else Fraction(0))
        if dist > tol:
            sev = round(L.approx_log2(dist / sa) + p, 1) if sa else None
            rec.violation('C31/gauss_quadrature/%s/moment' % qtype,
                          'gauss_quadrature(%d, %s): polynomial of degree %d is not integrated exactly (beyond 2^(10-p) sum w|F|)' % (n, qtype, k),
                          dict(case, degree=k), observed={'sum': float(s), 'log2_err_over_scale': L.approx_log2(dist / sa) if sa else None},
                          expected={'integral': float(hi)}, severity=sev)
            return
        if dist and sa:
            e = L.approx_log2(dist / sa) + p
            worst = e if worst is None or e > worst else worst
    if worst is not None:
        rec.maximum('log2(quadrature error / (sum w|F| 2^-p)) ' + qtype, round(worst, 2), {'n': n, 'prec': p, 'alpha': str(a), 'beta': str(b)})


# ---------------------------------------------------------------------------------------
# driver
# ---------------------------------------------------------------------------------------

def pick_prec(r, i):
    if r.random() < 0.7:
        return PRECS[i % len(PRECS)]
    return r.randint(30, 300)


def pick_size(r, tier):
    smax = MAXSIZE[tier]
    return r.choice([1, 2, 2, 3, 3, 4, 5][:smax + 2] if smax <= 5 else [1, 2, 3, 4, 5, 6, 7, 8, 8, 6])


def dispatch(mp, rec, r, op, kind, p, Aq):
    if not envelope(Aq):
        rec.cls('outside-envelope/' + op)
        return
    base = op.split('/')[0]
    if base == 'eig':
        check_eig(mp, rec, r, op, kind, p, Aq)
    elif base in ('eigsy', 'eighe', 'eigh'):
        check_eigh(mp, rec, r, op, kind, p, Aq)
    elif base in ('schur', 'hessenberg'):
        check_schur_hess(mp, rec, r, op, kind, p, Aq)
    elif base in ('svd', 'svd_rc'):
        check_svd(mp, rec, r, op, kind, p, Aq)
    elif base == 'eig_sort':
        check_eig_sort(mp, rec, r, op, kind, p, Aq)


def run_case(mp, rec, r, i, tier):
    op, kind = CELLS[i % len(CELLS)]
    p = pick_prec(r, i // len(CELLS))
    if op.startswith('gauss/'):
        return check_gauss(mp, rec, r, op.split('/')[1], p, tier)
    n = pick_size(r, tier)
    if op.split('/')[0] in ('svd', 'svd_rc'):
        m = pick_size(r, tier)
        Aq = gen_rect(r, p, kind, m, n)
    else:
        Aq = gen_square(r, p, kind, n)
    if not all(L.fits(v, p) for row in Aq for v in row):
        # entries must be exactly representable at the working precision: round them (keeps symmetry)
        Aq = [[_round_entry(v, p) for v in row] for row in Aq]
    dispatch(mp, rec, r, op, kind, p, Aq)


def _round_entry(v, p):
    def rd(q):
        return L.raw_to_fraction(Q.round_to(Q.from_fraction(q), p, 'n')) if q else q
    if isinstance(v, L.GQ):
        return L.GQ(rd(v.re), rd(v.im))
    return rd(v)


ANCHORS = ['mpmath.matrices.eigen:hessenberg_reduce_0', 'mpmath.matrices.eigen:qr_step', 'mpmath.matrices.eigen:hessenberg_qr',
           'mpmath.matrices.eigen:eig_tr_r', 'mpmath.matrices.eigen:eig_tr_l', 'mpmath.matrices.eigen:eig_sort',
           'mpmath.matrices.eigen_symmetric:r_sy_tridiag', 'mpmath.matrices.eigen_symmetric:c_he_tridiag_0',
           'mpmath.matrices.eigen_symmetric:tridiag_eigen', 'mpmath.matrices.eigen_symmetric:svd_r_raw',
           'mpmath.matrices.eigen_symmetric:svd_c_raw', 'mpmath.matrices.eigen_symmetric:gauss_quadrature']


def run_shard(shard, rec):
    mp = _mp()
    r = G.rng(PROP, shard['seed'], shard['shard'])
    tier = shard['tier']
    if L.selftest(30) != 0:
        raise RuntimeError('linalgq selftest failed')
    from vf.instrument import AnchorCount
    with AnchorCount(rec, ANCHORS):
        for i in range(shard['n']):
            run_case(mp, rec, r, i * NSHARDS + shard['shard'], tier)
    rec.event('decompositions with exactly evaluated residuals', rec.evals)


def required(agg, tier):
    miss = []
    for op in ('eig/right', 'eig/left', 'eig/both', 'eig/values', 'eigsy', 'eighe', 'eigh', 'schur', 'hessenberg', 'svd/', 'svd/full',
               'svd/values', 'svd_rc', 'eig_sort/real', 'eig_sort/imag', 'eig_sort/abs'):
        if not any(k.startswith(op) for k in agg['classes']):
            miss.append('no %s case observed' % op)
    for q in QTYPES:
        if not any(k.startswith('gauss/%s/' % q) for k in agg['classes']):
            miss.append('no gauss_quadrature %s case observed' % q)
    for kind in ('defective', 'repeated', 'zerorows', 'tri', 'diag'):
        if not any(kind in k for k in agg['classes']):
            miss.append('matrix class %s never generated' % kind)
    if not agg['events'].get('decompositions with exactly evaluated residuals'):
        miss.append('oracle evaluated nothing')
    return miss


def replay(case, rec):
    mp = _mp()
    c = case['case']
    import random
    r = random.Random(0)
    op, p = c['op'], c['prec']
    if op.startswith('gauss/'):
        check_gauss(mp, rec, r, op.split('/')[1], p, 'thorough', n=c['n'], a=Fraction(c['alpha']), b=Fraction(c['beta']))
    else:
        dispatch(mp, rec, r, op, c.get('kind', 'r-replay'), p, deser(c['A']))
