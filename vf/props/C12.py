"""C12 -- elementary functions are accurate to the working precision.

Observed: the value returned by every listed elementary function of the mp context at exact dyadic arguments
(real and complex, tiny to huge, next to zeros / branch points / poles / cuts), precisions 10..3500.
Oracle: vf.ball -- rigorous enclosure of the exact value at the exact argument, refined until the relative-error
bound 2^(4-p) is decided (violated iff the whole enclosure is at least tol away, held iff the whole enclosure is
closer than tol).  Bound per part for exp, log, sin, cos, sinh, cosh; for the others each part's absolute error is
measured against max(|Re|,|Im|) ("the larger part").  Real argument inside the real domain -> mpf required; outside ->
mpc equal to the documented principal value."""
import math
from vf import gens as G
from vf import ball as B
from vf.exactq import canon, fzero

PROP = 'C12'
LEVEL = 'exploration'
NEEDS_REF = False
RULE = ('seeded stratified generation: function x argument kind (real/complex) x argument class (random 2^+-40, magnitudes '
        '2^+-100/1000/10^5, nearest q-bit neighbours of k pi/2, 1+-2^-k, +-i(1+-2^-k), on/next to both sides of cuts, poles, '
        'anisotropic, long mantissas) x precision (10..3500 incl. 400/600/2500/3000 +-1); every case is non-trivial unless the '
        'exact value is exactly representable (exact zero / exact point enclosure); distinct = distinct (function, arguments, p)')
ASSUMPTIONS = ['vf/ball.py enclosures are correct (validated by python -m vf.ball: independent constants, identities, containment '
               'of 3x-precision values of the tree and of release 1.3.0 on >= 10^4 points per function)',
               'arguments are injected exactly through ctx.make_mpf/make_mpc, results read from ._mpf_/._mpc_',
               'branch conventions = formulas of function_docs.py with log/sqrt continuous from above (no signed zeros)']
LEVEL_TEXT = ('exploration: ~6.4*10^5 (quick) / ~10^7 (thorough) function values of the real code, each decided against a rigorous '
              'interval enclosure of the exact value; violated only when the whole enclosure is outside the tolerance')
LEVEL_NOTE = ('trusted base: vf/ball.py; inputs not generated are not covered; functions outside the statement (coth, sech, csch, '
              'sincpi) are observed, not asserted; regime-keyed known findings mask further degradation inside a listed cell up to '
              'its ceiling')
TECHNIQUE = 'runtime reference-model monitor: rigorous ball-arithmetic oracle on every observed elementary function value'
SHARD_TIMEOUT = {'quick': 1200, 'thorough': 7200}

N_SHARDS = 16
CASES = {'quick': 40000, 'thorough': 600000}

# ---------------------------------------------------------------------------------------
# the function table (fixed before looking at any result)
# ---------------------------------------------------------------------------------------
PERPART = ('exp', 'ln', 'log', 'log10', 'sin', 'cos', 'sinh', 'cosh')
# functions named by the statement
ASSERTED_UNARY = ['exp', 'ln', 'log10', 'sqrt', 'cbrt', 'sin', 'cos', 'tan', 'sec', 'csc', 'cot', 'sinh', 'cosh', 'tanh',
                  'asin', 'acos', 'atan', 'asec', 'acsc', 'acot', 'asinh', 'acosh', 'atanh', 'asech', 'acsch', 'acoth',
                  'arg', 'sinpi', 'cospi', 'expj', 'expjpi', 'log1p', 'expm1', 'sinc']
ASSERTED_BINARY = ['log', 'root', 'power', 'powm1', 'atan2', 'hypot']
# not named by the statement: observed only (rec.note / maxima), never a violation
OBSERVED_ONLY = ['coth', 'sech', 'csch', 'sincpi']
REAL_ONLY = ('atan2', 'hypot')
EXPLIKE = ('exp', 'expm1', 'sinh', 'cosh', 'tanh', 'coth', 'sech', 'csch')
TRIGLIKE = ('sin', 'cos', 'tan', 'cot', 'sec', 'csc', 'sinc', 'expj')
PILIKE = ('sinpi', 'cospi', 'expjpi', 'sincpi')
NEAR1 = ('ln', 'log', 'log10', 'acos', 'asin', 'acosh', 'atanh', 'asec', 'acsc', 'asech', 'acoth', 'power', 'powm1', 'sqrt', 'cbrt',
         'root', 'log1p')
NEARI = ('atan', 'acot', 'asinh', 'acsch')
ALL_FUNCS = ASSERTED_UNARY + ASSERTED_BINARY + OBSERVED_ONLY

# regime partition (finite, declared a priori): nearest special point x distance bucket x magnitude bucket x anisotropy
SPECIALS = {
    'exp': ['0', 'ikpi2', 'inf'], 'expm1': ['0', 'ikpi2', 'inf'],
    'ln': ['0', '1', '-1', 'abs1', 'inf'], 'log': ['0', '1', '-1', 'abs1', 'inf'], 'log10': ['0', '1', '-1', 'abs1', 'inf'],
    'log1p': ['0', '-1', '-2', 'inf'],
    'sqrt': ['0', 'inf'], 'cbrt': ['0', 'inf'], 'root': ['0', 'inf'],
    'sin': ['kpi2', 'inf'], 'cos': ['kpi2', 'inf'], 'tan': ['kpi2', 'inf'], 'cot': ['kpi2', 'inf'], 'sec': ['kpi2', 'inf'],
    'csc': ['kpi2', 'inf'], 'sinc': ['kpi2', 'inf'], 'expj': ['kpi2', 'inf'],
    'sinpi': ['k2', 'inf'], 'cospi': ['k2', 'inf'], 'expjpi': ['k2', 'inf'], 'sincpi': ['k2', 'inf'],
    'sinh': ['0', 'ikpi2', 'inf'], 'cosh': ['0', 'ikpi2', 'inf'], 'tanh': ['0', 'ikpi2', 'inf'], 'coth': ['0', 'ikpi2', 'inf'],
    'sech': ['0', 'ikpi2', 'inf'], 'csch': ['0', 'ikpi2', 'inf'],
    'asin': ['0', '1', '-1', 'inf'], 'acos': ['0', '1', '-1', 'inf'], 'acosh': ['0', '1', '-1', 'inf'],
    'atanh': ['0', '1', '-1', 'inf'], 'asec': ['0', '1', '-1', 'inf'], 'acsc': ['0', '1', '-1', 'inf'],
    'asech': ['0', '1', '-1', 'inf'], 'acoth': ['0', '1', '-1', 'inf'],
    'atan': ['0', 'i', '-i', 'inf'], 'acot': ['0', 'i', '-i', 'inf'], 'asinh': ['0', 'i', '-i', 'inf'],
    'acsch': ['0', 'i', '-i', 'inf'],
    'arg': ['0', 'inf'], 'atan2': ['0', 'inf'], 'hypot': ['0', 'inf'],
    'power': ['0', '1', '-1', 'abs1', 'inf'], 'powm1': ['0', '1', '-1', 'abs1', 'inf'],
}
DIST_BUCKETS = ('far', 'near', 'vnear')        # >= 2^-8 ; 2^(-p/2) .. 2^-8 ; < 2^(-p/2)   (relative)
MAG_BUCKETS = ('tiny', 'small', 'unit', 'large', 'huge')     # <2^-40, <2^-2, <=2^2, <=2^40, >2^40
EXPO_CLASSES = ('int', 'half', 'real', 'complex')


def shards(tier, seed):
    return [{'n': CASES[tier]} for _ in range(N_SHARDS)]


# ---------------------------------------------------------------------------------------
# generators (exact dyadics (m, e))
# ---------------------------------------------------------------------------------------

def pick_prec(r, tier):
    x = r.random()
    big = 0.012 if tier == 'quick' else 0.03
    if x < big:
        return r.choice(G.PRECS_BIG)
    if x < big + 0.10:
        return r.choice(G.PRECS_THRESH)
    if x < 0.55:
        return r.choice([10, 11, 15, 24, 53, 53, 53, 64, 100, 113, 200, 333])
    if x < 0.8:
        return r.randint(10, 400)
    return r.randint(10, 120)


def rand_dy(r, bits, lo_exp, hi_exp, sign=None):
    bits = max(1, bits)
    m = G.mantissa(r, bits)
    top = r.randint(lo_exp, hi_exp)
    s = r.randint(0, 1) if sign is None else sign
    return (-m if s else m), top - m.bit_length()


def near_pi2(r, bits):
    """nearest `bits`-bit dyadic to k pi/2 (k up to 2^200), sometimes one ulp off"""
    k = r.choice([1, 1, 2, 3, 4, 5, 7, r.randint(1, 1000), r.getrandbits(r.choice([20, 64, 128, 200])) | 1])
    W = bits + k.bit_length() + 8
    plo, phi = B._pi_fixed(W)
    m, e = k * plo, -W - 1
    bl = m.bit_length()
    if bl > bits:
        s = bl - bits
        m = (m + (1 << (s - 1))) >> s
        e += s
    if r.random() < 0.3:
        m += r.choice([-1, 1])
    if r.random() < 0.5:
        m = -m
    return m, e


def mant_bits(r, p):
    return r.choice([p, p, p, p, max(1, p - 1), p // 2 + 1, 5, 1, 20, 2 * p, 3 * p + 7, p + 1])


def real_point(r, fname, p):
    """-> ((m, e), class label)"""
    bits = mant_bits(r, p)
    k = r.random()
    if fname in EXPLIKE and k > 0.93:
        # where exp(-2|x|) crosses 2^-p: the "does exp(-2x) vanish" shortcuts of cosh/sinh/tanh
        t = p * 0.34657 * (1 + r.uniform(-0.12, 0.12))
        m = int(t * 256) | 1
        return (r.choice([-1, 1]) * m, -8), 'exp(-2x)~2^-p'
    if fname in PILIKE and k < 0.35:
        n = r.randint(-50, 50) if r.random() < 0.7 else r.getrandbits(r.choice([60, 120]))
        j = r.choice([0, 1, 2, 3])
        m, e = 4 * n + j, -2
        d = r.choice([10, 30, p - 3, p, 2 * p])
        m, e = (m << d) + r.choice([-1, 1, 3]), e - d
        return (m, e), 'near-k/4'
    if fname in TRIGLIKE and k < 0.35:
        return near_pi2(r, r.choice([p, p, p + 10, 2 * p, 3 * p + 50])), 'near-kpi/2'
    if fname in NEAR1 and k < 0.35 or k < 0.12:
        j = r.choice([1, 2, 3, 10, 20, 40, p // 2, p - 2, p - 1, p, p + 5, 2 * p, r.randint(1, 3 * p)])
        s = r.choice([1, 1, -1])
        return (s * ((1 << j) + r.choice([-1, 1])), -j), 'near-1'
    if k < 0.42:
        c = r.choice(['mag100', 'mag1000', 'mag1e5'])
        top = {'mag100': 100, 'mag1000': 1000, 'mag1e5': 100000}[c]
        sgn = r.choice([-1, 1])
        if sgn > 0:
            if fname in EXPLIKE or fname in ('power', 'powm1'):
                top = r.choice([12, 20, 30, 100, 1000]) if fname in EXPLIKE else 8
                c = 'big-exp'
            lo = 41 if top > 41 else 3
            return rand_dy(r, bits, min(lo, top), top), c
        return rand_dy(r, bits, -top, -41), c + '-tiny'
    if k < 0.5:
        return rand_dy(r, r.choice([2 * p, 3 * p, 4 * p + 3]), -3, 3), 'long-mantissa'
    if k < 0.56:
        return (r.randint(-40, 40), -r.choice([0, 0, 1, 2])), 'small-int'
    if fname in EXPLIKE:
        return rand_dy(r, bits, -40, 9), 'rand'
    return rand_dy(r, bits, -40, 40), 'rand'


def complex_point(r, fname, p):
    """-> ((re), (im), class label)"""
    bits = mant_bits(r, p)
    k = r.random()
    lim = 40
    if fname in EXPLIKE or fname in TRIGLIKE or fname in PILIKE:
        lim = 9
    if fname in ('tan', 'cot', 'sec', 'csc', 'tanh', 'coth', 'sech', 'csch'):
        lim = 6

    def rnd():
        return rand_dy(r, bits, -40, lim)
    if k < 0.05 and fname in ('ln', 'log', 'log10', 'power', 'powm1', 'root', 'cbrt', 'sqrt', 'arg'):
        # p-bit (or 53-bit) roundings of points of the unit circle: |z|^2 - 1 ~ 2^-min(p,53)
        th = r.uniform(-math.pi, math.pi)
        q = min(p, 53)

        def rd(v):
            if v == 0:
                return (0, 0)
            fm, fe = math.frexp(v)
            return (int(round(fm * (1 << q))), fe - q)
        return rd(math.cos(th)), rd(math.sin(th)), 'unit-circle'
    if k < 0.18:
        return rnd(), rnd(), 'rand'
    if k < 0.28:
        a = rnd()
        top = a[0].bit_length() + a[1]
        b = rand_dy(r, bits, top - r.choice([40, 60, 100, 2 * p + 34, 300]), top - 33)
        return (a, b, 'aniso-im-small') if r.random() < 0.5 else (b, a, 'aniso-re-small')
    if k < 0.36:
        a = rnd()
        return (a, (0, 0), 'real-axis') if r.random() < 0.5 else ((0, 0), a, 'imag-axis')
    if k < 0.52:
        j = r.choice([1, 5, 20, p // 2, p - 1, p, 2 * p])
        d = r.choice([(1, 0), (-1, 0), (0, 1), (0, -1), (1, 1), (1, -1), (-1, 1), (-1, -1)])
        c = r.choice([(1, 0), (-1, 0), (0, 1), (0, -1)])
        if fname in NEARI and r.random() < 0.6:
            c = r.choice([(0, 1), (0, -1)])
        return ((c[0] << j) + d[0], -j), ((c[1] << j) + d[1], -j), 'near-branch-point'
    if k < 0.66:
        a = rand_dy(r, bits, -3, 6)
        j = r.choice([10, 50, p, 2 * p, 1000])
        t = r.choice([(1, -j), (-1, -j), (0, 0)])
        return (a, t, 'next-to-real-axis') if r.random() < 0.5 else (t, a, 'next-to-imag-axis')
    if k < 0.78 and (fname in TRIGLIKE or fname in ('tanh', 'coth', 'sech', 'csch', 'sinh', 'cosh')):
        a = near_pi2(r, r.choice([p, 2 * p]))
        if a[0].bit_length() + a[1] > 30:
            a = near_pi2(r, p)
            while a[0].bit_length() + a[1] > 30:
                a = near_pi2(r, p)
        j = r.choice([10, 50, p, 2 * p])
        t = r.choice([(1, -j), (-1, -j), (3, -j - 2), (0, 0)])
        if fname in TRIGLIKE:
            return a, t, 'near-pole-or-zero'
        return t, a, 'near-pole-or-zero'
    if k < 0.78 and fname in PILIKE:
        n = r.randint(-40, 40)
        d = r.choice([10, 30, p])
        a = (((2 * n + r.choice([0, 1])) << d) + r.choice([-1, 0, 1]), -d - 1)
        t = rand_dy(r, bits, r.choice([-60, 0, 250]), r.choice([300, 310]))
        if t[0].bit_length() + t[1] < -100 or r.random() < 0.5:
            t = rand_dy(r, bits, 280, 310)
        return a, t, 'huge-imag'
    if k < 0.86:
        return rand_dy(r, bits, -1000, -41), rand_dy(r, bits, -1000, -41), 'tiny'
    if k < 0.92 and fname not in EXPLIKE and fname not in TRIGLIKE and fname not in PILIKE:
        return rand_dy(r, bits, 41, 1000), rand_dy(r, bits, 41, 1000), 'huge'
    if k < 0.92 and fname in TRIGLIKE:
        return rand_dy(r, bits, 41, 1000), rand_dy(r, bits, -10, 5), 'huge-real'
    return rnd(), rnd(), 'rand'


def raw(d):
    m, e = d
    if m == 0:
        return fzero
    return canon(1 if m < 0 else 0, abs(m), e)


def gen_case(r, fname, kind, p):
    """-> (specs, class label, function label)"""
    def R():
        d, c = real_point(r, fname, p)
        return ('R', raw(d)), c

    def C():
        a, b, c = complex_point(r, fname, p)
        return ('C', raw(a), raw(b)), c
    if fname in ASSERTED_UNARY or fname in OBSERVED_ONLY:
        s, c = R() if kind == 'R' else C()
        return [s], c, fname
    if fname in ('atan2', 'hypot'):
        a = rand_dy(r, mant_bits(r, p), -40, 40)
        b = rand_dy(r, mant_bits(r, p), -40, 40)
        q = r.random()
        c = 'quadrant'
        if q < 0.12:
            a, c = (0, 0), 'y=0'
        elif q < 0.24:
            b, c = (0, 0), 'x=0'
        elif q < 0.45:
            b, c = rand_dy(r, p, -1000, 1000), 'aniso'
        elif q < 0.55:
            a, c = rand_dy(r, p, -100000, -1000), 'y-tiny'
        if a[0] == 0 and b[0] == 0:
            b = (1, 0)
        return [('R', raw(a)), ('R', raw(b))], c, fname
    if fname == 'root':
        n = r.choice([1, 2, 3, 3, 4, 5, 7, 10, 12, 50, 1000])
        s, c = R() if kind == 'R' else C()
        return [s, ('I', n)], c, 'root'
    if fname == 'log':
        s, c = R() if kind == 'R' else C()
        q = r.random()
        if q < 0.3:
            b = ('I', r.choice([2, 3, 10, 16]))
        elif q < 0.8:
            b = ('R', raw(rand_dy(r, r.choice([2, 10, p]), -5, 10, sign=0)))
            if b[1] == (0, 1, 0, 1):
                b = ('I', 7)
        elif q < 0.9:
            j = r.choice([3, 20, p - 1])
            b = ('R', raw(((1 << j) + r.choice([-1, 1]), -j)))
        else:
            b = ('R', raw(rand_dy(r, p, -3, 3, sign=1)))
        return [s, b], c, 'log:base'
    if fname in ('power', 'powm1'):
        if kind == 'R':
            q = r.random()
            base = rand_dy(r, mant_bits(r, p), -8, 8, sign=0 if q < 0.75 else None)
            c = 'rand'
            if r.random() < (0.5 if fname == 'powm1' else 0.2):
                j = r.choice([5, 20, p - 1, p, 2 * p])
                base, c = ((1 << j) + r.choice([-1, 1]), -j), 'near-1'
            x = ('R', raw(base))
        else:
            a, b, c = complex_point(r, 'ln', p)
            x = ('C', raw(a), raw(b))
        q = r.random()
        if q < 0.3:
            y, ec = ('I', r.choice([r.randint(-20, 20), r.randint(-1000, 1000), 2, 3, -1])), 'int'
        elif q < 0.45:
            y, ec = ('R', raw((2 * r.randint(-10, 10) + 1, -1))), 'half'
        elif q < 0.8 or kind == 'R':
            y, ec = ('R', raw(rand_dy(r, mant_bits(r, p), -30 if fname == 'powm1' else -8, 5))), 'real'
        else:
            y, ec = ('C', raw(rand_dy(r, p, -8, 4)), raw(rand_dy(r, p, -8, 4))), 'complex'
        return [x, y], c, '%s:%s' % (fname, ec)
    raise KeyError(fname)


# ---------------------------------------------------------------------------------------
# classification of a violating argument into a cell of the a-priori partition
# ---------------------------------------------------------------------------------------

def _lg(d):
    """log2 |m 2^e| (float; -inf for 0)"""
    return B._log2_dy(d[0], d[1])


def _sub(a, b):
    return B._dadd_exact(a[0], a[1], -b[0], b[1])


def _hyp_lg(a, b):
    """log2 of hypot within half a bit: max of the component logs"""
    return max(_lg(a), _lg(b))


def _dist_half_int(x):
    """log2 distance from the dyadic x to the nearest multiple of 1/2 (exact)"""
    m, e = x
    if m == 0 or e >= -1:
        return float('-inf')
    sh = -e - 1                         # x = m 2^e; 2x = m 2^(e+1); fractional part of 2x
    frac = m & ((1 << sh) - 1)
    if frac > (1 << (sh - 1)):
        frac = (1 << sh) - frac
    return _lg((frac, e))


def classify(fname, specs, p):
    """regime cell of the FIRST argument: (special point, distance bucket, magnitude bucket, aniso)"""
    s0 = specs[0]
    if s0[0] == 'I':
        x, y = (s0[1], 0), (0, 0)
    elif s0[0] == 'R':
        x, y = B._dy_of(tuple(s0[1])), (0, 0)
    else:
        x, y = B._dy_of(tuple(s0[1])), B._dy_of(tuple(s0[2]))
    if fname in ('atan2', 'hypot'):
        y = B._dy_of(tuple(specs[1][1])) if specs[1][0] == 'R' else (specs[1][1], 0)
    zl = _hyp_lg(x, y)                     # log2 |z|
    best = None
    for sp in SPECIALS[fname]:
        if sp == '0':
            d = zl
        elif sp == 'inf':
            d = -zl
        elif sp in ('1', '-1', '-2'):
            c = int(sp)
            d = _hyp_lg(_sub(x, (c, 0)), y) - (1 if c == -2 else 0)
        elif sp in ('i', '-i'):
            c = 1 if sp == 'i' else -1
            d = _hyp_lg(x, _sub(y, (c, 0)))
        elif sp == 'abs1':
            # | |z|^2 - 1 | / 2 ~ ||z| - 1|
            h = B._dadd_exact(x[0] * x[0], 2 * x[1], y[0] * y[0], 2 * y[1])
            h = B._dadd_exact(h[0], h[1], -1, 0)
            d = _lg(h) - 1 if abs(zl) < 2 else 99.0
        elif sp in ('kpi2', 'ikpi2'):
            a, b = (x, y) if sp == 'kpi2' else (y, x)
            try:
                n, rl = B.nearest_pi2_multiple(a[0], a[1])
            except B.Indeterminate:
                n, rl = 1, 0.0
            d = max(rl, _lg(b))
            if n != 0:
                d -= max(zl, 0.0)
        elif sp == 'k2':
            d = max(_dist_half_int(x), _lg(y))
            if zl > 0:
                d -= zl
        else:
            raise KeyError(sp)
        if best is None or d < best[0]:
            best = (d, sp)
    d, sp = best
    bucket = 'far' if d >= -8 else ('near' if d >= -p / 2.0 else 'vnear')
    mag = 'tiny' if zl < -40 else ('small' if zl < -2 else ('unit' if zl <= 2 else ('large' if zl <= 40 else 'huge')))
    if x[0] == 0 or y[0] == 0:
        aniso = 'yes' if (s0[0] == 'C' or fname in ('atan2', 'hypot')) else 'no'
    else:
        aniso = 'yes' if abs(_lg(x) - _lg(y)) > 32 else 'no'
    return sp, bucket, mag, aniso


def regime_key(flabel, fname, kind, specs, p):
    sp, bucket, mag, aniso = classify(fname, specs, p)
    return 'C12/%s/%s/%s:%s/%s/aniso:%s' % (flabel, kind, sp, bucket, mag, aniso)


# ---------------------------------------------------------------------------------------
# one case
# ---------------------------------------------------------------------------------------

def _mp():
    import mpmath
    return mpmath.mp


def _special(t):
    return t[1] == 0 and t != fzero


def _rule_for(fname, specs):
    if fname in PERPART:
        if fname == 'log' and len(specs) == 2:
            b = specs[1]
            # per part only when ln(b) is real (positive real base): a complex divisor mixes the parts
            if b[0] == 'I':
                return 'part' if b[1] > 0 else 'larger'
            if b[0] == 'R':
                return 'part' if (b[1][0] == 0 and b[1][1] != 0) else 'larger'
            return 'larger'
        return 'part'
    return 'larger'


def _sev(err_log2, p):
    """bits lost beyond the tolerance 2^(4-p)"""
    if err_log2 == float('inf'):
        return 10 ** 6
    return max(0, int(math.ceil(err_log2 - (4 - p))))


def check_case(mp, rec, fname, flabel, kind, specs, p, cls, asserted=True):
    from vf.catalog import build
    case = {'f': fname, 'label': flabel, 'kind': kind, 'specs': specs, 'prec': p, 'class': cls}
    ident = (fname, tuple(map(tuple, specs)), p)
    old = mp.prec
    mp.prec = p
    exc = None
    try:
        args = [build(mp, s) for s in specs]
        try:
            v = getattr(mp, fname)(*args)
        except Exception as ex:          # noqa
            exc, v = ex, None
    finally:
        mp.prec = old
    if v is not None:
        if hasattr(v, '_mpf_'):
            got = (tuple(v._mpf_), None)
        elif hasattr(v, '_mpc_'):
            got = (tuple(v._mpc_[0]), tuple(v._mpc_[1]))
        else:
            got = None
    else:
        got = None
    rule = _rule_for(fname, specs)
    tol = 4 - p
    state = {}

    def decide(E):
        if got is None:
            return 'enclosed'
        re, im = got
        if _special(re) or (im is not None and _special(im)):
            return 'enclosed'
        if isinstance(E, B.RB):
            if im is not None and im != fzero:
                return 'violated'            # nonzero imaginary part where the exact value is real
            return B.decide_rel_error(re, E, tol)
        return B.decide_rel_error_complex(re, im if im is not None else fzero, E, tol, rule)
    enc = B.enclose(fname, specs, p, decide=decide)
    E = enc.value
    clsname = '%s/%s/%s' % (flabel, kind, cls)
    if E is None:
        # no finite enclosure: a pole / exact singular point or outside ball's envelope -- nothing is asserted
        rec.case(ident, False, cls=clsname)
        rec.event('no finite enclosure (pole or outside the oracle envelope)')
        rec.note('no-enclosure', {'case': case, 'reason': enc.reason, 'raised': repr(exc) if exc else None})
        return
    nontrivial = not (E.is_point() if isinstance(E, B.RB) else (E.re.is_point() and E.im.is_point()))
    rec.case(ident, nontrivial, cls=clsname)
    rec.event('values decided against a ball enclosure')
    if enc.levels > 1:
        rec.event('enclosures refined beyond p+32 bits')
    if not asserted:
        # outside the statement: observe only
        if got is not None and enc.verdict == 'violated':
            rec.note('observed-only function outside 2^(4-p)', case, cap=10)
            rec.event('observed-only function: error above 2^(4-p) (not asserted)')
        return
    if exc is not None:
        key = 'C12/%s/%s/raises:%s' % (flabel, kind, type(exc).__name__)
        rec.violation(key, '%s raises %s at a finite argument where the function is finite' % (fname, type(exc).__name__), case,
                      observed=repr(exc), expected=repr(E))
        return
    if got is None:
        rec.violation('C12/%s/%s/type' % (flabel, kind), 'result is not an mpf/mpc', case, observed=repr(v), expected=repr(E))
        return
    re, im = got
    if _special(re) or (im is not None and _special(im)):
        rec.violation('C12/%s/%s/nonfinite' % (flabel, kind), 'inf/nan returned where the exact value is finite', case,
                      observed=got, expected=repr(E))
        return
    # type rule: real argument inside the real domain -> mpf
    if isinstance(E, B.RB) and im is not None and kind == 'R':
        rec.violation('C12/%s/R/type' % flabel, 'real argument inside the real domain gives a complex result', case,
                      observed=got, expected=repr(E))
        return
    verdict = enc.verdict
    # error measures for the evidence (floats, for reporting): both parts always recorded
    if isinstance(E, B.RB):
        lo, hi = B.err_bits(re, E)
        errs = {'re': (lo, hi)}
        worst_min = lo
    else:
        imr = im if im is not None else fzero
        if rule == 'part':
            a = B.err_bits(re, E.re)
            b = B.err_bits(imr, E.im)
        else:
            scale = abs(E.re).hull(abs(E.im))
            scale = B.RB(scale.hi)                         # max |part| upper bound
            a = B.abs_err_bits(re, E.re, scale)
            b = B.abs_err_bits(imr, E.im, scale)
        errs = {'re': a, 're_rel': B.err_bits(re, E.re), 'im': b, 'im_rel': B.err_bits(imr, E.im)}
        worst_min = max(a[0], b[0])
    if verdict == 'held':
        m = max(v[1] for k, v in errs.items() if not k.endswith('_rel'))
        if m > float('-inf'):
            rec.maximum('max error (units of 2^-p) %s/%s' % (flabel, kind), round(2.0 ** min(m + p, 60), 4), case)
        return
    if verdict == 'violated':
        key = regime_key(flabel, fname, kind, specs, p)
        sev = _sev(worst_min, p)
        rec.violation(key, '%s: relative error >= 2^(4-p) (%s rule); error 2^%.1f, tolerance 2^%d, %d bits beyond'
                      % (flabel, 'per-part' if rule == 'part' else 'larger-part', worst_min, tol, sev),
                      case, observed={'value': got, 'err_log2': errs}, expected=repr(E), severity=sev)
        return
    rec.undecided('enclosure still too wide at the precision cap', case)


# ---------------------------------------------------------------------------------------
def _plan(shard_index, n):
    """deterministic schedule: (function, kind) round-robin, offset by shard so that all shards cover everything"""
    cells = []
    for f in ALL_FUNCS:
        if f in REAL_ONLY:
            cells.append((f, 'R'))
            continue
        cells.append((f, 'R'))
        cells.append((f, 'C'))
        if f not in OBSERVED_ONLY:
            cells.append((f, 'C'))          # complex arguments weigh double: most regimes live there
    return cells


ANCHORS = ['mpmath.libmp.libelefun:mpf_exp', 'mpmath.libmp.libelefun:mpf_log', 'mpmath.libmp.libelefun:mpf_cos_sin',
           'mpmath.libmp.libelefun:mpf_atan', 'mpmath.libmp.libelefun:mod_pi2', 'mpmath.libmp.libelefun:mpf_log_hypot',
           'mpmath.libmp.libmpc:acos_asin', 'mpmath.libmp.libmpc:mpc_exp', 'mpmath.libmp.libmpc:mpc_log',
           'mpmath.libmp.libmpc:mpc_cos', 'mpmath.libmp.libmpc:mpc_sin', 'mpmath.libmp.libmpc:mpc_tan',
           'mpmath.libmp.libelefun:mpf_nthroot', 'mpmath.libmp.libmpc:mpc_nthroot', 'mpmath.libmp.libmpc:mpc_sqrt',
           'mpmath.libmp.libmpc:mpc_atan', 'mpmath.libmp.libelefun:mpf_pow', 'mpmath.libmp.libmpc:mpc_pow',
           'mpmath.libmp.libelefun:mod_pi2@cancellation_prec = ']


def run_shard(shard, rec):
    mp = _mp()
    r = G.rng(PROP, shard['seed'], shard['shard'])
    tier = shard['tier']
    cells = _plan(shard['shard'], shard['n'])
    from vf.instrument import AnchorCount
    off = shard['shard'] * 7
    with AnchorCount(rec, ANCHORS):
        for i in range(shard['n']):
            fname, kind = cells[(i + off) % len(cells)]
            p = pick_prec(r, tier)
            specs, cls, flabel = gen_case(r, fname, kind, p)
            check_case(mp, rec, fname, flabel, kind, specs, p, cls, asserted=fname not in OBSERVED_ONLY)


def required(agg, tier):
    miss = []
    seen = set(k.split('/')[0].split(':')[0] + '/' + k.split('/')[1] for k in agg['classes'])
    for f in ASSERTED_UNARY + ASSERTED_BINARY:
        for kind in (['R'] if f in REAL_ONLY else ['R', 'C']):
            if '%s/%s' % (f, kind) not in seen:
                miss.append('function %s with %s arguments never observed' % (f, kind))
    if not agg['events'].get('values decided against a ball enclosure'):
        miss.append('the ball oracle decided nothing')
    for a in ('mpmath.libmp.libelefun:mod_pi2', 'mpmath.libmp.libelefun:mpf_log_hypot', 'mpmath.libmp.libmpc:acos_asin',
              'mpmath.libmp.libelefun:mpf_nthroot', 'mpmath.libmp.libmpc:mpc_sqrt'):
        if a in agg['anchors'] and not agg['anchors'][a]:
            miss.append('anchor %s never reached' % a)
    return miss


def replay(case, rec):
    from vf.core import unjson_int
    mp = _mp()
    c = case['case']

    def rw(t):
        return (int(t[0]), unjson_int(t[1]), unjson_int(t[2]), int(t[3]))
    specs = []
    for s in c['specs']:
        if s[0] == 'I':
            specs.append(('I', unjson_int(s[1])))
        elif s[0] == 'R':
            specs.append(('R', rw(s[1])))
        else:
            specs.append(('C', rw(s[1]), rw(s[2])))
    check_case(mp, rec, c['f'], c['label'], c['kind'], specs, int(c['prec']), c['class'], asserted=c['f'] not in OBSERVED_ONLY)


# ---------------------------------------------------------------------------------------
# Defects found in the pinned tree (all also present in release 1.3.0), as REGIONS of the a-priori partition.  status='fixed'
# regions were repaired by the listed fix: commits (their cells no longer suppress anything); status='known' regions remain.
# A region lists the cells that one code mechanism can reach (reasoned from the mechanism, not from the seeds
# that happened to hit it); findings.d/C12.json is the expansion written by  python -m vf.props.C12 --write-findings.
# ceiling = bits beyond the tolerance that the mechanism can cost in that cell (None: the mechanism can destroy
# the value completely, e.g. wrong sign / zero / garbage).
# ---------------------------------------------------------------------------------------
BOTH = ('yes', 'no')
KNOWN_REGIONS = [
    dict(id='atan-atanh-small', status='fixed', commit='c000fdb', funcs=['atan', 'atanh'], kinds='C', specials=['0'], dists=['near', 'vnear'],
         mags={'small': 40, 'tiny': None}, aniso=BOTH,
         what='complex atan/atanh subtract two logarithms computed with p+15 bits absolute accuracy (mpc_atan, mpc_atanh): for |z| << 1 '
              'both parts lose log2(1/|z|)-15 bits, for |z| < 2^-p they are rounding noise',
         witness={'call': 'atan(mpc(1e-10,1e-10))', 'prec': 53, 'observed': '(1.0e-10 + 9.99999999968311e-11j)',
                  'exact': '(1.0e-10 + 1.0000000000000000003e-10j)'}),
    dict(id='asin-asinh-small', status='fixed', commit='01d3a31', funcs=['asin', 'asinh'], kinds='C', specials=['0'], dists=['near', 'vnear'],
         mags={'small': 40, 'tiny': None}, aniso=BOTH,
         what='complex asin/asinh (acos_asin, Hull et al. regions) work with p+10 bits relative to 1: for |z| << 1 both parts lose '
              'log2(1/|z|)-10 bits; the smaller part of a tiny or anisotropic argument is lost entirely',
         witness={'call': 'asin(mpc(-2**-39,-2**-39))', 'prec': 262, 'observed_error_bits_beyond_tolerance': 27}),
    dict(id='reciprocal-huge', status='fixed', commit='c000fdb+01d3a31', funcs=['acot', 'acoth', 'acsc', 'acsch'], kinds='C', specials=['inf'], dists=['near', 'vnear'],
         mags={'large': 40, 'huge': None}, aniso=BOTH,
         what='acot/acoth/acsc/acsch(z) = atan/atanh/asin/asinh(1/z): for huge |z| the small argument 1/z hits the small-argument defect of '
              'the base function (atan-atanh-small / asin-asinh-small)',
         witness={'call': 'acot(mpc(2**100, 2**60))', 'prec': 53}),
    dict(id='near-one', status='fixed', commit='ef5e701+38231bb+01d3a31', funcs=['acos', 'acosh', 'asec', 'asech', 'acsc', 'acoth'], kinds='RC', specials=['1', '-1'],
         dists=['near', 'vnear'], mags={'unit': None}, aniso=BOTH,
         what='acosh(x) = log(x + sqrt(x^2-1)) with the sum rounded at p+15 bits (mpf_acosh) and acos next to +-1 lose up to half of the '
              'bits; asec/asech/acsc/acoth(x) = f(1/x) round 1/x to the working precision first (next to +-1 this loses the distance to 1: '
              'results 0, inf or with half of the bits)',
         witness={'call': 'acosh(1+2**-40)', 'prec': 53, 'correct_bits': 48}),
    dict(id='reciprocal-near-i', status='fixed', commit='38231bb', funcs=['acot', 'acsch'], kinds='C', specials=['i', '-i'], dists=['near', 'vnear'],
         mags={'unit': None}, aniso=BOTH,
         what='acot(z) = atan(1/z), acsch(z) = asinh(1/z) round 1/z first: next to the branch points +-i the distance to the branch point '
              'is lost (results inf or inaccurate)',
         witness={'call': 'acot(mpc(0, 1-2**-174))', 'prec': 87, 'observed': '(0.0 - infj)'}),
    dict(id='acosh-branch-sign', status='fixed', commit='b145480', funcs=['acosh'], kinds='C', specials=['0', '1', '-1'], dists=['far', 'near', 'vnear'],
         mags={'tiny': None, 'small': None, 'unit': None}, aniso=BOTH,
         what='mpc_acosh chooses between +i acos(z) and -i acos(z) from the sign of the COMPUTED Im acos(z), which underflows to 0 when '
              '|Im z| is below the working precision: for Im z < 0 the imaginary part of acosh gets the wrong sign',
         witness={'call': 'acosh(mpc(0.5,-1e-40))', 'prec': 53, 'observed': '(0.0 + 1.0471975511966j)',
                  'exact': '(1.1547e-40 - 1.0471975511966j)'}),
    dict(id='asech-branch-sign', status='fixed', commit='b145480', funcs=['asech'], kinds='C', specials=['1', '-1', 'inf'], dists=['far', 'near', 'vnear'],
         mags={'unit': None, 'large': None, 'huge': None}, aniso=BOTH,
         what='asech(z) = acosh(1/z) inherits the branch-sign defect of mpc_acosh (and its small-part loss) for arguments next to the '
              'real axis and for huge arguments',
         witness={'call': 'asech(mpc(-2.0000000000000004, 2**-1000))', 'prec': 601}),
    dict(id='tan-pole-cancellation', status='fixed', commit='095c617', funcs=['tan', 'cot'], kinds='C', specials=['kpi2'], dists=['near', 'vnear'],
         mags={'unit': None, 'large': None}, aniso=BOTH,
         what='mpc_tan divides by cos(2a)+cosh(2b) computed with p+15 bits ("TODO: handle cancellation"): next to the poles (and for cot '
              'next to the zeros of tan) the denominator cancels; the result is inaccurate, wrong by orders of magnitude or the '
              'division raises ZeroDivisionError',
         witness={'call': 'tan(mpc(0xbfd560593060335*2**-49, 2**-30))', 'prec': 30, 'observed': 'ZeroDivisionError'}),
    dict(id='tanh-pole-cancellation', status='fixed', commit='095c617', funcs=['tanh'], kinds='C', specials=['ikpi2'], dists=['near', 'vnear'],
         mags={'unit': None, 'large': None}, aniso=BOTH,
         what='mpc_tanh = -i tan(iz) inherits the denominator cancellation of mpc_tan next to the poles i(k+1/2)pi',
         witness={'call': 'tanh(mpc(-2**-24, 221069929750889*2**-47))', 'prec': 24, 'observed': 'ZeroDivisionError'}),
    dict(id='cospi-sinpi-imag', status='fixed', commit='88edf5a', funcs=['cospi', 'sinpi'], kinds='C', specials=['inf'], dists=['far', 'near', 'vnear'],
         mags={'large': 48, 'huge': None}, aniso=BOTH,
         what='mpc_cos_pi/mpc_sin_pi round pi*Im(z) to p+5 bits before cosh/sinh: the relative error of the result grows like |pi Im z| '
              '(2-3 bits beyond the tolerance at |Im z| = 64, everything for |Im z| >= 2^p)',
         witness={'call': 'cospi(mpc(-0.998, 64))', 'prec': 100, 'observed_error': '47 * 2^-p'}),
    dict(id='cosh-sinh-vanish-threshold', status='fixed', commit='33d3ba9', funcs=['tanh', 'sinh', 'cosh'], kinds='RC', specials=['inf'], dists=['near'],
         mags={'large': 72}, aniso=BOTH,
         what='mpf_cosh_sinh drops exp(-2|x|) when 3*2^(mag-1) > p+14, but exp(-2|x|) < 2^-(p+14) needs 2.885*2^(mag-1) > p+14: for '
              '1024 <= |x| < (p+14)/2.885 and 2940 < p < 3058 tanh returns +-1 and cosh/sinh return exp(|x|)/2 with an error up to '
              '2^(p-2951) ulp',
         witness={'call': 'tanh(-1024)', 'prec': 3000, 'observed': '-1.0', 'exact': '-1 + 2^-2953.6'}),
    dict(id='root-newton-margin', status='fixed', commit='a0e9ed2', funcs=['root'], kinds='RC', specials=['0', 'inf'], dists=['far', 'near', 'vnear'],
         mags={'tiny': 48, 'small': 48, 'unit': 48, 'large': 48, 'huge': 48}, aniso=BOTH,
         what='nthroot_fixed doubles the precision in every Newton step with a fixed 4-bit margin (also in the first step from the 50-bit '
              'float estimate) although the error constant of the iteration is (n-1)/2: for n >= 6 and unlucky precisions (2999-3050, '
              '1500, 750) root(x, n) loses tens of bits',
         witness={'call': 'root(10, 9)', 'prec': 3050, 'observed_relative_error': '6.3e-895 = 2**79 ulp',
                  'also': 'root(10,7) at prec 2999: 2**25 ulp'}),
    dict(id='log-quarter-long-mantissa', status='fixed', commit='8f32f68', funcs=['ln', 'log10', 'log:base', 'log1p', 'root', 'power:int', 'power:half', 'power:real',
                                                'power:complex', 'powm1:int', 'powm1:half', 'powm1:real', 'powm1:complex'],
         kinds='RC', specials=['0'], dists=['far'], mags={'unit': None}, aniso=BOTH,
         what='mpf_log treats magnitude -1 like magnitude +1 (abs_mag <= 1): an argument in [1/4, 1/2) with a mantissa longer than p+20 '
              'bits whose bits below the leading one vanish for more than p+20 places is handled as "1 + eps" and log returns about eps',
         witness={'call': 'ln(mpf(0.25) + 2**-163)  (exact 162-bit argument)', 'prec': 81, 'observed': '2**-161',
                  'exact': '-1.3862943611198906'}),
    dict(id='complex-int-power-guard', status='fixed', commit='8a43674', funcs=['power:int'], kinds='C', specials=['0', 'inf'],
         dists=['near', 'vnear'], mags={'tiny': 14, 'small': 14, 'large': 14, 'huge': 14}, aniso=BOTH,
         what='complex powers z**w with |w log z| ~ 2^19 (|w| to 1000, |z| to 2^+-1000) lose a few bits more than the guard bits of '
              'mpc_pow/mpc_pow_int provide (log2|w log z| - guard)',
         witness={'call': 'power(mpc(901*2**-742, -513*2**-746), 789)', 'prec': 10, 'observed_error': 'about 100 %'}),
    # ---- still present on the tree after the fix: commits above --------------------------------------------------
    dict(id='reciprocal-argument-beyond-2p', status='known', funcs=['asec', 'asech'], kinds='RC', specials=['1'],
         dists=['vnear'], mags={'unit': None}, aniso=BOTH, what=None, witness=None),      # text: next entry (next to -1 the value is ~pi)
    dict(id='reciprocal-argument-beyond-2p', status='known', funcs=['acot'], kinds='C', specials=['i', '-i'],
         dists=['vnear'], mags={'unit': None}, aniso=BOTH, what=None, witness=None),      # finite but wrong next to +-i
    dict(id='reciprocal-argument-beyond-2p', status='known', funcs=['acoth'], kinds='RC', specials=['1', '-1'],
         dists=['vnear'], mags={'unit': None}, aniso=BOTH,
         what='asec/asech/acoth(z) = f(1/z) now form 1/z with twice the working precision; an exact argument 1 +- 2^-k with k > 2p+20 '
              '(a mantissa longer than twice the precision) still rounds to 1/z = 1: asec/asech return 0, acoth returns inf or loses '
              'the distance to the branch point (acot likewise next to +-i: key acot/C/nonfinite)',
         witness={'call': 'asec(fadd(1, 2**-300, exact=True))', 'prec': 53, 'observed': '0.0', 'exact': '9.908676465903736e-46',
                  'also': 'acoth(same) = +inf, exact 104.31865067427177; acot(mpc(0, 1-2**-300) built exactly) = (0 - inf j), exact '
                          '(-1.5707963267948966 - 104.31865067427177j)'}),
    dict(id='complex-power-exponent-guard', status='known', funcs=['power:real', 'power:complex'], kinds='C', specials=['0'],
         dists=['near', 'vnear'], mags={'tiny': 8}, aniso=BOTH, what=None, witness=None),
    dict(id='complex-power-exponent-guard', status='known', funcs=['power:real', 'power:complex'], kinds='C', specials=['inf'],
         dists=['near', 'vnear'], mags={'huge': 8}, aniso=BOTH,
         what='complex powers z**w with real or complex w and |w log z| ~ 2^13..2^19 (|z| to 2^+-1000) lose 1-2 bits more than the guard '
              'bits of mpc_pow provide (the integer-exponent path was fixed in 8a43674)',
         witness={'call': 'power(mpc(528383*2**805, 524289*2**366), mpc(0x7fffffffffffffffff*2**-67, -0x7ff000000000000001*2**-73))',
                  'prec': 71, 'observed': '(-1.50022954650119051e+3968 + 6.6487819333996095499e+3968j)',
                  'error': '22.8 * 2^-71 of the larger part (tolerance 16 * 2^-71)'}),
]
# mechanism keys that are not cells of the partition
KNOWN_OTHER = [
    ('C12/tan/C/raises:ZeroDivisionError', 'tan-pole-cancellation'), ('C12/cot/C/raises:ZeroDivisionError', 'tan-pole-cancellation'),
    ('C12/tanh/C/raises:ZeroDivisionError', 'tanh-pole-cancellation'),
    ('C12/acsch/C/nonfinite', 'reciprocal-near-i'),
    ('C12/acot/C/nonfinite', 'reciprocal-argument-beyond-2p'), ('C12/acoth/C/nonfinite', 'reciprocal-argument-beyond-2p'),
    ('C12/acoth/R/nonfinite', 'reciprocal-argument-beyond-2p'),
]


def known_findings():
    out = []
    by_id = {}
    for reg in KNOWN_REGIONS:
        if reg.get('what') or reg['id'] not in by_id:
            by_id[reg['id']] = reg
    for reg in KNOWN_REGIONS:
        if not reg.get('what'):
            reg['what'], reg['witness'] = by_id[reg['id']]['what'], by_id[reg['id']]['witness']
    for reg in KNOWN_REGIONS:
        for f in reg['funcs']:
            base = f.split(':')[0]
            for kind in reg['kinds']:
                if kind == 'C' and base in REAL_ONLY:
                    continue
                for sp in reg['specials']:
                    assert sp in SPECIALS[base], (f, sp)
                    for d in reg['dists']:
                        for mag, ceil in reg['mags'].items():
                            for an in reg['aniso']:
                                if kind == 'R' and an == 'yes':
                                    continue
                                key = 'C12/%s/%s/%s:%s/%s/aniso:%s' % (f, kind, sp, d, mag, an)
                                out.append(_entry(key, reg, ceil))
    for key, rid in KNOWN_OTHER:
        out.append(_entry(key, by_id[rid], None))
    # a cell may belong to several regions: a region that is still 'known' wins over fixed ones; among equals the texts are
    # joined and the laxer ceiling kept
    merged = {}
    for f in out:
        m = merged.get(f['key'])
        if m is None:
            merged[f['key']] = f
        elif m['status'] == 'known' and f['status'] == 'fixed':
            continue
        elif m['status'] == 'fixed' and f['status'] == 'known':
            merged[f['key']] = f
        else:
            m['mechanism'] += '+' + f['mechanism']
            m['what'] += ' | ' + f['what']
            if f.get('commit') and f['commit'] not in m.get('commit', ''):
                m['commit'] = (m.get('commit', '') + '+' + f['commit']).strip('+')
            if f['ceiling'] is None or m['ceiling'] is None:
                m['ceiling'] = None
            else:
                m['ceiling'] = max(m['ceiling'], f['ceiling'])
    return list(merged.values())


def _entry(key, reg, ceil):
    e = {'property': 'C12', 'key': key, 'status': reg.get('status', 'known'), 'mechanism': reg['id'], 'what': reg['what'],
         'witness': reg['witness'], 'ceiling': ceil}
    if reg.get('commit'):
        e['commit'] = reg['commit']
    return e


if __name__ == '__main__':
    import sys, json, os
    if '--write-findings' in sys.argv:
        path = os.path.join(os.path.dirname(os.path.dirname(os.path.dirname(os.path.abspath(__file__)))), 'findings.d', 'C12.json')
        fs = known_findings()
        with open(path, 'w') as fh:
            json.dump({'findings': fs}, fh, indent=1)
        print('wrote %d cells to %s' % (len(fs), path))
