"""C27 -- series, products, limits and extrapolation converge to the right value.

Observed: results of nsum (every method forced through method=, finite / half-infinite / doubly-infinite ranges, shifted and
negative starts, 1-3 dimensions), nprod (default, nsum=True, method='e'), limit, and direct calls of richardson, shanks,
levin (levin/sidi, variants u t v, update/update_psum/step/step_psum), cohen_alt, sumem, sumap.
Oracle: finite sums / products, geometric and telescoping series, polynomial-in-1/n sequences, sums of geometric sequences:
exact in Fraction.  zeta / eta / coth / exp / hypergeometric / sinh closed forms: reference release at 2p+200 and 2p+264
bits (vf.calcq.RefOracle, tier 'closed-form via reference release'), guard band 2^-(p+30).
Tolerance: |v - V| <= 2^(10-p) |V|  (relative, as stated), sums generated with 2^-8 <= |V|.
Envelope (a priori, from the nsum documentation): each series class is only *asserted* with the methods the
documentation prescribes for it (table METHODS below); every other (class, method) pair is run and noted.
"""
import math, time
from fractions import Fraction as F
from vf import gens as G
from vf import calcq as Q

PROP = 'C27'
LEVEL = 'exploration'
NEEDS_REF = True
RULE = ('seeded generation inside a fixed list of cells (series class x method x range kind x precision class; direct calls '
        'of each transformation; products; limits; dimensions 1-3); a case is non-trivial when it is inside the envelope and '
        'the range is infinite or has more than one term; distinct = distinct (kind, series parameters, range, method, options, precision)')
ASSUMPTIONS = ['closed forms are mathematically correct (Hurwitz zeta / digamma / coth / sinh / Touchard forms; every class agrees with the numerical results of the tree to ~2^-p on many in-envelope cases per run)',
               'mpmath 1.3.0 zeta, hurwitz, digamma, exp, coth, sinh, hyp2f1 at 2p+200 bits are accurate to 2^-(p+60) (second evaluation at 2p+264 bits must agree)',
               'vf.calcq exact Fraction arithmetic is correct',
               'envelope: (series class, method) pairs prescribed by the nsum / levin / cohen_alt / sumem / sumap documentation; 2^-8 <= |V|; '
               'direct calls of richardson/shanks/levin/cohen_alt run at the working precision nsum itself uses, 4(p+10), and are judged at p']
_TS = float(__import__('os').environ.get('VERIF_DEV_TIMEOUT_SCALE', '1'))     # development only (overloaded machine)
SHARD_TIMEOUT = {'quick': int(420 * _TS), 'thorough': int(3000 * _TS)}
LEVEL_TEXT = ('exploration: ~4*10^3 (quick) / ~5*10^4 (thorough) sums, products, limits and extrapolations of the real code '
              'decided against exact or reference closed forms; every nsum method forced on its documented class')
LEVEL_NOTE = ('trusted base: vf/calcq.py, Fraction arithmetic, reference release 1.3.0 for zeta/elementary closed forms at 2p+200 bits; '
              'series / parameter values not generated are not covered')
TECHNIQUE = 'runtime monitoring: closed-form oracle on every observed result of the summation / extrapolation entry points'

import os
DEV_SCALE = float(os.environ.get('VERIF_DEV_SCALE', '1'))      # development only (mutant sweeps on a busy machine); 1 in every registered command
TOL = 10
VMIN = F(1, 256)

# (series class) -> methods the documentation prescribes for it (asserted); everything else is observation only
METHODS = {
    'geom':      ['r+s', 's', 'shanks', 'levin', 'l', 'r+s+e'],              # "f(k) ~ c^k": Shanks; Levin table: linear +
    'geom-fast': ['r+s', 's', 'shanks', 'levin', 'd', 'direct'],               # |q| <= 1/2: also 'direct' (rapidly convergent)
    'geom-alt':  ['r+s', 's', 'shanks', 'levin', 'l', 'a', 'alternating'],   # q < 0: alternating signs
    'ratl':      ['r+s', 'r', 'richardson', 'levin', 'e', 'euler-maclaurin', 'r+s+e'],   # P(k)/Q(k)
    'alt-ratl':  ['r+s', 'r', 'richardson', 's', 'shanks', 'a', 'alternating', 'levin', 'sidi'],   # (-1)^k P(k)/Q(k)
    'alt-nonint': ['r+s', 's', 'shanks', 'a', 'alternating', 'levin'],       # (-1)^k / k^s, s not an integer
    'nonint':    ['e', 'euler-maclaurin'],                                   # 1/k^2.5, log(k)/k^2.5
    'fact':      ['r+s', 'd', 'direct'],                                     # x^k / k!
    'hyp':       ['r+s', 's', 'levin'],                                      # hypergeometric-type, |z| <= 1/2
}
LEVIN_VARIANTS = {'geom': ['u', 't', 'v'], 'geom-fast': ['u', 't', 'v'], 'geom-alt': ['u', 't', 'v'], 'ratl': ['u', 'v'],
                  'alt-ratl': ['u', 't', 'v'], 'alt-nonint': ['u', 't', 'v'], 'hyp': ['u', 't', 'v']}


# ---------------------------------------------------------------------------------------
# series catalog: tree-side term function and closed form of sum_{k=a}^{inf}
# ---------------------------------------------------------------------------------------
def _hurwitz_tail(rmp, s, x):
    """sum_{k>=0} 1/(k+x)^s, s > 1 (reference)"""
    return rmp.zeta(s, x)


class Series(object):
    def __init__(self, d):
        self.d = d

    def cls(self):
        return self.d['cls']


class Geom(Series):
    """c q^k, q dyadic real (or complex qi != 0); two-sided form c q^|k|"""

    def q(self):
        d = self.d
        return (Q.dy(d['q']), Q.dy(d.get('qi', [0, 0])))

    def tree(self, mp, two_sided=False, mirrored=False):
        d = self.d
        c = Q.mk(mp, d['c'])
        q = Q.mk(mp, d['q']) if not d.get('qi', [0, 0])[0] else mp.mpc(Q.mk(mp, d['q']), Q.mk(mp, d['qi']))
        if two_sided:
            return lambda k: c * q ** abs(k)
        if mirrored:
            return lambda k: c * q ** (-k)
        return lambda k: c * q ** k

    def term_exact(self, k):
        q = self.q()
        c = Q.dy(self.d['c'])
        if k >= 0:
            return Q.cscale(Q.cpow(q, k), c)
        # q^-|k|
        n2 = Q.cabs2(q)
        inv = (q[0] / n2, -q[1] / n2)
        return Q.cscale(Q.cpow(inv, -k), c)

    def total(self, a):
        """sum_{k>=a} c q^k exactly"""
        q = self.q()
        one_m = (1 - q[0], -q[1])
        n2 = Q.cabs2(one_m)
        inv = (one_m[0] / n2, -one_m[1] / n2)
        return Q.cmul(self.term_exact(a), inv)

    def oracle(self, a, b):
        if a == '-inf' and b == '+inf':       # c q^|k| : c (1+q)/(1-q)
            t = self.total(0)
            t2 = self.total(1)
            v = Q.cadd(t, t2)
        elif a == '-inf':                      # f(k) = c q^-k, k <= b  ->  sum_{j >= -b} c q^j
            v = self.total(-b)
        elif b == '+inf':
            v = self.total(a)
        else:
            v = (F(0), F(0))
            for k in range(a, b + 1):
                v = Q.cadd(v, self.term_exact(k))
        return v if self.d.get('qi', [0, 0])[0] else v[0]


class Ratl(Series):
    """form 'hz': c/(k+beta)^s  |  'tele': c/((k+al)(k+al+1))  |  'lor': c/(k^2+t^2);   alt: times (-1)^k"""

    def tree(self, mp, two_sided=False, mirrored=False):
        d = self.d
        c = Q.mk(mp, d['c'])
        alt = d.get('alt')
        form = d['form']
        sgn = (lambda k: (-1) ** int(k)) if alt else None
        if mirrored:
            g = self.tree(mp)
            return lambda k: g(-k)
        if form == 'hz':
            be = Q.mk(mp, d['beta'])
            s = d['s']
            sv = s if isinstance(s, int) else Q.mk(mp, s)
            if alt:
                return lambda k: c * sgn(k) / (k + be) ** sv
            return lambda k: c / (k + be) ** sv
        if form == 'loghz':
            be = Q.mk(mp, d['beta'])
            sv = Q.mk(mp, d['s'])
            return lambda k: c * mp.log(k + be) / (k + be) ** sv
        if form == 'tele':
            al = Q.mk(mp, d['al'])
            return lambda k: c / ((k + al) * (k + al + 1))
        if form == 'lor':
            t2 = Q.mk(mp, d['t']) ** 2
            if alt:
                return lambda k: c * sgn(k) / (k * k + t2)
            return lambda k: c / (k * k + t2)
        raise ValueError(form)

    def term_exact(self, k):
        d = self.d
        c = Q.dy(d['c'])
        sg = (-1) ** (k % 2) if d.get('alt') else 1
        if d['form'] == 'hz':
            return sg * c / (k + Q.dy(d['beta'])) ** d['s']
        if d['form'] == 'tele':
            al = Q.dy(d['al'])
            return c / ((k + al) * (k + al + 1))
        if d['form'] == 'lor':
            return sg * c / (k * k + Q.dy(d['t']) ** 2)
        raise ValueError

    def oracle(self, a, b):
        d = self.d
        c = Q.dy(d['c'])
        form, alt = d['form'], d.get('alt')
        if a != '-inf' and b != '+inf':
            return sum(self.term_exact(k) for k in range(a, b + 1))
        if form == 'tele':
            assert b == '+inf'
            return c / (a + Q.dy(d['al']))
        if form in ('hz', 'loghz'):
            if a == '-inf':                    # mirrored: f(k) = g(-k), k <= b -> sum_{j>=-b} g(j)
                a = -b
            x = a + Q.dy(d['beta'])            # > 0 by construction
            s = d['s']
            sg = (-1) ** (a % 2)

            def fn(rmp):
                S = s if isinstance(s, int) else Q.rq(rmp, Q.dy(s))
                X = Q.rq(rmp, x)
                C = Q.rq(rmp, c)
                if form == 'loghz':
                    return -C * rmp.zeta(S, X, 1)
                if not alt:
                    return C * rmp.zeta(S, X)
                if S == 1:
                    return sg * C * (rmp.digamma((X + 1) / 2) - rmp.digamma(X / 2)) / 2
                return sg * C * rmp.mpf(2) ** (-S) * (rmp.zeta(S, X / 2) - rmp.zeta(S, (X + 1) / 2))
            return Q.RefOracle(fn)
        if form == 'lor':
            t = Q.dy(d['t'])

            def from1(rmp):
                T = Q.rq(rmp, t)
                if alt:        # sum_{k>=1} (-1)^k/(k^2+t^2) = (pi t / sinh(pi t) - 1) / (2 t^2)
                    return (rmp.pi * T / rmp.sinh(rmp.pi * T) - 1) / (2 * T * T)
                return (rmp.pi * T * rmp.coth(rmp.pi * T) - 1) / (2 * T * T)
            if a == '-inf' and b == '+inf':
                return Q.RefOracle(lambda rmp: Q.rq(rmp, c) * (2 * from1(rmp) + 1 / Q.rq(rmp, t) ** 2))
            if a == '-inf':
                a = -b
            if a >= 1:
                corr = -sum(self.term_exact(k) for k in range(1, a))
            else:
                corr = sum(self.term_exact(k) for k in range(a, 1))
            return Q.RefOracle(lambda rmp: Q.rq(rmp, c) * from1(rmp) + Q.rq(rmp, corr))
        raise ValueError(form)


class Fact(Series):
    """c k^m x^k / k!"""

    def tree(self, mp, **kw):
        d = self.d
        c, x, m = Q.mk(mp, d['c']), Q.mk(mp, d['x']), d['m']
        if m:
            return lambda k: c * k ** m * x ** k / mp.factorial(k)
        return lambda k: c * x ** k / mp.factorial(k)

    def term_exact(self, k):
        d = self.d
        return Q.dy(d['c']) * F(k) ** d['m'] * Q.dy(d['x']) ** k / math.factorial(k)

    def oracle(self, a, b):
        d = self.d
        if b != '+inf':
            return sum(self.term_exact(k) for k in range(a, b + 1))
        c, x, m = Q.dy(d['c']), Q.dy(d['x']), d['m']
        corr = -sum(self.term_exact(k) for k in range(0, a))
        # sum k^m x^k/k! = e^x * T_m(x)  (Touchard polynomials)
        T = {0: [1], 1: [0, 1], 2: [0, 1, 1], 3: [0, 1, 3, 1]}[m]

        def fn(rmp):
            X = Q.rq(rmp, x)
            return Q.rq(rmp, c) * rmp.exp(X) * sum(t * X ** j for j, t in enumerate(T)) + Q.rq(rmp, corr)
        return Q.RefOracle(fn)


class Hyp(Series):
    """(al)_k (be)_k / (ga)_k z^k / k!"""

    def tree(self, mp, **kw):
        d = self.d
        al, be, ga, z = (Q.mk(mp, d[n]) for n in ('al', 'be', 'ga', 'z'))
        return lambda k: mp.rf(al, k) * mp.rf(be, k) / mp.rf(ga, k) * z ** k / mp.factorial(k)

    def term_exact(self, k):
        d = self.d
        al, be, ga, z = (Q.dy(d[n]) for n in ('al', 'be', 'ga', 'z'))
        t = F(1)
        for j in range(k):
            t *= (al + j) * (be + j) / ((ga + j) * (j + 1)) * z
        return t

    def oracle(self, a, b):
        if b != '+inf':
            return sum(self.term_exact(k) for k in range(a, b + 1))
        d = self.d
        al, be, ga, z = (Q.dy(d[n]) for n in ('al', 'be', 'ga', 'z'))
        corr = -sum(self.term_exact(k) for k in range(0, a))
        return Q.RefOracle(lambda rmp: rmp.hyp2f1(Q.rq(rmp, al), Q.rq(rmp, be), Q.rq(rmp, ga), Q.rq(rmp, z)) + Q.rq(rmp, corr))


KINDS = {'geom': Geom, 'ratl': Ratl, 'fact': Fact, 'hyp': Hyp}


def series_of(d):
    return KINDS[d['kind']](d)


def rng_pt(x):
    return x if isinstance(x, str) else int(x)


def vmag_ok(oracle, p):
    """2^-8 <= |V| (exact or reference)"""
    if isinstance(oracle, Q.RefOracle):
        V, why = oracle.value(p)
        if V is None:
            return True
        return abs(V) >= 1.0 / 256
    if isinstance(oracle, tuple):
        return Q.cabs2(oracle) >= VMIN * VMIN
    return abs(oracle) >= VMIN


# ---------------------------------------------------------------------------------------
def mech_key(desc, what='accuracy'):
    k = desc['kind']
    if k == 'nsum':
        rk = 'finite'
        a, b = desc['range'][0]
        if a == '-inf' and b == '+inf':
            rk = 'two-sided'
        elif a == '-inf':
            rk = 'to-minus-inf'
        elif b == '+inf':
            rk = 'to-inf' if int(a) >= 0 else 'to-inf-negative-start'
        dim = len(desc['range'])
        if dim > 1:
            return 'C27/nsum/dim%d/%s/%s' % (dim, desc.get('method', 'default'), what)
        return 'C27/nsum/%s/%s/%s/%s' % (desc.get('method', 'default'), desc['series']['cls'], rk, what)
    return 'C27/%s/%s/%s' % (k, desc.get('sub', ''), what)


def judge(rec, desc, v, oracle, p, inside, why, cls, nontrivial=True):
    ident = repr(sorted((k, repr(x)) for k, x in desc.items()))
    rec.case(ident, nontrivial and inside, cls=cls + ('/in' if inside else '/outside-envelope'))
    verdict, units, tier, expect = Q.decide(v, oracle, p, TOL, rel=True)
    rec.event('decided by: ' + tier)
    case = dict(desc, why_outside=why)
    if verdict == 'held':
        if inside:
            rec.maximum('log2 err/(2^-p |V|) inside envelope [%s]' % cls.split('/')[0], units, case)
    elif verdict == 'violated':
        if inside:
            key = desc.get('_key') or mech_key(desc)
            rec.violation(key, '%s off by 2^%.1f * 2^-p * |V| (allowed 2^%d)' % (desc['kind'], units, TOL), case,
                          observed=Q.show(v), expected=expect, severity=round(min(units, 1e6), 1))
        else:
            rec.note('outside envelope: error above tolerance', {'case': case, 'log2_err_units': units, 'value': Q.show(v),
                                                                 'expected': expect}, cap=40)
            rec.event('outside-envelope cases above tolerance (observed, not asserted)')
    elif inside:
        rec.undecided(verdict, case)
    else:
        rec.note('outside envelope: not decidable (V = 0 or oracle unstable)', {'case': case}, cap=10)
    if inside and len(rec.samples) < 8:
        rec.sample({'case': desc, 'value': Q.show(v), 'expected': expect, 'tier': tier, 'log2_err_units': units})
    return verdict


def _ival(mp, a, b, form='mpf'):
    def e(x):
        if isinstance(x, str):
            return mp.inf if x == '+inf' else mp.ninf
        if form == 'float':
            return float(int(x))
        return int(x) if form == 'int' else mp.mpf(int(x))
    return [e(a), e(b)]


def classify_shanks(mp, desc, f, p):
    """mechanism classifier for a wrong nsum value with Shanks enabled: re-run the same sum and look (through a wrapper
    around ctx.shanks) whether the returned value is the last entry of an epsilon table whose extrapolation column has
    already converged to rounding noise (differences <= 2^-(wp-8) relative) -- the noise-amplification path"""
    seen = {'noise': False, 'calls': 0, 'coincidence': False}
    orig = mp.shanks

    def spy(seq, table=None, randomized=False):
        T = orig(seq, table, randomized)
        seen['calls'] += 1
        try:
            col1 = [row[1] for row in T if len(row) > 1]
            if len(col1) >= 3:
                d1, d2 = abs(col1[-1] - col1[-2]), abs(col1[-2] - col1[-3])
                sc = abs(col1[-1])
                if sc and d1 <= sc * mp.mpf(2) ** (8 - mp.prec) and d2 <= sc * mp.mpf(2) ** (8 - mp.prec) and len(T[-1]) > 3:
                    seen['noise'] = True
            # two consecutive entries of an extrapolation column exactly equal although the column has not converged
            # (the next entry differs by more than the target tolerance): shanks() treats b == 0 as 'converged exactly'
            for j in range(1, len(T[-1]), 2):
                col = [row[j] for row in T if len(row) > j]
                for i in range(len(col) - 2):
                    if col[i] == col[i + 1] and abs(col[i + 2] - col[i + 1]) > abs(col[i + 1]) * mp.mpf(2) ** (-(p + 10)):
                        seen['coincidence'] = True
        except Exception:
            pass
        return T
    mp.shanks = spy
    old = mp.prec
    try:
        mp.prec = p
        kw = dict(desc.get('kw', {}))
        if desc.get('method'):
            kw['method'] = desc['method']
        mp.nsum(f, *[_ival(mp, *r) for r in desc['range']], **kw)
    except Exception:
        pass
    finally:
        mp.prec = old
        mp.shanks = orig
    if seen['noise']:
        return 'C27/nsum/shanks/converged-column-rounding-noise-amplified'
    if seen['coincidence']:
        return 'C27/nsum/shanks/coincidentally-equal-entries-taken-as-exact-convergence'
    return None


def finite_cond_ok(S, a, b, oracle, lim=256):
    """(N+1) * sum |t_k| <= lim * |S| for a finite range (terms are added one by one at the working precision)"""
    tot = F(0)
    for k in range(a, b + 1):
        t = S.term_exact(k)
        tot += Q.isqrt_floor(Q.cabs2(t)) + F(1, 1 << 64) if isinstance(t, tuple) else abs(t)
    sv = Q.isqrt_floor(Q.cabs2(oracle)) if isinstance(oracle, tuple) else abs(oracle)
    return (b - a + 2) * tot <= lim * sv


def run_nsum(mp, rec, desc):
    p = desc['prec']
    rngs = [(rng_pt(a), rng_pt(b)) for a, b in desc['range']]
    dim = len(rngs)
    method = desc.get('method')
    kw = dict(desc.get('kw', {}))
    if method:
        kw['method'] = method
    if dim == 1:
        S = series_of(desc['series'])
        a, b = rngs[0]
        two = a == '-inf' and b == '+inf'
        mir = a == '-inf' and not two
        f = S.tree(mp, two_sided=two, mirrored=mir) if desc['series']['kind'] in ('geom', 'ratl') else S.tree(mp)
        oracle = S.oracle(a, b)
        cls = S.cls()
        finite = a != '-inf' and b != '+inf'
        inside, why = True, []
        if not finite:
            allowed = METHODS.get(cls, [])
            m = method or 'r+s'
            if m not in allowed:
                inside = False; why.append('method %s is not prescribed for class %s' % (m, cls))
            lv = kw.get('levin_variant')
            if m in ('levin', 'l', 'sidi') and lv and lv not in LEVIN_VARIANTS.get(cls, []) and lv != 'all':
                inside = False; why.append('levin variant %s not listed as suitable for class %s' % (lv, cls))
        if not vmag_ok(oracle, p):
            inside = False; why.append('|V| < 2^-8')
        if finite and b >= a and not finite_cond_ok(S, a, b, oracle):
            inside = False; why.append('finite sum with cancellation: (N+1) * sum|t_k| / |S| > 2^8 (only "up to rounding" is claimed)')
        nontriv = (not finite) or (b - a >= 1)
        label = 'nsum/%s/%s/%s' % (cls, method or 'default', 'finite' if finite else ('two-sided' if two else ('mirrored' if mir else 'to-inf')))
    else:
        # separable product of 1-D series: value = product of the 1-D sums ("iterated sum")
        Ss = [series_of(d) for d in desc['multi']]
        fs = []
        orcs = []
        for S, (a, b) in zip(Ss, rngs):
            two = a == '-inf' and b == '+inf'
            mir = a == '-inf' and not two
            fs.append(S.tree(mp, two_sided=two, mirrored=mir) if S.d['kind'] in ('geom', 'ratl') else S.tree(mp))
            orcs.append(S.oracle(a, b))
        if dim == 2:
            f = lambda x, y: fs[0](x) * fs[1](y)
        else:
            f = lambda x, y, z: fs[0](x) * fs[1](y) * fs[2](z)
        if all(not isinstance(o, Q.RefOracle) for o in orcs):
            oracle = orcs[0]
            for o in orcs[1:]:
                oracle = oracle * o
        else:
            def fn(rmp, orcs=orcs):
                r = rmp.mpf(1)
                for o in orcs:
                    r = r * (o.fn(rmp) if isinstance(o, Q.RefOracle) else Q.rq(rmp, o))
                return r
            oracle = Q.RefOracle(fn)
        inside, why = True, []
        # documented multi-dimensional use: geometric / finite factors with the default method
        for S, (a, b), o in zip(Ss, rngs, orcs):
            if (a == '-inf' or b == '+inf') and S.cls() not in ('geom', 'geom-fast', 'geom-alt'):
                inside = False; why.append('multidimensional infinite factor of class %s' % S.cls())
            if a != '-inf' and b != '+inf' and b >= a and not finite_cond_ok(S, a, b, o, lim=16):
                inside = False; why.append('finite factor with cancellation')
        if method not in (None, 'r+s', 's', 'shanks'):
            inside = False; why.append('method %s in several dimensions' % method)
        if not vmag_ok(oracle, p):
            inside = False; why.append('|V| < 2^-8')
        nontriv = True
        label = 'nsum/dim%d/%s/%s' % (dim, '+'.join(S.cls() for S in Ss), method or 'default')
    old = mp.prec
    try:
        mp.prec = p
        try:
            v = mp.nsum(f, *[_ival(mp, a, b, desc.get('form', 'mpf')) for a, b in rngs], **kw)
        except Exception as e:
            rec.case(repr(desc), nontriv and inside, cls=label + '/exception')
            if inside:
                rec.violation(mech_key(desc, 'exception/' + type(e).__name__), 'nsum raised %s: %s' % (type(e).__name__, str(e)[:80]),
                              desc, observed=repr(e)[:200], expected='a value')
            else:
                rec.note('outside envelope: exception', {'desc': desc, 'exc': repr(e)[:100]})
            return
    finally:
        mp.prec = old
    verdict, units, tier, expect = Q.decide(v, oracle, p, TOL, rel=True)
    if verdict == 'violated' and inside and dim == 1:
        k, sev = classify_nsum(mp, desc, f, p, units)
        if k:
            ident = repr(sorted((kk, repr(x)) for kk, x in desc.items()))
            rec.case(ident, True, cls=label + '/in')
            rec.event('decided by: ' + tier)
            rec.violation(k, 'nsum off by 2^%.1f * 2^-p * |V| (allowed 2^%d)' % (units, TOL), dict(desc, why_outside=[]),
                          observed=Q.show(v), expected=expect, severity=sev)
            return
    judge(rec, desc, v, oracle, p, inside, why, label, nontriv)


def classify_nsum(mp, desc, f, p, units):
    """mechanism key (+ severity) of a wrong 1-D nsum value, from what the library itself reports on a re-run"""
    method = desc.get('method') or 'r+s'
    kw = dict(desc.get('kw', {}))
    if desc.get('method'):
        kw['method'] = desc['method']
    old = mp.prec
    # 1. Shanks: converged column, rounding noise amplified
    if method in ('r+s', 's', 'shanks', 'r+s+e'):
        k = classify_shanks(mp, desc, f, p)
        if k:
            return k, round(min(units, 1e6), 1)
    # 2. Euler-Maclaurin: is the tail integral (quad over [N, inf], error estimate accepted) itself off?
    sd = desc['series']
    if method in ('e', 'euler-maclaurin', 'r+s+e') and sd['kind'] == 'ratl' and sd['form'] == 'hz' and not sd.get('alt'):
        a = desc['range'][0][0]
        N = int(a) + 10
        c, be = Q.dy(sd['c']), Q.dy(sd['beta'])
        s_ = sd['s'] if isinstance(sd['s'], int) else Q.dy(sd['s'])
        try:
            mp.prec = p + 10
            q, est = mp.quad(f, [N, mp.inf], error=True)
            accepted = est <= mp.eps / 8
        except Exception:
            accepted = None; q = None
        finally:
            mp.prec = old
        if q is not None:
            orc = Q.RefOracle(lambda rmp: Q.rq(rmp, c) * (N + Q.rq(rmp, be)) ** (1 - Q.rq(rmp, s_)) / (Q.rq(rmp, s_) - 1))
            vd, u2, _, _ = Q.decide(q, orc, p, TOL, rel=False)
            if vd == 'violated':
                return 'C27/nsum/euler-maclaurin/tail-integral-quad-inaccurate-on-algebraic-decay', round(units / p, 3)
    # 3. did adaptive_extrapolation give up at maxterms and hand back its best estimate without saying so?
    old = mp.prec
    try:
        mp.prec = p
        try:
            mp.nsum(f, *[_ival(mp, *r) for r in desc['range']], strict=True, **kw)
            gave_up = False
        except mp.NoConvergence:
            gave_up = True
        except Exception:
            gave_up = False
    finally:
        mp.prec = old
    if gave_up:
        # finite partition fixed a priori: method x series class x precision bucket (maxterms = 10*dps is smallest at low precision)
        canon = {'r': 'richardson', 's': 'shanks', 'l': 'levin', 'a': 'alternating', 'e': 'euler-maclaurin', 'd': 'direct'}
        dps = __import__('mpmath').libmp.prec_to_dps(p)     # maxterms defaults to 10*dps; 53 bits (the default precision) is dps 15
        # key = (method, series class): the mechanism is 'gave up at maxterms = 10*dps and said nothing'; precision / start of the
        # range only decide how many terms would have been needed (observed from 30 up to ~61 bits with shifted or negative starts)
        return 'C27/nsum/not-converged-at-maxterms-best-estimate-returned-silently/%s/%s' % (
            canon.get(method, method), desc['series']['cls']), round(min(units, 1e6) / p, 3)
    return None, None


# ---------------------------------------------------------------------------------------
# products
# ---------------------------------------------------------------------------------------
def prod_spec(d):
    """-> (tree builder(mp) -> f, oracle(a) for prod_{k>=a}, finite exact factor(k) or None, class)"""
    form = d['form']
    if form == 'p1':      # 1 - 1/k^2, k >= a >= 2 : (a-1)/a
        return (lambda mp: (lambda k: 1 - 1 / k ** 2)), (lambda a: F(a - 1, a)), (lambda k: 1 - F(1, k * k)), 'ratl'
    if form == 'p2':      # (k+1)^2/(k(k+2)), k >= a >= 1 : (a+1)/a
        return (lambda mp: (lambda k: (1 + 1 / k) ** 2 / (1 + 2 / k))), (lambda a: F(a + 1, a)), \
            (lambda k: F((k + 1) ** 2, k * (k + 2))), 'ratl'
    if form == 'p3':      # (k^3-1)/(k^3+1), k >= 2 : 2/3 ; from a: (2/3) / prod_{2<=k<a}
        def orc(a):
            v = F(2, 3)
            for k in range(2, a):
                v /= F(k ** 3 - 1, k ** 3 + 1)
            return v
        return (lambda mp: (lambda k: (k ** 3 - 1) / (k ** 3 + 1))), orc, (lambda k: F(k ** 3 - 1, k ** 3 + 1)), 'ratl'
    if form == 'wallis':  # 4k^2/(4k^2-1), k >= 1 : pi/2
        def orc(a):
            corr = F(1)
            for k in range(1, a):
                corr *= F(4 * k * k, 4 * k * k - 1)
            return Q.RefOracle(lambda rmp: rmp.pi / 2 / Q.rq(rmp, corr))
        return (lambda mp: (lambda k: (4 * k ** 2) / (4 * k ** 2 - 1))), orc, (lambda k: F(4 * k * k, 4 * k * k - 1)), 'ratl'
    if form == 'sinh':    # 1 + t^2/k^2, k >= 1 : sinh(pi t)/(pi t)
        t = Q.dy(d['t'])

        def orc(a):
            corr = F(1)
            for k in range(1, a):
                corr *= 1 + t * t / (k * k)
            return Q.RefOracle(lambda rmp: rmp.sinh(rmp.pi * Q.rq(rmp, t)) / (rmp.pi * Q.rq(rmp, t)) / Q.rq(rmp, corr))
        return (lambda mp: (lambda k, tt=None: 1 + Q.mk(mp, d['t']) ** 2 / k ** 2)), orc, (lambda k: 1 + t * t / (k * k)), 'ratl'
    if form == 'expgeo':  # exp(c q^k), k >= a : exp(c q^a/(1-q))
        q, c = Q.dy(d['q']), Q.dy(d['c'])

        def orc(a):
            e = c * q ** a / (1 - q) if a >= 0 else c * (1 / q) ** (-a) / (1 - q)
            return Q.RefOracle(lambda rmp: rmp.exp(Q.rq(rmp, e)))

        def tb(mp):
            qq, cc = Q.mk(mp, d['q']), Q.mk(mp, d['c'])
            return lambda k: mp.exp(cc * qq ** k)
        return tb, orc, None, 'geom'
    if form == 'expzeta':  # exp(1/k^2), k >= 1 : exp(zeta(2))
        def orc(a):
            corr = sum(F(1, k * k) for k in range(1, a))
            return Q.RefOracle(lambda rmp: rmp.exp(rmp.zeta(2) - Q.rq(rmp, corr)))
        return (lambda mp: (lambda k: mp.exp(1 / k ** 2))), orc, None, 'ratl'
    raise ValueError(form)


def run_nprod(mp, rec, desc):
    p = desc['prec']
    d = desc['prod']
    a, b = rng_pt(desc['range'][0]), rng_pt(desc['range'][1])
    tb, orc, fac, cls = prod_spec(d)
    f = tb(mp)
    kw = dict(desc.get('kw', {}))
    inside, why = True, []
    if a == '-inf':
        # prod_{k <= b} f(k) for factors even in k  ==  prod_{k >= -b} f(k)
        oracle = orc(-b)
        if d['form'] not in ('p1', 'wallis', 'sinh', 'expzeta'):
            raise ValueError('mirrored product needs an even factor')
        m = kw.get('method', 'r+s')
        if m not in ('r+s', 'r', 'richardson'):
            inside = False; why.append('method %s is not prescribed for class %s' % (m, cls))
    elif b == '+inf':
        oracle = orc(a)
        m = kw.get('method', 'r+s')
        okm = {'ratl': ['r+s', 'r', 'richardson', 'e', 'r+s+e'], 'geom': ['r+s', 's', 'shanks']}[cls]
        if m not in okm:
            inside = False; why.append('method %s is not prescribed for class %s' % (m, cls))
    else:
        oracle = F(1)
        for k in range(a, b + 1):
            oracle *= fac(k)
    old = mp.prec
    label = 'nprod/%s/%s/%s' % (d['form'], kw.get('method', 'default') + ('+nsum' if kw.get('nsum') else ''),
                                'mirrored' if a == '-inf' else ('finite' if b != '+inf' else 'to-inf'))
    try:
        mp.prec = p
        try:
            v = mp.nprod(f, _ival(mp, a, b), **kw)
        except Exception as e:
            rec.case(repr(desc), inside, cls=label + '/exception')
            if inside:
                rec.violation(mech_key(dict(desc, sub=d['form']), 'exception/' + type(e).__name__), 'nprod raised %s' % type(e).__name__, desc,
                              observed=repr(e)[:200], expected='a value')
            return
    finally:
        mp.prec = old
    jd = dict(desc, sub=d['form'] + '/' + kw.get('method', 'default'))
    if inside and (b == '+inf' or a == '-inf') and 'e' not in kw.get('method', '') and not kw.get('nsum'):
        verdict, units, tier, expect = Q.decide(v, oracle, p, TOL, rel=True)
        if verdict == 'violated':
            try:
                mp.prec = p
                try:
                    mp.nprod(f, _ival(mp, a, b), strict=True, **kw)
                    gave_up = False
                except mp.NoConvergence:
                    gave_up = True
                except Exception:
                    gave_up = False
            finally:
                mp.prec = old
            if gave_up:
                dps = __import__('mpmath').libmp.prec_to_dps(p)
                canon = {'r': 'richardson', 's': 'shanks'}
                m = kw.get('method', 'r+s')
                rec.case(repr(jd), True, cls=label + '/in')
                rec.event('decided by: ' + tier)
                rec.violation('C27/nprod/not-converged-at-maxterms-best-estimate-returned-silently/%s/%s' % (canon.get(m, m), cls),
                    'nprod off by 2^%.1f * 2^-p * |V|' % units,
                    dict(jd, why_outside=[]), observed=Q.show(v), expected=expect, severity=round(units / p, 3))
                return
    if 'e' in kw.get('method', '') and b == '+inf' and inside:
        # mechanism: nprod(method with 'e') sums log(f(k)) by Euler-Maclaurin; in the tail integral f(x) rounds to 1 for
        # x > 2^(wp/2) and log(f(x)) = 0 (the TODO in nprod): the key is the code path, severity = fraction of p lost
        verdict, units, tier, expect = Q.decide(v, oracle, p, TOL, rel=True)
        if verdict == 'violated':
            rec.case(repr(jd), True, cls=label + '/in')
            rec.event('decided by: ' + tier)
            rec.violation('C27/nprod/euler-maclaurin/log-of-factor-rounds-to-one-in-tail-integral',
                          'nprod(method=e) off by 2^%.1f * 2^-p * |V|' % units, dict(jd, why_outside=[]), observed=Q.show(v), expected=expect,
                          severity=round(units / p, 3))
            return
    judge(rec, jd, v, oracle, p, inside, why, label)


# ---------------------------------------------------------------------------------------
# limits
# ---------------------------------------------------------------------------------------
def run_limit(mp, rec, desc):
    p = desc['prec']
    d = desc['lim']
    form = d['form']
    kw = dict(desc.get('kw', {}))
    inside, why = True, []
    if form == 'expdef':        # (1 + x/n)^n -> e^x
        x = Q.dy(d['x'])
        xm = Q.mk(mp, d['x'])
        f = lambda n: (1 + xm / n) ** n
        pt, oracle = mp.inf, Q.RefOracle(lambda rmp: rmp.exp(Q.rq(rmp, x)))
    elif form == 'ratfun':      # P(n)/Q(n), equal degrees -> ratio of the leading coefficients (exact)
        P, Qc = [Q.dy(c) for c in d['P']], [Q.dy(c) for c in d['Q']]
        Pm, Qm = [Q.mk(mp, c) for c in d['P']], [Q.mk(mp, c) for c in d['Q']]
        f = lambda n: sum(c * n ** j for j, c in enumerate(Pm)) / sum(c * n ** j for j, c in enumerate(Qm))
        pt, oracle = (mp.inf if d.get('at', 'inf') == 'inf' else mp.ninf), P[-1] / Qc[-1]
    elif form == 'sinc':        # sin(a x)/x -> a   at 0
        am = Q.mk(mp, d['a'])
        f = lambda x: mp.sin(am * x) / x
        pt, oracle = 0, Q.dy(d['a'])
    elif form == 'xsin':        # (x - sin x)/x^3 -> 1/6
        f = lambda x: (x - mp.sin(x)) / x ** 3
        pt, oracle = 0, F(1, 6)
    elif form == 'expm1':       # (e^{a x} - 1)/x -> a
        am = Q.mk(mp, d['a'])
        f = lambda x: (mp.exp(am * x) - 1) / x
        pt, oracle = 0, Q.dy(d['a'])
    elif form == 'sqrtexp':     # documented: needs exp=True
        f = lambda x: mp.sqrt(x ** 3 + x ** 2) / (mp.sqrt(x ** 3) + x)
        pt, oracle = mp.inf, F(1)
        if not kw.get('exp'):
            inside = False; why.append('documented as too slow without exp=True')
    else:
        raise ValueError(form)
    if kw.get('exp') and form not in ('sqrtexp', 'ratfun', 'expm1x'):
        inside = False; why.append('exp=True needs accurate evaluation extremely close to the limit point')
    if 'direction' in kw and pt != 0:
        kw.pop('direction')
    old = mp.prec
    label = 'limit/%s/%s' % (form, 'exp' if kw.get('exp') else 'lin')
    try:
        mp.prec = p
        try:
            v = mp.limit(f, pt, **kw)
        except Exception as e:
            rec.case(repr(desc), inside, cls=label + '/exception')
            if inside:
                rec.violation(mech_key(dict(desc, sub=form), 'exception/' + type(e).__name__), 'limit raised %s' % type(e).__name__, desc,
                              observed=repr(e)[:200], expected='a value')
            return
    finally:
        mp.prec = old
    judge(rec, dict(desc, sub=form), v, oracle, p, inside, why, label)


# ---------------------------------------------------------------------------------------
# direct calls of the transformations (run at the working precision nsum uses: 4(p+10); judged at p)
# ---------------------------------------------------------------------------------------
def run_direct(mp, rec, desc):
    p = desc['prec']
    wp = 4 * (p + 10)
    sub = desc['sub']
    old = mp.prec
    inside, why = True, []
    try:
        mp.prec = wp
        if sub == 'richardson':
            # seq[i] = A + sum_j c_j / i^j  (i >= 1), J <= N = len//2 - 1 : the N-step extrapolate is exactly A
            A = Q.dy(desc['A'])
            cs = [Q.dy(c) for c in desc['cs']]
            n = desc['n']
            seqq = [A] + [A + sum(c / F(i) ** (j + 1) for j, c in enumerate(cs)) for i in range(1, n)]
            seq = [mp.mpf(q.numerator) / q.denominator for q in seqq]
            v, c = mp.richardson(seq)
            oracle = A
            N = n // 2 - 1
            if len(cs) > N:
                inside = False; why.append('more 1/i powers than extrapolation steps')
            # weights (N+k)^N/(k!(N-k)!) : require that nsum's own rule eps*maxc <= tol would accept the weight size
            maxc = max(F(N + k) ** N / (math.factorial(k) * math.factorial(N - k)) for k in range(N + 1))
            if maxc > F(2) ** (wp - p - 20):
                inside = False; why.append('weights larger than the spare working precision')
            rec.event('richardson weight bound checked')
            if c < 1:
                rec.violation('C27/richardson/maxc', 'richardson returned a maximal weight below 1', desc, observed=Q.show(c), expected='>= 1')
        elif sub == 'shanks':
            # seq_k = A + sum_j a_j q_j^k, m geometric components, 2m+1 terms: e_{2m}(S_0) = A
            A = Q.dy(desc['A'])
            comps = [(Q.dy(a), Q.dy(q)) for a, q in desc['comps']]
            m = len(comps)
            n = 2 * m + 1 + desc.get('extra', 0)
            seq = []
            for k in range(n):
                qv = A + sum(a * q ** k for a, q in comps)
                seq.append(mp.mpf(qv.numerator) / qv.denominator)
            T = mp.shanks(seq)
            oracle = A
            if len(T) != n - 1 - ((n - 1) & 1) or len(T[-1]) != len(T):
                # an exactly zero difference ended the table early (documented behaviour): no estimate of the full order
                rec.case(repr(desc), False, cls='direct/shanks/table-truncated')
                rec.note('shanks table truncated by an exactly zero difference', desc)
                return
            v = T[-1][-1]
            if desc.get('extra', 0):
                inside = False; why.append('more terms than the exactness order: division by a rounding-noise difference (documented)')
            if len(T[-1]) != 2 * m:
                rec.note('shanks table shape', {'rows': len(T), 'last': len(T[-1]), 'm': m})
        elif sub in ('levin', 'cohen_alt'):
            S = series_of(desc['series'])
            a = desc['start']
            f = S.tree(mp)
            oracle = S.oracle(a, '+inf')
            how = desc['how']
            cls = S.cls()
            if sub == 'levin':
                L = mp.levin(method=desc['lmethod'], variant=desc['variant'])
                if desc['variant'] not in LEVIN_VARIANTS.get(cls, []):
                    inside = False; why.append('variant %s not listed as suitable for class %s' % (desc['variant'], cls))
                if desc['lmethod'] == 'sidi' and cls not in ('alt-ratl',):
                    inside = False; why.append('sidi is documented for alternating / divergent series only')
            else:
                L = mp.cohen_alt()
                if cls not in ('alt-ratl', 'alt-nonint', 'geom-alt'):
                    inside = False; why.append('cohen_alt needs alternating signs')
            tol = mp.mpf(2) ** (-(p + 10))
            terms, psums, s = [], [], mp.zero
            v = None
            steps = 0
            good = 0
            for k in range(a, a + 300):
                t = f(mp.mpf(k))
                s = s + t
                terms.append(t); psums.append(s)
                steps += 1
                if sub == 'cohen_alt' and how in ('update', 'update_psum'):
                    # linear transformation with error 2/(3+sqrt 8)^n: a single call with the a-priori number of terms
                    n_need = int((p + 14) / 2.54) + 3
                    if steps < n_need:
                        continue
                    v, e = (L.update(terms) if how == 'update' else L.update_psum(psums))
                    break
                try:
                    if how == 'update':
                        v2, e = L.update(terms)
                    elif how == 'update_psum':
                        v2, e = L.update_psum(psums)
                    elif how == 'step':
                        v2, e = L.step(t)
                    else:
                        v2, e = L.step_psum(s)
                except ZeroDivisionError:
                    # 0/0 once the transformation has converged exactly (cf. the documented behaviour of shanks): a caller
                    # following the documented loop 'if e < eps: break' has stopped at the previous estimate
                    if good >= 1:
                        rec.event('levin direct: stopped by 0/0 after a converged estimate')
                        break
                    raise
                v = v2
                # protocol (fixed a priori): stop at the second consecutive error estimate below 2^-(p+10)
                good = good + 1 if e < tol else 0
                if good >= 2:
                    break
            else:
                inside = False; why.append('no convergence within 300 terms')
            rec.event('%s direct: terms used' % sub, steps)
        else:
            raise ValueError(sub)
    except Exception as e:
        mp.prec = old
        rec.case(repr(desc), inside, cls='direct/%s/exception' % sub)
        if inside:
            rec.violation(mech_key(desc, 'exception/' + type(e).__name__), '%s raised %s: %s' % (sub, type(e).__name__, str(e)[:80]), desc,
                          observed=repr(e)[:200], expected='a value')
        else:
            rec.note('outside envelope: exception', {'desc': desc, 'exc': repr(e)[:100]})
        return
    finally:
        mp.prec = old
    label = 'direct/%s/%s' % (sub, desc.get('how', '') + desc.get('variant', '') + desc.get('lmethod', ''))
    if sub in ('levin', 'cohen_alt'):
        label += '/' + desc['series']['cls']
        if not vmag_ok(oracle, p):
            inside = False; why.append('|V| < 2^-8')
    judge(rec, desc, v, oracle, p, inside, why, label)


def run_sumem(mp, rec, desc):
    p = desc['prec']
    sub = desc['sub']
    old = mp.prec
    inside, why = True, []
    try:
        mp.prec = p
        if sub == 'sumem-poly':
            cs = [Q.dy(c) for c in desc['c']]
            a, b = desc['range']
            cm = [Q.mk(mp, c) for c in desc['c']]
            f = lambda n: sum(c * n ** j for j, c in enumerate(cm))
            oracle = sum(sum(c * F(k) ** j for j, c in enumerate(cs)) for k in range(a, b + 1))
            v = mp.sumem(f, [a, b])
            if not vmag_ok(oracle, p):
                inside = False; why.append('|V| < 2^-8')
        elif sub == 'sumem-tail':
            S = series_of(desc['series'])
            N = desc['start']
            oracle = S.oracle(N, '+inf')
            v = mp.sumem(S.tree(mp), [N, mp.inf])
            # Euler-Maclaurin is asymptotic: the start must be far enough out for the target accuracy (doc example: 32 for 50 digits)
            if N < p // 4 + 8:
                inside = False; why.append('start too small for the asymptotic series to reach the tolerance')
            # sumem's own tolerance is absolute eps; the statement is relative: tails are small -> judge absolutely scaled
        elif sub == 'sumap':
            S = series_of(desc['series'])
            a = desc['start']
            oracle = S.oracle(a, '+inf')
            v = mp.sumap(S.tree(mp), [a, mp.inf])
        else:
            raise ValueError(sub)
    except Exception as e:
        mp.prec = old
        rec.case(repr(desc), inside, cls='%s/exception' % sub)
        if inside:
            rec.violation(mech_key(desc, 'exception/' + type(e).__name__), '%s raised %s: %s' % (sub, type(e).__name__, str(e)[:80]), desc,
                          observed=repr(e)[:200], expected='a value')
        return
    finally:
        mp.prec = old
    if sub == 'sumem-tail':
        # the tail is judged with an absolute tolerance 2^(10-p) relative to the *whole* series value scale 1 (sumem's tol is absolute)
        ident = repr(desc)
        rec.case(ident, inside, cls=sub + ('/in' if inside else '/outside-envelope'))
        verdict, units, tier, expect = Q.decide(v, oracle, p, TOL, rel=False)
        rec.event('decided by: ' + tier)
        if verdict == 'violated':
            if inside:
                rec.violation(mech_key(desc), 'sumem tail off by 2^%.1f * 2^-p (absolute, allowed 2^%d)' % (units, TOL), desc,
                              observed=Q.show(v), expected=expect, severity=round(units, 1))
            else:
                rec.note('outside envelope: error above tolerance', {'case': desc, 'why': why, 'log2_err_units': units}, cap=40)
        elif verdict == 'held':
            if inside:
                rec.maximum('log2 err/2^-p inside envelope [sumem-tail]', units, desc)
        else:
            rec.undecided(verdict, desc)
        return
    judge(rec, desc, v, oracle, p, inside, why, sub)


RUNNERS = {'nsum': run_nsum, 'nprod': run_nprod, 'limit': run_limit, 'direct': run_direct, 'sumem': run_sumem}


def run_desc(mp, rec, desc):
    desc = {k: v for k, v in desc.items() if k not in ('why_outside', '_key')}
    RUNNERS[desc['kind']](mp, rec, desc)


# ---------------------------------------------------------------------------------------
# generators
# ---------------------------------------------------------------------------------------
def rd(r, lo, hi, bits=4):
    return [r.randint(int(lo * (1 << bits)), int(hi * (1 << bits))), -bits]


def rd_nz(r, lo, hi, bits=4):
    while True:
        d = rd(r, lo, hi, bits)
        if d[0]:
            return d


def gen_series(r, cls):
    c = rd_nz(r, 1, 5, 2) if r.random() < 0.8 else rd_nz(r, -5, -1, 2)
    if cls in ('geom', 'geom-fast', 'geom-alt'):
        if cls == 'geom-fast':
            q = rd_nz(r, 1.0 / 16, 0.5, 4)
        elif cls == 'geom-alt':
            q = rd_nz(r, -15.0 / 16, -1.0 / 8, 4)
        else:
            q = rd_nz(r, 9.0 / 16, 15.0 / 16, 4) if r.random() < 0.8 else rd_nz(r, 0.5, 31.0 / 32, 5)
        d = {'kind': 'geom', 'cls': cls, 'c': c, 'q': q}
        return d
    if cls == 'geom-cplx':
        while True:
            q, qi = rd(r, -0.8, 0.8, 4), rd_nz(r, -0.8, 0.8, 4)
            m = float(Q.dy(q)) ** 2 + float(Q.dy(qi)) ** 2
            if 0.04 < m < 0.8:
                return {'kind': 'geom', 'cls': 'geom', 'c': c, 'q': q, 'qi': qi}
    if cls == 'ratl':
        form = r.choice(['hz', 'hz', 'tele', 'lor'])
        if form == 'hz':
            return {'kind': 'ratl', 'cls': 'ratl', 'form': 'hz', 'c': c, 'beta': rd(r, 0, 2, 1), 's': r.choice([2, 2, 3, 4, 6])}
        if form == 'tele':
            return {'kind': 'ratl', 'cls': 'ratl', 'form': 'tele', 'c': c, 'al': rd(r, 0, 3, 1)}
        return {'kind': 'ratl', 'cls': 'ratl', 'form': 'lor', 'c': c, 't': rd_nz(r, 0.5, 3, 2)}
    if cls == 'alt-ratl':
        if r.random() < 0.7:
            return {'kind': 'ratl', 'cls': 'alt-ratl', 'form': 'hz', 'alt': 1, 'c': c, 'beta': rd(r, 0, 2, 1), 's': r.choice([1, 1, 2, 3])}
        return {'kind': 'ratl', 'cls': 'alt-ratl', 'form': 'lor', 'alt': 1, 'c': c, 't': rd_nz(r, 0.5, 3, 2)}
    if cls == 'alt-nonint':
        return {'kind': 'ratl', 'cls': 'alt-nonint', 'form': 'hz', 'alt': 1, 'c': c, 'beta': rd(r, 0, 2, 1), 's': r.choice([[3, -1], [5, -1], [1, -1]])}
    if cls == 'nonint':
        if r.random() < 0.25:
            return {'kind': 'ratl', 'cls': 'nonint', 'form': 'loghz', 'c': c, 'beta': [0, 0], 's': [5, -1]}
        return {'kind': 'ratl', 'cls': 'nonint', 'form': 'hz', 'c': c, 'beta': rd(r, 0, 2, 1), 's': r.choice([[5, -1], [7, -1], [3, -1]])}
    if cls == 'fact':
        return {'kind': 'fact', 'cls': 'fact', 'c': c, 'x': rd_nz(r, -4, 4, 2), 'm': r.choice([0, 0, 1, 2, 3])}
    if cls == 'hyp':
        return {'kind': 'hyp', 'cls': 'hyp', 'al': rd_nz(r, 0.25, 3, 2), 'be': rd_nz(r, 0.25, 3, 2), 'ga': rd_nz(r, 0.5, 4, 2),
                'z': rd_nz(r, -0.5, 0.5, 4)}
    raise ValueError(cls)


def _start_for(r, sd, kind):
    """a start index (may be negative) for which every term is defined"""
    if sd['kind'] == 'geom':
        return r.choice([0, 0, 1, 2, 5, -1, -3, -4])
    if sd['kind'] == 'ratl':
        if sd['form'] in ('hz', 'loghz'):
            lo = 1 if Q.dy(sd['beta']) <= 0 else 0
            if sd['form'] == 'loghz':
                lo = 2
            return lo + r.choice([0, 0, 1, 3, 10])
        if sd['form'] == 'tele':
            return (1 if Q.dy(sd['al']) <= 0 else 0) + r.choice([0, 1, 4])
        return r.choice([0, 1, 2, -2, -5, 7])
    if sd['kind'] == 'fact':
        return r.choice([0, 0, 1, 3])
    return r.choice([0, 0, 1, 2])


NSUM_CELLS = []
for _cls, _ms in sorted(METHODS.items()):
    for _m in _ms:
        NSUM_CELLS.append((_cls, _m))
# default method (no method= argument) and some pairs outside the envelope (observation only)
NSUM_CELLS += [(c, None) for c in ('geom', 'geom-fast', 'geom-alt', 'ratl', 'alt-ratl', 'fact', 'hyp', 'nonint', 'alt-nonint')]
NSUM_CELLS += [('ratl', 's'), ('geom', 'r'), ('nonint', 'r+s'), ('ratl', 'd'), ('geom', 'e'), ('ratl', 'a'), ('geom-cplx', None), ('geom-cplx', 's'),
               ('geom-cplx', 'levin')]
SLOW_METHODS = ('e', 'euler-maclaurin', 'r+s+e')

OTHER_CELLS = ['finite/geom', 'finite/ratl', 'finite/fact', 'finite/hyp', 'mirrored/geom', 'mirrored/ratl', 'two-sided/geom', 'two-sided/ratl',
               'dim2/fin-inf', 'dim2/inf-fin', 'dim2/inf-inf', 'dim2/fin-fin', 'dim3/mixed', 'dim3/fin',
               'nprod/finite', 'nprod/inf', 'nprod/inf-nsum', 'nprod/inf-e', 'nprod/minus-inf',
               'limit/expdef', 'limit/ratfun', 'limit/zero', 'limit/exp',
               'direct/richardson', 'direct/shanks', 'direct/shanks-extra', 'direct/levin', 'direct/levin-step', 'direct/sidi', 'direct/cohen',
               'sumem/poly', 'sumem/tail', 'sumap/zeta']


def gen_nsum_cell(r, cls, method, p):
    sd = gen_series(r, cls)
    a = _start_for(r, sd, 'inf')
    desc = {'kind': 'nsum', 'series': sd, 'range': [[a, '+inf']], 'prec': p}
    if method:
        desc['method'] = method
    if method in ('levin', 'l', 'sidi'):
        desc['kw'] = {'levin_variant': r.choice(LEVIN_VARIANTS.get(sd['cls'], ['u']) + ['u'])}
    if r.random() < 0.3:
        desc['form'] = r.choice(['int', 'float'])       # operand type of the range limits
    return desc


def gen_other(r, cell, p):
    kind, sub = cell.split('/')
    if kind == 'finite':
        sd = gen_series(r, {'geom': r.choice(['geom', 'geom-alt', 'geom-cplx']), 'ratl': r.choice(['ratl', 'alt-ratl']), 'fact': 'fact', 'hyp': 'hyp'}[sub])
        if sd['kind'] == 'ratl' and sd['form'] == 'hz' and not isinstance(sd['s'], int):
            sd['s'] = 2
        a = _start_for(r, sd, 'fin')
        b = a + r.choice([0, 1, 5, 20, 40])
        if r.random() < 0.1:
            b = a - r.choice([1, 3])       # empty range -> 0
        desc = {'kind': 'nsum', 'series': sd, 'range': [[a, b]], 'prec': p}
        if r.random() < 0.3:
            desc['method'] = r.choice(['r+s', 'd', 's', 'levin'])
        return desc
    if kind in ('mirrored', 'two-sided'):
        if sub == 'geom':
            sd = gen_series(r, r.choice(['geom', 'geom-alt', 'geom-fast']))
        else:
            sd = gen_series(r, r.choice(['ratl', 'alt-ratl']))
            if sd['form'] == 'tele':
                sd = {'kind': 'ratl', 'cls': 'ratl', 'form': 'lor', 'c': sd['c'], 't': rd_nz(r, 0.5, 3, 2)}
            if kind == 'two-sided':
                sd = {'kind': 'ratl', 'cls': sd['cls'], 'form': 'lor', 'c': sd['c'], 't': rd_nz(r, 0.5, 3, 2)}
                if sd['cls'] == 'alt-ratl':
                    sd['alt'] = 1
        if kind == 'two-sided':
            rng = ['-inf', '+inf']
        else:
            a = _start_for(r, sd, 'inf')
            rng = ['-inf', -a]
        desc = {'kind': 'nsum', 'series': sd, 'range': [rng], 'prec': p}
        m = r.choice([None, None] + METHODS[sd['cls']][:3])
        if m and m not in SLOW_METHODS:
            desc['method'] = m
        return desc
    if kind in ('dim2', 'dim3'):
        dim = 2 if kind == 'dim2' else 3
        pat = {'fin-inf': 'fi', 'inf-fin': 'if', 'inf-inf': 'ii', 'fin-fin': 'ff', 'mixed': r.choice(['iif', 'ifi', 'fii', 'ffi']), 'fin': 'fff'}[sub]
        multi, rngs = [], []
        for ch in pat:
            if ch == 'i':
                sd = gen_series(r, r.choice(['geom-fast', 'geom-fast', 'geom-alt']))
                if sd['cls'] == 'geom-alt':
                    sd['q'] = rd_nz(r, -0.5, -1.0 / 8, 4)
                a = r.choice([0, 1, 1, 2, -2])
                rngs.append([a, '+inf'])
            else:
                sd = gen_series(r, r.choice(['geom', 'ratl', 'fact']))
                if sd['kind'] == 'ratl' and sd['form'] != 'hz':
                    sd = {'kind': 'ratl', 'cls': 'ratl', 'form': 'hz', 'c': sd['c'], 'beta': [1, 0], 's': 2}
                a = _start_for(r, sd, 'fin')
                rngs.append([a, a + r.choice([0, 1, 2, 3])])
            multi.append(sd)
        return {'kind': 'nsum', 'multi': multi, 'range': rngs, 'prec': p}
    if kind == 'nprod':
        if sub == 'finite':
            form = r.choice(['p1', 'p2', 'p3', 'wallis', 'sinh'])
            a = r.choice([2, 3, 5])
            d = {'form': form}
            if form == 'sinh':
                d['t'] = rd_nz(r, 0.5, 2, 2)
            return {'kind': 'nprod', 'prod': d, 'range': [a, a + r.choice([0, 1, 4, 12, 30])], 'prec': p}
        form = r.choice(['p1', 'p2', 'p3', 'wallis', 'sinh', 'expgeo', 'expzeta'])
        d = {'form': form}
        if form == 'sinh':
            d['t'] = rd_nz(r, 0.5, 2, 2)
        if form == 'expgeo':
            d['q'] = rd_nz(r, 0.25, 0.875, 3); d['c'] = rd_nz(r, -2, 2, 2)
        a = r.choice([2, 2, 3, 6]) if form in ('p1', 'p3') else r.choice([1, 1, 2, 5])
        desc = {'kind': 'nprod', 'prod': d, 'range': [a, '+inf'], 'prec': p, 'kw': {}}
        if sub == 'inf-nsum':
            desc['kw']['nsum'] = True
        elif sub == 'inf-e':
            desc['kw']['method'] = 'e'
            if form == 'expgeo':
                d['form'] = 'expzeta'; d.pop('q'); d.pop('c')
        elif r.random() < 0.4:
            desc['kw']['method'] = r.choice(['r+s', 'r', 's'])
        if sub == 'minus-inf':
            d['form'] = form = r.choice(['p1', 'wallis', 'sinh', 'expzeta'])
            for kx in ('q', 'c'):
                d.pop(kx, None)
            if form == 'sinh':
                d['t'] = rd_nz(r, 0.5, 2, 2)
            a = r.choice([2, 3]) if form == 'p1' else r.choice([1, 2])
            desc['range'] = ['-inf', -a]
            desc['kw'] = {}
            desc['prec'] = min(p, 120)
        if sub == 'inf-e':
            desc['prec'] = min(p, 100)
        return desc
    if kind == 'limit':
        if sub == 'expdef':
            return {'kind': 'limit', 'lim': {'form': 'expdef', 'x': rd_nz(r, -4, 4, 2)}, 'prec': p, 'kw': {}}
        if sub == 'ratfun':
            deg = r.choice([1, 2, 3])
            P = [rd(r, -5, 5, 1) for _ in range(deg)] + [rd_nz(r, 1, 5, 1)]
            Qc = [rd(r, 1, 5, 1) for _ in range(deg)] + [rd_nz(r, 1, 5, 1)]
            at = r.choice(['inf', 'inf', '-inf'])
            if at == '-inf':       # keep Q(-n) = sum |c_j| n^j > 0 at every sample point
                Qc = [[c[0] * (-1) ** j, c[1]] for j, c in enumerate(Qc)]
            return {'kind': 'limit', 'lim': {'form': 'ratfun', 'P': P, 'Q': Qc, 'at': at}, 'prec': p,
                    'kw': r.choice([{}, {}, {'method': 'r'}, {'method': 'r+s'}])}
        if sub == 'zero':
            form = r.choice(['sinc', 'xsin', 'expm1'])
            d = {'form': form, 'a': rd_nz(r, -3, 3, 2)}
            return {'kind': 'limit', 'lim': d, 'prec': p, 'kw': r.choice([{}, {'direction': -1}, {'direction': 1}])}
        return {'kind': 'limit', 'lim': {'form': 'sqrtexp'}, 'prec': min(p, 120), 'kw': r.choice([{'exp': True}, {'exp': True}, {}])}
    if kind == 'direct':
        if sub == 'richardson':
            n = r.choice([8, 10, 14, 20, 30])
            N = n // 2 - 1
            J = r.randint(1, N) if r.random() < 0.85 else N + 2
            cs = [rd(r, 0, 4, 2) for _ in range(J)]
            cs[0] = rd_nz(r, 1, 4, 2)          # monotone approach
            return {'kind': 'direct', 'sub': 'richardson', 'A': rd_nz(r, -4, 4, 3), 'cs': cs, 'n': n, 'prec': p}
        if sub.startswith('shanks'):
            m = r.choice([1, 1, 2, 3])
            qs = r.sample([[1, -1], [-1, -1], [1, -2], [-3, -2], [3, -2], [-1, -2], [3, -3], [-5, -3], [7, -3]], m)
            comps = [[rd_nz(r, -3, 3, 2), q] for q in qs]
            d = {'kind': 'direct', 'sub': 'shanks', 'A': rd_nz(r, -4, 4, 3), 'comps': comps, 'prec': p}
            if sub == 'shanks-extra':
                d['extra'] = r.choice([2, 4])
            return d
        if sub in ('levin', 'levin-step', 'sidi'):
            cls = r.choice(['ratl', 'alt-ratl', 'geom', 'geom-alt', 'alt-nonint']) if sub != 'sidi' else r.choice(['alt-ratl', 'alt-ratl', 'ratl'])
            sd = gen_series(r, cls)
            if sd['kind'] == 'ratl' and sd['form'] == 'tele':
                sd = {'kind': 'ratl', 'cls': 'ratl', 'form': 'hz', 'c': sd['c'], 'beta': [1, 0], 's': 2}
            return {'kind': 'direct', 'sub': 'levin', 'series': sd, 'start': max(0, _start_for(r, sd, 'inf')) if sd['kind'] != 'geom' else r.choice([0, 1, 2]),
                    'lmethod': 'sidi' if sub == 'sidi' else 'levin', 'variant': r.choice(['u', 'u', 't', 'v']),
                    'how': r.choice(['update', 'update_psum']) if sub != 'levin-step' else r.choice(['step', 'step_psum']), 'prec': p}
        if sub == 'cohen':
            cls = r.choice(['alt-ratl', 'alt-ratl', 'alt-nonint', 'geom-alt', 'ratl'])
            sd = gen_series(r, cls)
            if sd['kind'] == 'ratl' and sd['form'] == 'tele':
                sd = {'kind': 'ratl', 'cls': 'ratl', 'form': 'hz', 'c': sd['c'], 'beta': [1, 0], 's': 2}
            if sd['kind'] == 'geom':
                sd['q'] = rd_nz(r, -0.5, -1.0 / 8, 4)
            st = max(0, _start_for(r, sd, 'inf')) if sd['kind'] != 'geom' else 0
            if st % 2:
                st += 1        # cohen_alt assumes the first term carries the + sign pattern a_0 - a_1 + ...: keep (-1)^start = +1
            return {'kind': 'direct', 'sub': 'cohen_alt', 'series': sd, 'start': st, 'how': r.choice(['update', 'update_psum']), 'prec': p}
    if kind == 'sumem':
        if sub == 'poly':
            deg = r.choice([1, 2, 3, 5])
            a = r.randint(-50, 20)
            return {'kind': 'sumem', 'sub': 'sumem-poly', 'c': [rd(r, -4, 4, 1) for _ in range(deg)] + [rd_nz(r, 1, 4, 1)],
                    'range': [a, a + r.choice([1, 10, 100, 1000])], 'prec': min(p, 120)}
        pp = min(p, 100)
        sd = {'kind': 'ratl', 'cls': 'ratl', 'form': 'hz', 'c': [1, 0], 'beta': rd(r, 0, 2, 1), 's': r.choice([2, 3, [5, -1]])}
        N = pp // 4 + 8 + r.choice([0, 5, 20]) if r.random() < 0.8 else r.choice([3, 5])
        return {'kind': 'sumem', 'sub': 'sumem-tail', 'series': sd, 'start': N, 'prec': pp}
    if kind == 'sumap':
        pp = min(p, 64)
        sd = {'kind': 'ratl', 'cls': 'nonint', 'form': 'hz', 'c': [1, 0], 'beta': rd(r, 0, 2, 1), 's': r.choice([[5, -1], 3, [7, -1], 4])}
        return {'kind': 'sumem', 'sub': 'sumap', 'series': sd, 'start': r.choice([1, 1, 2, 3]), 'prec': pp}
    raise ValueError(cell)


# seed-independent regression witnesses
WITNESSES = [
    {'kind': 'nsum', 'series': {'kind': 'geom', 'cls': 'geom-alt', 'c': [1, 0], 'q': [-3, -2]}, 'range': [[0, '+inf']], 'prec': 200},
    {'kind': 'nsum', 'series': {'kind': 'geom', 'cls': 'geom-alt', 'c': [1, 0], 'q': [-3, -2]}, 'range': [[0, '+inf']], 'prec': 146},
    {'kind': 'nsum', 'series': {'kind': 'geom', 'cls': 'geom-alt', 'c': [1, 0], 'q': [-7, -3]}, 'range': [[0, '+inf']], 'prec': 221, 'method': 's'},
    {'kind': 'nsum', 'series': {'kind': 'geom', 'cls': 'geom-alt', 'c': [1, 0], 'q': [-3, -2]}, 'range': [[0, '+inf']], 'prec': 53},
    {'kind': 'nsum', 'series': {'kind': 'geom', 'cls': 'geom', 'c': [15, -2], 'q': [15, -4]}, 'range': [[2, '+inf']], 'prec': 155},
    {'kind': 'nsum', 'series': {'kind': 'ratl', 'cls': 'ratl', 'form': 'hz', 'c': [-14, -2], 'beta': [1, -1], 's': 2}, 'range': [[10, '+inf']], 'prec': 30},
    {'kind': 'nsum', 'series': {'kind': 'ratl', 'cls': 'nonint', 'form': 'hz', 'c': [-14, -2], 'beta': [1, -1], 's': [3, -1]}, 'range': [[0, '+inf']],
     'prec': 53, 'method': 'euler-maclaurin'},
    {'kind': 'nprod', 'prod': {'form': 'wallis'}, 'range': [1, '+inf'], 'prec': 100, 'kw': {'method': 'e'}},
    {'kind': 'nsum', 'series': {'kind': 'ratl', 'cls': 'ratl', 'form': 'hz', 'c': [-11, -2], 'beta': [4, -1], 's': 3}, 'range': [[3, '+inf']],
     'prec': 30, 'method': 'richardson'},
    {'kind': 'nprod', 'prod': {'form': 'wallis'}, 'range': [5, '+inf'], 'prec': 30, 'kw': {}},
    {'kind': 'nprod', 'prod': {'form': 'p1'}, 'range': [6, '+inf'], 'prec': 30, 'kw': {'method': 'r'}},
    {'kind': 'nsum', 'series': {'kind': 'ratl', 'cls': 'ratl', 'form': 'lor', 'c': [12, -2], 't': [9, -2]}, 'range': [[-5, '+inf']], 'prec': 30},
    {'kind': 'nsum', 'series': {'kind': 'ratl', 'cls': 'ratl', 'form': 'lor', 'c': [6, -2], 't': [7, -2]}, 'range': [[-5, '+inf']], 'prec': 31,
     'method': 'richardson'},
    {'kind': 'nsum', 'series': {'kind': 'ratl', 'cls': 'ratl', 'form': 'lor', 'c': [18, -2], 't': [6, -2]}, 'range': [[-5, '+inf']], 'prec': 53,
     'method': 'levin', 'kw': {'levin_variant': 'v'}},
    {'kind': 'nsum', 'series': {'kind': 'hyp', 'cls': 'hyp', 'al': [7, -2], 'be': [11, -2], 'ga': [16, -2], 'z': [7, -4]}, 'range': [[1, '+inf']],
     'prec': 80, 'method': 'r+s'},
    {'kind': 'nsum', 'series': {'kind': 'hyp', 'cls': 'hyp', 'al': [3, -2], 'be': [12, -2], 'ga': [3, -2], 'z': [8, -4]}, 'range': [[0, '+inf']],
     'prec': 100, 'method': 'levin', 'kw': {'levin_variant': 'v'}},
    {'kind': 'nsum', 'series': {'kind': 'geom', 'cls': 'geom-alt', 'c': [-8, -2], 'q': [-15, -4]}, 'range': [['-inf', '+inf']], 'prec': 259, 'method': 's'},
    {'kind': 'direct', 'sub': 'levin', 'series': {'kind': 'geom', 'cls': 'geom', 'c': [10, -2], 'q': [16, -5]}, 'start': 1, 'lmethod': 'levin',
     'variant': 'u', 'how': 'step_psum', 'prec': 53},
    {'kind': 'nsum', 'series': {'kind': 'ratl', 'cls': 'ratl', 'form': 'hz', 'c': [15, -2], 'beta': [3, -1], 's': 2}, 'range': [[10, '+inf']],
     'prec': 46, 'method': 'levin', 'kw': {'levin_variant': 'u'}},
]

PRECS = [30, 40, 53, 64, 80, 100, 113, 120, 146, 150, 200, 221, 250, 281, 300]
N_SHARDS = 16


def shards(tier, seed):
    n = int((450 if tier == 'quick' else 6000) * DEV_SCALE)
    return [{'n': n} for _ in range(N_SHARDS)]


def pick_prec(r, i):
    x = r.random()
    if x < 0.6:
        return PRECS[i % len(PRECS)]
    return r.randint(30, 300)


def run_shard(shard, rec):
    import mpmath
    mp = mpmath.mp
    r = G.rng(PROP, shard['seed'], shard['shard'])
    from vf.instrument import AnchorCount
    E_ = 'mpmath.calculus.extrapolation:'
    anchors = [E_ + n for n in ('richardson', 'shanks', 'levin_class.run', 'cohen_alt_class.update', 'cohen_alt_class.update_psum', 'sumap', 'sumem',
                                'adaptive_extrapolation', 'nsum', 'standardize', 'fold_finite', 'standardize_infinite', 'fold_infinite', 'nprod',
                                'limit')]
    budget = {'quick': 200.0, 'thorough': 2000.0}[shard['tier']]
    with AnchorCount(rec, anchors):
        if shard['shard'] == 0:
            for w in WITNESSES:
                run_desc(mp, rec, dict(w))
            rec.event('fixed witnesses run', len(WITNESSES))
        idx = shard['shard'] * 7
        t0 = time.process_time()
        for j in range(shard['n']):
            p = pick_prec(r, idx + j)
            if j % 2 == 0:
                cls, m = NSUM_CELLS[(idx + j // 2) % len(NSUM_CELLS)]
                if m in SLOW_METHODS:
                    p = min(p, 80) if j % 8 == 0 else None
                    if p is None:
                        cls, m = NSUM_CELLS[(idx + j // 2 + 1) % len(NSUM_CELLS)]
                        p = pick_prec(r, idx + j)
                        if m in SLOW_METHODS:
                            continue
                if (m or 'r+s') not in METHODS.get(cls, ['r+s', 's', 'levin']) or cls in ('hyp',):
                    p = min(p, 100)          # observation-only pairs (and the expensive terms) stay cheap
                desc = gen_nsum_cell(r, cls, m, p)
                cell = 'nsum/%s/%s' % (cls, m)
            else:
                cell = OTHER_CELLS[(idx + j // 2) % len(OTHER_CELLS)]
                desc = gen_other(r, cell, p)
                if desc is None:
                    continue
            t1 = time.process_time()
            run_desc(mp, rec, desc)
            rec.maximum('cpu seconds for one case [%s]' % cell, round(time.process_time() - t1, 2), {'prec': desc['prec']})
            if time.process_time() - t0 > budget:
                rec.event('shards stopped by their time budget')
                rec.note('cases done when the time budget ran out', [shard['shard'], j])
                break
    rec.note('shard seconds', [shard['shard'], round(time.process_time(), 1)], cap=20)


def required(agg, tier):
    miss = []
    cl = agg['classes']
    for cls, ms in METHODS.items():
        for m in ms:
            if not any(k.startswith('nsum/%s/%s/' % (cls, m)) and k.endswith('/in') for k in cl):
                miss.append('nsum method %s never observed inside the envelope on class %s' % (m, cls))
    for need in ('nsum/dim2', 'nsum/dim3', 'nprod/', 'limit/', 'direct/richardson', 'direct/shanks', 'direct/levin', 'direct/cohen_alt',
                 'sumem-poly', 'sumem-tail', 'sumap'):
        if not any(k.startswith(need) and k.endswith('/in') for k in cl):
            miss.append('no in-envelope case of %s' % need)
    for rk in ('finite', 'two-sided', 'mirrored', 'to-inf'):
        if not any(k.startswith('nsum/') and ('/%s/' % rk) in k for k in cl):
            miss.append('range kind %s never observed' % rk)
    if not agg['events'].get('fixed witnesses run'):
        miss.append('fixed witnesses not run')
    return miss


def replay(case, rec):
    import mpmath
    run_desc(mpmath.mp, rec, case['case'])
