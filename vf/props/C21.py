"""C21 -- Bessel, Airy and related functions: relative error (in modulus) below 2^(8-p); zero finders return the
requested zero of the requested index to that accuracy.

Observed: the value returned by the public function for exact (dyadic) arguments at precision p.
Oracle: consensus reference of the specfun engine (released 1.3.0 at two precisions + tree at 3p+300); for the zero
finders an independent sign-change oracle (reference release's *function* at high precision): sign change in a
2^(8-p)-relative bracket around the returned value AND index = number of sign changes below it on a grid that is
finer than the minimal zero spacing."""
import math
from vf import specfun as S
from vf import specfun_k as K
from vf import refmodel
from vf.specfun import args as A, real_in, complex_in, near, integer, half_integer, choice
from vf.specfun_k import HP, RG, Custom, dyadic, near_int, near_half_int, near_npint, polar, polar_log, uniform, uniform_bits, \
    one_of, flat
from vf.catalog import R, C, I, raw_from_float, canon

PROP = 'C21'


def KEYMAP(key):
    """Known-finding granularity is (function, failure kind), not the several hundred argument cells: seed sweeps of the unchanged
    tree kept producing genuine failures in new cells of the same functions, i.e. per-function weaknesses.  The cell stays in the
    witness as `fine_key`; a failure worse than the recorded ceiling of its (function, kind) is still reported as new."""
    parts = key.split('/')
    last = parts[-1]
    kind = last if (last.startswith('raises-') or last == 'non-finite-result' or last.startswith('wrong-')) else 'accuracy'
    return 'C21/%s/%s' % (parts[1], kind)
LEVEL = 'exploration'
NEEDS_REF = True
RULE = ('stratified cells (function x argument regime fixed a priori, label = mechanism key) x precision list; concrete '
        'arguments from the seeded rng; non-trivial = a finite reference value exists and the result was compared '
        '(zero finders: the sign-change and index oracles both ran); distinct = (function, regime, args, prec)')
ASSUMPTIONS = ['consensus reference: mpmath 1.3.0 at p+64 and 2p+200 bits and the tree at 3p+300 bits agree to 2^-(p+32)',
               'zero finders: signs of the reference release\'s besselj/bessely/airyai/airybi at >= p+80 bits are right when '
               '|f| is far above the evaluation error (tiny values are resampled / undecided); Bessel and Airy zeros of the '
               'tested kinds are simple and consecutive zeros are more than 2.9 apart in the grid variable']
LEVEL_TEXT = ('exploration: ~4*10^3 (quick) / ~10^5 (thorough) evaluations of the real functions over ~190 a-priori cells '
              '(orders: integer, half-integer, real, complex, next to integers; arguments: tiny, both sides of each '
              'series/asymptotic switch, oscillatory and exponentially scaled up to 10^3..10^5, complex sectors), '
              'precisions 10..1000; each value compared with a two-source reference; zero finders by sign change + index count')
LEVEL_NOTE = ('trusted base: released mpmath 1.3.0 + the tree itself at 3p+300 bits as consensus (a defect shared by both at all '
              'precisions is invisible); inputs not generated are not covered')
TECHNIQUE = 'runtime reference-model monitor: consensus oracle on every observed function value; sign-change/index oracle for zeros'
SHARD_TIMEOUT = {'quick': 2400, 'thorough': 6000}
CASES = {'quick': 260, 'thorough': 6000}
BUDGET = {'quick': 50, 'thorough': 420}
NSHARDS = 16
WALL = {'quick': 1100, 'thorough': 3600}          # wall-clock safety net per shard (the budget itself is CPU time)

HV = dict(heavy=True)

# ---- order / argument generators ---------------------------------------------------------------
int_order = integer(-12, 25)
small_int = integer(0, 6)
big_int_order = integer(30, 300)
half_order = half_integer(-8, 12)
real_order = one_of(real_in(-3, 4), dyadic(-40, 40, 3))
pos_real_order = real_in(-3, 4, 0)
cplx_order = complex_in(-2, 3)
near_int_order = near_int(-6, 8, 6, 70)
near_half_order = near_half_int(-4, 6, 6, 70)

tiny = real_in(-300, -30)
small_pos = real_in(-12, 0, 0)
mod_pos = uniform_bits(0.5, 30.0)
mod_real = one_of(uniform_bits(-30.0, 30.0), real_in(-2, 5))
large_pos = one_of(uniform_bits(30.0, 1000.0), real_in(5, 10, 0))
huge_pos = real_in(10, 17, 0)
cplx_mod = one_of(complex_in(-2, 5), polar(0.3, 30.0))
cplx_large = polar_log(5, 10)
imag_axis = lambda r, b: C((0, 0, 0, 0), S.raw_rand(r, b, -2, 6))
neg_real = one_of(uniform_bits(-30.0, -0.5), real_in(-2, 5, 1))


def kw(**k):
    return k



# ---- defining relations (third reference source) and extra reference precision for cancelling cells ----------

def _spec_abs_im(s):
    """|Im| of a spec as float (0 for real specs)"""
    if s[0] == 'C':
        sg, m, e, bc = s[2]
        return abs(math.ldexp(m, e)) if m and e + bc < 1000 else 0.0
    return 0.0


def _spec_abs(s):
    if s[0] == 'I':
        return abs(float(s[1]))
    def f(raw):
        sg, m, e, bc = raw
        return math.ldexp(m, e) if m and e + bc < 1000 else 0.0
    if s[0] == 'R':
        return f(s[1])
    return math.hypot(f(s[1]), f(s[2]))


def hankel_extra(specs):
    # H = J +- iY cancels by ~ 2|Im z| log2(e) + pi |Im v| log2(e) bits in the half-plane where H is recessive
    return int(3.0 * _spec_abs_im(specs[1]) + 5.0 * _spec_abs_im(specs[0])) + 30


def hankel1_rel(mp, v, z):
    # H1_v(z) = 2/(pi i) e^(-i pi v/2) K_v(-i z),  -pi/2 < arg z <= pi     (DLMF 10.27.8)
    z = mp.mpmathify(z)
    if not (mp.im(z) > 0 or (mp.im(z) == 0 and mp.re(z) != 0) or mp.re(z) > 0):
        raise ValueError('outside the sector of the relation')
    if mp.re(z) <= 0 and mp.im(z) < 0:
        raise ValueError('outside the sector of the relation')
    w = mp.mpc(mp.im(z), -mp.re(z))
    return 2 / (mp.pi * mp.j) * mp.expjpi(-mp.mpmathify(v) / 2) * mp.besselk(v, w)


def hankel2_rel(mp, v, z):
    # H2_v(z) = -2/(pi i) e^(i pi v/2) K_v(i z),  -pi < arg z <= pi/2
    z = mp.mpmathify(z)
    if mp.re(z) <= 0 and mp.im(z) >= 0 and not (mp.re(z) == 0 and mp.im(z) > 0):
        raise ValueError('outside the sector of the relation')
    w = mp.mpc(-mp.im(z), mp.re(z))
    return -2 / (mp.pi * mp.j) * mp.expjpi(mp.mpmathify(v) / 2) * mp.besselk(v, w)


def scorer_extra(specs):
    return int(3.2 * _spec_abs(specs[0]) ** 1.5) + 60


def scorergi_rel(mp, z):
    # Gi(z) = Bi(z) int_z^oo Ai + Ai(z) int_0^z Bi     (DLMF 9.12.4/9.12.20), int_0^oo Ai = 1/3
    return mp.airybi(z) * (mp.mpf(1) / 3 - mp.airyai(z, derivative=-1)) + mp.airyai(z) * mp.airybi(z, derivative=-1)


def scorerhi_rel(mp, z):
    # Hi(z) = Bi(z) int_-oo^z Ai - Ai(z) int_-oo^z Bi, int_-oo^0 Ai = 2/3, int_-oo^0 Bi = 0
    return mp.airybi(z) * (mp.mpf(2) / 3 + mp.airyai(z, derivative=-1)) - mp.airyai(z) * mp.airybi(z, derivative=-1)


def besseli_reflect(mp, n, z):
    # I_{-n}(z) = I_n(z) for integer n
    return mp.besseli(-n, z)


_ZERO_CACHE = {}


def at_zero(kind):
    """argument = a zero of the function rounded to the requested number of bits (the value there is ~2^-bits)"""
    def g(r, b):
        rm = K.rmp()
        b = max(4, min(b, 1200))
        if kind in ('j', 'y'):
            n, m = r.randint(0, 6), r.randint(1, 12)
            ck = (kind, n, m)
        else:
            n, m = None, r.randint(1, 12)
            ck = (kind, m)
        z = _ZERO_CACHE.get(ck)
        if z is None or z[0] < b + 40:
            with K.at_prec(rm, b + 40):
                v = {'j': lambda: rm.besseljzero(n, m), 'y': lambda: rm.besselyzero(n, m), 'ai': lambda: rm.airyaizero(m),
                     'bi': lambda: rm.airybizero(m)}[kind]()
            z = _ZERO_CACHE[ck] = (b + 40, v)
        with K.at_prec(rm, b):
            x = +z[1]
        spec = R(tuple(int(t) if i == 1 else t for i, t in enumerate(x._mpf_)))
        return [I(n), spec] if n is not None else [spec]
    return g


def bessel_family(fname, has_deriv=True, second_kind=False):
    """cells shared by besselj / bessely / besseli (order, argument)"""
    regs = [
        RG('int-order/real-moderate', A(int_order, mod_pos), weight=2),
        RG('int-order/real-small', A(int_order, small_pos)),
        RG('int-order/real-large', A(int_order, large_pos)),
        RG('int-order/real-huge', A(integer(0, 5), huge_pos), **HV),
        RG('int-order/tiny', A(integer(-3, 6), tiny)),
        RG('int-order/complex', A(int_order, cplx_mod)),
        RG('int-order/complex-large', A(integer(-3, 8), cplx_large), **HV),
        RG('int-order/imag-axis', A(integer(-3, 8), imag_axis)),
        RG('int-order/neg-real', A(int_order, neg_real)),
        RG('large-int-order/real', A(big_int_order, one_of(uniform_bits(1.0, 400.0), real_in(-3, 9, 0))), **HV),
        RG('half-int-order/real', A(half_order, one_of(mod_pos, large_pos))),
        RG('half-int-order/complex', A(half_order, cplx_mod)),
        RG('real-order/real-moderate', A(real_order, mod_pos), weight=2),
        RG('real-order/real-small', A(real_order, small_pos)),
        RG('real-order/real-large', A(real_order, large_pos)),
        RG('real-order/tiny', A(real_in(-2, 2), tiny)),
        RG('real-order/complex', A(real_order, cplx_mod)),
        RG('large-real-order/real', A(real_in(5, 8), one_of(uniform_bits(1.0, 400.0), real_in(-3, 9, 0))), **HV),
        RG('near-int-order/real', A(near_int_order, one_of(mod_pos, small_pos))),
        RG('near-half-int-order/real', A(near_half_order, mod_pos)),
        RG('complex-order/real', A(cplx_order, mod_pos)),
        RG('complex-order/complex', A(cplx_order, cplx_mod)),
    ]
    if has_deriv:
        regs += [
            RG('derivative-1/int-order', A(integer(0, 12), one_of(mod_pos, large_pos)), kwargs=kw(derivative=1)),
            RG('derivative-1/real-order', A(pos_real_order, mod_pos), kwargs=kw(derivative=1)),
            RG('derivative-2/int-order', A(integer(0, 8), mod_pos), kwargs=kw(derivative=2)),
            RG('derivative-3/real-order', A(pos_real_order, mod_pos), kwargs=kw(derivative=3), **HV),
        ]
    return regs


def hankel_family(which):
    rel = hankel1_rel if which == 1 else hankel2_rel
    X = dict(ref_extra=hankel_extra, relation=rel)
    rec_sector = (0.3, 2.8) if which == 1 else (-2.8, -0.3)          # half-plane where H is recessive (J, Y cancel)
    dom_sector = (-2.8, -0.3) if which == 1 else (0.3, 2.8)
    return [
        RG('int-order/real-moderate', A(int_order, mod_pos), weight=2),
        RG('int-order/real-small', A(integer(-5, 8), small_pos)),
        RG('int-order/real-large', A(int_order, large_pos)),
        RG('int-order/complex-recessive-half-plane', A(integer(-5, 10), polar(0.3, 30.0, *rec_sector)), **X),
        RG('int-order/complex-dominant-half-plane', A(integer(-5, 10), polar(0.3, 30.0, *dom_sector))),
        RG('half-int-order/real', A(half_order, mod_pos)),
        RG('real-order/real-moderate', A(real_order, mod_pos), weight=2),
        RG('real-order/real-large', A(real_order, large_pos)),
        RG('real-order/complex-recessive-half-plane', A(real_order, polar(0.3, 30.0, *rec_sector)), **X),
        RG('real-order/complex-dominant-half-plane', A(real_order, polar(0.3, 30.0, *dom_sector))),
        RG('real-order/complex-recessive-large', A(real_in(-2, 3), polar(30.0, 300.0, *rec_sector)), heavy=True, **X),
        RG('real-order/complex-dominant-large', A(real_in(-2, 3), polar(30.0, 300.0, *dom_sector)), **HV),
        RG('near-int-order/real', A(near_int_order, mod_pos)),
        RG('complex-order/real', A(cplx_order, mod_pos), **X),
        RG('complex-order/complex', A(cplx_order, cplx_mod), **X),
    ]


def airy_family():
    return [
        RG('real/0..4', A(uniform_bits(0.0, 4.0))),
        RG('real/4..10.5', A(uniform_bits(4.0, 10.5))),
        RG('real/10.5..100', A(uniform_bits(10.5, 100.0))),
        RG('real/large-pos', A(real_in(7, 17, 0)), **HV),
        RG('real/-10.5..0', A(uniform_bits(-10.5, 0.0))),
        RG('real/-100..-10.5', A(uniform_bits(-100.0, -10.5))),
        RG('real/large-neg', A(real_in(7, 14, 1)), **HV),
        RG('tiny', A(real_in(-300, -20))),
        RG('complex/moderate', A(cplx_mod), weight=2),
        RG('complex/sector-pos', A(polar(4.0, 60.0, -1.0, 1.0))),
        RG('complex/sector-anti-stokes', A(polar(4.0, 60.0, 1.9, 2.3))),
        RG('complex/sector-neg', A(polar(4.0, 60.0, 2.6, 3.6))),
        RG('complex/large', A(polar_log(6, 10)), **HV),
        RG('derivative-1/real', A(one_of(uniform_bits(-30.0, 30.0), uniform_bits(3.0, 5.0))), kwargs=kw(derivative=1), weight=2),
        RG('derivative-1/real-large', A(real_in(5, 12)), kwargs=kw(derivative=1), **HV),
        RG('derivative-1/complex', A(cplx_mod), kwargs=kw(derivative=1)),
        RG('derivative-2/real', A(uniform_bits(-20.0, 20.0)), kwargs=kw(derivative=2)),
        RG('derivative-3/real', A(uniform_bits(-20.0, 20.0)), kwargs=kw(derivative=3)),
        RG('derivative-4/complex', A(polar(0.3, 10.0)), kwargs=kw(derivative=4), **HV),
        RG('integral-1/real', A(uniform_bits(-20.0, 10.0)), kwargs=kw(derivative=-1)),
        RG('integral-2/real', A(uniform_bits(-10.0, 10.0)), kwargs=kw(derivative=-2), **HV),
    ]


def struve_family():
    return [
        RG('int-order/real-moderate', A(integer(-6, 12), mod_pos), weight=2),
        RG('int-order/real-small', A(integer(-3, 8), small_pos)),
        RG('int-order/real-large', A(integer(-3, 8), large_pos)),
        RG('int-order/real-1024..4096', A(integer(0, 4), uniform_bits(1024.0, 4096.0)), **HV),
        RG('int-order/tiny', A(integer(0, 5), tiny)),
        RG('int-order/complex', A(integer(-3, 8), cplx_mod)),
        RG('int-order/neg-real', A(integer(-3, 8), neg_real)),
        RG('half-int-order/real', A(half_order, mod_pos)),
        RG('real-order/real-moderate', A(real_order, mod_pos), weight=2),
        RG('real-order/real-large', A(real_in(-2, 3), large_pos)),
        RG('real-order/complex', A(real_order, cplx_mod)),
        RG('near-neg-half-int-order/real', A(near_half_int(-6, -1, 6, 60), mod_pos)),
        RG('complex-order/real', A(cplx_order, mod_pos)),
    ]


def kelvin_family(second=False):
    regs = [
        RG('int-order/real-moderate', A(integer(0, 8) if second else integer(-4, 8), mod_pos), weight=2),
        RG('int-order/real-small', A(integer(0, 5), small_pos)),
        RG('int-order/real-30..100', A(integer(0, 4), uniform_bits(30.0, 100.0)), **HV),
        RG('int-order/tiny', A(integer(0, 3), real_in(-200, -30, 0))),
        RG('half-int-order/real', A(half_integer(-3, 6), mod_pos)),
        RG('real-order/real-moderate', A(real_order, mod_pos), weight=2),
        RG('real-order/real-small', A(real_in(-2, 2), small_pos)),
        RG('near-int-order/real', A(near_int(-3, 5, 6, 60), uniform_bits(0.5, 10.0))),
        RG('int-order/complex', A(integer(0, 4), polar(0.3, 15.0, -0.7, 0.7)), **HV),
    ]
    return regs


def scorer_family(which):
    rel = scorergi_rel if which == 0 else scorerhi_rel
    X = dict(ref_extra=scorer_extra, relation=rel)
    # the direct asymptotic series is used for |z| >= 4 and |arg z| < 0.999 pi/3 (Gi) resp. |arg(-z)| < 0.999 2pi/3 (Hi),
    # i.e. the switch of both functions lies on the rays arg z = +-pi/3 (Gi: asymptotic side below, Hi: above)
    b = math.pi / 3
    if which == 0:
        asy, ser = (0.8 * b, 0.999 * b), (0.999 * b, 1.2 * b)
        far_asy = ('complex/|arg|<0.8pi/3(asymptotic)', polar(4.0, 60.0, -0.8 * b, 0.8 * b))
        far_ser = ('complex/|arg|>1.2pi/3(series)', one_of(polar(4.0, 60.0, 1.2 * b, 3.0 * b), polar(4.0, 60.0, -3.0 * b, -1.2 * b)))
    else:
        asy, ser = (1.001 * b, 1.2 * b), (0.8 * b, 1.001 * b)
        far_asy = ('complex/|arg|>1.2pi/3(asymptotic)', one_of(polar(4.0, 60.0, 1.2 * b, 3.0 * b), polar(4.0, 60.0, -3.0 * b, -1.2 * b)))
        far_ser = ('complex/|arg|<0.8pi/3(series)', polar(4.0, 60.0, -0.8 * b, 0.8 * b))
    neg = lambda t: (-t[1], -t[0])
    return [
        RG('real/0..4', A(uniform_bits(0.0, 4.0))),
        RG('real/4..8', A(uniform_bits(4.0, 8.0))),
        RG('real/8..100', A(uniform_bits(8.0, 100.0))),
        RG('real/large-pos', A(real_in(7, 14, 0))),
        RG('real/-4..0', A(uniform_bits(-4.0, 0.0))),
        RG('real/-8..-4', A(uniform_bits(-8.0, -4.0))),
        RG('real/-100..-8', A(uniform_bits(-100.0, -8.0))),
        RG('real/large-neg', A(real_in(7, 12, 1)), **HV),
        RG('tiny', A(real_in(-200, -20))),
        RG('complex/|z|<4', A(polar(0.3, 4.0))),
        RG(far_asy[0], A(far_asy[1]), weight=2),
        RG(far_ser[0], A(far_ser[1]), weight=2),
        RG('complex/next-to-ray-pi/3(asymptotic-side)', A(polar(4.0, 22.0, *asy)), weight=2, **X),
        RG('complex/next-to-ray-pi/3(series-side)', A(polar(4.0, 22.0, *ser)), **X),
        RG('complex/next-to-ray--pi/3(asymptotic-side)', A(polar(4.0, 22.0, *neg(asy))), **X),
        RG('complex/next-to-ray--pi/3(series-side)', A(polar(4.0, 22.0, *neg(ser))), **X),
    ]


def coulomb_family():
    eta = one_of(dyadic(-16, 16, 2, nonzero=False), real_in(-3, 3))
    return [
        RG('int-l/real', A(integer(0, 6), eta, uniform_bits(0.1, 30.0)), weight=2, **HV),
        RG('int-l/real-small', A(integer(0, 4), eta, real_in(-12, -2, 0)), **HV),
        RG('int-l/real-large', A(integer(0, 4), eta, uniform_bits(32.0, 300.0)), **HV),
        RG('int-l/eta-zero', A(integer(0, 6), choice(0), uniform_bits(0.1, 30.0)), **HV),
        RG('half-int-l/real', A(half_integer(0, 4), eta, uniform_bits(0.1, 30.0)), **HV),
        RG('real-l/real', A(real_in(-2, 3, 0), eta, uniform_bits(0.1, 30.0)), weight=2, **HV),
        RG('real-l/complex', A(real_in(-2, 2, 0), eta, polar(0.3, 20.0, 0.1, 3.0)), **HV),
        RG('near-int-l/real', A(near_int(0, 4, 8, 60), eta, uniform_bits(0.1, 20.0)), **HV),
        RG('int-l/large-eta', A(integer(0, 3), uniform_bits(5.0, 40.0), uniform_bits(0.5, 40.0)), **HV),
    ]


def anger_family():
    return [
        RG('int-order/real-moderate', A(integer(-6, 10), mod_real), weight=2),
        RG('int-order/real-large', A(integer(-3, 6), large_pos)),
        RG('half-int-order/real', A(half_integer(-4, 6), mod_real)),
        RG('real-order/real-moderate', A(real_order, mod_real), weight=2),
        RG('real-order/real-small', A(real_in(-2, 3), small_pos)),
        RG('real-order/real-large', A(real_in(-2, 3), large_pos)),
        RG('real-order/real-1024..4096', A(real_in(-2, 2), uniform_bits(1024.0, 4096.0)), **HV),
        RG('real-order/tiny', A(real_in(-2, 2), tiny)),
        RG('real-order/complex', A(real_order, cplx_mod)),
        RG('near-int-order/real', A(near_int(-3, 6, 6, 60), mod_pos)),
        RG('complex-order/real', A(cplx_order, mod_pos)),
    ]


def lommel_family(second=False):
    # defined unless u +- v is an odd negative integer: generic reals, and integer/half-integer pairs with u - |v| > -1
    upos = one_of(dyadic(1, 24, 2), real_in(-1, 3, 0))
    vsm = one_of(dyadic(-6, 6, 2, nonzero=False), real_in(-3, 0))
    return [
        RG('generic/real-moderate', A(real_in(-2, 2, 0), real_in(-2, 1), mod_pos), weight=2, **HV),
        RG('rational/real-moderate', A(upos, vsm, mod_pos), weight=2, **HV),
        RG('rational/real-small', A(upos, vsm, small_pos), **HV),
        RG('rational/real-large', A(upos, vsm, uniform_bits(30.0, 300.0)), **HV),
        RG('int-pair/real', A(integer(1, 5), integer(0, 1), mod_pos), **HV),
        RG('generic/complex', A(real_in(-2, 2, 0), real_in(-2, 1), polar(0.3, 20.0, -1.4, 1.4)), **HV),
    ]


# ---- zero finders: independent sign-change / index oracle ---------------------------------------
#
# The m-th zero is located without any zero finder of either library: the reference release's *function* is sampled
# at >= 80 bits on a grid (grid variable t; consecutive zeros are > 2.9 apart in t, the step is 0.7, so a cell holds
# at most one zero and a sign change between two neighbours means exactly one zero).  The m-th sign change gives
# the cell of the requested zero (index check = counting sign changes below it); inside that cell the zero is
# refined by bisection + Newton at 2p+120 bits and then *verified* by a sign change of the function over
# z*(1 +- 2^-(p+24)).  The returned value must lie within 2^(8-p) relative of that verified zero, i.e. the function
# changes sign inside the 2^(8-p) bracket around the returned value (and it is the sign change number m).
# A grid point where |f| is tiny is moved, never guessed.

def _sgn(x):
    return (x > 0) - (x < 0)


_GRID_CACHE = {}


class ZeroOracle(object):
    STEP = 0.7

    def __init__(self, key, f, df, x_of_t, t_start, scale):
        self.key, self.f, self.df, self.x_of_t, self.t_start, self.scale = key, f, df, x_of_t, t_start, scale

    def sign_at(self, rm, x, wp, floor_bits):
        """sign of f(x) from the reference release at wp bits; None when |f| is not far above the evaluation noise"""
        with K.at_prec(rm, wp):
            v = self.f(rm, x)
            if abs(v) <= rm.ldexp(self.scale(rm, x), -floor_bits):
                return None
            return _sgn(v)

    def grid_sign(self, rm, j):
        """(t, sign) of grid point j; tiny values are resampled at a shifted point (still between its neighbours)"""
        for tries in range(7):
            t = self.t_start + self.STEP * (j + 0.09 * tries)
            with K.at_prec(rm, 90):
                x = self.x_of_t(rm, rm.mpf(t))
            s = self.sign_at(rm, x, 90, 30)
            if s is not None:
                return t, s
        return None

    def cell_of_zero(self, rm, m, jmax=200000):
        """grid cell (t_lo, t_hi) that contains sign change number m; (None, reason) if a grid point stays unresolved"""
        st = _GRID_CACHE.get(self.key)
        if st is None:
            if len(_GRID_CACHE) > 400:
                _GRID_CACHE.clear()
            g0 = self.grid_sign(rm, 0)
            if g0 is None:
                return None, 'tiny function value on the grid'
            st = _GRID_CACHE[self.key] = {'pts': [g0], 'changes': []}      # changes: indices j with sign(j) != sign(j+1)
        while len(st['changes']) < m:
            j = len(st['pts'])
            if j > jmax:
                return None, 'grid too long'
            g = self.grid_sign(rm, j)
            if g is None:
                return None, 'tiny function value on the grid'
            st['pts'].append(g)
            if g[1] != st['pts'][j - 1][1]:
                st['changes'].append(j - 1)
        j = st['changes'][m - 1]
        return (st['pts'][j][0], st['pts'][j + 1][0]), len(st['pts'])

    def refine(self, rm, cell, p):
        """verified zero inside the cell: (z, None) with a sign change of f over z(1 +- 2^-(p+24)), or (None, reason)"""
        wp = 2 * p + 120
        with K.at_prec(rm, wp):
            a, b = self.x_of_t(rm, rm.mpf(cell[0])), self.x_of_t(rm, rm.mpf(cell[1]))
            if a > b:
                a, b = b, a
            fa = self.f(rm, a)
            for i in range(12):
                c = (a + b) / 2
                fc = self.f(rm, c)
                if fc == 0:
                    a = b = c
                    break
                if _sgn(fc) == _sgn(fa):
                    a, fa = c, fc
                else:
                    b = c
            z = (a + b) / 2
            for i in range(60):
                d = self.f(rm, z) / self.df(rm, z)
                z = z - d
                if not (a <= z <= b):
                    return None, 'newton left the cell'
                if abs(d) <= rm.ldexp(abs(z), -(p + 40)):
                    break
            else:
                return None, 'newton did not converge'
            eps = rm.ldexp(abs(z), -(p + 24))
            lo, hi = z - eps, z + eps
        s1 = self.sign_at(rm, lo, wp, p + 60)
        s2 = self.sign_at(rm, hi, wp, p + 60)
        if s1 is None or s2 is None or s1 == s2:
            return None, 'no verified sign change around the refined zero'
        return z, None


def _bessel_oracle(kind, v_spec, d):
    name = 'besselj' if kind == 1 else 'bessely'

    def f(rm, x, dd=d):
        return getattr(rm, name)(refmodel.build(rm, v_spec), x, derivative=dd)
    v = float(K.spec_fraction(v_spec))
    if kind == 1 and d == 0:
        start = max(1.0, v)                 # j_{v,1} > v and >= 2.40
    elif kind == 1:
        start = 0.98 * math.sqrt(v * (v + 2)) if v > 0 else 1.0     # j'_{v,1}^2 > v(v+2) (Watson 15.3); v = 0 handled apart
        start = min(start, max(1.0, v))
    else:
        start = max(0.5, v)                 # y_{v,1} > v and >= 0.89;  y'_{v,1} > y_{v,1}
    return ZeroOracle((name, v_spec, d), f, lambda rm, x: f(rm, x, d + 1), lambda rm, t: t, start,
                      lambda rm, x: 1 / rm.sqrt(x) if x > 1 else rm.mpf(1))


def _airy_oracle(which, d):
    name = 'airyai' if which == 0 else 'airybi'

    def f(rm, x, dd=d):
        return getattr(rm, name)(x, derivative=dd) if dd else getattr(rm, name)(x)
    # grid variable t = (2/3)|x|^(3/2); zeros are ~pi apart in t (first gaps: Ai 3.13, Ai' 3.2, Bi 3.1, Bi' 3.1)
    return ZeroOracle((name, d), f, lambda rm, x: f(rm, x, d + 1), lambda rm, t: -(1.5 * t) ** (rm.mpf(2) / 3), 0.0,
                      lambda rm, x: (1 + abs(x)) ** (-0.25 if d == 0 else 0.25))


def zero_check(tree_mp, rec, p, fname, label, prop, call_specs, d, oracle, index, index_offset=0, expect_exact_zero=False):
    """decide one zero-finder call.  call_specs: positional specs; d: derivative keyword"""
    rm = K.rmp()
    case = {'function': fname, 'regime': label, 'args': S._fmt(call_specs), 'derivative': d, 'prec': p}
    ident = (fname, label, S._fmt(call_specs), d, p)
    cls = '%s/%s' % (fname, label)
    key = '%s/%s/%s' % (prop, fname, label)
    try:
        val = refmodel.call(tree_mp, fname, call_specs, p, {'derivative': d} if d else None)
    except S.Timeout:
        raise
    except Exception as e:
        rec.case(ident, True, cls)
        rec.violation(key + '/raises-' + type(e).__name__, '%s raises %s at prec %d for a valid order/index' % (fname, type(e).__name__, p),
                      case, observed=repr(e)[:200], expected='the zero')
        return 'violated'
    if expect_exact_zero:
        rec.case(ident, True, cls)
        if val == 0:
            return 'held'
        rec.violation(key + '/exact-zero', "%s: j'_{0,1} is 0 by the documented convention" % fname, case, str(val), '0')
        return 'violated'
    x = refmodel.to_ref(rm, val)
    m = index - index_offset
    cell, info = oracle.cell_of_zero(rm, m)
    if cell is None:
        rec.case(ident, True, cls)
        rec.undecided('zero-index-grid:' + info, case)
        return 'undecided'
    rec.event('zero oracle: sign changes counted on the grid', m)
    z, why = oracle.refine(rm, cell, p)
    if z is None:
        rec.case(ident, True, cls)
        rec.undecided('zero-refine:' + why, case)
        return 'undecided'
    rec.event('zero oracle: verified sign changes')
    err = K.err_units(rm, x, z, p)
    # which sign change is the returned value closest to?  (classification of a failure: wrong index vs inaccurate)
    suffix = ''
    if err >= 2.0 ** 8:
        with K.at_prec(rm, 90):
            xa, xb = oracle.x_of_t(rm, rm.mpf(cell[0])), oracle.x_of_t(rm, rm.mpf(cell[1]))
            inside = min(xa, xb) <= x <= max(xa, xb)
        suffix = '' if inside else '/wrong-index'
    v = K.decide(rec, prop, fname, label, ident, case, err, 8, val, z, suffix=suffix)
    # third opinion (not deciding): the reference release's own zero finder
    try:
        with K.at_prec(rm, p + 64):
            third = getattr(rm, fname)(*[refmodel.build(rm, s) for s in call_specs], **({'derivative': d} if d else {}))
        e3 = K.err_units(rm, third, z, p)
        rec.event('zero oracle: third opinion (1.3.0 zero finder) %s the oracle zero' % ('agrees with' if e3 < 1 else 'differs from'))
        if e3 >= 1:
            rec.note('zero-third-opinion-differs', {'case': case, 'oracle_zero': str(z)[:40], 'release_value': str(third)[:40]})
    except S.Timeout:
        raise
    except Exception:
        pass
    return v


def make_bessel_zero_cell(fname, kind, label, vgen, mlo, mhi, d, heavy=False):
    def check(tree_mp, rec, r, p, bits, cell):
        prop = cell[0]
        vs = vgen(r, bits)
        m = r.randint(mlo, mhi) if r.random() < 0.7 else r.randint(mlo, max(mlo, min(mhi, 5)))
        return _run(tree_mp, rec, p, prop, vs, m)

    def _run(tree_mp, rec, p, prop, vs, m):
        v = K.spec_fraction(vs)
        if kind == 1 and d == 1 and v == 0:
            if m == 1:
                return zero_check(tree_mp, rec, p, fname, label, prop, [vs, I(m)], d, None, m, expect_exact_zero=True)
            orc = _bessel_oracle(kind, vs, d)
            return zero_check(tree_mp, rec, p, fname, label, prop, [vs, I(m)], d, orc, m, index_offset=1)
        orc = _bessel_oracle(kind, vs, d)
        return zero_check(tree_mp, rec, p, fname, label, prop, [vs, I(m)], d, orc, m)

    def rp(tree_mp, rec, c, cell):
        a = S._unfmt(c['args'])
        return _run(tree_mp, rec, c['prec'], cell[0], a[0], a[1][1])
    cell = Custom(label, check, heavy=heavy, precs=[10, 15, 30, 53, 64, 100] if heavy else [10, 15, 24, 30, 53, 64, 100, 113, 200],
                  tmax=6)
    cell.replay = rp
    return cell


def make_airy_zero_cell(fname, which, label, klo, khi, d, heavy=False):
    def _run(tree_mp, rec, p, prop, k):
        return zero_check(tree_mp, rec, p, fname, label, prop, [I(k)], d, _airy_oracle(which, d), k)

    def check(tree_mp, rec, r, p, bits, cell):
        k = r.randint(klo, khi) if r.random() < 0.7 else r.randint(klo, max(klo, min(khi, 5)))
        return _run(tree_mp, rec, p, cell[0], k)

    def rp(tree_mp, rec, c, cell):
        return _run(tree_mp, rec, c['prec'], cell[0], S._unfmt(c['args'])[0][1])
    cell = Custom(label, check, heavy=heavy, precs=[10, 15, 30, 53, 64, 100] if heavy else [10, 15, 24, 30, 53, 64, 100, 113, 200],
                  tmax=6)
    cell.replay = rp
    return cell


def zero_family(fname, kind):
    vint = integer(0, 12)
    vhalf = lambda r, b: R(canon(0, 2 * r.randint(0, 8) + 1, -1))
    vreal = one_of(real_in(-3, 4, 0), dyadic(1, 60, 3))
    vsmall = real_in(-30, -3, 0)
    return [
        make_bessel_zero_cell(fname, kind, 'int-order/index-1..40', vint, 1, 40, 0),
        make_bessel_zero_cell(fname, kind, 'int-order/index-41..300', integer(0, 5), 41, 300, 0, heavy=True),
        make_bessel_zero_cell(fname, kind, 'half-int-order/index-1..40', vhalf, 1, 40, 0),
        make_bessel_zero_cell(fname, kind, 'real-order/index-1..40', vreal, 1, 40, 0),
        make_bessel_zero_cell(fname, kind, 'tiny-order/index-1..10', vsmall, 1, 10, 0),
        make_bessel_zero_cell(fname, kind, 'large-order/index-1..20', integer(20, 120), 1, 20, 0, heavy=True),
        make_bessel_zero_cell(fname, kind, 'derivative/int-order/index-1..40', vint, 1, 40, 1),
        make_bessel_zero_cell(fname, kind, 'derivative/real-order/index-1..40', vreal, 1, 40, 1),
        make_bessel_zero_cell(fname, kind, 'derivative/order<=1/index-1', one_of(real_in(-20, 0, 0), choice(0, 1)), 1, 1, 1),
        make_bessel_zero_cell(fname, kind, 'derivative/large-order/index-1..20', integer(20, 120), 1, 20, 1, heavy=True),
    ]


def airy_zero_family(fname, which):
    return [
        make_airy_zero_cell(fname, which, 'index-1..40', 1, 40, 0),
        make_airy_zero_cell(fname, which, 'index-41..400', 41, 400, 0, heavy=True),
        make_airy_zero_cell(fname, which, 'derivative/index-1..40', 1, 40, 1),
        make_airy_zero_cell(fname, which, 'derivative/index-41..400', 41, 400, 1, heavy=True),
    ]


TABLE = {
    'besselj': bessel_family('besselj') + [RG('int-order/at-zero-rounded', at_zero('j'), weight=2)],
    'bessely': bessel_family('bessely') + [RG('int-order/at-zero-rounded', at_zero('y'), weight=2, precs=[10, 15, 30, 53, 64, 100], tmax=3)],
    'besseli': bessel_family('besseli') + [
        RG('neg-int-order/tiny', A(integer(-6, -1), tiny), relation=besseli_reflect, precs=[10, 15, 30, 53, 64], tmax=3),
        RG('neg-int-order/real-small', A(integer(-12, -1), small_pos), relation=besseli_reflect, precs=[10, 15, 30, 53, 64, 100], tmax=3),
    ],
    'besselk': [rg for rg in bessel_family('besselk', has_deriv=False)] + [
        RG('real-order/|z|-0.25..1', A(real_order, uniform_bits(0.25, 1.0))),
        RG('real-order/|z|-1..4', A(real_order, uniform_bits(1.0, 4.0))),
        RG('int-order/|z|-0.25..1', A(integer(0, 12), uniform_bits(0.25, 1.0))),
        RG('int-order/|z|-1..4', A(integer(0, 12), uniform_bits(1.0, 4.0))),
        RG('int-order/complex-left-half-plane', A(integer(0, 6), polar(1.0, 40.0, 1.7, 4.5))),
    ],
    'hankel1': hankel_family(1),
    'hankel2': hankel_family(2),
    'airyai': airy_family() + [RG('real/at-zero-rounded', at_zero('ai'), weight=2)],
    'airybi': airy_family() + [RG('real/at-zero-rounded', at_zero('bi'), weight=2)],
    'struveh': struve_family(),
    'struvel': struve_family(),
    'ber': kelvin_family(),
    'bei': kelvin_family(),
    'ker': kelvin_family(True),
    'kei': kelvin_family(True),
    'scorergi': scorer_family(0),
    'scorerhi': scorer_family(1),
    'coulombf': coulomb_family(),
    'coulombg': coulomb_family(),
    'angerj': anger_family(),
    'webere': anger_family(),
    'lommels1': lommel_family(),
    'lommels2': lommel_family(True),
    'besseljzero': zero_family('besseljzero', 1),
    'besselyzero': zero_family('besselyzero', 2),
    'airyaizero': airy_zero_family('airyaizero', 0),
    'airybizero': airy_zero_family('airybizero', 1),
}


# high-precision stratum (2500 / 3000 / 3500 bits) for the cheap functions (integer-order Y/K/I perturbation limits and the
# Airy asymptotic side cost minutes at 10^4 bits and are left out)
TABLE['besselj'] = TABLE['besselj'] + [HP(RG('hp/int-order/real-moderate', A(integer(-5, 12), uniform_bits(0.5, 30.0))))]
for _f in ('besselj', 'bessely', 'besseli', 'besselk'):
    TABLE[_f] = TABLE[_f] + [HP(RG('hp/real-order/real-moderate', A(real_in(-3, 3), uniform_bits(0.5, 12.0))))]
for _f in ('airyai', 'airybi'):
    TABLE[_f] = TABLE[_f] + [HP(RG('hp/real/-10.5..4', A(uniform_bits(-10.5, 4.0))))]
TABLE['struveh'] = TABLE['struveh'] + [HP(RG('hp/real-order/real-moderate', A(real_in(-3, 3), uniform_bits(0.5, 30.0))))]
TABLE['besseljzero'] = TABLE['besseljzero'] + [HP(make_bessel_zero_cell('besseljzero', 1, 'hp/int-order/index-1..10', integer(0, 5), 1, 10, 0), tmax=30)]


def shards(tier, seed):
    # VERIF_BUDGET_SCALE (default 1) scales the per-shard CPU budget; used only to self-validate on a shared, loaded machine
    import os
    scale = float(os.environ.get('VERIF_BUDGET_SCALE', '1') or 1)
    return [{'n': CASES[tier], 'nshards': NSHARDS, 'budget_s': BUDGET[tier] * scale, 'wall_s': WALL[tier]} for _ in range(NSHARDS)]


def run_shard(shard, rec):
    K.run(PROP, TABLE, shard, rec, shard['n'], tmax=6.0 if shard.get('tier') == 'quick' else 20.0)


required = K.required(TABLE)


def replay(case, rec):
    K.replay(PROP, TABLE, case, rec)
