"""C25 -- integer-valued and number-theoretic functions are exact.

Observed: results of factorial, fac2, binomial, rf, ff, fib, bernoulli, eulernum, stirling1, stirling2, bell, bernpoly,
eulerpoly, primepi, mangoldt, cyclotomic (mpf results at random working precisions), bernfrac, the exact=True
variants, and libmp isprime / moebius / list_primes, called on the real code with integer arguments in interleaved
order inside one process (so the factorial / Fibonacci / Bernoulli / Euler-number caches are hit in many states).
Oracle: independent integer algorithms (vf/intalgos.py: math.factorial/comb, fast-doubling Fibonacci, tangent/secant
numbers, zeta + von Staudt-Clausen Bernoulli fractions, Stirling/Bell triangles, exact cyclotomic polynomials, own
sieve, trial division, deterministic 2^64 Miller-Rabin, rigorous ln enclosure) -> exact rational value ->
"equal to it if it fits in p bits, else within 1 ulp", decided in integer arithmetic."""
import math
from fractions import Fraction
from vf import exactq as Q
from vf import gens as G
from vf import intalgos as I

PROP = 'C25'
LEVEL = 'exploration'
RULE = ('per function a fixed (seed independent) list of edge arguments -- negative, zero, small, the cache boundaries (factorial caches 150 and '
        '1000 +-2, Fibonacci cache 250, Euler-number cache 500 +-4, Bernoulli cache bound 3000 +-4 and chains of calls that step by <=10 / >10 '
        'past the cached index at precisions sharing one cache block), strong pseudoprimes to the first k prime bases, the witness-set switch '
        'points 1373653 and 341550071728321, prime powers and their neighbours -- plus seeded random arguments; each call at a working precision '
        'drawn from {53, random 1..700, L-1, L, L+1} with L the bit length of the exact value (just fits / just does not fit); calls of all '
        'functions are shuffled into one sequence per worker. A case is non-trivial unless the argument is in 0..20 and the precision is 53; '
        'distinct = distinct (function, arguments, precision, exact flag)')
ASSUMPTIONS = ['vf/intalgos.py is correct (its independent formulations are cross-checked against each other in every worker: tangent numbers vs '
               'classical recurrence vs zeta/von Staudt-Clausen, secant numbers vs cosh recurrence, sieve vs trial division vs Miller-Rabin, ...)',
               '1 ulp = 2^(floor(log2|exact|) - p + 1), the unit of the binade of the exact value (both p-bit neighbours of the exact value are within 1 ulp); default rounding mode of the context (nearest)',
               'isprime is asserted in both directions below 3.4*10^14 and for primes above; composites above are outside the deterministic claim (noted)',
               'arguments outside the supported range (poles of the gamma quotient, negative orders, n > 10^30 in mangoldt) are not asserted']
LEVEL_TEXT = ('exploration: ~2.7*10^4 (quick) / ~2*10^5 (thorough) calls on the real code over 20 functions, each result compared with an exact value '
              'computed by an independent integer algorithm; isprime additionally exhaustively below 2*10^5 (quick) / 3*10^6 (thorough)')
LEVEL_NOTE = 'trusted base vf/intalgos.py + vf/exactq.py; arguments not generated are not covered'
TECHNIQUE = 'runtime reference-model monitor: independent exact integer oracle on every observed result, caches exercised by interleaved call histories'
SHARD_TIMEOUT = {'quick': 600, 'thorough': 3000}

NSHARDS = 16
NRANDOM = {'quick': 60, 'thorough': 400}           # random argument tuples per function per shard
PRIME_RANGE = {'quick': 200000, 'thorough': 3000000}

DET_BOUND = 340000000000000      # "deterministically below 3.4*10^14"


def shards(tier, seed):
    return [{'n': NRANDOM[tier], 'prime_range': PRIME_RANGE[tier]} for _ in range(NSHARDS)]


def _mp():
    import mpmath
    return mpmath.mp


# ---------------------------------------------------------------------------------------
# "exact if it fits, else within 1 ulp"  (integer arithmetic only)
# ---------------------------------------------------------------------------------------
def floor_log2_ratio(N, D):
    """floor(log2(N/D)) for positive ints"""
    e = N.bit_length() - D.bit_length()
    # 2^e <= N/D ?
    if e >= 0:
        ok = (D << e) <= N
    else:
        ok = D <= (N << (-e))
    return e if ok else e - 1


def decide(got, exact, p):
    """got: raw tuple; exact: Fraction (or int).  -> (ok, fits, err_milli_ulp)"""
    exact = Fraction(exact)
    N, D = exact.numerator, exact.denominator
    if not Q.is_canonical(got):
        return False, None, None
    sign, man, exp, bc = got
    if not man and got != Q.fzero:
        return False, None, None          # inf / nan returned for a finite value
    E = Q.Ex(N, D, 0)
    fits = Q.fits(E, p)
    if N == 0:
        return got == Q.fzero, True, 0 if got == Q.fzero else None
    if fits:
        want = Q.exact_raw(E)
        if got == want:
            return True, True, 0
    # error in ulps of the binade of the exact value (both neighbours of the exact value in the p-bit grid are within 1 such ulp)
    e1 = floor_log2_ratio(abs(N), D)
    e2 = (exp + bc - 1) if man else e1
    if abs(e2 - e1) > 100000:
        # astronomically wrong magnitude: more than 1 ulp away (an exact value that does not fit is not a power of two)
        return False, fits, 10**9
    u = e1 - p + 1                   # ulp = 2^u
    g = -man if sign else man
    # |g 2^exp - N/D| <= 2^u   <=>   |g 2^exp D - N| <= 2^u D ; clear negative powers of two
    k = max(0, -exp, -u)
    lhs = abs((g << (exp + k)) * D - (N << k))
    rhs = D << (u + k)
    milli = min((lhs * 1000) // rhs, 10**12)
    if fits:
        return False, True, milli
    return lhs <= rhs, False, milli


def decide_real(got, lo, hi, W, p):
    """got raw tuple, exact real in [lo, hi]/2^W (positive).  -> True / False / None (undecided), milli-ulp estimate"""
    if not Q.is_canonical(got):
        return False, None
    sign, man, exp, bc = got
    if not man or sign:
        return False, None
    e1 = floor_log2_ratio(lo, 1 << W) if lo > 0 else exp + bc - 1
    if abs(exp + bc - 1 - e1) > 100000:
        return False, 10**9
    u = e1 - p + 1
    k = max(0, -exp, -u)
    g = (man << (exp + k)) << W          # got * 2^(W+k)
    L, H = lo << k, hi << k
    U = 1 << (u + k + W)
    milli = min((abs(g - L) * 1000) // U, 10**12)
    if L - U <= g <= H + U:
        if H - U <= g <= L + U:
            return True, milli
        return None, milli
    return False, milli


# ---------------------------------------------------------------------------------------
# function table: oracle(args) -> Fraction/int (None: not asserted), call(mp, args) -> result
# ---------------------------------------------------------------------------------------
def bucket(n):
    n = int(n)
    if n < 0: return 'neg'
    if n <= 20: return '0-20'
    if n <= 150: return '21-150'
    if n <= 1000: return '151-1000'
    if n <= 3000: return '1001-3000'
    return '>3000'


def _arg(mp, r, n):
    """an integer argument as Python int, or (sometimes) as an exactly equal mpf"""
    if r is not None and r.random() < 0.12 and abs(n) < (1 << 200):
        return mp.make_mpf(Q.canon(1 if n < 0 else 0, abs(n), 0))
    return n


FUNCS = {}


def deffn(name, oracle, call, main=0):
    FUNCS[name] = (oracle, call, main)


deffn('factorial', lambda a: I.factorial(a[0]) if a[0] >= 0 else None, lambda mp, r, a: mp.factorial(_arg(mp, r, a[0])))
deffn('fac2', lambda a: I.fac2(a[0]), lambda mp, r, a: mp.fac2(_arg(mp, r, a[0])))
deffn('binomial', lambda a: I.binomial(a[0], a[1]), lambda mp, r, a: mp.binomial(_arg(mp, r, a[0]), _arg(mp, r, a[1])))
deffn('rf', lambda a: I.rf(a[0], a[1]), lambda mp, r, a: mp.rf(_arg(mp, r, a[0]), _arg(mp, r, a[1])), main=1)
deffn('ff', lambda a: I.ff(a[0], a[1]), lambda mp, r, a: mp.ff(_arg(mp, r, a[0]), _arg(mp, r, a[1])), main=1)
deffn('fib', lambda a: I.fib(a[0]), lambda mp, r, a: mp.fib(_arg(mp, r, a[0])))
deffn('bernoulli', lambda a: I.bernoulli(a[0]) if a[0] >= 0 else None, lambda mp, r, a: mp.bernoulli(a[0]))
deffn('eulernum', lambda a: I.eulernum(a[0]) if a[0] >= 0 else None, lambda mp, r, a: mp.eulernum(a[0]))
deffn('stirling1', lambda a: I.stirling1(a[0], a[1]), lambda mp, r, a: mp.stirling1(a[0], a[1]))
deffn('stirling2', lambda a: I.stirling2(a[0], a[1]), lambda mp, r, a: mp.stirling2(a[0], a[1]))
deffn('bell', lambda a: (I.bell(a[0]) if a[1] == 1 else I.touchard(a[0], a[1])) if a[0] >= 0 else None,
      lambda mp, r, a: mp.bell(a[0]) if (a[1] == 1 and (r is None or r.random() < 0.7)) else mp.bell(a[0], _arg(mp, r, a[1])))
deffn('bernpoly', lambda a: I.bernpoly(a[0], a[1]) if a[0] >= 0 else None, lambda mp, r, a: mp.bernpoly(a[0], _arg(mp, r, a[1])))
deffn('eulerpoly', lambda a: I.eulerpoly(a[0], a[1]) if a[0] >= 0 else None, lambda mp, r, a: mp.eulerpoly(a[0], _arg(mp, r, a[1])))
deffn('primepi', lambda a: _primepi(a[0]), lambda mp, r, a: mp.primepi(a[0]))
deffn('cyclotomic', lambda a: I.cyclotomic(a[0], a[1]) if a[0] >= 0 else None, lambda mp, r, a: mp.cyclotomic(a[0], _arg(mp, r, a[1])))

_PRIMES = None


def _prime_table(limit):
    global _PRIMES
    if _PRIMES is None or _PRIMES[0] < limit:
        pr = I.small_primes(limit)
        _PRIMES = (limit, pr)
    return _PRIMES[1]


def _primepi(x):
    if x < 2:
        return 0
    import bisect
    pr = _prime_table(max(x, 400000))
    return bisect.bisect_right(pr, x)


# ---------------------------------------------------------------------------------------
# argument lists
# ---------------------------------------------------------------------------------------
def edge_args(tier):
    th = tier == 'thorough'
    E = {}
    E['factorial'] = [(n,) for n in list(range(0, 26)) + [52, 100, 147, 148, 149, 150, 151, 152, 170, 171, 172, 300, 998, 999, 1000, 1001, 1002, 1003,
                                                        1500, 2000, 2999, 3000, 3001, 5000, 10000] + ([30000, 100000] if th else [])]
    E['fac2'] = [(n,) for n in list(range(-21, 0, 2)) + list(range(0, 45)) + [99, 100, 149, 150, 151, 299, 300, 301, 998, 999, 1000, 1001, 1002, 1003, 2000, 2001, 5001]]
    E['binomial'] = [(n, k) for n in range(-7, 9) for k in range(-7, 9)] + [(50, 25), (52, 26), (60, 30), (100, 50), (1000, 500), (10**5, 3), (10**20, 5),
                                                                         (10**20, 10**20 - 5), (-10, 3), (1000, 1001), (2000, 1000), (10**6, 2), (149, 70), (150, 75), (151, 3),
                                                                         (1001, 1000), (1000, 1000), (-1, -3), (-100, -150), (-150, -100), (-5, 200), (3000, 7)]
    E['rf'] = [(x, n) for x in range(-7, 9) for n in range(-4, 9)] + [(10, 50), (100, 100), (-100, 50), (-100, 101), (1000, 3), (10**10, 4), (1, 150), (1, 1000), (3, -3), (148, 3), (999, 2)]
    E['ff'] = [(x, n) for x in range(-7, 9) for n in range(-4, 9)] + [(60, 50), (200, 100), (-100, 50), (100, 101), (1000, 3), (10**10, 4), (150, 150), (1000, 1000), (3, -3), (151, 3), (1001, 2)]
    E['fib'] = [(n,) for n in list(range(-25, 101)) + [127, 128, 248, 249, 250, 251, 252, 500, 1000, 1023, 1024, 1025, 4096, 10**4, 10**5, -1000, -1001, 2**20] + ([10**6] if th else [])]
    E['bernoulli'] = [(n,) for n in list(range(0, 42)) + [50, 100, 200, 500, 1000, 2990, 2996, 2998, 3000, 3002, 3004, 3010, 3100] + ([5000, 10**4] if th else [])]
    E['eulernum'] = [(n,) for n in list(range(0, 62)) + [96, 98, 99, 100, 101, 102, 104, 200, 400, 496, 498, 500, 502, 504, 510] + ([600, 1000] if th else [])]
    grid = [(n, k) for n in range(0, 13) for k in range(0, 14)]
    big = [(20, 5), (50, 25), (100, 50), (100, 1), (100, 99), (100, 100), (101, 100), (150, 75), (64, 2), (30, 29)] + ([(200, 100), (300, 7)] if th else [])
    E['stirling1'] = grid + big
    E['stirling2'] = grid + big
    E['bell'] = [(n, 1) for n in list(range(0, 40)) + [50, 75, 100] + ([150, 200] if th else [])] + [(n, x) for n in range(0, 26) for x in (2, 3, -1, 0, 10, -2)]
    zs = list(range(-5, 7)) + [10, 100, -17, 10**6]
    ns = list(range(0, 22)) + [30, 50, 64, 100] + ([150, 200] if th else [])
    E['bernpoly'] = [(n, z) for n in ns for z in zs]
    E['eulerpoly'] = [(n, z) for n in ns for z in zs]
    E['primepi'] = [(x,) for x in list(range(-5, 32)) + [100, 1000, 7918, 7919, 7920, 10**4, 10**5, 99991, 99990, 300000] + ([10**6, 2 * 10**6] if th else [])]
    E['cyclotomic'] = [(n, z) for n in list(range(0, 61)) + [105, 210, 255, 256, 385, 1001, 1155] for z in (-3, -2, -1, 0, 1, 2, 3, 10, 10**10)]
    E['bernfrac'] = [(n,) for n in list(range(0, 62)) + [100, 500, 1000, 2996, 2998, 3000, 3002, 3004, 3100] + ([5000, 10**4] if th else [])]
    return E


def random_args(fn, r, tier):
    th = tier == 'thorough'
    c = r.choice
    if fn == 'factorial':
        return (c([r.randint(0, 200), r.randint(0, 1100), r.randint(140, 160), r.randint(990, 1010), r.randint(0, 4000 if th else 2500)]),)
    if fn == 'fac2':
        return (c([r.randint(-31, 200), r.randint(0, 1100), r.randint(990, 1010), r.randint(0, 3000)]),)
    if fn == 'binomial':
        n = c([r.randint(-60, 60), r.randint(0, 300), r.randint(0, 3000), r.randint(-300, 0), 10**r.randint(3, 25)])
        k = c([r.randint(-60, 60), r.randint(0, max(1, abs(n))) if abs(n) < 5000 else r.randint(0, 8), n - r.randint(0, 6), r.randint(0, 8)])
        return (n, k)
    if fn in ('rf', 'ff'):
        return (c([r.randint(-40, 40), r.randint(-300, 300), 10**r.randint(2, 12), r.randint(0, 1200)]), c([r.randint(-6, 40), r.randint(0, 200), r.randint(0, 6)]))
    if fn == 'fib':
        return (c([r.randint(-400, 400), r.randint(0, 3000), r.randint(240, 260), r.randint(0, 10**5 if th else 20000), (1 << r.randint(5, 15)) + r.randint(-1, 1)]),)
    if fn == 'bernoulli':
        return (c([r.randint(0, 80), 2 * r.randint(0, 300), 2 * r.randint(1490, 1510), 2 * r.randint(0, 1600), r.randint(0, 3200)]),)
    if fn == 'bernfrac':
        return (c([r.randint(0, 80), 2 * r.randint(0, 300), 2 * r.randint(1490, 1510), 2 * r.randint(0, 1600 if th else 800)]),)
    if fn == 'eulernum':
        return (c([r.randint(0, 99), r.randint(0, 99), 2 * r.randint(0, 49), r.randint(0, 120), 2 * r.randint(0, 130), 2 * r.randint(240, 260), 2 * r.randint(0, 400 if th else 270)]),)
    if fn in ('stirling1', 'stirling2'):
        n = c([r.randint(0, 30), r.randint(0, 120), r.randint(0, 220 if th else 140)])
        return (n, c([r.randint(0, n + 2), r.randint(0, 5), max(0, n - r.randint(0, 5))]))
    if fn == 'bell':
        if r.random() < 0.6:
            return (c([r.randint(0, 60), r.randint(0, 160 if th else 110)]), 1)
        return (r.randint(0, 40), c([2, 3, 5, -1, -2, -3, 7, 10, 100, 0]))
    if fn in ('bernpoly', 'eulerpoly'):
        return (c([r.randint(0, 30), r.randint(0, 120 if th else 70)]), c([r.randint(-12, 12), r.randint(-1000, 1000), 10**r.randint(3, 9), 0, 1, 2, 3]))
    if fn == 'primepi':
        return (c([r.randint(-10, 1000), r.randint(0, 10**5), r.randint(0, 10**6 if th else 300000)]),)
    if fn == 'cyclotomic':
        return (c([r.randint(0, 120), r.randint(0, 600 if th else 300), c([2, 3, 5, 7]) ** r.randint(1, 5), c([6, 30, 210, 15, 105]) * r.randint(1, 5)]),
                c([-1, 1, 0, 2, -2, r.randint(-20, 20), r.randint(-10**6, 10**6), 10**r.randint(6, 20)]))
    raise ValueError(fn)


def pick_prec(r, exact):
    x = r.random()
    if x < 0.3:
        return 53
    if x < 0.6 and exact is not None and exact != 0:
        e = Fraction(exact)
        n = abs(e.numerator)
        n >>= ((n & -n).bit_length() - 1)
        L = n.bit_length()
        if e.denominator & (e.denominator - 1):
            L = r.choice([24, 53, 113])
        return max(1, L + r.choice([-1, 0, 0, 1, 2, -2, 10]))
    return G.pick_prec(r, big=False)


# ---------------------------------------------------------------------------------------
# one case
# ---------------------------------------------------------------------------------------
def _needs_more_than(v, bits):
    v = abs(int(v))
    if not v:
        return False
    v >>= ((v & -v).bit_length() - 1)
    return v.bit_length() > bits


def argument_sum_rounded(fn, args, p):
    """a-priori predicate for one mechanism: binomial / rf / ff form n+1, k+1, n+1-k / x+n / x+1, x-n, x-n+1 with
    fadd(..., prec=2*prec); if such a sum does not fit in 2p bits the gamma quotient is taken at a different integer"""
    if fn == 'binomial':
        n, k = args
        mids = (n + 1, k + 1, n + 1 - k)
    elif fn == 'rf':
        x, n = args
        mids = (x + n,)
    elif fn == 'ff':
        x, n = args
        mids = (x + 1, x - n, x - n + 1)
    elif fn == 'fac2':
        # fac2 evaluates x/2 and x/2 + 1 at the working precision p + 10 of the wrapper: 2^(x/2) and gamma(x/2+1) are taken at rounded arguments
        x = args[0]
        return _needs_more_than(x, p + 10) or _needs_more_than(x + 2, p + 10)
    else:
        return False
    return any(_needs_more_than(m, 2 * p) for m in mids)


def run_mpf_case(mp, rec, r, fn, args, p, exact_flag=False):
    oracle, call, main = FUNCS[fn]
    try:
        exact = oracle(args)
    except (ValueError, OverflowError, MemoryError):
        exact = None
    case = {'fn': fn, 'args': list(args), 'prec': p, 'exact': exact_flag}
    if exact is None:
        rec.cls('outside-supported-range/' + fn)
        return
    cell = bucket(args[main])
    nontrivial = not (0 <= args[main] <= 20 and p == 53)
    key = 'C25/%s/%s/' % (fn, cell)
    old = mp.prec
    mp.prec = p
    try:
        try:
            if exact_flag:
                got = getattr(mp, fn)(*args, exact=True)
            else:
                got = call(mp, r, args)
        except Exception as e:
            rec.case((fn, args, p, exact_flag), nontrivial, cls='%s/%s/raises' % (fn, cell))
            rec.violation(key + 'raises-' + type(e).__name__, '%s%r raises %s: %s' % (fn, tuple(args), type(e).__name__, str(e)[:120]), case,
                          observed=repr(e)[:200], expected=str(exact)[:200])
            return
    finally:
        mp.prec = old
    if exact_flag or (fn == 'primepi' and isinstance(got, int)):
        rec.case((fn, args, p, exact_flag), nontrivial, cls='%s/%s/exact-int' % (fn, cell))
        ok = type(got) is int and Fraction(exact).denominator == 1 and got == int(exact)
        if not ok:
            rec.violation(key + 'exact-int', '%s%r%s returns %r, exact integer is %s' % (fn, tuple(args), ' (exact=True)' if exact_flag else '', got, str(exact)[:80]),
                          case, observed=repr(got)[:300], expected=str(exact)[:300])
        return
    if not hasattr(got, '_mpf_'):
        rec.case((fn, args, p, exact_flag), nontrivial, cls='%s/%s/not-real' % (fn, cell))
        rec.violation(key + 'not-real', '%s%r returns a %s instead of a real number' % (fn, tuple(args), type(got).__name__), case,
                      observed=repr(got)[:200], expected=str(exact)[:200])
        return
    ok, fits, milli = decide(got._mpf_, exact, p)
    rec.case((fn, args, p, exact_flag), nontrivial, cls='%s/%s/%s' % (fn, cell, 'fits' if fits else 'rounded'))
    rec.sample(case)
    if milli is not None:
        rec.maximum('%s: max error (ulp/1000)' % fn, int(milli), case)
    if not ok:
        sev = None if milli is None else int(milli)
        if argument_sum_rounded(fn, args, p):
            rec.violation('C25/%s/%s' % (fn, 'argument-half-exceeds-working-precision' if fn == 'fac2' else 'argument-sum-exceeds-2p-bits'),
                          '%s%r at %d bits: an integer argument expression (n+1, n-k+1, x+n, x/2+1 ...) does not fit in the bits it is formed with and is rounded before gamma is taken' % (fn, tuple(args), p),
                          case, observed=got._mpf_, expected=str(exact)[:300])
            return
        rec.violation(key + ('fits' if fits else 'rounded'),
                      '%s%r at %d bits: %s' % (fn, tuple(args), p, 'exact value fits but was not returned' if fits else 'error above 1 ulp (%s/1000 ulp)' % milli),
                      case, observed=got._mpf_, expected=str(exact)[:300], severity=sev)


def run_bernfrac(mp, rec, n):
    case = {'fn': 'bernfrac', 'args': [n], 'prec': mp.prec}
    exact = I.bernoulli(n)
    rec.case(('bernfrac', n), n > 20, cls='bernfrac/%s/fraction' % bucket(n))
    try:
        got = mp.bernfrac(n)
        ok = (isinstance(got, tuple) and len(got) == 2 and all(isinstance(v, int) for v in got) and got[1] > 0
              and math.gcd(got[0], got[1]) == 1 and Fraction(got[0], got[1]) == exact and (got[0], got[1]) == (exact.numerator, exact.denominator))
    except Exception as e:
        got, ok = repr(e), False
    if not ok:
        rec.violation('C25/bernfrac/%s/fraction' % bucket(n), 'bernfrac(%d) is not the exact reduced fraction' % n, case,
                      observed=repr(got)[:300], expected=str(exact)[:300])


def run_mangoldt(mp, rec, n, p):
    case = {'fn': 'mangoldt', 'args': [n], 'prec': p}
    base = I.prime_power_base(n) if n >= 2 else None
    if n > 10**30:
        rec.cls('outside-supported-range/mangoldt')
        return
    cell = 'prime-power' if base and base != n else ('prime' if base else 'not-prime-power')
    old = mp.prec
    mp.prec = p
    try:
        try:
            got = mp.mangoldt(n)
        except Exception as e:
            rec.case(('mangoldt', n, p), True, cls='mangoldt/%s/raises' % cell)
            rec.violation('C25/mangoldt/%s/raises-%s' % (cell, type(e).__name__), 'mangoldt(%d) raises %s' % (n, type(e).__name__), case, observed=repr(e)[:200],
                          expected='log(%s)' % base if base else '0')
            return
    finally:
        mp.prec = old
    rec.case(('mangoldt', n, p), n > 20, cls='mangoldt/%s' % cell)
    raw = got._mpf_
    if base is None:
        if raw != Q.fzero:
            rec.violation('C25/mangoldt/%s/nonzero' % cell, 'mangoldt(%d) is nonzero although %d is not a prime power' % (n, n), case, observed=raw, expected='0')
        return
    W = p + 64
    lo, hi = I.ln_bounds(base, W)
    ok, milli = decide_real(raw, lo, hi, W, p)
    if milli is not None:
        rec.maximum('mangoldt: max error (ulp/1000)', int(milli), case)
    if ok is None:
        rec.undecided('mangoldt: enclosure of ln too wide', case)
    elif not ok:
        rec.violation('C25/mangoldt/%s/value' % cell, 'mangoldt(%d) is not within 1 ulp of ln(%d)' % (n, base), case, observed=raw,
                      expected='ln(%d) in [%d, %d]/2^%d' % (base, lo, hi, W), severity=None if milli is None else int(milli))


# known strong pseudoprimes (every entry is re-verified with the harness' own arithmetic before it is used)
PSI = [2047, 1373653, 25326001, 3215031751, 2152302898747, 3474749660383, 341550071728321]
SPSP2 = [2047, 3277, 4033, 4681, 8321, 15841, 29341, 42799, 49141, 52633, 65281, 74665, 80581, 85489, 88357, 90751, 104653, 130561, 196093, 220729, 233017,
         252601, 253241, 256999, 271951, 280601, 314821, 357761, 390937, 458989, 476971, 486737]
SPSP23 = [1373653, 1530787, 1987021, 2284453, 3116107, 5173601, 6787327, 11541307, 13694761, 15978007, 16070429, 16879501, 25326001, 27509653, 27664033, 28527049,
          54029741, 61832377, 66096253, 74927161, 80375707, 95452781]
SPSP235 = [25326001, 161304001, 960946321, 1157839381, 3215031751, 3697278427, 5764643587, 6770862367, 14386156093, 15579919981, 18459366157, 19887974881, 21276028621]
CARMICHAEL = [561, 1105, 1729, 2465, 2821, 6601, 8911, 10585, 15841, 29341, 41041, 46657, 52633, 62745, 63973, 75361, 101101, 115921, 126217, 162401, 172081,
              188461, 252601, 278545, 294409, 314821, 334153, 340561, 399001, 410041, 449065, 488881, 512461, 9999109081, 999838193331601, 9746347772161]
BIG_PRIMES = [2**61 - 1, 2**89 - 1, 2**107 - 1, 2**127 - 1, 10**18 + 9, 10**15 + 37, 341550071728361]


def run_isprime(libmp, mp, rec, n, tag):
    try:
        got = libmp.isprime(n) if (n & 7) else mp.isprime(n)
    except Exception as e:
        got = repr(e)
    if n >= (1 << 64):
        exp = I.is_prime(n)
        if not exp:
            rec.note('isprime on composites above the deterministic range', {'n': n, 'returned': repr(got)}, cap=5)
            return
    else:
        exp = I.is_prime(n)
    cell = 'below-50' if n < 50 else ('below-1373653' if n < 1373653 else ('below-341550071728321' if n < 341550071728321 else 'above'))
    rec.case(('isprime', n), tag != 'range' or n > 1000, cls='isprime/%s/%s/%s' % (cell, tag, exp))
    if got is not exp and got != exp:
        if n >= DET_BOUND and not exp:
            rec.note('isprime on composites above the deterministic range', {'n': n, 'returned': repr(got)}, cap=5)
            return
        rec.violation('C25/isprime/%s/%s' % (cell, 'composite-accepted' if not exp else 'prime-rejected'),
                      'isprime(%d) returns %r, the number is %s' % (n, got, 'prime' if exp else 'composite'), {'fn': 'isprime', 'args': [n], 'prec': 53},
                      observed=repr(got), expected=repr(exp))


def run_int_primitive(libmp, rec, name, n):
    """libmp.ifac / ifac2 / ifib called directly (the cached integer primitives named in the property's anchors): exact ints"""
    exp = {'ifac': I.factorial, 'ifac2': lambda k: int(I.fac2(k)), 'ifib': I.fib}[name](n)
    rec.case(('libmp.' + name, n), n > 20, cls='libmp.%s/%s/exact-int' % (name, bucket(n)))
    try:
        import mpmath.libmp.libintmath as lim
        got = getattr(lim, name)(n)
    except Exception as e:
        got = repr(e)
    if isinstance(got, bool) or not isinstance(got, int) or got != exp:
        rec.violation('C25/libmp.%s/%s/exact-int' % (name, bucket(n)), 'libmp.%s(%d) is not the exact integer' % (name, n),
                      {'fn': 'libmp.' + name, 'args': [n], 'prec': 53}, observed=repr(got)[:200], expected=str(exp)[:200])


def run_moebius(libmp, rec, n):
    exp = I.moebius(n)
    rec.case(('moebius', n), abs(n) > 30, cls='moebius/%s' % exp)
    try:
        got = libmp.moebius(n)
    except Exception as e:
        got = repr(e)
    if got != exp or isinstance(got, bool):
        rec.violation('C25/moebius/%s' % ('squarefree' if exp else 'square-factor'), 'moebius(%d) returns %r, exact value %d' % (n, got, exp),
                      {'fn': 'moebius', 'args': [n], 'prec': 53}, observed=repr(got), expected=exp)


def run_list_primes(libmp, rec, n):
    if n < 0:
        try:
            res = repr(libmp.list_primes(n))
        except Exception as e:
            res = type(e).__name__
        rec.note('list_primes of a negative bound (outside the supported range)', {'n': n, 'result': res}, cap=4)
        return
    exp = I.small_primes(n)
    rec.case(('list_primes', n), n > 30, cls='list_primes/%s' % bucket(n))
    try:
        got = libmp.list_primes(n)
    except Exception as e:
        got = repr(e)
    if got != exp:
        rec.violation('C25/list_primes/%s' % bucket(n), 'list_primes(%d) differs from the sieve of the harness' % n, {'fn': 'list_primes', 'args': [n], 'prec': 53},
                      observed=repr(got)[-200:], expected=repr(exp)[-200:])


# ---------------------------------------------------------------------------------------
def harness_selfcheck(rec, shard, tier):
    I.selftest()
    n = 0
    # Bernoulli: tangent numbers == zeta route, around the sizes used
    for k in list(range(100, 840, 37)) + [838, 840]:
        if k % 2 == 0:
            assert I.bernoulli_tangent(k) == I.bernoulli_zeta(k), k
            n += 1
    if tier == 'thorough' and shard == 1:
        for k in (2996, 2998, 3000, 3002, 3004):
            assert I.bernoulli_tangent(k) == I.bernoulli_zeta(k), k
            n += 1
    # pseudoprime tables: an entry is used only if the harness' own arithmetic confirms it is composite and a strong
    # pseudoprime to the stated bases (mistyped entries are dropped and reported)
    firstp = (2, 3, 5, 7, 11, 13, 17)
    dropped = []

    def keep(lst, basesof):
        out = []
        for i, m in enumerate(lst):
            if not I.is_prime(m) and m % 2 and all(I.strong_pseudoprime(m, a) for a in basesof(i)):
                out.append(m)
            else:
                dropped.append(m)
        return out
    SPSP2[:] = keep(SPSP2, lambda i: (2,))
    SPSP23[:] = keep(SPSP23, lambda i: (2, 3))
    SPSP235[:] = keep(SPSP235, lambda i: (2, 3, 5))
    PSI[:] = keep(PSI, lambda i: firstp[:i + 1])
    CARMICHAEL[:] = [m for m in CARMICHAEL if not I.is_prime(m) and all(pow(a, m - 1, m) == 1 for a in (2, 3, 5, 7, 11, 13) if math.gcd(a, m) == 1)]
    BIG_PRIMES[:] = [m for m in BIG_PRIMES if I.is_prime(m)]
    n += len(SPSP2) + len(SPSP23) + len(SPSP235) + len(PSI)
    if dropped:
        rec.note('pseudoprime table entries dropped by verification', dropped)
    assert len(PSI) >= 6 and len(SPSP2) > 10 and len(SPSP23) > 5
    rec.event('harness: oracle cross-checks passed', n)


def bernoulli_chains(r, tier):
    """call histories for the Bernoulli cache: at precisions sharing one cache block, indices stepping past the cached index by
    <= 10 (recurrence continues) and > 10 (jump to the zeta algorithm), with re-reads of cached entries"""
    out = []
    for _ in range(3 if tier == 'quick' else 12):
        block = r.choice([32, 64, 96, 128, 192, 256, 320, 480, 992])       # precisions block+1 .. block+32 share wp
        limit = r.choice([60, 120, 200] if tier == 'quick' else [60, 200, 400, 700])
        n = r.choice([0, 2, 4, 6, 10])
        while n <= limit:
            p = block + r.randint(1, 32)
            out.append((n, p))
            if r.random() < 0.25 and n > 4:
                out.append((r.randrange(0, n, 2), block + r.randint(1, 32)))      # cached entry, other precision of the block
            n += r.choice([2, 2, 2, 4, 6, 8, 10, 10, 12, 14, 40])
    return out


def run_shard(shard, rec):
    mp = _mp()
    import mpmath.libmp as libmp
    tier = shard['tier']
    r = G.rng(PROP, shard['seed'], shard['shard'])
    harness_selfcheck(rec, shard['shard'], tier)
    from vf.instrument import AnchorCount
    anchors = ['mpmath.libmp.libintmath:ifac', 'mpmath.libmp.libintmath:ifac2', 'mpmath.libmp.libintmath:ifib', 'mpmath.libmp.libintmath:eulernum',
               'mpmath.libmp.libintmath:stirling1', 'mpmath.libmp.libintmath:stirling2', 'mpmath.libmp.libintmath:isprime',
               'mpmath.libmp.libintmath:moebius', 'mpmath.libmp.libintmath:list_primes', 'mpmath.libmp.gammazeta:mpf_bernoulli',
               'mpmath.libmp.gammazeta:mpf_bernoulli_huge', 'mpmath.libmp.gammazeta:bernfrac', 'mpmath.libmp.gammazeta:mpf_gamma',
               'mpmath.libmp.gammazeta:mpf_bernoulli@while m <= n', 'mpmath.libmp.gammazeta:mpf_bernoulli@n - m > 10',
               'mpmath.libmp.gammazeta:mpf_bernoulli@p, q = bernfrac',
               'mpmath.functions.functions:mangoldt', 'mpmath.functions.functions:cyclotomic']
    with AnchorCount(rec, anchors):
        # ---- build the shuffled work list ------------------------------------------------------------------
        work = []
        E = edge_args(tier)
        for fn, lst in E.items():
            for i, a in enumerate(lst):
                if i % NSHARDS == shard['shard'] % NSHARDS or (tier == 'thorough' and (i + 5) % NSHARDS == shard['shard']):
                    work.append((fn, a))
        for fn in list(FUNCS) + ['bernfrac']:
            weight = {'bernfrac': 0.17, 'primepi': 0.17, 'eulernum': 0.4, 'eulerpoly': 0.6, 'bernpoly': 0.8}.get(fn, 1.0)
            for _ in range(max(5, int(shard['n'] * weight))):
                work.append((fn, random_args(fn, r, tier)))
        for n, p in bernoulli_chains(r, tier):
            work.append(('bernoulli-chain', (n, p)))
        # precisions above the cut-off (bernoulli_size(3000) ~ 22.4k bits) where mpf_bernoulli goes through the exact fraction
        for j, (n, p) in enumerate([(2, 22500), (10, 23000), (50, 22400), (100, 24000), (200, 25000), (12, 30000), (30, 22390), (64, 22700)]):
            if j % NSHARDS == shard['shard'] % 8:
                work.append(('bernoulli-chain', (n, p)))
        # mangoldt arguments
        mg = list(range(-2, 130))[shard['shard']::NSHARDS]
        for _ in range(shard['n']):
            k = r.random()
            if k < 0.35:
                b = r.choice([2, 3, 5, 7, 11, 13, 29, 31, 37, 41, 97, 101, 65537, 1000003, 999999999989, 999999999999989])
                e = r.randint(1, 12)
                v = b ** e
                if v > 10**30:
                    v = b ** max(1, int(30 / math.log10(b)))
                mg.append(v + r.choice([0, 0, 0, 2, -2, 1, -1]))
            elif k < 0.5:
                pr = _prime_table(400000)
                mg.append(r.choice(pr) * r.choice(pr))
            elif k < 0.6:
                pr = _prime_table(400000)
                mg.append(r.choice(pr) ** r.choice([2, 3, 4, 5]))
            else:
                mg.append(r.choice([r.randint(2, 10**4), r.randint(2, 10**9), r.randint(2, 10**15), r.randint(10**29, 10**30)]))
        for v in mg:
            work.append(('mangoldt', (v,)))
        for name, lst in (('ifac', [0, 1, 2, 5, 20, 999, 1000, 1001, 1002, 1500]), ('ifac2', [0, 1, 2, 7, 8, 999, 1000, 1001, 1002, 1003, 1501]),
                          ('ifib', [0, 1, 2, -1, -2, -7, 10, 248, 249, 250, 251, 300, 1000])):
            for v in lst:
                work.append(('libmp.' + name, (v,)))
            for _ in range(max(3, shard['n'] // 6)):
                work.append(('libmp.' + name, (r.choice([r.randint(0, 30), r.randint(0, 300), r.randint(990, 1010), r.randint(0, 2500)]),)))
        # seed-independent (function, arguments, precision) cases: the witnesses of the recorded findings and the docstring's
        # large-argument examples, so that a known mechanism is met (or, once fixed, re-checked) on every seed alike
        if shard['shard'] == 0:
            for fn_, a_, p_ in [('binomial', (10**40, 3), 53), ('binomial', (2**106 + 1, 1), 53), ('binomial', (1000, 1000), 2), ('rf', (10**33 + 1, 2), 53),
                                ('rf', (5, 0), 1), ('ff', (10**33 + 1, 2), 53), ('ff', (268, 2), 3), ('fac2', (2151,), 1), ('fac2', (65537,), 5), ('fac2', (65539,), 5),
                                ('binomial', (10**20, 10**20 - 5), 53), ('binomial', (10**20, 5), 53), ('factorial', (10**4,), 53), ('fib', (10**4,), 53)]:
                work.append(('fixed-prec', (fn_, a_, p_)))
        r.shuffle(work)
        # histories: on odd shards warm the caches from the top first, on even shards the sequence starts cold
        if shard['shard'] % 2:
            work[:0] = [('eulernum', (520,)), ('factorial', (1500,)), ('fac2', (1501,)), ('fib', (400,)), ('bernoulli', (60,))]
        # ---- run -----------------------------------------------------------------------------------------------
        for fn, a in work:
            if fn == 'bernfrac':
                run_bernfrac(mp, rec, a[0])
            elif fn == 'mangoldt':
                run_mangoldt(mp, rec, a[0], r.choice([53, 53, G.pick_prec(r, big=False)]))
            elif fn.startswith('libmp.'):
                run_int_primitive(libmp, rec, fn[6:], a[0])
            elif fn == 'fixed-prec':
                run_mpf_case(mp, rec, None, a[0], a[1], a[2])
            elif fn == 'bernoulli-chain':
                rec.event('bernoulli cache-chain calls')
                run_mpf_case(mp, rec, None, 'bernoulli', (a[0],), a[1])
            else:
                try:
                    ex = FUNCS[fn][0](a)
                except Exception:
                    ex = None
                p = pick_prec(r, ex)
                run_mpf_case(mp, rec, r, fn, a, p)
                if fn in ('stirling1', 'stirling2', 'eulernum') and r.random() < 0.5:
                    run_mpf_case(mp, rec, r, fn, a, p, exact_flag=True)
        # ---- primes -----------------------------------------------------------------------------------------------
        N = shard['prime_range']
        lo = N * shard['shard'] // NSHARDS
        hi = N * (shard['shard'] + 1) // NSHARDS
        pr = set(I.small_primes(hi))
        bad = 0
        for n in range(lo, hi):
            got = libmp.isprime(n)
            exp = n in pr
            if got is not exp and got != exp:
                bad += 1
                run_isprime(libmp, mp, rec, n, 'range')
        rec.event('isprime: exhaustive range checked against the sieve (numbers)', hi - lo)
        rec.case(('isprime-range', lo, hi), True, cls='isprime/exhaustive-range-block')
        special = []
        if shard['shard'] == 0:
            special += [(m, 'spsp') for m in PSI + SPSP2 + SPSP23 + SPSP235] + [(m, 'carmichael') for m in CARMICHAEL] + [(m, 'big-prime') for m in BIG_PRIMES]
            special += [(m, 'negative-or-tiny') for m in range(-60, 60)]
        for c in (1373653, 341550071728321, DET_BOUND, 2**32, 2**53):
            for _ in range(6):
                special.append((c + r.randint(-3000, 3000), 'switch-point'))
        ptab = _prime_table(400000)
        for _ in range(shard['n'] * 3):
            k = r.random()
            if k < 0.3:
                special.append((r.choice(ptab) * r.choice(ptab), 'semiprime'))
            elif k < 0.4:
                special.append((r.choice(ptab) ** 2, 'prime-square'))
            elif k < 0.7:
                special.append((r.randrange(3, DET_BOUND, 2), 'random-odd'))
            elif k < 0.8:
                special.append((r.randrange(10**6, 10**9) | 1, 'random-odd'))
            else:
                # products of three primes p (2p-1) (3p-2)-like shapes (Carmichael/Chernick style candidates)
                q = r.randrange(1, 6000)
                special.append(((6 * q + 1) * (12 * q + 1) * (18 * q + 1), 'chernick-shape'))
        for n, tag in special:
            if tag == 'spsp':
                rec.event('isprime strong-pseudoprime cases')
            run_isprime(libmp, mp, rec, n, tag)
        # moebius / list_primes
        for n in range(-40 + shard['shard'], 3000, NSHARDS):
            run_moebius(libmp, rec, n)
        for _ in range(max(4, shard['n'] // 10)):
            run_moebius(libmp, rec, r.choice([r.randint(3000, 60000), r.choice(ptab[:3000]) * r.choice(ptab[:40]), r.choice(ptab[:300]) ** 2 * r.randint(1, 7)]))
        for n in list(range(-3 + shard['shard'], 260, NSHARDS)) + [r.randint(0, 10**4), r.choice(ptab[:200]) ** 2 + r.choice([-1, 0, 1]), r.randint(0, 10**5 if tier == 'quick' else 10**6)]:
            run_list_primes(libmp, rec, n)
    rec.event('results compared with exact values', rec.evals)


def required(agg, tier):
    miss = []
    cl = agg['classes']
    for fn in list(FUNCS):
        if fn == 'primepi':
            if not any(k.startswith('primepi/') for k in cl):
                miss.append('primepi never observed')
            continue
        for kind in ('fits', 'rounded'):
            if not any(k.startswith(fn + '/') and k.endswith('/' + kind) for k in cl):
                miss.append('%s: no case where the exact value %s' % (fn, 'fits' if kind == 'fits' else 'had to be rounded'))
    for fn in ('stirling1', 'stirling2', 'eulernum'):
        if not any(k.startswith(fn + '/') and k.endswith('/exact-int') for k in cl):
            miss.append('%s(exact=True) never observed' % fn)
    for need in ('factorial/151-1000', 'factorial/1001-3000', 'fac2/1001-3000', 'fib/151-1000', 'bernoulli/1001-3000', 'bernoulli/>3000', 'eulernum/151-1000',
                 'bernfrac/1001-3000', 'bernfrac/>3000', 'mangoldt/prime-power', 'mangoldt/prime', 'mangoldt/not-prime-power', 'moebius/0', 'moebius/1', 'moebius/-1',
                 'list_primes/', 'isprime/below-1373653', 'isprime/below-341550071728321', 'isprime/above'):
        if not any(k.startswith(need) for k in cl):
            miss.append('class %s never observed' % need)
    ev = agg['events']
    if not ev.get('isprime strong-pseudoprime cases'):
        miss.append('no strong-pseudoprime case')
    if not ev.get('bernoulli cache-chain calls'):
        miss.append('no Bernoulli cache-chain history')
    an = agg['anchors']
    for a in ('mpmath.libmp.gammazeta:mpf_bernoulli@while m <= n', 'mpmath.libmp.gammazeta:mpf_bernoulli_huge', 'mpmath.libmp.libintmath:ifac',
              'mpmath.libmp.libintmath:eulernum', 'mpmath.libmp.libintmath:isprime'):
        if a in an and not an[a]:
            miss.append('anchor %s never reached' % a)
    return miss


def replay(case, rec):
    mp = _mp()
    import mpmath.libmp as libmp
    from vf.core import unjson_int
    c = case['case']
    fn = c['fn']
    args = tuple(unjson_int(a) for a in c['args'])
    p = int(c.get('prec', 53))
    if fn == 'bernfrac':
        run_bernfrac(mp, rec, args[0])
    elif fn == 'mangoldt':
        run_mangoldt(mp, rec, args[0], p)
    elif fn == 'isprime':
        run_isprime(libmp, mp, rec, args[0], 'replay')
    elif fn == 'moebius':
        run_moebius(libmp, rec, args[0])
    elif fn == 'list_primes':
        run_list_primes(libmp, rec, args[0])
    elif fn.startswith('libmp.'):
        run_int_primitive(libmp, rec, fn[6:], args[0])
    else:
        run_mpf_case(mp, rec, None, fn, args, p, exact_flag=bool(c.get('exact')))
