"""C20 -- error functions, exponential integrals, incomplete gamma/beta: relative error (in modulus) below 2^(8-p)
in their domains, including the exponentially small tails of erfc and e1.

Observed: value returned by the public function at precision p for exactly built dyadic arguments.
Oracle: three-source consensus (vf.specfun_j.consensus3).
Regimes are aimed at the switch conditions named in the source (libmp/libhyper.py, functions/expintegrals.py):
  mpf_erf: |x| < 2^-prec (linear), |x| >= 8 and 2(size-1) + 0.53 > log2(prec) (+-1), Taylor otherwise;
  mpf_erfc: x < 2 -> 1 - erf, asymptotic series when floor(x)^2 * 1.44 > wp, otherwise 1 - erf at raised precision;
  complex erfc: Re z > 2 hyperu;  mpf_ei/mpc_ei: asymptotic when |x| > 0.693 wp + 10 (complex: + 20) or |x| > 2^wp;
  mpf_expint: x < 2^-10 -> generic, n = 0, 2 nmag - xmag < -wp, asymptotic size estimate, n = 1 -> ei, recurrence n < 3 wp;
  mpf_ci_si: |x| < 2^-wp, |x| > 2^wp, asymptotic when mag - 1 > log2(wp); complex ci/si: Taylor when |z| < 4 else ei;
  shi/chi: |z| < 1/4 series;  gammainc: lower / upper (integer z -> mpf_expint) / generalized / regularized;
  betainc: x1 = 0 & x2 = 1 -> beta, x1 = 0 -> single 2F1, general difference, a near a non-positive integer."""
import math
from vf import specfun as S
from vf import specfun_j as J
from vf.specfun import args, real_in, complex_in, near, integer, half_integer, choice
from vf.specfun_j import (capped, Cell, cell, real_p, around, near_c, near_p, near_any, cplx, polar, uniform, ints, const,
                          args_p, dy, fl)
from vf.catalog import R, C, I, raw_rand, canon

PROP = 'C20'
LEVEL = 'exploration'
NEEDS_REF = True
RULE = ('stratified cells (function x argument regime fixed a priori, aimed at the algorithm switch points of the source) x '
        'precision list 10..1000 (quick: <= 400; hypergeometric-based functions <= 333); concrete arguments from the seeded '
        'rng; non-trivial = a finite reference value exists on which two sources agree and the result was compared; '
        'distinct = (function, regime, args, prec)')
ASSUMPTIONS = ['consensus reference: two of {mpmath 1.3.0 at p+64 and 2p+200 bits, the tree at 3p+300 bits, a defining '
               'relation in the reference library (adjudicated cells only)} agree to 2^-(p+32)',
               'arguments are injected exactly (raw mantissa/exponent) in the tree and in the reference library']
LEVEL_TEXT = ('exploration: every (function, regime) cell of the table is evaluated a fixed number of times per tier; each '
              'result is compared with a consensus reference')
LEVEL_NOTE = ('trusted base: release mpmath 1.3.0 + the tree at 3p+300 bits agreeing to 2^-(p+32); a defect that is identical '
              'in both and at every precision is not seen unless the cell has a defining-relation oracle; inputs outside the '
              'listed cells are not covered')
TECHNIQUE = 'runtime reference-model monitor: consensus accuracy oracle on every observed special-function value'
SHARD_TIMEOUT = {'quick': 1800, 'thorough': 21600}     # wall watchdog only; the shards stop on their own CPU budget
NSHARDS = 16

# value = n / 2^256
Z = {
    'ei_zero': 0x5f5ca54ad2d7f0f264c3010e37935c5a1aca53b6d77e54a159407fa27441f131,
    'li_zero': 0x1738cef263ea24c858ced62ee9de7ff96b79aca2bf4f30df7b51a0748473f0979,
    'ci_zero1': 0x9dd34db28baac4f768223fbde039e79c4ecfabf122c311a00cfd59fef6516e25,
    'ci_zero2': 0x36259a5ee9eed2e35edeb18d8b4098116e8b3e51d7dc647478954bb9015dc60a2,
    'chi_zero': 0x86193c6d06ae0613fff4f5abf13e1f2d3a97e30da81e825d8d7ae2b79f781c47,
}
ZERO = (0, 0, 0, 0)


def imag_axis(lo, hi):
    return lambda r, b: C(ZERO, raw_rand(r, b, lo, hi))


def ei_switch(p, extra=10, wpx=20):
    return 0.693 * (p + wpx) + extra


def erfc_switch(p):
    return math.sqrt((p + 20 + 8) / 1.44)


def ci_switch(p):
    wp = p + 20 + 6
    return 2.0 ** (int(math.log2(wp)) + 2)


def _lower(mp, z, b):
    return mp.gammainc(z, 0, b)


def _lower_reg(mp, z, b):
    return mp.gammainc(z, 0, b, regularized=True)


def _upper(mp, z, a):
    return mp.gammainc(z, a)


def _upper_reg(mp, z, a):
    return mp.gammainc(z, a, regularized=True)


def _gen(mp, z, a, b):
    return mp.gammainc(z, a, b)


def _gen_reg(mp, z, a, b):
    return mp.gammainc(z, a, b, regularized=True)


def _bi(mp, a, b, x1, x2):
    return mp.betainc(a, b, x1, x2)


def _bi_reg(mp, a, b, x1, x2):
    return mp.betainc(a, b, x1, x2, regularized=True)


def _npdf3(mp, x, mu, sigma):
    return mp.npdf(x, mu, sigma)


def _ncdf3(mp, x, mu, sigma):
    return mp.ncdf(x, mu, sigma)


def ordered_pair(lo, hi, sign=0):
    """two reals a < b with magnitudes 2^[lo,hi]"""
    def g(r, b, p):
        x = raw_rand(r, b, lo, hi, sign)
        y = raw_rand(r, b, lo, hi, sign)
        return x, y
    return g


def _expint_generic(mp, n, x):
    """E_n(x) through the generic route x^(n-1) Gamma(1-n, x) (hypercomb), which the integer-n/real-x special code
    mpf_expint is bypassed for by passing x as a complex number; used as R3 because release 1.3.0 shares the
    cancellation of mpf_expint's recurrence branch"""
    v = mp.expint(n, mp.mpc(x, 0))
    if mp.im(v) == 0 or mp.re(x) > 0:
        return mp.re(v)
    return v


pos = real_in(-3, 5, 0)
u01 = lambda r, b: R(raw_rand(r, b, -r.choice([1, 2, 8]), 0, 0))
param = lambda r, b: R(fl(r.uniform(0.05, 12), max(8, min(b, 53))))
HEAVY_PRECS = [10, 15, 30, 53, 64, 100, 200, 333]


def _close_pair(r, b, p):
    """(z, a, b) with b = a (1 + 2^-k): the generalized incomplete gamma function over a short interval"""
    from vf import exactq as Q
    z = param(r, b)
    a = fl(r.uniform(0.5, 8.0), 24)
    k = r.randint(6, 26)
    bb = Q.exact_raw(Q.add(Q.from_raw(a), Q.mul(Q.from_raw(a), Q.from_raw(dy(1, k)))))
    return [z, R(a), R(bb)]


def _near_pm1(r, b, p):
    """x = +-(1 - 2^-k)"""
    k = r.randint(3, max(3, min(26, p - 2)))
    return [R(dy(r.choice([-1, 1]) * ((1 << k) - 1), k))]

TABLE = {
    'erf': [
        cell('tiny', real_p(lambda p: (-3 * p - 50, -p - 2))),
        cell('tiny-switch', real_p(lambda p: (-p - 4, -p + 4))),
        Cell('small', args(real_in(-40, -2))),
        Cell('moderate', args(real_in(-2, 3))),
        cell('one-switch', uniform(5.0, 40.0)),
        Cell('large', args(real_in(5, 40))),
        Cell('complex', args(complex_in(-3, 3)), cost=2),
        Cell('complex-small', args(complex_in(-40, -3)), cost=2),
        Cell('complex-large', args(complex_in(3, 6)), cost=3, precs=HEAVY_PRECS),
        Cell('imaginary-axis', args(imag_axis(-6, 5)), cost=2),
        cell('complex-im-tiny', cplx(real_in(-3, 3), real_p(lambda p: (-2 * p, -10))), cost=2),
    ],
    'erfc': [
        Cell('negative', args(real_in(-6, 6, 1))),
        Cell('small', args(real_in(-60, -2, 0))),
        cell('below-2', uniform(0.25, 2.0)),
        cell('2-switch', around(2, 0.01)),
        cell('erf-with-raised-precision', lambda r, b, p: R(fl(r.uniform(2.0, max(2.2, erfc_switch(p) - 0.5)), max(8, min(b, 53))))),
        cell('asymptotic-switch', around(erfc_switch, 1.6)),
        cell('asymptotic', lambda r, b, p: R(fl(erfc_switch(p) * r.uniform(1.1, 6), max(8, min(b, 53))))),
        Cell('tail', args(real_in(6, 21, 0))),
        Cell('tail-far', args(real_in(21, 60, 0))),
        Cell('complex', args(complex_in(-3, 2)), cost=2),
        cell('complex-re-2-switch', cplx(around(2, 0.2), real_in(-4, 3)), cost=2),
        Cell('complex-right-hyperu', args(lambda r, b: C(raw_rand(r, b, 1, 6, 0), raw_rand(r, b, -4, 6))), cost=3, precs=HEAVY_PRECS),
        Cell('complex-left', args(lambda r, b: C(raw_rand(r, b, -2, 4, 1), raw_rand(r, b, -4, 3))), cost=2),
        Cell('imaginary-axis', args(imag_axis(-6, 5)), cost=2),
    ],
    'erfi': [
        cell('tiny', real_p(lambda p: (-3 * p - 50, -p - 2))),
        Cell('small', args(real_in(-40, -2))),
        Cell('moderate', args(real_in(-2, 3)), cost=2),
        Cell('large', args(real_in(3, 9)), cost=2),
        Cell('complex', args(complex_in(-3, 3)), cost=2),
        Cell('complex-large', args(complex_in(3, 6)), cost=3, precs=HEAVY_PRECS),
        Cell('imaginary-axis', args(imag_axis(-6, 5)), cost=2),
    ],
    'erfinv': [
        Cell('small', args(real_in(-30, -2)), cost=2),
        cell('tiny', real_p(lambda p: (-2 * p - 20, -p + 5)), cost=2),
        cell('moderate', uniform(-0.9, 0.9), cost=2),
        cell('0.9-switch', around(0.9, 0.02), cost=2),
        Cell('near-1', _near_pm1, pgen=True, cost=2),
    ],
    'npdf': [
        Cell('moderate', args(real_in(-4, 3))),
        Cell('tiny', args(real_in(-80, -4))),
        Cell('large-8..64', args(real_in(3, 6))),
        Cell('large-64..512', args(real_in(6, 9))),
        Cell('large-512..2^20', args(real_in(9, 20))),
        Cell('mu-sigma', args(real_in(-3, 4), real_in(-3, 4), real_in(-3, 3, 0)), fn=_npdf3),
    ],
    'ncdf': [
        Cell('moderate', args(real_in(-4, 3))),
        Cell('tiny', args(real_in(-80, -4))),
        Cell('right-large', args(real_in(3, 12, 0))),
        Cell('left-tail-8..64', args(real_in(3, 6, 1))),
        Cell('left-tail-64..512', args(real_in(6, 9, 1))),
        Cell('left-tail-512..2^20', args(real_in(9, 20, 1))),
        Cell('mu-sigma', args(real_in(-3, 4), real_in(-3, 4), real_in(-3, 3, 0)), fn=_ncdf3),
    ],
    'ei': [
        cell('tiny', real_p(lambda p: (-2 * p - 50, -p))),
        Cell('small', args(real_in(-40, -3))),
        Cell('pos-taylor', args(real_in(-3, 4, 0))),
        Cell('neg-taylor', args(real_in(-3, 4, 1))),
        cell('pos-asymptotic-switch', around(ei_switch, 3)),
        cell('neg-asymptotic-switch', around(ei_switch, 3, sign=-1)),
        cell('pos-asymptotic', lambda r, b, p: R(fl(ei_switch(p) * r.uniform(1.1, 300), max(8, min(b, 53))))),
        cell('neg-asymptotic', lambda r, b, p: R(fl(-ei_switch(p) * r.uniform(1.1, 300), max(8, min(b, 53))))),
        cell('huge-switch', real_p(lambda p: (p + 15, p + 26))),
        Cell('large-2^10..2^20', args(real_in(10, 20))),
        cell('near-zero', near_c(Z['ei_zero'], 256, 4, 26)),
        Cell('complex', args(complex_in(-3, 4))),
        Cell('complex-small', args(complex_in(-40, -3))),
        cell('complex-asymptotic-switch', lambda r, b, p: polar(ei_switch(p, 20, 40) * 0.6, ei_switch(p, 20, 40) * 1.3)(r, b, p)),
        cell('complex-asymptotic', lambda r, b, p: polar(ei_switch(p, 20, 40) * 1.4, ei_switch(p, 20, 40) * 100)(r, b, p)),
        cell('cut-above', cplx(real_in(-3, 10, 1), real_p(lambda p: (-p - 30, -4), 0))),
        cell('cut-below', cplx(real_in(-3, 10, 1), real_p(lambda p: (-p - 30, -4), 1))),
        cell('right-im-tiny', cplx(real_in(-3, 10, 0), real_p(lambda p: (-p - 30, -4)))),
        Cell('imaginary-axis', args(imag_axis(-6, 12))),
        cell('asymptotic-near-imaginary-axis', cplx(real_in(-20, 0), lambda r, b, p: R(fl(ei_switch(p, 20, 40) * r.uniform(1.1, 30) * r.choice([-1, 1]), 30)))),
    ],
    'e1': [
        cell('tiny', real_p(lambda p: (-2 * p - 50, -p), 0)),
        Cell('small', args(real_in(-40, -3, 0))),
        Cell('taylor', args(real_in(-3, 4, 0))),
        cell('asymptotic-switch', around(ei_switch, 3)),
        cell('tail', lambda r, b, p: R(fl(ei_switch(p) * r.uniform(1.1, 300), max(8, min(b, 53))))),
        Cell('tail-2^10..2^20', args(real_in(10, 20, 0))),
        Cell('tail-far', args(real_in(20, 60, 0))),
        Cell('negative-real', args(real_in(-3, 8, 1))),
        Cell('complex', args(complex_in(-3, 4))),
        cell('complex-asymptotic-switch', lambda r, b, p: polar(ei_switch(p, 20, 40) * 0.6, ei_switch(p, 20, 40) * 1.3)(r, b, p)),
        cell('complex-asymptotic', lambda r, b, p: polar(ei_switch(p, 20, 40) * 1.4, ei_switch(p, 20, 40) * 100)(r, b, p)),
        cell('cut-above', cplx(real_in(-3, 10, 1), real_p(lambda p: (-p - 30, -4), 0))),
        cell('cut-below', cplx(real_in(-3, 10, 1), real_p(lambda p: (-p - 30, -4), 1))),
        Cell('imaginary-axis', args(imag_axis(-6, 12))),
    ],
    'expint': [
        Cell('n=0,-1-closed-form', args(integer(-1, 0), real_in(-3, 8))),
        Cell('n=1-is-e1', args(const(I(1)), real_in(-3, 8, 0))),
        Cell('n-2..20-x-small', args(integer(2, 20), real_in(-9, 0, 0))),
        Cell('n-2..20-x<n', args(integer(8, 20), lambda r, b: R(fl(r.uniform(1, 7.9), max(8, min(b, 53))))), oracle=_expint_generic),
        Cell('n-2..20-x-moderate', args(integer(2, 20), real_in(0, 5, 0)), oracle=_expint_generic),
        cell('n-2..20-asymptotic-switch', integer(2, 20), lambda r, b, p: R(fl((p + 20) * r.uniform(0.3, 1.5), 30)), oracle=_expint_generic),
        Cell('n-2..20-x-large', args(integer(2, 20), real_in(8, 20, 0)), oracle=_expint_generic),
        Cell('n-20..1000', args(integer(20, 1000), real_in(-3, 8, 0)), cost=2, oracle=_expint_generic),
        cell('n-around-3wp', lambda r, b, p: I(3 * (p + 20) + r.randint(-3, 3)), real_in(-3, 8, 0), cost=2, oracle=_expint_generic),
        Cell('n-negative', args(integer(-40, -2), real_in(-3, 8, 0))),
        cell('n-negative-around-3wp', lambda r, b, p: I(-3 * (p + 20) + r.randint(-3, 3)), real_in(-3, 8, 0), cost=2),
        cell('direct-convergence-switch', integer(2, 30), real_p(lambda p: (p + 18, p + 40), 0)),
        Cell('x-negative', args(integer(-6, 12), real_in(-3, 6, 1))),
        Cell('x-below-2^-10-generic', args(integer(-6, 12), real_in(-60, -10)), cost=3),
        Cell('x-tiny-n>1', args(integer(2, 12), real_in(-200, -60, 0)), cost=2),
        Cell('real-n', args(real_in(-3, 4), real_in(-3, 5, 0)), cost=2),
        Cell('real-n-x-large', args(real_in(-3, 4), real_in(5, 12, 0)), cost=2),
        Cell('complex-z', args(integer(-4, 8), complex_in(-3, 5)), cost=2),
        Cell('complex-n', args(complex_in(-3, 3), complex_in(-3, 4)), cost=2),
        cell('n-near-positive-int', near_any([1, 2, 3, 5], pk=lambda p: (6, p)), real_in(-3, 4, 0), cost=2),
    ],
    'li': [
        Cell('moderate', args(lambda r, b: R(fl(r.uniform(1.6, 1000), max(8, min(b, 53)))))),
        Cell('0..1', args(lambda r, b: R(fl(r.uniform(0.001, 0.98), max(8, min(b, 53)))))),
        Cell('tiny', args(real_in(-80, -10, 0))),
        cell('near-1', near_p(1, capped(lambda p: (3, p + 10)))),
        cell('near-zero-1.4513', near_c(Z['li_zero'], 256, 4, 26)),
        Cell('large', args(real_in(10, 70, 0))),
        cell('huge', real_p(lambda p: (p, 4 * p + 100), 0)),
        Cell('negative', args(real_in(-4, 8, 1))),
        Cell('complex', args(complex_in(-3, 6))),
    ],
    'si': [
        cell('tiny', real_p(lambda p: (-3 * p - 60, -p - 15))),
        cell('tiny-switch', real_p(lambda p: (-p - 24, -p - 16))),
        Cell('small', args(real_in(-40, -2))),
        Cell('taylor', args(real_in(-2, 6))),
        cell('asymptotic-switch', lambda r, b, p: R(fl(ci_switch(p) * r.uniform(0.7, 1.4) * r.choice([-1, 1]), max(12, min(b, 53))))),
        cell('asymptotic', lambda r, b, p: R(fl(ci_switch(p) * r.uniform(1.5, 1000), max(12, min(b, 53))))),
        cell('huge-switch', real_p(lambda p: (p + 15, p + 26))),
        Cell('complex-taylor', args(lambda r, b: polar(0.01, 3.9)(r, b, 0))),
        cell('complex-4-switch', cplx(uniform(-4.3, 4.3), uniform(-4.3, 4.3))),
        Cell('complex-via-ei', args(complex_in(3, 8))),
        Cell('complex-tiny', args(complex_in(-60, -4))),
        Cell('imaginary-axis', args(imag_axis(-6, 8))),
    ],
    'ci': [
        cell('tiny', real_p(lambda p: (-3 * p - 60, -p - 15), 0)),
        cell('tiny-switch', real_p(lambda p: (-p - 24, -p - 16), 0)),
        Cell('small', args(real_in(-40, -2, 0))),
        Cell('taylor', args(real_in(-2, 6, 0))),
        cell('near-zero-0.6165', near_c(Z['ci_zero1'], 256, 4, 26)),
        cell('near-zero-3.3842', near_c(Z['ci_zero2'], 256, 4, 26)),
        cell('asymptotic-switch', lambda r, b, p: R(fl(ci_switch(p) * r.uniform(0.7, 1.4), max(12, min(b, 53))))),
        cell('asymptotic', lambda r, b, p: R(fl(ci_switch(p) * r.uniform(1.5, 1000), max(12, min(b, 53))))),
        cell('huge-switch', real_p(lambda p: (p + 15, p + 26), 0)),
        Cell('negative-real', args(real_in(-4, 8, 1))),
        Cell('complex-taylor', args(lambda r, b: polar(0.01, 3.9)(r, b, 0))),
        cell('complex-4-switch', cplx(uniform(-4.3, 4.3), uniform(-4.3, 4.3))),
        Cell('complex-via-ei', args(complex_in(3, 8))),
        cell('cut-above', cplx(real_in(-3, 8, 1), real_p(lambda p: (-p - 30, -4), 0))),
        cell('cut-below', cplx(real_in(-3, 8, 1), real_p(lambda p: (-p - 30, -4), 1))),
        Cell('imaginary-axis', args(imag_axis(-6, 8))),
    ],
    'shi': [
        cell('tiny', real_p(lambda p: (-3 * p - 60, -p))),
        Cell('small-series', args(real_in(-40, -2)), cost=2),
        cell('1/4-switch', around(0.25, 0.03)),
        Cell('moderate', args(real_in(-1, 5))),
        Cell('large', args(real_in(5, 14))),
        Cell('complex', args(complex_in(-1, 5))),
        Cell('complex-small', args(complex_in(-40, -2)), cost=2),
        Cell('imaginary-axis', args(imag_axis(-6, 8))),
    ],
    'chi': [
        cell('tiny', real_p(lambda p: (-3 * p - 60, -p), 0)),
        Cell('small', args(real_in(-40, -2, 0))),
        cell('near-zero-0.5238', near_c(Z['chi_zero'], 256, 4, 26)),
        Cell('moderate', args(real_in(-1, 5, 0))),
        Cell('large', args(real_in(5, 14, 0))),
        Cell('negative-real', args(real_in(-4, 8, 1))),
        Cell('complex', args(complex_in(-3, 5))),
        cell('cut-above', cplx(real_in(-3, 8, 1), real_p(lambda p: (-p - 30, -4), 0))),
        cell('cut-below', cplx(real_in(-3, 8, 1), real_p(lambda p: (-p - 30, -4), 1))),
        Cell('imaginary-axis', args(imag_axis(-6, 8))),
    ],
    'fresnels': [
        cell('tiny', real_p(lambda p: (-p - 60, -10)), cost=2),
        Cell('small', args(real_in(-10, 0)), cost=2),
        Cell('moderate', args(real_in(0, 3)), cost=2, precs=HEAVY_PRECS),
        Cell('large', args(real_in(3, 7)), cost=3, precs=HEAVY_PRECS),
        Cell('very-large', args(real_in(7, 20)), cost=3, precs=HEAVY_PRECS),
        Cell('complex', args(complex_in(-3, 3)), cost=3, precs=HEAVY_PRECS),
        Cell('imaginary-axis', args(imag_axis(-4, 4)), cost=3, precs=HEAVY_PRECS),
    ],
    'fresnelc': [
        cell('tiny', real_p(lambda p: (-p - 60, -10)), cost=2),
        Cell('small', args(real_in(-10, 0)), cost=2),
        Cell('moderate', args(real_in(0, 3)), cost=2, precs=HEAVY_PRECS),
        Cell('large', args(real_in(3, 7)), cost=3, precs=HEAVY_PRECS),
        Cell('very-large', args(real_in(7, 20)), cost=3, precs=HEAVY_PRECS),
        Cell('complex', args(complex_in(-3, 3)), cost=3, precs=HEAVY_PRECS),
        Cell('imaginary-axis', args(imag_axis(-4, 4)), cost=3, precs=HEAVY_PRECS),
    ],
    'gammainc.lower': [
        Cell('real-z-small-b', args(param, real_in(-20, 0, 0)), fn=_lower, cost=2),
        Cell('real-z-moderate-b', args(param, real_in(0, 4, 0)), fn=_lower, cost=2),
        Cell('real-z-large-b', args(param, real_in(4, 9, 0)), fn=_lower, cost=3, precs=HEAVY_PRECS),
        Cell('int-z', args(integer(1, 40), real_in(-4, 6, 0)), fn=_lower, cost=2),
        Cell('large-z', args(real_in(4, 9, 0), real_in(-2, 9, 0)), fn=_lower, cost=3, precs=HEAVY_PRECS),
        Cell('neg-nonint-z', args(lambda r, b: R(fl(-r.uniform(0.05, 8) , 30)), real_in(-4, 4, 0)), fn=_lower, cost=2),
        cell('z-near-nonpos-int', near_any([0, -1, -2, -5], pk=capped(lambda p: (4, p))), real_in(-4, 4, 0), fn=_lower, cost=2),
        Cell('negative-b', args(param, real_in(-4, 1, 1)), fn=_lower, cost=3, tmax=6),
        Cell('complex', args(complex_in(-2, 3), complex_in(-3, 4)), fn=_lower, cost=3, precs=HEAVY_PRECS),
        Cell('regularized', args(param, real_in(-6, 6, 0)), fn=_lower_reg, cost=2),
        Cell('regularized-int-z', args(integer(1, 40), real_in(-4, 6, 0)), fn=_lower_reg, cost=2),
    ],
    'gammainc.upper': [
        Cell('int-z-pos', args(integer(1, 40), real_in(-9, 7, 0)), fn=_upper),
        Cell('int-z-nonpos', args(integer(-40, 0), real_in(-9, 7, 0)), fn=_upper),
        Cell('int-z-x-tiny-generic', args(integer(-6, 12), real_in(-60, -10, 0)), fn=_upper, cost=2),
        Cell('int-z-neg-a', args(integer(-6, 12), real_in(-3, 6, 1)), fn=_upper),
        Cell('int-z-large', args(integer(41, 2000), real_in(-3, 12, 0)), fn=_upper, cost=2),
        Cell('real-z-small-a', args(real_in(-3, 4), real_in(-20, 0, 0)), fn=_upper, cost=2),
        Cell('real-z-moderate-a', args(real_in(-3, 4), real_in(0, 4, 0)), fn=_upper, cost=2),
        cell('real-z-2F0-switch', real_in(-3, 4), lambda r, b, p: R(fl((p + 20) * r.uniform(0.2, 1.6), 30)), fn=_upper, cost=3),
        Cell('real-z-large-a', args(real_in(-3, 4), real_in(7, 16, 0)), fn=_upper, cost=2),
        cell('z-near-int', near_any([-3, -1, 0, 1, 2, 5], pk=lambda p: (4, p)), real_in(-4, 4, 0), fn=_upper, cost=2),
        Cell('half-int-z', args(half_integer(-20, 20), real_in(-4, 6, 0)), fn=_upper, cost=2),
        Cell('large-z', args(real_in(4, 9, 0), real_in(-2, 9, 0)), fn=_upper, cost=3, precs=HEAVY_PRECS),
        Cell('complex', args(complex_in(-2, 3), complex_in(-3, 4)), fn=_upper, cost=3, precs=HEAVY_PRECS),
        Cell('complex-a-int-z', args(integer(-5, 10), complex_in(-3, 5)), fn=_upper, cost=2),
        Cell('regularized', args(param, real_in(-6, 6, 0)), fn=_upper_reg, cost=2),
        Cell('regularized-int-z', args(integer(-10, 40), real_in(-4, 6, 0)), fn=_upper_reg),
    ],
    'gammainc.generalized': [
        cell('real', param, lambda r, b, p: R(fl(r.uniform(0.01, 3), 30)), lambda r, b, p: R(fl(r.uniform(3.1, 30), 30)), fn=_gen, cost=2),
        cell('int-z', integer(-5, 20), lambda r, b, p: R(fl(r.uniform(0.01, 3), 30)), lambda r, b, p: R(fl(r.uniform(3.1, 30), 30)), fn=_gen, cost=2),
        Cell('close-endpoints', _close_pair, pgen=True, fn=_gen, cost=2),
        cell('reversed', param, lambda r, b, p: R(fl(r.uniform(3.1, 30), 30)), lambda r, b, p: R(fl(r.uniform(0.01, 3), 30)), fn=_gen, cost=2),
        cell('large-endpoints', param, lambda r, b, p: R(fl(r.uniform(30, 300), 30)), lambda r, b, p: R(fl(r.uniform(301, 3000), 30)), fn=_gen, cost=2),
        Cell('complex', args(complex_in(-2, 3), complex_in(-3, 3), complex_in(-3, 3)), fn=_gen, cost=3, precs=HEAVY_PRECS),
        cell('regularized', param, lambda r, b, p: R(fl(r.uniform(0.01, 3), 30)), lambda r, b, p: R(fl(r.uniform(3.1, 30), 30)), fn=_gen_reg, cost=2),
    ],
    'betainc': [
        cell('complete-is-beta', param, param, const(I(0)), const(I(1)), fn=_bi),
        cell('0..x', param, param, const(I(0)), uniform(0.001, 0.9), fn=_bi, cost=2),
        cell('0..x-near-1', param, param, const(I(0)), near_p(1, capped(lambda p: (3, 30))), fn=_bi, cost=3, precs=HEAVY_PRECS),
        cell('0..x-small', param, param, const(I(0)), real_in(-60, -8, 0), fn=_bi, cost=2),
        cell('0..x>1', param, param, const(I(0)), uniform(1.1, 20.0), fn=_bi, cost=3, precs=HEAVY_PRECS),
        cell('x1..x2', param, param, uniform(0.01, 0.45), uniform(0.5, 0.95), fn=_bi, cost=2),
        cell('x1..1', param, param, uniform(0.01, 0.95), const(I(1)), fn=_bi, cost=3, precs=HEAVY_PRECS),
        cell('int-params', integer(1, 30), integer(1, 30), const(I(0)), uniform(0.01, 0.95), fn=_bi, cost=2),
        cell('large-params', real_in(4, 9, 0), real_in(-2, 9, 0), const(I(0)), uniform(0.01, 0.95), fn=_bi, cost=3, precs=HEAVY_PRECS),
        cell('a-near-nonpos-int-x1>0', near_any([0, -1, -2], pk=capped(lambda p: (5, p + 10))), param, uniform(0.01, 0.45), uniform(0.5, 0.95),
             fn=_bi, cost=3, precs=HEAVY_PRECS),
        cell('negative-x', param, integer(1, 6), const(I(0)), uniform(-20.0, -0.01), fn=_bi, cost=3, precs=HEAVY_PRECS),
        cell('complex-params', lambda r, b, p: C(raw_rand(r, b, -2, 3, 0), raw_rand(r, b, -2, 3)), lambda r, b, p: C(raw_rand(r, b, -2, 3, 0), raw_rand(r, b, -2, 3)),
             const(I(0)), uniform(0.01, 0.9), fn=_bi, cost=3, precs=HEAVY_PRECS),
        cell('complex-x', param, param, const(I(0)), polar(0.05, 3.0), fn=_bi, cost=3, precs=HEAVY_PRECS),
        cell('regularized', param, param, const(I(0)), uniform(0.001, 0.95), fn=_bi_reg, cost=2),
        cell('regularized-x1..x2', param, param, uniform(0.01, 0.45), uniform(0.5, 0.95), fn=_bi_reg, cost=3),
    ],
}


def shards(tier, seed):
    return [{'nshards': NSHARDS, 'budget_s': 330 if tier == 'quick' else 2700} for _ in range(NSHARDS)]


def run_shard(shard, rec):
    J.run(PROP, TABLE, shard, rec)


required = J.required_cells(TABLE)


def replay(case, rec):
    J.replay(PROP, TABLE, case, rec)
