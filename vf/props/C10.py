"""C10 -- rounded operations never return more bits than the working precision.

Observed: results of arithmetic operators, mpf()/mpc() construction, unary + - abs (driven directly) and of every
catalog function of the elementary / special-function categories, seen by ApiBoundary wrappers on ``mp`` at the
OUTERMOST call depth only.  Arguments carry more bits than the precision (2p, 4p, 1000 bits) at p in {10, 53, 100, 333}.
Oracle: bit length of every returned real / real part / imaginary part  <=  p, with p the context precision at entry
or the prec=/dps= keyword.  Exempt: the documented-exact list.  A ReturnTap on the libmp primitives attributes an
unrounded value to the routine that was asked for fewer bits than it returned (mechanism key C10/<routine>), else to
the public function (C10/<name>)."""
import collections, math, sys, time
from fractions import Fraction
from vf import exactq as Q
from vf import gens as G
from vf import catalog as K
from vf import dutil as U

PROP = 'C10'
LEVEL = 'exploration'
RULE = ('seeded stratified generation: (function | operator | constructor | unary op) x precision {10,53,100,333} x argument '
        'bit length {2p,4p,1000} x {real, complex/param mix} (+ prec=/dps= keyword variants for functions accepting them); plus, '
        'for every function, exact special arguments (integers 0..200 and larger as int and as mpf, negatives, half-integers, '
        'small dyadic rationals, powers of two, squares, cubes) at p in {10,15,24,53,100}; '
        'a case is non-trivial when at least one argument carries more bits than the asserted precision and the call '
        'returned a finite non-zero real/complex part that was inspected; distinct = distinct (name, arguments, kwargs, p)')
ASSUMPTIONS = ['the bit length of a result is read from its mantissa (int.bit_length), not from the stored bc field',
               'dps= keywords are translated to bits with libmp.dps_to_prec (the definition used by the documentation)',
               'wrappers installed on the attributes of mp (and the aliases in the mpmath module) see every call made '
               'through the context object; only depth-1 (outermost) calls are asserted']
SHARD_TIMEOUT = {'quick': 900, 'thorough': 3600}        # wall-clock watchdog (generous: the machine may be shared)
SHARD_CPU_BUDGET = {'quick': 200, 'thorough': 1500}     # CPU seconds per shard; normal use ~40 / ~250
LEVEL_TEXT = ('exploration: every catalogued elementary / special function, every arithmetic operator, constructor and unary '
              'operation of mp is called with arguments longer than the working precision at 4 precisions; each returned '
              'part is checked to carry at most p bits; functions never observed are listed; thorough adds more draws per '
              'cell and the repository test-suite under the same boundary monitor')
LEVEL_NOTE = ('held only on the calls observed; functions whose calls were all cut by the CPU cap or raised are listed as '
              'unobserved; identity-style utilities (conj, chop, absmin/absmax, fsum/fdot/fprod, arange/linspace) are recorded '
              'but not asserted because the statement does not name them')
TECHNIQUE = 'runtime monitoring: API-boundary wrappers (outermost depth) + sys.monitoring return taps for attribution'

N_SHARDS = 16
PY_MODULES = ('functions', 'factorials', 'hypergeometric', 'expintegrals', 'bessel', 'orthogonal', 'theta', 'elliptic',
              'zeta', 'rszeta', 'zetazeros', 'qfunctions')
PRECS = [10, 53, 100, 333]
BITMULT = ['2p', '4p', '1000']
# exact "special" arguments: fast paths for integers / half-integers / small rationals / powers of two / exact squares and
# cubes are where a missing final rounding hides (cached exact values such as factorials carry hundreds of bits)
SPECIAL_PRECS = [10, 15, 24, 53, 100]
SPECIAL_INTS = [0, 1, 2, 3, 4, 5, 6, 7, 8, 9, 10, 12, 16, 20, 23, 24, 25, 27, 30, 36, 49, 50, 64, 81, 100, 120, 125, 128, 144, 149, 150,
                151, 170, 171, 200, 256, 500, 1000, 1024, 4096, 10**6, -1, -2, -3, -4, -10, -24, -25, -100]
SPECIAL_FRACS = [(1, 2), (3, 2), (5, 2), (-1, 2), (-3, 2), (21, 2), (51, 2), (201, 2), (1, 4), (3, 4), (-1, 4), (1, 8), (5, 4), (1, 16),
                 (7, 8), (1, 1024), (-5, 2), (9, 4), (27, 8), (101, 2)]
CALL_CAP = {'quick': 1.0, 'thorough': 2.5}
DRAWS = {'quick': 2, 'thorough': 6}
SPECIAL_BUDGET = {'quick': 45, 'thorough': 120}       # special values of the primary argument per (function, precision)
OPCASES = {'quick': 2000, 'thorough': 12000}

# ---- what the statement covers -----------------------------------------------------------
# asserted categories: "elementary and special functions" (+ the non-exact f* arithmetic functions, which the statement's
# exemption "exact f* operations" implies are covered when not exact)
ASSERT_CATS = ('elementary', 'elementary+', 'intpart', 'gamma', 'gamma+', 'zeta', 'zeta+', 'expint', 'bessel', 'bessel+',
               'hyper', 'hyper+', 'elliptic', 'elliptic+', 'numtheory', 'constant')
ASSERT_EXTRA = {'sign', 'fabs', 'degrees', 'radians', 'fadd', 'fsub', 'fmul', 'fdiv', 'fneg'}
# documented exact: never asserted (bit lengths recorded)
EXEMPT = {'ldexp': 'documented exact', 'frexp': 'documented exact', 're': 'component access', 'im': 'component access'}
EXEMPT_CONVERT_TYPES = ('int', 'float', 'mpf', 'mpc', 'bool')       # convert / mpmathify of these is documented exact
# named by neither the statement nor its exemption list: observed, recorded, not asserted
NOTE_ONLY = {'conj', 'conjugate', 'chop', 'absmin', 'absmax', 'fsum', 'fdot', 'fprod', 'arange', 'linspace', 'polyval', 'unitroots'}


def status_of(name):
    """'assert' | 'exempt' | 'note' | 'skip' (no numeric result) for a catalog function"""
    if name in EXEMPT:
        return 'exempt'
    if name in ('convert', 'mpmathify'):
        return 'convert'
    if name in NOTE_ONLY:
        return 'note'
    cat = K.ENTRIES[name][0]
    if cat == 'inspect':
        return 'skip'
    if cat in ASSERT_CATS or name in ASSERT_EXTRA:
        return 'assert'
    return 'note'


def wrapped_names():
    """functions wrapped by ApiBoundary.  The lazy constants (pi, e, ...) are callable *objects* used in arithmetic by the
    library itself and must not be replaced by function wrappers: they are driven directly."""
    return [n for n in K.all_names() if status_of(n) != 'skip' and K.ENTRIES[n][0] != 'constant']


def driven_names():
    return [n for n in K.all_names() if status_of(n) != 'skip']


def shards(tier, seed):
    out = [{'kind': 'gen'} for _ in range(N_SHARDS)]
    if tier == 'thorough':
        out.append({'kind': 'suite'})
    return out


# ---------------------------------------------------------------------------------------
# monitor
# ---------------------------------------------------------------------------------------

def parts_of(v, out=None, depth=0):
    """(label, raw) for every real number inside a result: mpf, mpc parts, members of tuples / lists (nested <= 3)"""
    if out is None:
        out = []
    if hasattr(v, '_mpf_'):
        out.append(('re', v._mpf_))
    elif hasattr(v, '_mpc_'):
        out.append(('re', v._mpc_[0]))
        out.append(('im', v._mpc_[1]))
    elif isinstance(v, (tuple, list)) and depth < 3 and len(v) <= 64:
        for x in v:
            parts_of(x, out, depth + 1)
    return out


def bits_of(raw):
    man = raw[1]
    return int(man).bit_length() if man else 0


def kw_precision(ctx, kwargs, ctxprec):
    """asserted precision of a call: None = exact requested (exempt)"""
    if kwargs:
        if kwargs.get('exact'):
            return None
        if 'prec' in kwargs:
            pr = kwargs['prec']
            if pr == ctx.inf or pr == float('inf') or pr == 0:
                return None             # prec=0 is the library's internal spelling of "exact" (used by its own tests)
            return int(pr)
        if 'dps' in kwargs:
            d = kwargs['dps']
            if d == ctx.inf or d == float('inf'):
                return None
            from mpmath.libmp import dps_to_prec
            return dps_to_prec(d)
    return ctxprec


class BitMonitor(object):
    """ApiBoundary (outermost depth) + ReturnTap attribution.  ``check(name, status, p, result, case)`` applies the
    predicate; ``begin(p)`` resets the attribution chain for a directly driven operation."""

    def __init__(self, mpmath_module, sink):
        self.m = mpmath_module
        self.mp = mpmath_module.mp
        self.sink = sink                 # object with violation/note/maximum/event
        self.cur_p = None
        self.chain = []
        self.calls_outer = 0
        self.calls_nested = 0
        self.checked_parts = 0
        self.api = None
        self.tap = None
        self.on_outer = None             # callback(name, ev, p) for the driver

    def attach(self, names, tap=True):
        from vf import instrument as I
        self.api = I.ApiBoundary(self.mp, names, self._on_exit, state=lambda c: c.prec, also_module=self.m,
                                 on_enter=self._on_enter).install()
        if tap:
            self._install_tap()
        return self

    def detach(self):
        if self.tap:
            self._uninstall_tap(); self.tap = None
        if self.api is not None:
            self.api.uninstall(); self.api = None

    def begin(self, p):
        self.cur_p = p
        self.chain = []
        if self.tap:
            del self.stack[:]

    # -- tap: who returned more bits than it was asked for -----------------------------
    # (own sys.monitoring client instead of instrument.ReturnTap: the precision a routine was *asked* for must be read
    #  at entry -- several routines overwrite their ``prec`` argument -- so entries and exits are paired on a stack,
    #  with PY_UNWIND keeping the pairing exact when a routine raises)
    def _install_tap(self):
        from vf import instrument as I
        mon, E = I.mon, I.E
        I._claim(I.TOOL_TAP, 'vf-c10-tap')
        self._codes = U.primitive_codes()
        self._has_prec = {}
        for code in self._codes:
            args = code.co_varnames[:code.co_argcount + code.co_kwonlyargcount]
            self._has_prec[code] = 'prec' in args
        # Python-level implementations (mpmath.functions.*): entry precision = context precision at entry
        import importlib, types
        self._pycodes = {}
        for m in PY_MODULES:
            try:
                mod = importlib.import_module('mpmath.functions.' + m)
            except Exception:
                continue
            for k, v in vars(mod).items():
                if isinstance(v, types.FunctionType) and v.__module__ == mod.__name__:
                    self._pycodes.setdefault(v.__code__, m + ':' + k)
        codes, has_prec, me = self._codes, self._has_prec, self
        pycodes = self._pycodes
        pr_slot = self.mp._prec_rounding
        stack = self.stack = []

        def on_start(code, off):
            if me.cur_p is None:
                return
            if code in pycodes:
                stack.append((code, pr_slot[0]))
                return
            if has_prec.get(code):
                try:
                    pr = sys._getframe(1).f_locals.get('prec')
                except Exception:
                    pr = None
                stack.append((code, pr))

        def on_return(code, off, val):
            if me.cur_p is None:
                return
            ispy = code in pycodes
            if not ispy and not has_prec.get(code):
                return
            pr = None
            while stack:
                c, pr0 = stack.pop()
                if c is code:
                    pr = pr0
                    break
            if ispy:
                if isinstance(pr, int) and pr > 0 and val is not None and len(me.chain) < 4000:
                    for label, t in parts_of(val):
                        if t[1] and t[1].bit_length() > pr:
                            me.chain.append((t, pycodes[code], pr))
                return
            if type(val) is not tuple or not isinstance(pr, int) or isinstance(pr, bool) or pr <= 0:
                return
            for t in U.raws_in(val):
                if t[1] and t[1].bit_length() > pr and len(me.chain) < 4000:
                    me.chain.append((t, codes[code], pr))

        def on_unwind(code, off, exc):
            if (has_prec.get(code) or code in pycodes) and stack and me.cur_p is not None:
                while stack:
                    c, pr0 = stack.pop()
                    if c is code:
                        break
        mon.register_callback(I.TOOL_TAP, E.PY_START, on_start)
        mon.register_callback(I.TOOL_TAP, E.PY_RETURN, on_return)
        mon.register_callback(I.TOOL_TAP, E.PY_UNWIND, on_unwind)
        for c in codes:
            if has_prec[c]:
                mon.set_local_events(I.TOOL_TAP, c, E.PY_START | E.PY_RETURN)
        for c in pycodes:
            mon.set_local_events(I.TOOL_TAP, c, E.PY_START | E.PY_RETURN)
        mon.set_events(I.TOOL_TAP, E.PY_UNWIND)
        self.tap = True

    def _uninstall_tap(self):
        from vf import instrument as I
        mon, E = I.mon, I.E
        for c in list(self._codes) + list(self._pycodes):
            mon.set_local_events(I.TOOL_TAP, c, 0)
        mon.set_events(I.TOOL_TAP, 0)
        for ev in (E.PY_START, E.PY_RETURN, E.PY_UNWIND):
            mon.register_callback(I.TOOL_TAP, ev, None)
        mon.free_tool_id(I.TOOL_TAP)

    def blame(self, raw):
        """innermost routine (libmp primitive, else Python-level implementation in mpmath.functions.*) that returned
        exactly this value although it was asked / entered with a precision of fewer bits.  The chain is in return
        order, so the first match is the innermost one."""
        for t, name, prec in self.chain:
            if t == raw:
                return name.split(':')[1]
        return None

    # -- boundary ----------------------------------------------------------------------
    def _on_enter(self, name, depth, args, kwargs):
        if depth == 1:
            try:
                self.begin(kw_precision(self.mp, kwargs, self.mp.prec))
            except Exception:
                self.begin(self.mp.prec)

    def _on_exit(self, ev):
        if ev['depth'] != 1:
            self.calls_nested += 1
            return
        self.calls_outer += 1
        if ev['exc'] is None and self.on_outer is not None:
            self.on_outer(ev)
        self.cur_p = None

    # -- predicate ---------------------------------------------------------------------
    def check(self, name, status, p, result, case, is_op=False):
        """returns (number of inspected non-zero parts, worst excess bits)"""
        n, worst = 0, 0
        for label, raw in parts_of(result):
            b = bits_of(raw)
            if not b:
                continue
            n += 1
            self.checked_parts += 1
            if p is None or b <= p:
                continue
            excess = b - p
            worst = max(worst, excess)
            if status == 'assert':
                who = self.blame(raw)
                key = 'C10/' + (who or name)
                self.sink.violation(key, '%s returned a %s part with %d bits at precision %d (+%d)%s'
                                    % (name, label, b, p, excess, (' -- unrounded value handed up by ' + who) if who else ''),
                                    case, observed={'bits': b, 'part': label, 'raw': repr(raw)[:200]},
                                    expected='at most %d bits' % p, severity=excess)
                self.sink.maximum('excess bits ' + key, excess, case)
            else:
                self.sink.note('not asserted (%s): %s' % (status, name), {'bits': b, 'prec': p, 'case': case}, cap=3)
                self.sink.maximum('not asserted (%s): excess bits %s' % (status, name), excess, None)
        return n, worst


# ---------------------------------------------------------------------------------------
# generated workload
# ---------------------------------------------------------------------------------------
class Env(object):
    pass


def _bits(p, mult):
    return {'2p': 2 * p, '4p': 4 * p, '1000': 1000}[mult]


def _mk(ctx, raw):
    return ctx.make_mpf(raw)


def _longest(specs):
    """largest mantissa bit length among argument specs"""
    b = 0
    for sp in specs:
        k = sp[0]
        if k == 'R':
            b = max(b, sp[1][3])
        elif k == 'C':
            b = max(b, sp[1][3], sp[2][3])
        elif k == 'I':
            n = abs(sp[1])
            b = max(b, (n >> ((n & -n).bit_length() - 1)).bit_length() if n else 0)
        elif k == 'L':
            b = max(b, _longest(sp[1]))
        elif k == 'K':
            b = max(b, _longest([sp[2]]))
    return b


def _accepts_prec(f):
    g = getattr(f, '_vf_orig', f)
    g = getattr(g, '__func__', g)
    code = getattr(g, '__code__', None)
    return code is not None and 'mpf_f' in code.co_freevars


def run_function_cell(env, r, name, p, mult, real_only, variant):
    mp, rec, mon = env.mp, env.rec, env.mon
    status = status_of(name)
    cat = K.ENTRIES[name][0]
    bits = _bits(p, mult)
    specs = K.gen_args(name, r, bits, real_only=real_only)
    f = getattr(mp, name)
    kw = {}
    ctxprec = p
    if variant == 'kw':
        # the precision comes from the keyword; the context runs at another precision
        ctxprec = {10: 200, 53: 15, 100: 30, 333: 64}[p]
        kw = r.choice([{'prec': p}, {'prec': p, 'rounding': r.choice(G.MODES)}, {'dps': max(1, int(p / 3.33) - 1)}])
    elif variant == 'exact':
        kw = r.choice([{'exact': True}, {'prec': mp.inf}, {'dps': mp.inf}])
    mp.prec = ctxprec
    args, kw2 = K.split_args(mp, specs)
    kw2.update(kw)
    pa = kw_precision(mp, kw, ctxprec)
    case = {'name': name, 'args': specs, 'kw': {k: repr(v) for k, v in kw.items()}, 'prec': pa, 'ctxprec': ctxprec}
    got = {}
    mon.on_outer = lambda ev: got.setdefault('ev', ev)
    if cat == 'constant':
        got['ev'] = None            # not wrapped: driven directly
        mon.begin(pa)
    try:
        with U.time_limit(env.cap):
            res = f(*args, **kw2)
    except U.CaseTimeout:
        rec.event('calls cut by the CPU cap')
        rec.cls('cut/' + name)
        env.api_reset()
        return
    except Exception as e:
        rec.cls('raised/' + name)
        rec.event('calls that raised (documented exceptions, domain errors)')
        env.api_reset()
        return
    finally:
        mp.prec = 53
        mon.on_outer = None
    if 'ev' not in got:
        rec.event('HARNESS: call not seen by the boundary wrapper')
        rec.cls('unwrapped/' + name)
        return
    st = status
    if status == 'convert':
        a0 = args[0] if args else None
        tn = type(a0).__name__
        st = 'exempt' if tn in EXEMPT_CONVERT_TYPES else 'assert'
    if variant == 'exact':
        st = 'exempt'
    n, worst = mon.check(name, st, pa, res, case)
    longer = pa is not None and _longest(specs) > pa
    rec.case((name, repr(specs), repr(kw), pa), nontrivial=bool(n and longer and st == 'assert'),
             cls='fn/%s/%s' % (K.ENTRIES[name][0], st))
    if n:
        rec.cls('observed/' + name)
    elif res is not None and not parts_of(res):
        rec.cls('observed-nonnumeric/' + name)      # Python int / bool results (primepi, isprime, moebius ...)
    else:
        rec.cls('observed-zero-or-special/' + name)
    if env.nsamples < 3 and n and longer:
        env.nsamples += 1
        rec.sample(case)


def _frac_raw(n, d):
    """n / 2^k as canonical raw"""
    return Q.canon(1 if n < 0 else 0, abs(n), -(d.bit_length() - 1))


def special_values(kind):
    """exact special values admissible for an argument kind: list of specs (ints both as Python int and as mpf)"""
    ints, fracs = SPECIAL_INTS, SPECIAL_FRACS
    out = []
    if kind in ('n', 'n1', 'i', 'j', 'k'):
        lo = {'n': 0, 'n1': 1, 'i': -10**9, 'j': 1, 'k': -10**9}[kind]
        hi = 4 if kind == 'j' else (200 if kind in ('n', 'n1') else 10**6)
        vals = [v for v in ints if lo <= v <= hi]
        if kind == 'k':
            vals = [0, 1, -1, 2, -2, 5]
        return [K.I(v) for v in vals]
    if kind in ('u', 'u01', 'q'):
        cand = [(0, 1), (1, 2), (-1, 2), (1, 4), (3, 4), (-3, 4), (1, 8), (7, 8), (1, 16), (1, 1024), (1, 1), (-1, 1)]
        if kind == 'u01':
            cand = [c for c in cand if c[0] > 0 and c != (1, 1)]
        if kind == 'q':
            cand = [c for c in cand if abs(c[0]) < c[1]]
        for n, d in cand:
            if d == 1:
                out += [K.I(n), K.R(_frac_raw(n, 1))]
            else:
                out.append(K.R(_frac_raw(n, d)))
        return out
    if kind == 'tau':
        one = Q.canon(0, 1, 0)
        return [K.C(Q.fzero, one), K.C(Q.fzero, Q.canon(0, 1, 1)), K.C(one, one), K.C(Q.canon(0, 1, -1), Q.canon(0, 1, -1)),
                K.C(Q.fzero, Q.canon(0, 3, -1)), K.C(Q.canon(1, 1, -1), Q.canon(0, 3, 0))]
    pos = kind in ('p',)
    for v in ints:
        if pos and v <= 0:
            continue
        out.append(K.I(v))
        out.append(K.R(Q.canon(1 if v < 0 else 0, abs(v), 0)))
    for n, d in fracs:
        if pos and n <= 0:
            continue
        out.append(K.R(_frac_raw(n, d)))
    if kind in ('z', 'a', 'm', 'o'):
        one = Q.canon(0, 1, 0)
        out += [K.C(Q.fzero, one), K.C(one, one), K.C(Q.canon(0, 3, 0), Q.canon(1, 1, 2)), K.C(Q.canon(0, 1, -1), Q.canon(0, 1, -1)),
                K.C(Q.canon(0, 5, 0), Q.fzero)]
    return out


SMALL_SPECIALS = {'default': [K.I(0), K.I(1), K.I(2), K.I(3), K.R(Q.canon(0, 1, -1)), K.R(Q.canon(0, 3, -1)), K.I(-1), K.I(10),
                              K.R(Q.canon(0, 1, 1)), K.R(Q.canon(0, 1, -2))]}


def special_cases(name, r, budget):
    """argument spec lists with exact special values: the primary (last numeric) argument runs through the whole special
    list, the other arguments take small special values; list-shaped parameters come from the ordinary generator"""
    cat, shape = K.ENTRIES[name]
    kinds = shape.split()
    numeric = [i for i, k in enumerate(kinds) if '=' in k or k in ('z', 'x', 'x0', 'p', 'u', 'u01', 'q', 'm', 'a', 'o', 'n', 'n1', 'i',
                                                                   'j', 'k', 'tau')]
    if not numeric:
        return []
    prim = numeric[-1]
    cases = []

    def kind_of(k):
        return k.split('=')[1] if '=' in k else ('x' if k == 'x0' else k)

    def wrap(k, spec):
        return K.K(k.split('=')[0], spec) if '=' in k else spec
    pvals = special_values(kind_of(kinds[prim]))
    if len(pvals) > budget:
        # keep the spread: a seeded subset that always contains the extremes of the list order
        idx = sorted(r.sample(range(len(pvals)), budget))
        pvals = [pvals[i] for i in idx]
    base = K.gen_args(name, r, 53)
    for pv in pvals:
        args = []
        for i, k in enumerate(kinds):
            kk = kind_of(k)
            if i == prim:
                args.append(wrap(k, pv))
            elif i in numeric:
                vals = special_values(kk)
                small = [v for v in vals if (v[0] == 'I' and abs(v[1]) <= 10) or (v[0] == 'R' and v[1][3] <= 2 and abs(v[1][2]) <= 3)]
                args.append(wrap(k, r.choice(small or vals)))
            else:
                args.append(base[i])
        cases.append(args)
    return cases


def run_special_cell(env, r, name, p, specs, variant):
    """one call with exact special arguments (same predicate; `variant` as in run_function_cell)"""
    mp, rec, mon = env.mp, env.rec, env.mon
    status = status_of(name)
    cat = K.ENTRIES[name][0]
    f = getattr(mp, name)
    kw = {}
    ctxprec = p
    if variant == 'kw':
        ctxprec = 120 if p < 60 else 30
        kw = r.choice([{'prec': p}, {'prec': p, 'rounding': r.choice(G.MODES)}, {'dps': max(1, int(p / 3.33) - 1)}])
    mp.prec = ctxprec
    try:
        args, kw2 = K.split_args(mp, specs)
    except Exception:
        return
    kw2.update(kw)
    pa = kw_precision(mp, kw, ctxprec)
    case = {'name': name, 'args': specs, 'kw': {k: repr(v) for k, v in kw.items()}, 'prec': pa, 'ctxprec': ctxprec, 'special': True}
    got = {}
    mon.on_outer = lambda ev: got.setdefault('ev', ev)
    if cat == 'constant':
        return
    try:
        with U.time_limit(env.cap / 2):
            res = f(*args, **kw2)
    except U.CaseTimeout:
        rec.event('calls cut by the CPU cap')
        rec.cls('cut-special/' + name)
        env.api_reset()
        return
    except Exception:
        rec.event('calls that raised (documented exceptions, domain errors)')
        env.api_reset()
        return
    finally:
        mp.prec = 53
        mon.on_outer = None
    if 'ev' not in got:
        rec.event('HARNESS: call not seen by the boundary wrapper')
        return
    st = status
    if status == 'convert':
        st = 'exempt' if type(args[0]).__name__ in EXEMPT_CONVERT_TYPES else 'assert'
    n, worst = mon.check(name, st, pa, res, case)
    rec.case(('special', name, repr(specs), repr(kw), pa), nontrivial=bool(n and st == 'assert'),
             cls='special/%s/%s/p%d%s' % (K.ENTRIES[name][0], st, p, '/kw' if kw else ''))
    if n:
        rec.cls('observed/' + name)
        rec.cls('observed-special/' + name)


OPS = ['add', 'sub', 'mul', 'div', 'pow', 'mod', 'radd', 'rsub', 'rmul', 'rdiv', 'rpow', 'neg', 'pos', 'abs', 'mpf', 'mpc',
       'mpf-kw', 'sqrt-method', 'cadd', 'csub', 'cmul', 'cdiv', 'cpow', 'cneg', 'cpos', 'cabs', 'cmix', 'conj-method', 'const']


def run_operator_case(env, r, i):
    mp, rec, mon = env.mp, env.rec, env.mon
    op = OPS[i % len(OPS)]
    p = PRECS[(i // len(OPS)) % 4]
    mult = BITMULT[(i // (len(OPS) * 4)) % 3]
    bits = _bits(p, mult)
    mp.prec = p

    def real(b=None, lo=-30, hi=30):
        return K.raw_rand(r, b or bits, lo, hi)

    def other(raw):
        """second operand: long mpf, short mpf, int, float, Fraction, mpq"""
        k = r.choice(['mpf', 'mpf', 'short', 'int', 'float', 'Fraction', 'mpq', 'bigint'])
        if k == 'mpf':
            return _mk(mp, raw), 'mpf'
        if k == 'short':
            return _mk(mp, real(r.choice([1, 3, p]))), 'mpf-short'
        if k == 'int':
            return r.choice([1, 2, 3, -7, 10, 255]), 'int'
        if k == 'bigint':
            return r.choice([-1, 1]) * G.mantissa(r, bits), 'bigint'
        if k == 'float':
            return r.choice([0.1, 1.5, -2.75, 1e10, 3.141592653589793]), 'float'
        q = Fraction(r.randint(1, 10**6) * r.choice([-1, 1]), r.randint(1, 10**6))
        if k == 'mpq':
            from mpmath.rational import mpq
            return mpq(q.numerator, q.denominator), 'mpq'
        return q, 'Fraction'
    a, b = real(), real()
    x = _mk(mp, a)
    z = mp.make_mpc((a, real()))
    w = mp.make_mpc((b, real()))
    case = {'op': op, 'a': a[:3], 'b': b[:3], 'prec': p, 'bits': bits}
    pa = p
    mon.begin(p)
    mon.api.depth = 1           # wrapped functions called from inside an operator (ctx.convert) are nested calls
    st = 'assert'
    try:
        with U.time_limit(env.cap):
            if op in ('add', 'sub', 'mul', 'div', 'mod'):
                y, ty = other(b)
                if op == 'mod' and ty in ('Fraction',):
                    y, ty = _mk(mp, b), 'mpf'
                case['types'] = ['mpf', ty]
                res = {'add': lambda: x + y, 'sub': lambda: x - y, 'mul': lambda: x * y, 'div': lambda: x / y,
                       'mod': lambda: x % y}[op]()
            elif op in ('radd', 'rsub', 'rmul', 'rdiv'):
                y, ty = other(b)
                while ty in ('mpf', 'mpf-short', 'Fraction'):
                    y, ty = other(b)
                case['types'] = [ty, 'mpf']
                res = {'radd': lambda: y + x, 'rsub': lambda: y - x, 'rmul': lambda: y * x, 'rdiv': lambda: y / x}[op]()
            elif op == 'pow':
                e = r.choice([2, 3, -1, -2, 7, 0.5, 1.5, _mk(mp, real(None, -2, 3)), Fraction(1, 3), 10, 1, 0])
                xx = _mk(mp, (0,) + real(None, -6, 6)[1:]) if not isinstance(e, int) else x
                case['exponent'] = repr(e)
                res = xx ** e
            elif op == 'rpow':
                e = _mk(mp, real(None, -3, 3))
                res = r.choice([2, 3, 0.5, 10]) ** e
            elif op == 'neg': res = -x
            elif op == 'pos': res = +x
            elif op == 'abs': res = abs(x)
            elif op == 'mpf':
                src = r.choice(['mpf', 'int', 'float', 'str', 'pair', 'Fraction', 'raw4'])
                case['src'] = src
                if src == 'mpf': res = mp.mpf(x)
                elif src == 'int': res = mp.mpf(G.mantissa(r, bits) << r.randint(0, 9))
                elif src == 'float': res = mp.mpf(r.random() * 1e5)
                elif src == 'str': res = mp.mpf('0.' + ''.join(r.choice('0123456789') for _ in range(bits // 3 + 2)) + '7')
                elif src == 'pair': res = mp.mpf((G.mantissa(r, bits), r.randint(-40, 40)))
                elif src == 'Fraction': res = mp.mpf(Fraction(G.mantissa(r, bits), G.mantissa(r, 40)))
                else:
                    m = G.mantissa(r, bits)
                    res = mp.mpf((0, m, -5, m.bit_length()))
            elif op == 'mpf-kw':
                mp.prec = {10: 200, 53: 15, 100: 30, 333: 64}[p]
                kw = r.choice([{'prec': p}, {'prec': p, 'rounding': r.choice(G.MODES)}, {'dps': max(1, int(p / 3.33) - 1)}])
                pa = kw_precision(mp, kw, mp.prec)
                mon.begin(pa)
                mon.api.depth = 1
                case['kw'] = repr(kw)
                case['prec'] = pa
                res = [mp.mpf(x, **kw), mp.mpf(G.mantissa(r, bits), **kw), mp.mpf('3.' + '1234567890' * (bits // 30 + 1), **kw),
                       mp.mpf((G.mantissa(r, bits), 3), **kw)]
                if 'dps' not in kw:
                    res.append(mp.mpc(x, **kw) if False else mp.mpf(Fraction(1, 3), **kw))
            elif op == 'mpc':
                src = r.choice(['mpc', 'pair', 'complex', 'mpf', 'str', 'ints'])
                case['src'] = src
                if src == 'mpc': res = mp.mpc(z)
                elif src == 'pair': res = mp.mpc(x, _mk(mp, b))
                elif src == 'complex': res = mp.mpc(complex(r.random(), r.random()))
                elif src == 'mpf': res = mp.mpc(x)
                elif src == 'str': res = mp.mpc('0.' + '3' * (bits // 3 + 2), '1.' + '6' * (bits // 3 + 2))
                else: res = mp.mpc(G.mantissa(r, bits), G.mantissa(r, bits))
            elif op == 'sqrt-method':
                xx = _mk(mp, (0,) + a[1:])
                res = [xx.sqrt(), (-xx).sqrt() if False else xx.sqrt()]
            elif op in ('cadd', 'csub', 'cmul', 'cdiv'):
                res = {'cadd': lambda: z + w, 'csub': lambda: z - w, 'cmul': lambda: z * w, 'cdiv': lambda: z / w}[op]()
            elif op == 'cpow':
                e = r.choice([2, 3, -1, 5, 0.5, _mk(mp, real(None, -2, 2)), w if abs(b[2] + b[3]) < 3 else 2, 1, 0])
                case['exponent'] = repr(e)
                zz = mp.make_mpc((real(None, -4, 4), real(None, -4, 4)))
                res = zz ** e
            elif op == 'cneg': res = -z
            elif op == 'cpos': res = +z
            elif op == 'cabs': res = abs(z)
            elif op == 'conj-method':
                st = 'note'
                res = z.conjugate()
            elif op == 'cmix':
                y, ty = other(b)
                case['types'] = ['mpc', ty]
                which = r.choice(['add', 'sub', 'mul', 'div', 'radd', 'rsub', 'rmul', 'rdiv'])
                case['which'] = which
                res = {'add': lambda: z + y, 'sub': lambda: z - y, 'mul': lambda: z * y, 'div': lambda: z / y,
                       'radd': lambda: y + z, 'rsub': lambda: y - z, 'rmul': lambda: y * z, 'rdiv': lambda: y / z}[which]()
            else:   # const: unary plus / arithmetic on the lazy constants
                c = getattr(mp, r.choice(K.names('constant')))
                res = [+c, -c, c + 1, c * x, abs(c), 2 / c]
    except U.CaseTimeout:
        rec.event('calls cut by the CPU cap')
        env.api_reset()
        return
    except Exception as e:
        rec.cls('raised-op/' + op)
        env.api_reset()
        return
    finally:
        mp.prec = 53
        mon.api.depth = 0
    n, worst = mon.check('operator:' + op if op not in ('mpf', 'mpc', 'mpf-kw') else 'constructor:' + op, st, pa, res, case)
    mon.cur_p = None
    rec.case(('op', op, repr(case)), nontrivial=bool(n and bits > pa), cls='op/%s/p%d/%s' % (op, p, mult))
    if n:
        rec.cls('observed-op/' + op)


# deterministic probes: one witness per suspected mechanism of DESIGN section 3/C10 F, run on every seed so that a
# known finding is met (or found repaired) on every seed alike
def probes(mp):
    mpf, mpc = mp.mpf, mp.mpc
    L = []

    def add(label, p, f, opname=None):
        L.append((label, p, f, opname))
    add('x % y (mpf_mod early return)', 53, lambda: mp.make_mpf((0, (1 << 200) + 1, -210, 201)) % mpf(3), 'operator:mod')
    add('fmod(long x, 3)', 53, lambda: mp.fmod(mp.make_mpf((0, (1 << 200) + 1, -210, 201)), 3))
    add('cbrt(mpc)', 53, lambda: mp.cbrt(mpc(2, 3)))
    add('root(mpc, 5)', 53, lambda: mp.root(mpc(2, 3), 5))
    add('atanh(mpc)', 53, lambda: mp.atanh(mpc(0.25, 0.5)))
    add('atanh(1.1) complex result', 53, lambda: mp.atanh(mpf('1.1')))
    add('digamma(mpc)', 53, lambda: mp.digamma(mpc(1, 1)))
    add('harmonic(mpc)', 53, lambda: mp.harmonic(mpc(1, 1)))
    add('digamma(3)', 53, lambda: mp.digamma(3))
    add('psi(0, 3)', 53, lambda: mp.psi(0, 3))
    add('agm(mpc, 1)', 53, lambda: mp.agm(mpc(1, 2), 1))
    add('agm(2, 3)', 53, lambda: mp.agm(2, 3))
    add('besselj(0, 2.5)', 53, lambda: mp.besselj(0, 2.5))
    add('j0(2.5)', 53, lambda: mp.j0(2.5))
    add('j1(2.5)', 53, lambda: mp.j1(2.5))
    add('zeta(0.5+1e5j)', 53, lambda: mp.zeta(mpc(0.5, 100000)))
    add('jtheta(1, 0.25, 0.1)', 53, lambda: mp.jtheta(1, 0.25, 0.1))
    add('jtheta(3, 0.5+0.25j, 0.2)', 53, lambda: mp.jtheta(3, mpc(0.5, 0.25), 0.2))
    add('elliprg(1, 2, 3)', 53, lambda: mp.elliprg(1, 2, 3))
    add('hyp1f1(1, 2.5, 100000)', 53, lambda: mp.hyp1f1(1, 2.5, -100000))
    add('hyp1f2 asymptotic', 53, lambda: mp.hyp1f2(1, 2.5, 1.5, 1000000))
    add('hyp2f2 asymptotic', 53, lambda: mp.hyp2f2(1, 2, 2.5, 1.5, -100000))
    add('hyp2f3 asymptotic', 53, lambda: mp.hyp2f3(1, 2, 2.5, 1.5, 0.75, 10000000))
    add('hyperu(2, 3.5, 100000)', 53, lambda: mp.hyperu(2, 3.5, 100000))
    add('gammainc(1, 5)', 53, lambda: mp.gammainc(1, 5))
    add('qp(0.25, 0.5)', 53, lambda: mp.qp(0.25, 0.5))
    add('bernoulli(10) at 3325 bits', 3325, lambda: mp.bernoulli(10))
    add('fadd(mpc, real)', 53, lambda: mp.fadd(mp.make_mpc(((0, (1 << 200) + 1, -210, 201), (0, (1 << 200) + 1, -210, 201))), 1))
    add('mpc + real operator', 53, lambda: mp.make_mpc(((0, (1 << 200) + 1, -210, 201), (0, (1 << 200) + 1, -210, 201))) + 1,
        'operator:cmix')
    return L


def run_probes(env):
    mp, rec, mon = env.mp, env.rec, env.mon
    for label, p, f, opname in probes(mp):
        mp.prec = p
        case = {'probe': label, 'prec': p}
        got = {}
        mon.on_outer = lambda ev: got.setdefault('ev', ev)
        mon.begin(p)
        if opname:
            mon.api.depth = 1
        try:
            with U.time_limit(10):
                res = f()
        except U.CaseTimeout:
            rec.event('calls cut by the CPU cap')
            env.api_reset()
            continue
        except Exception as e:
            rec.note('probe raised', {'probe': label, 'exc': repr(e)})
            env.api_reset()
            continue
        finally:
            mp.prec = 53
            mon.on_outer = None
            mon.api.depth = 0
        name = opname or (got['ev']['name'] if 'ev' in got else label)
        n, worst = mon.check(name, 'assert', p, res, case)
        mon.cur_p = None
        rec.case(('probe', label), True, cls='probe/' + ('excess' if worst else 'rounded'))
        rec.note('probes (bits over precision)', {label: worst}, cap=64)


def make_env(rec, tier, tap=True):
    import mpmath
    env = Env()
    env.rec, env.tier = rec, tier
    env.mp = mpmath.mp
    env.cap = CALL_CAP.get(tier, 1.0)
    env.t0 = time.process_time()
    env.budget = SHARD_CPU_BUDGET.get(tier, 200)
    env.over = lambda: time.process_time() - env.t0 > env.budget
    env.nsamples = 0
    env.mon = BitMonitor(mpmath, rec).attach(wrapped_names(), tap=tap)

    def api_reset():
        env.mon.api.depth = 0
        env.mon.cur_p = None
        env.mp.prec = 53
    env.api_reset = api_reset
    return env


def cells():
    out = []
    for p in PRECS:
        for mult in BITMULT:
            for real_only in (False, True):
                out.append((p, mult, real_only))
    return out


def run_shard(shard, rec):
    if shard.get('kind') == 'suite':
        return run_suite_shard(shard, rec)
    r = G.rng(PROP, shard['seed'], shard['shard'])
    tier = shard['tier']
    env = make_env(rec, tier)
    mp = env.mp
    s = shard['shard']
    names = driven_names()
    CELLS = cells()
    try:
        if s == 0:
            bad = K.consistency(mp)
            rec.note('catalog.consistency(mp)', bad or 'empty')
            if bad:
                rec.undecided('catalog is not consistent with the public callables of mp', bad)
            run_probes(env)
        for fi, name in enumerate(names):
            if env.over():
                rec.undecided('shard CPU budget exhausted before all cells were run', {'at': 'function cells', 'function': name})
                break
            for ci, (p, mult, real_only) in enumerate(CELLS):
                if (fi + ci) % N_SHARDS != s:
                    continue
                if K.ENTRIES[name][0] == 'constant' and (mult != '2p' or real_only):
                    continue
                for d in range(DRAWS[tier]):
                    run_function_cell(env, r, name, p, mult, real_only, 'ctx')
                f = getattr(mp, name)
                if _accepts_prec(f) or name in ('fadd', 'fsub', 'fmul', 'fdiv', 'fneg') or K.ENTRIES[name][0] == 'constant':
                    run_function_cell(env, r, name, p, mult, real_only, 'kw')
                    if name in ('fadd', 'fsub', 'fmul', 'fneg') and mult == '2p':
                        run_function_cell(env, r, name, p, mult, real_only, 'exact')
        # exact special arguments: every function; precision p handled by shard (fi + pi) % 16
        sbudget = SPECIAL_BUDGET[tier]
        for fi, name in enumerate(names):
            if env.over():
                rec.undecided('shard CPU budget exhausted before all cells were run', {'at': 'special arguments', 'function': name})
                break
            if K.ENTRIES[name][0] == 'constant':
                continue
            f = getattr(mp, name)
            kwok = _accepts_prec(f) or name in ('fadd', 'fsub', 'fmul', 'fdiv', 'fneg')
            for pi, p in enumerate(SPECIAL_PRECS):
                if (fi + 3 * pi) % N_SHARDS != s:
                    continue
                cases = special_cases(name, r, sbudget)
                t0 = time.process_time()
                for j, specs in enumerate(cases):
                    if time.process_time() - t0 > 6 * env.cap:
                        rec.event('special-argument sweeps cut short (function too slow)')
                        break
                    run_special_cell(env, r, name, p, specs, 'kw' if (kwok and j % 3 == 2) else 'ctx')
        n = OPCASES[tier]
        for i in range(n):
            if i % 64 == 0 and env.over():
                rec.undecided('shard CPU budget exhausted before all cells were run', {'at': 'operators', 'done': i})
                break
            run_operator_case(env, r, i * N_SHARDS + s)
    finally:
        mon = env.mon
        rec.event('wrapped calls seen at outermost depth', mon.calls_outer)
        rec.event('wrapped calls seen nested (not asserted)', mon.calls_nested)
        rec.event('result parts inspected (non-zero)', mon.checked_parts)
        # per-function observability: a function with 'unobserved-in-shard/<name>' == number of shards was never observed
        # (inconclusive for that function); every shard drives every function at some of its cells
        for name in names:
            if not any(rec.classes.get(k + name) for k in ('observed/', 'observed-nonnumeric/', 'observed-zero-or-special/')):
                rec.cls('unobserved-in-shard/' + name)
        mon.detach()


def run_suite_shard(shard, rec):
    res = U.run_suite('C10', timeout=1200, nproc=4)
    rec.note('repo test-suite run', {'status': res['status'], 'returncode': res['returncode'], 'wall': res.get('wall'),
                                     'tail': res['tail'][-200:]})
    outer = parts = tests = 0
    for d in res['results']:
        outer += d.get('calls_outer', 0)
        parts += d.get('checked_parts', 0)
        tests += d.get('tests', 0)
        for key, ent in d.get('viol', {}).items():
            for it in ent['items']:
                rec.violation(key, it['what'] + ' [repo test-suite workload]', it['case'], observed=it['observed'],
                              expected=it['expected'], severity=it.get('severity'))
            extra = ent['count'] - len(ent['items'])
            if extra > 0 and key in rec.viol:
                rec.viol[key]['count'] += extra
        for k, v in d.get('notes', {}).items():
            for it in v[:2]:
                rec.note('suite: ' + k, it, cap=3)
        for name, n in d.get('per_function', {}).items():
            rec.cls('suite-observed/' + name, n)
    rec.event('suite wrapped calls seen at outermost depth', outer)
    rec.event('suite result parts inspected', parts)
    rec.event('suite tests executed under the monitor', tests)
    for t in range(tests):
        rec.case(('suite-test', t), True, cls='suite/test')
    if not tests:
        rec.undecided('repo test-suite workload produced no monitored test (%s)' % res['status'], res['tail'][-300:])


class _Sink(object):
    """recorder stand-in used inside the pytest plugin process"""

    def __init__(self):
        self.viol = {}
        self.notes = {}
        self.maxima = {}

    def violation(self, key, what, case, observed=None, expected=None, severity=None):
        ent = self.viol.setdefault(key, {'count': 0, 'items': []})
        ent['count'] += 1
        if len(ent['items']) < 3:
            ent['items'].append({'what': what, 'case': case, 'observed': observed, 'expected': expected, 'severity': severity})

    def note(self, name, obj, cap=20):
        lst = self.notes.setdefault(name, [])
        if len(lst) < cap:
            lst.append(obj)

    def maximum(self, name, value, witness=None):
        if name not in self.maxima or value > self.maxima[name]:
            self.maxima[name] = value


class SuiteMonitor(object):
    """the same boundary monitor driven by the repository's tests (vf/pytest_monitor.py)"""

    def __init__(self, mpmath_module):
        self.sink = _Sink()
        self.mon = BitMonitor(mpmath_module, self.sink)
        self.mp = mpmath_module.mp
        self.per_function = collections.Counter()
        self.test = None

    def attach(self):
        self.mon.attach(wrapped_names(), tap=True)
        self.mon.on_outer = self._outer
        return self

    def detach(self):
        self.mon.detach()

    def begin(self, case):
        self.test = case.get('test')
        self.mon.api.depth = 0

    def _outer(self, ev):
        name = ev['name']
        st = status_of(name)
        if st == 'convert':
            a0 = ev['args'][0] if ev['args'] else None
            st = 'exempt' if type(a0).__name__ in EXEMPT_CONVERT_TYPES else 'assert'
        try:
            p = kw_precision(self.mp, ev['kwargs'], ev['before'])
        except Exception:
            return
        if p is None:
            st = 'exempt'
        case = {'test': self.test, 'name': name, 'args': repr(ev['args'])[:300], 'kw': repr(ev['kwargs'])[:100], 'prec': p}
        n, worst = self.mon.check(name, st, p, ev['result'], case)
        if n:
            self.per_function[name] += 1

    def summary(self):
        return {'viol': self.sink.viol, 'notes': self.sink.notes, 'maxima': self.sink.maxima,
                'calls_outer': self.mon.calls_outer, 'checked_parts': self.mon.checked_parts,
                'per_function': dict(self.per_function)}


def required(agg, tier):
    miss = []
    ev = agg['events']
    if not ev.get('wrapped calls seen at outermost depth'):
        miss.append('boundary wrappers saw no outermost call')
    if ev.get('HARNESS: call not seen by the boundary wrapper'):
        miss.append('%d driven calls bypassed the boundary wrappers' % ev['HARNESS: call not seen by the boundary wrapper'])
    cl = agg['classes']
    seen = set(k.split('/', 1)[1] for k in cl if k.startswith('observed/') or k.startswith('observed-nonnumeric/')
               or k.startswith('observed-zero-or-special/'))
    bycat = collections.defaultdict(lambda: [0, 0])
    for n in driven_names():
        if status_of(n) != 'assert':
            continue
        c = K.ENTRIES[n][0]
        bycat[c][1] += 1
        if n in seen:
            bycat[c][0] += 1
    for c, (a, b) in sorted(bycat.items()):
        if b and not a:
            miss.append('no function of category %s was observed' % c)
    for op in ('add', 'sub', 'mul', 'div', 'pow', 'mod', 'neg', 'pos', 'abs', 'mpf', 'mpc', 'cadd', 'cmul', 'cdiv'):
        if not cl.get('observed-op/' + op):
            miss.append('operator / constructor %s never observed' % op)
    return miss


def unobserved(agg):
    cl = agg['classes']
    seen = set(k.split('/', 1)[1] for k in cl if k.startswith('observed'))
    return [n for n in driven_names() if n not in seen]


def replay(case, rec):
    """re-executes one recorded call: function cases carry (name, argument specs, kwargs, precision)"""
    import mpmath
    mp = mpmath.mp
    c = case.get('case') or {}
    env = make_env(rec, case.get('tier', 'quick'))
    try:
        if 'probe' in c:
            for label, p, f, opname in probes(mp):
                if label == c['probe']:
                    mp.prec = p
                    env.mon.begin(p)
                    env.mon.api.depth = 1
                    res = f()
                    mp.prec = 53
                    env.mon.api.depth = 0
                    env.mon.check(opname or label.split('(')[0], 'assert', p, res, c)
                    rec.case(('probe', label), True)
            return
        if 'name' in c and 'args' in c:
            from vf.core import unjson_int

            def spec(s):
                k = s[0]
                if k == 'I': return ('I', unjson_int(s[1]))
                if k == 'R': return ('R', tuple(unjson_int(v) for v in s[1]))
                if k == 'C': return ('C', tuple(unjson_int(v) for v in s[1]), tuple(unjson_int(v) for v in s[2]))
                if k == 'S': return ('S', s[1])
                if k == 'L': return ('L', [spec(x) for x in s[1]])
                if k == 'K': return ('K', s[1], spec(s[2]))
                raise ValueError(s)
            specs = [spec(s) for s in c['args']]
            kw = {}
            for k, v in (c.get('kw') or {}).items():
                kw[k] = {'True': True, 'mpf(\'+inf\')': mp.inf}.get(v, None)
                if kw[k] is None:
                    try:
                        kw[k] = int(v)
                    except ValueError:
                        kw[k] = v.strip("'")
            mp.prec = c.get('ctxprec', c.get('prec', 53))
            args, kw2 = K.split_args(mp, specs)
            kw2.update(kw)
            pa = kw_precision(mp, kw, mp.prec)
            env.mon.begin(pa)
            res = getattr(mp, c['name'])(*args, **kw2)
            mp.prec = 53
            st = status_of(c['name'])
            env.mon.check(c['name'], 'assert' if st in ('assert', 'convert') else st, pa, res, c)
            rec.case(('replay', c['name']), True)
            return
        rec.undecided('replay of operator cases: re-run the seeded shard (cases are regenerated from the seed)')
    finally:
        env.mon.detach()
