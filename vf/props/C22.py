"""C22 -- hypergeometric functions and orthogonal polynomials: relative error (in modulus) below 2^(8-p) where the function
is defined; terminating series with rational parameters are evaluated exactly up to rounding.

Observed: the value returned by the public function for exact arguments / parameters at precision p.
Oracles: (1) exact: terminating pFq sums and orthogonal polynomials of integer degree with rational parameters are
computed in Fraction (term recurrence / three-term recurrences / explicit binomial formula -- no library code) and
the returned dyadic value is compared exactly; (2) consensus reference of the specfun engine elsewhere."""
import math
from fractions import Fraction
from vf import specfun as S
from vf import specfun_k as K
from vf import refmodel
from vf.specfun import args as A, real_in, complex_in, near, integer, half_integer, choice
from vf.specfun_k import HP, RG, Custom, dyadic, near_int, near_half_int, near_npint, polar, polar_log, uniform, uniform_bits, \
    one_of, flat, coincident, avoid_npint
from vf.catalog import R, C, I, raw_from_float, canon, raw_rand

PROP = 'C22'


def KEYMAP(key):
    """Known-finding granularity for C22 is (function, failure kind) instead of the ~500 argument cells: a 22-seed sweep of the
    unchanged tree kept producing genuine failures in new cells of the same functions (hyp2f1/hyp3f2/hyp2f0/hyper2d/appellf1 in
    degenerate parameter cells, orthogonal polynomials at special points, parabolic cylinder functions), i.e. the defects are
    per-function weaknesses, not per-cell accidents.  The cell stays in the witness as `fine_key`; a failure worse than the
    recorded ceiling of its (function, kind) is still reported as new."""
    parts = key.split('/')
    last = parts[-1]
    kind = last if (last.startswith('raises-') or last == 'non-finite-result') else 'accuracy'
    return 'C22/%s/%s' % (parts[1], kind)
LEVEL = 'exploration'
NEEDS_REF = True
RULE = ('stratified cells (function x parameter/argument regime fixed a priori, label = mechanism key) x precision list; '
        'concrete values from the seeded rng; non-trivial = compared with an exact Fraction value or a finite two-source '
        'reference value; distinct = (function, regime, parameters, argument, prec)')
ASSUMPTIONS = ['exact cells: Python Fraction arithmetic; the returned mpf is read as the exact dyadic rational it denotes',
               'other cells: consensus reference: mpmath 1.3.0 at p+64 and 2p+200 bits and the tree at 3p+300 bits agree to 2^-(p+32)']
LEVEL_TEXT = ('exploration: ~4*10^3 (quick) / ~10^5 (thorough) evaluations over ~330 a-priori cells (parameters: integer, '
              'rational, real, complex, next to non-positive integers, near-coincident pairs; arguments: inside / on / outside '
              'the unit disk incl. the neighbourhood of exp(+-i pi/3), both sides of each series/asymptotic switch); '
              'terminating series decided exactly in Fraction, the rest against a two-source reference')
LEVEL_NOTE = ('trusted base: Fraction arithmetic (exact cells); released mpmath 1.3.0 + the tree at 3p+300 bits as consensus '
              '(a defect shared by both at all precisions is invisible); inputs not generated are not covered')
TECHNIQUE = 'runtime reference-model monitor: exact rational oracle for terminating series, consensus oracle otherwise'
SHARD_TIMEOUT = {'quick': 2400, 'thorough': 6000}
CASES = {'quick': 400, 'thorough': 8000}
BUDGET = {'quick': 50, 'thorough': 420}
NSHARDS = 16
WALL = {'quick': 1100, 'thorough': 3600}          # wall-clock safety net per shard (the budget itself is CPU time)
HV = dict(heavy=True)

# ---- parameter generators ------------------------------------------------------------------------
p_int = integer(1, 12)
p_anyint = integer(-8, 12)
p_half = half_integer(-6, 8)
p_rat = dyadic(-40, 40, 3)
p_prat = dyadic(1, 40, 3)
p_real = real_in(-3, 3)
p_preal = real_in(-3, 3, 0)
p_cplx = complex_in(-2, 3)
p_nnp = near_npint(5, 6, 60)
p_gen = one_of(p_rat, p_real, p_half)
p_low = avoid_npint(p_gen)                     # lower parameters: not at a pole
p_gpos = one_of(p_prat, p_preal)
p_big = real_in(4, 8)

z_in = uniform_bits(-0.8, 0.8)
z_small = real_in(-40, -4)
z_cin = polar(0.05, 0.8)
z_mod = one_of(uniform_bits(-30.0, 30.0), real_in(-2, 5))
z_pos = uniform_bits(0.05, 30.0)
z_neg = uniform_bits(-30.0, -0.05)
z_cmod = one_of(polar(0.3, 30.0), complex_in(-2, 5))


def kw(**k):
    return k


# ---- exact oracle (terminating series, rational parameters) -------------------------------------------

def exact_pfq(a_s, b_s, z):
    """sum_{k=0}^{n} prod (a)_k / prod (b)_k z^k / k!  in Fraction;  n = smallest |non-positive integer upper parameter|"""
    n = min(-a for a in a_s if a.denominator == 1 and a <= 0)
    s = t = Fraction(1)
    for k in range(int(n)):
        for a in a_s:
            t *= (a + k)
        for b in b_s:
            t /= (b + k)
        t = t * z / (k + 1)
        s += t
    return s


def gbinom(r, k):
    v = Fraction(1)
    for i in range(k):
        v = v * (r - i) / (i + 1)
    return v


def exact_poly(name, n, pars, x):
    """orthogonal polynomials of integer degree by their three-term recurrences / explicit sums (independent of 2F1 forms);
    negative degrees through the reflections P_-n-1 = P_n, T_-n = T_n, U_-n-2 = -U_n (U_-1 = 0)"""
    if n < 0:
        if name == 'legendre':
            return exact_poly(name, -n - 1, pars, x)
        if name == 'chebyt':
            return exact_poly(name, -n, pars, x)
        if name == 'chebyu':
            return Fraction(0) if n == -1 else -exact_poly(name, -n - 2, pars, x)
        raise ValueError('no polynomial reflection for negative degree of ' + name)
    if name == 'legendre':
        p0, p1 = Fraction(1), x
        if n == 0:
            return p0
        for k in range(1, n):
            p0, p1 = p1, ((2 * k + 1) * x * p1 - k * p0) / (k + 1)
        return p1
    if name in ('chebyt', 'chebyu'):
        p0, p1 = Fraction(1), (x if name == 'chebyt' else 2 * x)
        if n == 0:
            return p0
        for k in range(1, n):
            p0, p1 = p1, 2 * x * p1 - p0
        return p1
    if name == 'hermite':
        p0, p1 = Fraction(1), 2 * x
        if n == 0:
            return p0
        for k in range(1, n):
            p0, p1 = p1, 2 * x * p1 - 2 * k * p0
        return p1
    if name == 'laguerre':
        a, = pars
        p0, p1 = Fraction(1), 1 + a - x
        if n == 0:
            return p0
        for k in range(1, n):
            p0, p1 = p1, ((2 * k + 1 + a - x) * p1 - (k + a) * p0) / (k + 1)
        return p1
    if name == 'gegenbauer':
        a, = pars
        p0, p1 = Fraction(1), 2 * a * x
        if n == 0:
            return p0
        for k in range(1, n):
            p0, p1 = p1, (2 * (k + a) * x * p1 - (k + 2 * a - 1) * p0) / (k + 1)
        return p1
    if name == 'jacobi':
        a, b = pars
        u, v = (x - 1) / 2, (x + 1) / 2
        return sum(gbinom(n + a, n - s) * gbinom(n + b, s) * u ** s * v ** (n - s) for s in range(n + 1))
    raise ValueError(name)


def mpf_fraction(v):
    """exact Fraction of a returned real value (mpf, or mpc with zero imaginary part); None otherwise"""
    if hasattr(v, '_mpc_'):
        if v._mpc_[1][1] != 0 or v._mpc_[1][2] != 0:
            return None
        raw = v._mpc_[0]
    elif hasattr(v, '_mpf_'):
        raw = v._mpf_
    elif isinstance(v, int):
        return Fraction(v)
    else:
        return None
    s, m, e, bc = raw
    if not m and e:
        return None
    m = int(m)
    return Fraction(-m if s else m) * Fraction(2) ** e


def _mk_param(mp, q, form):
    """a rational as the library accepts it: int, (p,q) tuple ('Q' type), or exact mpf when dyadic"""
    if q.denominator == 1 and form != 'mpf':
        return int(q)
    if form == 'mpf' and q.denominator & (q.denominator - 1) == 0:
        return mp.mpf(q.numerator) / q.denominator
    return (q.numerator, q.denominator)


def _rand_rational(r, lo, hi, dens, positive=False, avoid_npint=False):
    while True:
        d = r.choice(dens)
        n = r.randint(lo * d, hi * d)
        q = Fraction(n, d)
        if positive and q <= 0:
            continue
        if avoid_npint and q.denominator == 1 and q <= 0:
            continue
        return q


def _rand_dyadic_z(r, bits, lo, hi):
    x = lo + (hi - lo) * r.random()
    m, e = math.frexp(x)
    bits = max(2, min(bits, 200))
    mant = int(abs(m) * (1 << bits)) | 1
    return Fraction(-mant if x < 0 else mant, 1 << bits) * Fraction(2) ** e


def exact_check(tree_mp, rec, prop, fname, label, p, call, exact, case):
    """compare the value returned by call() at precision p with the exact Fraction"""
    ident = (fname, label, repr(case.get('params')), case.get('z'), p)
    cls = '%s/%s' % (fname, label)
    key = '%s/%s/%s' % (prop, fname, label)
    case = dict(case, function=fname, regime=label, prec=p)
    old = tree_mp.prec
    tree_mp.prec = p
    try:
        try:
            val = call(tree_mp)
        except S.Timeout:
            raise
        except Exception as e:
            rec.case(ident, True, cls)
            rec.violation(key + '/raises-' + type(e).__name__, '%s raises %s at prec %d for a terminating series with rational '
                          'parameters (exact value %s)' % (fname, type(e).__name__, p, str(float(exact))), case, observed=repr(e)[:200],
                          expected=str(exact)[:60])
            return 'violated'
    finally:
        tree_mp.prec = old
    got = mpf_fraction(val)
    rec.case(ident, True, cls)
    rec.sample(case)
    rec.event('results compared with an exact Fraction value')
    if got is None:
        try:
            nonfinite = not tree_mp.isfinite(val)
        except Exception:
            nonfinite = False
        if nonfinite:
            # inf / nan for a polynomial value that exists (exact Fraction): unbounded relative error
            rec.violation(key + '/non-finite-result', '%s returns %s at prec %d for a terminating series with rational parameters '
                          '(exact value %s)' % (fname, str(val)[:20], p, str(float(exact))), case, observed=str(val)[:60], expected='%.30g' % float(exact))
            return 'violated'
        rec.undecided('non-real result for a real terminating series', case)
        return 'undecided'
    if exact == 0:
        if got == 0:
            return 'held'
        if case.get('z') in ([0, 1], [1, 1], [-1, 1]):
            # structural zero of the polynomial at 0 / +-1: only 0 has a bounded relative error
            rec.violation(key + '/nonzero-at-structural-zero', '%s returns %s at prec %d where the polynomial is exactly 0' % (fname, str(val)[:30], p),
                          case, observed=str(val)[:60], expected='0')
            return 'violated'
        rec.undecided('exact value is zero', case)
        return 'undecided'
    err = abs(got - exact) / abs(exact) * (1 << p)            # exact, in units of 2^-p
    ferr = float(err) if err < 10 ** 300 else float('inf')
    rec.maximum('exact_err_units/' + fname, ferr, case)
    rec.maximum('exact_err_units(all terminating series)', ferr, case)
    if err >= (1 << 8):
        sev = round(math.log2(ferr) - 8, 2) if ferr < float('inf') else 1e9
        rec.violation(key, '%s: terminating series with rational parameters: error %.3g * 2^-p exceeds 2^(8-p) at prec %d (exact Fraction oracle)'
                      % (fname, ferr, p), case, observed=str(val)[:80], expected='%.30g' % float(exact), severity=sev)
        return 'violated'
    if err > Fraction(3, 4):
        rec.event('terminating series: result not within 0.75 ulp-units (still inside 2^(8-p))')
    return 'held'


def _fmt_q(q):
    return [q.numerator, q.denominator]


def make_pfq_cell(fname, label, nup, nlow, nlo, nhi, zlo, zhi, dens=(1, 2, 3, 4, 5, 7, 8), form='tuple', via=None, heavy=False,
                  precs=None):
    """terminating pFq(-n, a2..; b1..; z) with rational parameters.  via: how the library is called"""
    def build(r, bits):
        n = r.randint(nlo, nhi)
        a_s = [Fraction(-n)] + [_rand_rational(r, -6, 8, dens, avoid_npint=True) for _ in range(nup - 1)]
        b_s = [_rand_rational(r, -6, 8, dens, avoid_npint=True) for _ in range(nlow)]
        z = _rand_dyadic_z(r, bits, zlo, zhi)
        return a_s, b_s, z

    def run(tree_mp, rec, prop, p, a_s, b_s, z, frm):
        exact = exact_pfq(a_s, b_s, z)
        case = {'params': [[_fmt_q(a) for a in a_s], [_fmt_q(b) for b in b_s]], 'z': _fmt_q(z), 'form': frm}

        def call2(mp):
            # build the argument exactly at a high precision, evaluate at p
            pp = mp.prec
            mp.prec = 2000
            try:
                zz = mp.mpf(z.numerator) / z.denominator
                aa = [_mk_param(mp, a, frm) for a in a_s]
                bb = [_mk_param(mp, b, frm) for b in b_s]
            finally:
                mp.prec = pp
            if via is None:
                return mp.hyper(aa, bb, zz)
            return getattr(mp, via)(*(aa + bb + [zz]))
        return exact_check(tree_mp, rec, prop, fname, label, p, call2, exact, case)

    def check(tree_mp, rec, r, p, bits, cell):
        a_s, b_s, z = build(r, bits)
        frm = form if form != 'mixed' else r.choice(['tuple', 'mpf'])
        return run(tree_mp, rec, cell[0], p, a_s, b_s, z, frm)

    def rp(tree_mp, rec, c, cell):
        a_s = [Fraction(*q) for q in c['params'][0]]
        b_s = [Fraction(*q) for q in c['params'][1]]
        from vf.core import unjson_int
        z = Fraction(unjson_int(c['z'][0]), unjson_int(c['z'][1]))
        return run(tree_mp, rec, cell[0], c['prec'], a_s, b_s, z, c.get('form', 'tuple'))
    cell = Custom('exact/' + label, check, heavy=heavy, precs=precs, tmax=8)
    cell.replay = rp
    return cell


def make_poly_cell(fname, label, npar, nlo, nhi, xlo, xhi, par_lo=-3, par_hi=6, dens=(1, 2, 4, 8, 16), positive_par=False,
                   heavy=False, par_gt=None, xgen=None, weight=1):
    """orthogonal polynomial of integer degree, dyadic rational parameters passed as exact mpf (these functions convert their
    parameters with ctx.convert, which does not take (p, q) tuples), dyadic argument"""
    def run(tree_mp, rec, prop, p, n, pars, x, frm):
        exact = exact_poly(fname, n, pars, x)
        case = {'params': [[n, 1]] + [_fmt_q(a) for a in pars], 'z': _fmt_q(x), 'form': frm}

        def call(mp):
            pp = mp.prec
            mp.prec = 2000
            try:
                xx = mp.mpf(x.numerator) / x.denominator
                aa = [_mk_param(mp, a, frm) for a in pars]
            finally:
                mp.prec = pp
            return getattr(mp, fname)(*([n] + aa + [xx]))
        return exact_check(tree_mp, rec, prop, fname, label, p, call, exact, case)

    def check(tree_mp, rec, r, p, bits, cell):
        n = r.randint(nlo, nhi)
        while True:
            pars = [_rand_rational(r, par_lo, par_hi, dens, positive=positive_par) for _ in range(npar)]
            if par_gt is None or all(a > par_gt for a in pars):
                break
        x = xgen(r, bits, p) if xgen else _rand_dyadic_z(r, bits, xlo, xhi)
        return run(tree_mp, rec, cell[0], p, n, pars, x, 'mpf')

    def rp(tree_mp, rec, c, cell):
        from vf.core import unjson_int
        qs = [Fraction(unjson_int(q[0]), unjson_int(q[1])) for q in c['params']]
        x = Fraction(unjson_int(c['z'][0]), unjson_int(c['z'][1]))
        return run(tree_mp, rec, cell[0], c['prec'], int(qs[0]), qs[1:], x, c.get('form', 'tuple'))
    cell = Custom('exact/' + label, check, heavy=heavy, tmax=8, weight=weight)
    cell.replay = rp
    return cell


# ---- callables for functions whose arguments are lists / dicts --------------------------------------

def f_hyper(nup, nlow):
    def f(mp, *a):
        return mp.hyper(list(a[:nup]), list(a[nup:nup + nlow]), a[nup + nlow])
    return f


def f_meijerg(n, pn, m, qm):
    """meijerg([[a_1..a_n],[a_n+1..a_p]], [[b_1..b_m],[b_m+1..b_q]], z)  with n, p-n, m, q-m parameters"""
    def f(mp, *a):
        a = list(a)
        an, ap = a[:n], a[n:n + pn]
        bm, bq = a[n + pn:n + pn + m], a[n + pn + m:n + pn + m + qm]
        return mp.meijerg([an, ap], [bm, bq], a[-1])
    return f


def f_hyper2d(shape):
    """shape: (upper keys, lower keys) e.g. (('m+n','m','n'), ('m+n',)); one parameter per key; then x, y"""
    up, low = shape

    def f(mp, *a):
        a = list(a)
        ua, la = a[:len(up)], a[len(up):len(up) + len(low)]
        du, dl = {}, {}
        for k, v in zip(up, ua):
            du.setdefault(k, []).append(v)
        for k, v in zip(low, la):
            dl.setdefault(k, []).append(v)
        return mp.hyper2d(du, dl, a[-2], a[-1])
    return f


def f_type(fname, typ):
    def f(mp, *a):
        return getattr(mp, fname)(*a, type=typ)
    return f


# ---- regime tables ---------------------------------------------------------------------------------

def t_hyp0f1():
    return [
        RG('b-generic/|z|<128-real', A(p_low, uniform_bits(-128.0, 128.0)), weight=2),
        RG('b-generic/|z|<128-complex', A(p_low, polar(0.1, 128.0))),
        RG('b-generic/|z|-128..4096-real-pos', A(p_low, uniform_bits(128.0, 4096.0))),
        RG('b-generic/|z|-128..4096-real-neg', A(p_low, uniform_bits(-4096.0, -128.0))),
        RG('b-generic/|z|-128..4096-complex', A(p_low, polar(128.0, 4096.0))),
        RG('b-generic/huge', A(p_gpos, real_in(13, 30)), **HV),
        RG('b-generic/tiny', A(p_low, real_in(-200, -20))),
        RG('b-int/real', A(p_int, z_mod)),
        RG('b-near-npint/real', A(p_nnp, z_mod)),
        RG('b-near-npint/large', A(p_nnp, uniform_bits(128.0, 2000.0))),
        RG('b-complex/complex', A(p_cplx, z_cmod)),
        RG('b-large/real', A(p_big, z_mod)),
    ]


def t_hyp1f1():
    return [
        RG('generic/|z|<64-real-pos', A(p_gen, p_low, uniform_bits(0.0, 64.0)), weight=2),
        RG('generic/|z|<64-real-neg', A(p_gen, p_low, uniform_bits(-64.0, 0.0)), weight=2),
        RG('generic/|z|<64-complex', A(p_gen, p_low, polar(0.1, 64.0))),
        RG('generic/|z|-64..1000-real-pos', A(p_gen, p_low, uniform_bits(64.0, 1000.0))),
        RG('generic/|z|-64..1000-real-neg', A(p_gen, p_low, uniform_bits(-1000.0, -64.0))),
        RG('generic/|z|-64..1000-complex', A(p_gen, p_low, polar(64.0, 1000.0))),
        RG('generic/|z|-64..1000-imag-axis', A(p_gen, p_low, polar(64.0, 1000.0, 1.5707, 1.5709))),
        RG('generic/huge', A(p_gen, p_gpos, real_in(10, 20)), **HV),
        RG('generic/tiny', A(p_gen, p_low, real_in(-200, -20))),
        RG('int-params/real', A(p_int, p_int, z_mod)),
        RG('int-params/large', A(p_int, p_int, one_of(uniform_bits(64.0, 500.0), uniform_bits(-500.0, -64.0)))),
        RG('b-a-int/large', flat(coincident(p_prat, 200, 300, (0, 4)), one_of(uniform_bits(64.0, 500.0), uniform_bits(-500.0, -64.0)))),
        RG('a-near-npint/real', A(p_nnp, p_low, z_mod)),
        RG('a-near-npint/large', A(p_nnp, p_low, uniform_bits(-500.0, 500.0))),
        RG('b-near-npint/real', A(p_gen, p_nnp, z_mod)),
        RG('a-b-near-coincident/real', flat(coincident(p_rat, 6, 60), z_mod)),
        RG('complex-params/complex', A(p_cplx, p_cplx, z_cmod)),
        RG('large-params/real', A(p_big, p_big, z_mod), **HV),
        RG('a-large-neg/real-pos', A(real_in(4, 7, 1), p_gpos, z_pos), **HV),
    ]


def t_hyp1f2():
    return [
        RG('generic/real-pos', A(p_gen, p_low, p_low, z_pos), weight=2),
        RG('generic/real-neg', A(p_gen, p_low, p_low, z_neg), weight=2),
        RG('generic/complex', A(p_gen, p_low, p_low, z_cmod)),
        RG('generic/|z|-1e3..5e5-neg', A(p_gen, p_gpos, p_gpos, lambda r, b: R(raw_rand(r, b, 10, 19, 1))), **HV),
        RG('generic/|z|-2^19..2^24-neg', A(p_gen, p_gpos, p_gpos, lambda r, b: R(raw_rand(r, b, 20, 24, 1))),
           precs=[10, 15, 30, 53, 64, 100, 200, 333, 400, 600, 1000], **HV),
        RG('generic/|z|-2^19..2^24-pos', A(p_gen, p_gpos, p_gpos, lambda r, b: R(raw_rand(r, b, 20, 24, 0))),
           precs=[10, 15, 30, 53, 64, 100, 200, 333, 400, 600, 1000], **HV),
        RG('generic/|z|-2^19..2^24-complex', A(p_gen, p_gpos, p_gpos, polar_log(20, 24)), **HV),
        RG('int-params/real', A(p_int, p_int, p_int, z_mod)),
        RG('b-near-npint/real', A(p_gen, p_nnp, p_low, z_mod)),
        RG('a-near-npint/real', A(p_nnp, p_low, p_low, z_mod)),
        RG('complex-params/complex', A(p_cplx, p_cplx, p_cplx, z_cmod)),
        RG('tiny', A(p_gen, p_low, p_low, real_in(-200, -20))),
    ]


def t_hyp2f0():
    return [
        RG('generic/small-neg', A(p_gen, p_gen, real_in(-30, -7, 1))),
        RG('generic/moderate-neg', A(p_gen, p_gen, uniform_bits(-4.0, -0.01)), weight=2),
        RG('generic/large-neg', A(p_gen, p_gen, uniform_bits(-200.0, -4.0))),
        RG('generic/pos-on-cut', A(p_gen, p_gen, uniform_bits(0.01, 10.0)), weight=2),
        RG('generic/small-pos', A(p_gen, p_gen, real_in(-30, -7, 0))),
        RG('generic/complex', A(p_gen, p_gen, polar_log(-6, 4))),
        RG('int-params/neg', A(p_int, p_int, uniform_bits(-4.0, -0.01))),
        RG('a-b-int-difference/neg', flat(coincident(p_rat, 200, 300, (-3, 3)), uniform_bits(-4.0, -0.01))),
        RG('a-near-npint/neg', A(p_nnp, p_gen, uniform_bits(-4.0, -0.01))),
        RG('complex-params/complex', A(p_cplx, p_cplx, polar_log(-6, 3))),
    ]


def abc(ga=p_gen, gb=p_gen, gc=p_gen):
    return (ga, gb, gc)


def t_hyp2f1():
    zsets = [
        ('|z|<=0.8-real', z_in), ('|z|<=0.8-complex', z_cin),
        ('0.8..1-real(1-z)', uniform_bits(0.8, 0.9999)), ('1..1.3-real-on-cut', uniform_bits(1.0001, 1.3)),
        ('near-1', near(1, 1, 6, 60)), ('near-1-complex', near(1, 1, 6, 40, complex_offset=True)),
        ('-3..-0.8-real(z/(z-1))', uniform_bits(-3.0, -0.8)),
        ('annulus-near-exp(i*pi/3)', polar(0.85, 1.25, 0.85, 1.25)),
        ('annulus-near-exp(-i*pi/3)', polar(0.85, 1.25, -1.25, -0.85)),
        ('unit-circle', polar(0.999, 1.001, 0.3, 3.1)),
        ('annulus-left', polar(0.8, 1.3, 1.6, 4.7)),
        ('|z|>=1.3-real-neg', uniform_bits(-100.0, -1.3)), ('|z|>=1.3-real-on-cut', uniform_bits(1.3, 100.0)),
        ('|z|>=1.3-complex', polar(1.3, 100.0)),
        ('huge', real_in(8, 40)), ('tiny', real_in(-200, -20)),
    ]
    regs = []
    for zl, zg in zsets:
        regs.append(RG('generic/' + zl, A(p_gen, p_gen, p_low, zg), weight=2 if 'annulus' in zl or '0.8' in zl else 1))
    for zl, zg in zsets:
        if zl in ('tiny', 'huge'):
            continue
        regs.append(RG('int-params(degenerate)/' + zl, A(p_int, p_int, p_int, zg)))
    for zl, zg in zsets[:1] + zsets[2:5] + zsets[6:8] + zsets[11:14]:
        regs.append(RG('half-int-params/' + zl, A(p_half, p_half, one_of(p_half, p_int), zg)))
        regs.append(RG('c-a-b-near-int/' + zl, lambda r, b, zg=zg: _cab_near_int(r, b) + [zg(r, b)]))
        regs.append(RG('a-b-near-int/' + zl, flat(coincident(p_rat, 8, 60, (-3, 3)), p_low, zg)))
        regs.append(RG('complex-params/' + zl, A(p_cplx, p_cplx, p_cplx, zg)))
    regs += [
        RG('c-near-npint/|z|<=0.8-real', A(p_gen, p_gen, p_nnp, z_in)),
        RG('c-near-npint/|z|>=1.3', A(p_gen, p_gen, p_nnp, uniform_bits(-30.0, -1.3))),
        RG('a-near-npint/|z|<=0.8-real', A(p_nnp, p_gen, p_low, z_in)),
        RG('a-near-npint/0.8..1', A(p_nnp, p_gen, p_low, uniform_bits(0.8, 0.9999))),
        RG('a-near-npint/|z|>=1.3', A(p_nnp, p_gen, p_low, uniform_bits(-30.0, -1.3))),
        RG('z=1/convergent', lambda r, b: _z1_convergent(r, b)),
        # slowly decaying alternating series with 30..50 bits of cancellation: the window in which hypsum's own
        # accuracy test (cancellation vs. extra precision / term cut-off) decides
        RG('pos-params-5..40/z-in-[-0.8,-0.5]', A(uniform_bits(5.0, 40.0), uniform_bits(5.0, 40.0), uniform_bits(0.5, 10.0), uniform_bits(-0.8, -0.5)), weight=3),
        RG('z=-1', A(p_gen, p_gen, p_gpos, choice(-1))),
        RG('large-params/|z|<=0.8', A(p_big, p_big, p_big, z_in), **HV),
        RG('large-params/-3..-0.8', A(real_in(3, 6), real_in(3, 6), real_in(3, 6, 0), uniform_bits(-3.0, -0.8)), **HV),
    ]
    return regs


def _cab_near_int(r, b):
    a = p_rat(r, b)
    bb = p_rat(r, b)
    fa, fb = K.spec_fraction(a), K.spec_fraction(bb)
    k = r.randint(8, 60)
    fc = fa + fb + r.randint(-3, 3) + Fraction(r.choice([-1, 1]), 2 ** k)
    return [a, bb, R(K.frac_raw(fc))]


def _z1_convergent(r, b):
    a = p_rat(r, b)
    bb = p_rat(r, b)
    fa, fb = K.spec_fraction(a), K.spec_fraction(bb)
    fc = fa + fb + Fraction(r.randint(1, 40), 8)
    if fc.denominator == 1 and fc <= 0:
        fc += Fraction(1, 2)
    return [a, bb, R(K.frac_raw(fc)), I(1)]


def t_hyp2f2():
    return [
        RG('generic/|z|<8-real', A(p_gen, p_gen, p_low, p_low, uniform_bits(-8.0, 8.0)), weight=2),
        RG('generic/|z|<8-complex', A(p_gen, p_gen, p_low, p_low, polar(0.1, 8.0))),
        RG('generic/|z|-8..64-real-pos', A(p_gen, p_gen, p_low, p_low, uniform_bits(8.0, 64.0))),
        RG('generic/|z|-8..64-real-neg', A(p_gen, p_gen, p_low, p_low, uniform_bits(-64.0, -8.0))),
        RG('generic/|z|-64..1000-real-pos', A(p_gen, p_gen, p_low, p_low, uniform_bits(64.0, 1000.0))),
        RG('generic/|z|-64..1000-real-neg', A(p_gen, p_gen, p_low, p_low, uniform_bits(-1000.0, -64.0))),
        RG('generic/|z|-8..1000-complex', A(p_gen, p_gen, p_low, p_low, polar(8.0, 1000.0))),
        RG('int-params/real', A(p_int, p_int, p_int, p_int, uniform_bits(-100.0, 100.0))),
        RG('a1-a2-near-int/large', flat(coincident(p_rat, 8, 60, (-2, 2)), p_low, p_low, uniform_bits(-300.0, 300.0))),
        RG('b-near-npint/real', A(p_gen, p_gen, p_nnp, p_low, z_mod)),
        RG('complex-params/complex', A(p_cplx, p_cplx, p_cplx, p_cplx, z_cmod)),
        RG('tiny', A(p_gen, p_gen, p_low, p_low, real_in(-200, -20))),
    ]


def t_hyp2f3():
    g5 = (p_gen, p_gen, p_gpos, p_gpos, p_gpos)
    return [
        RG('generic/real-pos', A(p_gen, p_gen, p_low, p_low, p_low, z_pos), weight=2),
        RG('generic/real-neg', A(p_gen, p_gen, p_low, p_low, p_low, z_neg), weight=2),
        RG('generic/complex', A(p_gen, p_gen, p_low, p_low, p_low, z_cmod)),
        RG('generic/|z|-1e3..5e5-neg', A(*(g5 + (lambda r, b: R(raw_rand(r, b, 10, 19, 1)),))), **HV),
        RG('generic/|z|-2^19..2^24-neg', A(*(g5 + (lambda r, b: R(raw_rand(r, b, 20, 24, 1)),))),
           precs=[10, 15, 30, 53, 64, 100, 200, 333, 400, 600, 1000], **HV),
        RG('generic/|z|-2^19..2^24-pos', A(*(g5 + (lambda r, b: R(raw_rand(r, b, 20, 24, 0)),))),
           precs=[10, 15, 30, 53, 64, 100, 200, 333, 400, 600, 1000], **HV),
        RG('int-params/real', A(p_int, p_int, p_int, p_int, p_int, z_mod)),
        RG('a1-a2-near-int/huge-neg', flat(coincident(p_rat, 8, 60, (-2, 2)), p_gpos, p_gpos, p_gpos, lambda r, b: R(raw_rand(r, b, 20, 23, 1))), **HV),
        RG('complex-params/complex', A(p_cplx, p_cplx, p_cplx, p_cplx, p_cplx, z_cmod)),
        RG('tiny', A(p_gen, p_gen, p_low, p_low, p_low, real_in(-200, -20))),
    ]


def t_hyp3f2():
    g = (p_gen, p_gen, p_gen, p_low, p_low)
    gi = (p_int, p_int, p_int, p_int, p_int)
    return [
        RG('generic/|z|<=0.8-real', A(*(g + (z_in,))), weight=2),
        RG('generic/|z|<=0.8-complex', A(*(g + (z_cin,)))),
        RG('generic/0.8..0.95-real', A(*(g + (uniform_bits(0.8, 0.95),)))),
        RG('generic/-0.999..-0.8-real', A(*(g + (uniform_bits(-0.999, -0.8),))), **HV),
        RG('generic/|z-1|<0.05', A(*(g + (uniform_bits(0.951, 0.9999),))), **HV),
        RG('generic/unit-circle', A(*(g + (polar(0.96, 1.09, 0.5, 3.1),))), **HV),
        RG('generic/near-exp(i*pi/3)', A(*(g + (polar(0.9, 1.09, 0.9, 1.2),))), **HV),
        RG('generic/z=-1', A(*(g + (choice(-1),))), **HV),
        RG('generic/z=1-convergent', lambda r, b: _z1_3f2(r, b), **HV),
        RG('generic/|z|>=1.1-real-neg', A(*(g + (uniform_bits(-50.0, -1.1),)))),
        RG('generic/|z|>=1.1-complex', A(*(g + (polar(1.1, 50.0),)))),
        RG('generic/|z|>=1.1-on-cut', A(*(g + (uniform_bits(1.1, 50.0),)))),
        RG('int-params/|z|<=0.8', A(*(gi + (z_in,)))),
        RG('pos-params-5..30/z-in-[-0.8,-0.5]', A(uniform_bits(5.0, 30.0), uniform_bits(5.0, 30.0), uniform_bits(1.0, 8.0), uniform_bits(1.0, 10.0), uniform_bits(1.0, 10.0), uniform_bits(-0.8, -0.5)), weight=2),
        RG('int-params(degenerate)/|z|>=1.1', A(*(gi + (uniform_bits(-50.0, -1.1),))), **HV),
        RG('a-near-coincident/|z|>=1.1', flat(coincident(p_rat, 8, 60, (-2, 2)), p_gen, p_low, p_low, uniform_bits(-50.0, -1.1)), **HV),
        RG('b-near-npint/|z|<=0.8', A(p_gen, p_gen, p_gen, p_nnp, p_low, z_in)),
        RG('complex-params/|z|<=0.8', A(p_cplx, p_cplx, p_cplx, p_cplx, p_cplx, z_cin)),
        RG('tiny', A(*(g + (real_in(-200, -20),)))),
    ]


def _z1_3f2(r, b):
    ps = [p_rat(r, b) for _ in range(4)]
    fs = [K.spec_fraction(x) for x in ps]
    # b2 such that Re(b1+b2-a1-a2-a3) >= 1.5  (fast enough convergence for the summation by nsum)
    fb2 = fs[0] + fs[1] + fs[2] - fs[3] + Fraction(r.randint(12, 60), 8)
    if (fb2.denominator == 1 and fb2 <= 0) or (fs[3].denominator == 1 and fs[3] <= 0):
        fb2 += Fraction(1, 2)
    return ps[:3] + [ps[3], R(K.frac_raw(fb2)), I(1)]


def t_hyper():
    return [
        RG('0F0', A(z_cmod), fn=f_hyper(0, 0)),
        RG('1F0/|z|<1', A(p_gen, z_in), fn=f_hyper(1, 0)),
        RG('1F0/|z|>1', A(p_gen, one_of(uniform_bits(-30.0, -1.1), polar(1.1, 30.0))), fn=f_hyper(1, 0)),
        RG('0F2/real', A(p_low, p_low, z_mod), fn=f_hyper(0, 2)),
        RG('0F3/real', A(p_low, p_low, p_low, uniform_bits(-2000.0, 2000.0)), fn=f_hyper(0, 3)),
        RG('1F3/real', A(p_gen, p_low, p_low, p_low, uniform_bits(-500.0, 500.0)), fn=f_hyper(1, 3)),
        RG('2F4/real', A(p_gen, p_gen, p_low, p_low, p_low, p_low, uniform_bits(-500.0, 500.0)), fn=f_hyper(2, 4)),
        RG('3F3/real', A(p_gen, p_gen, p_gen, p_low, p_low, p_low, uniform_bits(-60.0, 60.0)), fn=f_hyper(3, 3)),
        RG('3F3/large-neg', A(p_gen, p_gen, p_gen, p_gpos, p_gpos, p_gpos, uniform_bits(-400.0, -60.0)), fn=f_hyper(3, 3), **HV),
        RG('4F3/|z|<=0.8', A(*([p_gen] * 4 + [p_low] * 3 + [z_in])), fn=f_hyper(4, 3)),
        RG('4F3/|z|<=0.8-complex', A(*([p_gen] * 4 + [p_low] * 3 + [z_cin])), fn=f_hyper(4, 3)),
        RG('4F3/|z|>=1.1', A(*([p_gen] * 4 + [p_low] * 3 + [uniform_bits(-30.0, -1.1)])), fn=f_hyper(4, 3), **HV),
        RG('5F4/|z|<=0.8', A(*([p_gen] * 5 + [p_low] * 4 + [z_in])), fn=f_hyper(5, 4)),
        RG('3F1(borel)/small-neg', A(p_gen, p_gen, p_gen, p_gpos, real_in(-30, -8, 1)), fn=f_hyper(3, 1)),
        RG('3F1(borel)/moderate-neg', A(p_gen, p_gen, p_gen, p_gpos, uniform_bits(-1.0, -0.02)), fn=f_hyper(3, 1), **HV),
        RG('3F0(borel)/small-neg', A(p_gen, p_gen, p_gen, real_in(-30, -8, 1)), fn=f_hyper(3, 0)),
        RG('common-parameter-elimination/2F1', lambda r, b: (lambda a, bb, c, e, z: [a, bb, e, c, e, z])(p_gen(r, b), p_gen(r, b), p_low(r, b), p_gpos(r, b), z_in(r, b)),
           fn=f_hyper(3, 2)),
        RG('via-hyper/2F1-annulus', A(p_gen, p_gen, p_low, polar(0.85, 1.25, 0.85, 1.25)), fn=f_hyper(2, 1)),
        RG('via-hyper/1F1-large', A(p_gen, p_low, uniform_bits(-500.0, 500.0)), fn=f_hyper(1, 1)),
    ]


def t_hyperu():
    return [
        RG('generic/large-pos', A(p_gen, p_gen, uniform_bits(50.0, 2000.0)), weight=2),
        RG('generic/intermediate-pos', A(p_gen, p_gen, uniform_bits(2.0, 50.0)), weight=3),
        RG('generic/small-pos', A(p_gen, p_gen, uniform_bits(0.01, 2.0)), weight=2),
        RG('generic/tiny-pos', A(p_gen, p_gen, real_in(-100, -8, 0))),
        RG('generic/neg-on-cut', A(p_gen, p_gen, uniform_bits(-50.0, -0.05))),
        RG('generic/complex', A(p_gen, p_gen, polar_log(-3, 8))),
        RG('generic/complex-left', A(p_gen, p_gen, polar(0.5, 100.0, 1.7, 4.5))),
        RG('b-int/intermediate-pos', A(p_gen, p_anyint, uniform_bits(0.05, 50.0)), weight=2),
        RG('b-int/large-pos', A(p_gen, p_anyint, uniform_bits(50.0, 1000.0))),
        RG('a-b-int/intermediate-pos', A(p_int, p_anyint, uniform_bits(0.05, 50.0))),
        RG('b-near-int/intermediate-pos', A(p_gen, near_int(-4, 6, 6, 60), uniform_bits(0.05, 50.0))),
        RG('a-near-npint/pos', A(p_nnp, p_gen, uniform_bits(0.05, 50.0))),
        RG('a-b+1-near-npint/pos', lambda r, b: _u_ab1(r, b)),
        RG('complex-params/complex', A(p_cplx, p_cplx, polar_log(-2, 6))),
        RG('a-large/pos', A(real_in(3, 6, 0), p_gen, uniform_bits(0.5, 100.0)), **HV),
    ]


def _u_ab1(r, b):
    bb = p_rat(r, b)
    fb = K.spec_fraction(bb)
    k = r.randint(8, 60)
    fa = fb - 1 - r.randint(0, 4) + Fraction(r.choice([-1, 1]), 2 ** k)
    return [R(K.frac_raw(fa)), bb, uniform_bits(0.05, 50.0)(r, b)]


def t_whit(second):
    regs = [
        RG('generic/real-pos', A(p_gen, p_gen, uniform_bits(0.05, 50.0)), weight=2),
        RG('generic/real-large', A(p_gen, p_gen, uniform_bits(50.0, 1000.0))),
        RG('generic/real-small', A(p_gen, p_gen, real_in(-60, -4, 0))),
        RG('generic/complex', A(p_gen, p_gen, polar_log(-3, 7))),
        RG('generic/neg-real', A(p_gen, p_gen, uniform_bits(-50.0, -0.05))),
        RG('int-k-half-int-m/real', A(p_anyint, half_integer(0, 5), uniform_bits(0.05, 50.0))),
        RG('2m-int/real', A(p_gen, one_of(integer(0, 5), half_integer(0, 5)), uniform_bits(0.05, 50.0))),
        RG('2m-near-int/real', A(p_gen, near_half_int(0, 4, 8, 60), uniform_bits(0.05, 50.0))),
        RG('complex-params/complex', A(p_cplx, p_cplx, polar_log(-2, 6))),
    ]
    if not second:
        regs.append(RG('m-near-neg-half-int/real', A(p_gen, near_half_int(-5, -1, 8, 60), uniform_bits(0.05, 50.0))))
    return regs


def t_meijerg():
    zp = uniform_bits(0.05, 30.0)
    zc = polar_log(-3, 5)
    return [
        RG('G10_01(exp)/real', A(p_gen, one_of(zp, uniform_bits(-30.0, -0.05))), fn=f_meijerg(0, 0, 1, 0)),
        RG('G10_02(besselj)/real', A(p_gen, p_gen, zp), fn=f_meijerg(0, 0, 1, 1)),
        RG('G20_02(besselk)/real', A(p_gen, p_gen, zp), fn=f_meijerg(0, 0, 2, 0), weight=2),
        RG('G20_02(besselk)/b-differ-by-int', flat(coincident(p_rat, 200, 300, (-3, 3)), zp), fn=f_meijerg(0, 0, 2, 0)),
        RG('G20_02(besselk)/b-near-int-difference', flat(coincident(p_rat, 8, 60, (-3, 3)), zp), fn=f_meijerg(0, 0, 2, 0)),
        RG('G20_02(besselk)/complex', A(p_gen, p_gen, zc), fn=f_meijerg(0, 0, 2, 0)),
        RG('G11_11/|z|<1', A(p_gen, p_gen, uniform_bits(0.05, 0.9)), fn=f_meijerg(1, 0, 1, 0)),
        RG('G11_11/|z|>1', A(p_gen, p_gen, uniform_bits(1.1, 30.0)), fn=f_meijerg(1, 0, 1, 0)),
        RG('G12_22(2F1)/|z|<1', A(p_gen, p_gen, p_gen, p_gen, one_of(uniform_bits(0.05, 0.9), polar(0.05, 0.9))), fn=f_meijerg(2, 0, 1, 1), weight=2, **HV),
        RG('G12_22(2F1)/|z|>1', A(p_gen, p_gen, p_gen, p_gen, one_of(uniform_bits(1.1, 30.0), polar(1.1, 30.0))), fn=f_meijerg(2, 0, 1, 1), **HV),
        RG('G12_22(2F1)/int-params', A(p_int, p_int, p_int, p_int, uniform_bits(0.05, 0.9)), fn=f_meijerg(2, 0, 1, 1), **HV),
        RG('G21_12(hyperu)/real', A(p_gen, p_gen, p_gen, zp), fn=f_meijerg(1, 0, 2, 0), weight=2, **HV),
        RG('G21_12(hyperu)/b-differ-by-int', flat(p_gen, coincident(p_rat, 200, 300, (-3, 3)), zp), fn=f_meijerg(1, 0, 2, 0), **HV),
        RG('G21_12(hyperu)/complex', A(p_gen, p_gen, p_gen, zc), fn=f_meijerg(1, 0, 2, 0), **HV),
        RG('G22_22/|z|<1', A(p_gen, p_gen, p_gen, p_gen, uniform_bits(0.05, 0.9)), fn=f_meijerg(2, 0, 2, 0), **HV),
        RG('G30_03/real', A(p_gen, p_gen, p_gen, zp), fn=f_meijerg(0, 0, 3, 0), **HV),
        RG('G20_13/real', A(p_gen, p_gen, p_gen, p_gen, zp), fn=f_meijerg(0, 1, 2, 1), **HV),
        RG('G31_13/real(p<q,series1)', A(p_gen, p_gen, p_gen, p_gen, zp), fn=f_meijerg(1, 0, 3, 0), **HV),
        RG('G13_31/real(p>q,series2)', A(p_gen, p_gen, p_gen, p_gen, zp), fn=f_meijerg(3, 0, 1, 0), **HV),
    ]


def t_appellf1():
    xs = uniform_bits(-0.9, 0.9)
    return [
        RG('generic/|x|,|y|<0.9-real', A(p_gen, p_gen, p_gen, p_low, xs, xs), weight=2, **HV),
        RG('generic/|x|,|y|<0.5-complex', A(p_gen, p_gen, p_gen, p_low, polar(0.05, 0.5), polar(0.05, 0.5)), **HV),
        RG('generic/small-x', A(p_gen, p_gen, p_gen, p_low, real_in(-40, -6), xs), **HV),
        RG('generic/|y|>1', A(p_gen, p_gen, p_gen, p_low, uniform_bits(-0.5, 0.5), uniform_bits(-8.0, -1.1)), **HV),
        RG('generic/x-near-1-continuation', A(p_gen, p_gen, p_gen, p_low, uniform_bits(0.991, 0.9999), uniform_bits(0.992, 0.9999)), **HV),
        RG('int-params/real', A(p_int, p_int, p_int, p_int, uniform_bits(-0.7, 0.7), uniform_bits(-0.7, 0.7)), **HV),
        RG('a-npint(polynomial)/real', A(integer(-8, -1), p_gen, p_gen, p_gpos, uniform_bits(-3.0, 3.0), uniform_bits(-3.0, 3.0)), **HV),
        RG('b1-npint(polynomial)/real', A(p_gen, integer(-8, -1), p_gen, p_gpos, uniform_bits(-3.0, 3.0), uniform_bits(-0.9, 0.9)), **HV),
        RG('x=y', lambda r, b: (lambda x: [p_gen(r, b), p_gen(r, b), p_gen(r, b), p_gpos(r, b), x, x])(uniform_bits(-0.9, 0.9)(r, b)), **HV),
        RG('complex-params/real', A(p_cplx, p_cplx, p_cplx, p_cplx, uniform_bits(-0.6, 0.6), uniform_bits(-0.6, 0.6)), **HV),
    ]


def t_hyper2d():
    xs = uniform_bits(-0.45, 0.45)
    F1 = (('m+n', 'm', 'n'), ('m+n',))
    F2 = (('m+n', 'm', 'n'), ('m', 'n'))
    F3 = (('m', 'm', 'n', 'n'), ('m+n',))
    F4 = (('m+n', 'm+n'), ('m', 'n'))
    return [
        RG('F1-shape/real', A(p_gen, p_gen, p_gen, p_gpos, uniform_bits(-0.9, 0.9), uniform_bits(-0.9, 0.9)), fn=f_hyper2d(F1), **HV),
        RG('F2-shape/real', A(p_gen, p_gen, p_gen, p_gpos, p_gpos, xs, xs), fn=f_hyper2d(F2), weight=2, **HV),
        RG('F3-shape/real', A(p_gen, p_gen, p_gen, p_gen, p_gpos, uniform_bits(-0.9, 0.9), uniform_bits(-0.9, 0.9)), fn=f_hyper2d(F3), **HV),
        RG('F4-shape/real', A(p_gen, p_gen, p_gpos, p_gpos, uniform_bits(-0.2, 0.2), uniform_bits(-0.2, 0.2)), fn=f_hyper2d(F4), weight=2, **HV),
        RG('F2-shape/complex', A(p_gen, p_gen, p_gen, p_gpos, p_gpos, polar(0.02, 0.4), polar(0.02, 0.4)), fn=f_hyper2d(F2), **HV),
        RG('product-shape/real', A(p_gen, p_gen, p_gpos, p_gpos, uniform_bits(-0.9, 0.9), uniform_bits(-0.9, 0.9)),
           fn=f_hyper2d((('m', 'n'), ('m', 'n'))), **HV),
        RG('m-n-shape(H1)/real', A(p_gen, p_gen, p_gen, p_gpos, uniform_bits(-0.2, 0.2), uniform_bits(-0.2, 0.2)),
           fn=f_hyper2d((('m-n', 'm+n', 'n'), ('m',))), **HV),
        RG('2m+n-shape(H3)/real', A(p_gen, p_gen, p_gpos, uniform_bits(-0.2, 0.2), uniform_bits(-0.4, 0.4)),
           fn=f_hyper2d((('2m+n', 'n'), ('m+n',))), **HV),
        RG('F1-shape/polynomial', A(integer(-6, -1), p_gen, p_gen, p_gpos, uniform_bits(-3.0, 3.0), uniform_bits(-3.0, 3.0)), fn=f_hyper2d(F1), **HV),
    ]


x_in = uniform_bits(-1.0, 1.0)
x_out = one_of(uniform_bits(1.0, 30.0), uniform_bits(-30.0, -1.0))
x_c = polar(0.1, 10.0)
deg_int = integer(0, 60)
deg_real = one_of(real_in(-3, 5), dyadic(-60, 60, 3))


def t_legendre():
    return [
        RG('int-degree/[-1,1]', A(integer(-20, 80), x_in), weight=2),
        RG('int-degree/near-zero-argument', A(integer(0, 40), real_in(-120, -4))),
        RG('int-degree/outside', A(deg_int, x_out)),
        RG('int-degree/complex', A(deg_int, x_c)),
        RG('large-int-degree/[-1,1]', A(integer(100, 1000), x_in), **HV),
        RG('real-degree/(-0.6,1]', A(deg_real, uniform_bits(-0.6, 1.0)), weight=2),
        RG('real-degree/[-1,-0.6)', A(deg_real, uniform_bits(-0.9999, -0.6))),
        RG('real-degree/near--1', A(deg_real, near(-1, 1, 6, 60))),
        RG('real-degree/x>1', A(deg_real, uniform_bits(1.0, 30.0))),
        RG('real-degree/x<-1-on-cut', A(deg_real, uniform_bits(-30.0, -1.0))),
        RG('real-degree/complex', A(deg_real, x_c)),
        RG('near-int-degree/[-1,1]', A(near_int(-3, 10, 6, 60), x_in)),
        RG('complex-degree/complex', A(p_cplx, x_c)),
    ]


def t_legenp(fname):
    m_int = integer(-4, 4)
    m_real = one_of(real_in(-3, 2), dyadic(-12, 12, 2))
    regs = []
    for typ, xg, xl in ((2, uniform_bits(-0.99, 0.99), '(-1,1)'), (3, uniform_bits(1.01, 30.0), 'x>1'),
                        (3, polar(0.1, 10.0, 0.2, 2.9), 'complex'), (2, polar(0.1, 10.0, 0.2, 2.9), 'complex')):
        t = 'type%d/' % typ
        regs += [
            RG(t + 'int-n-int-m/' + xl, A(integer(0, 12), m_int, xg), fn=f_type(fname, typ), weight=2),
            RG(t + 'real-n-real-m/' + xl, A(deg_real, m_real, xg), fn=f_type(fname, typ), weight=2),
            RG(t + 'real-n-int-m/' + xl, A(deg_real, m_int, xg), fn=f_type(fname, typ)),
            RG(t + 'int-n-real-m/' + xl, A(integer(0, 12), m_real, xg), fn=f_type(fname, typ)),
            RG(t + 'm-near-int/' + xl, A(deg_real, near_int(-3, 3, 8, 60), xg), fn=f_type(fname, typ)),
        ]
    regs += [
        RG('type2/real-n-real-m/near-1', A(deg_real, m_real, near(1, 1, 6, 50)), fn=f_type(fname, 2)),
        RG('type2/real-n-real-m/near--1', A(deg_real, m_real, near(-1, 1, 6, 50)), fn=f_type(fname, 2)),
        RG('type3/real-n-real-m/x<-1', A(deg_real, m_real, uniform_bits(-30.0, -1.01)), fn=f_type(fname, 3)),
        RG('type3/real-n-real-m/(-1,1)', A(deg_real, m_real, uniform_bits(-0.99, 0.99)), fn=f_type(fname, 3)),
        RG('type3/half-int-n/x>1', A(half_integer(-3, 6), m_int, uniform_bits(1.01, 30.0)), fn=f_type(fname, 3)),
    ]
    return regs


def t_cheby():
    return [
        RG('int-degree/[-1,1]', A(integer(-10, 80), x_in), weight=2),
        RG('int-degree/outside', A(deg_int, x_out)),
        RG('int-degree/complex', A(deg_int, x_c)),
        RG('int-degree/tiny', A(integer(0, 30), real_in(-120, -10))),
        RG('large-int-degree/[-1,1]', A(integer(100, 900), x_in), **HV),
        RG('real-degree/(-0.6,1]', A(deg_real, uniform_bits(-0.6, 1.0)), weight=2),
        RG('real-degree/[-1,-0.6)', A(deg_real, uniform_bits(-0.9999, -0.6))),
        RG('real-degree/near--1', A(deg_real, near(-1, 1, 6, 60))),
        RG('real-degree/x>1', A(deg_real, uniform_bits(1.0, 30.0))),
        RG('real-degree/complex', A(deg_real, x_c)),
        RG('half-int-degree/[-1,1]', A(half_integer(-5, 20), x_in)),
        RG('near-int-degree/[-1,1]', A(near_int(-3, 10, 6, 60), x_in)),
    ]


def t_jacobi():
    ab = one_of(p_rat, p_real)
    return [
        RG('int-degree/classical/[-1,1]', A(integer(0, 40), real_in(-3, 3, 0), real_in(-3, 3, 0), x_in), weight=2),
        RG('int-degree/generic/[-1,1]', A(integer(0, 30), ab, ab, x_in), weight=2),
        RG('int-degree/generic/outside', A(integer(0, 30), ab, ab, x_out)),
        RG('int-degree/generic/complex', A(integer(0, 30), ab, ab, x_c)),
        RG('int-degree/a-near-npint/[-1,1]', A(integer(0, 12), p_nnp, ab, x_in)),
        RG('real-degree/(-0.6,1]', A(deg_real, ab, ab, uniform_bits(-0.6, 1.0)), weight=2),
        RG('real-degree/[-1,-0.6)', A(deg_real, ab, ab, uniform_bits(-0.9999, -0.6))),
        RG('real-degree/x>1', A(deg_real, ab, ab, uniform_bits(1.0, 30.0))),
        RG('real-degree/complex', A(deg_real, ab, ab, x_c)),
        RG('complex-params/complex', A(p_cplx, p_cplx, p_cplx, x_c)),
    ]


def t_gegenbauer():
    a = one_of(p_rat, p_real)
    return [
        RG('int-degree/[-1,1]', A(integer(0, 40), a, x_in), weight=2),
        RG('int-degree/outside', A(integer(0, 30), a, x_out)),
        RG('int-degree/complex', A(integer(0, 30), a, x_c)),
        RG('int-degree/a-neg-half-int/[-1,1]', A(integer(0, 12), half_integer(-6, -1), x_in)),
        RG('int-degree/a-near-neg-half-int/[-1,1]', A(integer(0, 12), near_half_int(-5, -1, 8, 60), x_in)),
        RG('int-degree/a-near-npint/[-1,1]', A(integer(0, 12), p_nnp, x_in)),
        RG('int-degree/a-small/[-1,1]', A(integer(1, 12), real_in(-60, -8), x_in)),
        RG('real-degree/(-0.6,1]', A(deg_real, a, uniform_bits(-0.6, 1.0)), weight=2),
        RG('real-degree/[-1,-0.6)', A(deg_real, a, uniform_bits(-0.9999, -0.6))),
        RG('real-degree/x>1', A(deg_real, a, uniform_bits(1.0, 30.0))),
        RG('real-degree/complex', A(deg_real, a, x_c)),
        RG('complex-params/complex', A(p_cplx, p_cplx, x_c)),
    ]


def t_hermite():
    return [
        RG('int-degree/real-moderate', A(integer(0, 60), uniform_bits(-10.0, 10.0)), weight=2),
        RG('int-degree/real-large', A(integer(0, 40), one_of(uniform_bits(10.0, 1000.0), uniform_bits(-1000.0, -10.0)))),
        RG('int-degree/real-small', A(integer(0, 40), real_in(-80, -3))),
        RG('int-degree/complex', A(integer(0, 40), x_c)),
        RG('large-int-degree/real', A(integer(100, 600), uniform_bits(-30.0, 30.0)), **HV),
        RG('neg-int-degree/real', A(integer(-8, -1), uniform_bits(-8.0, 8.0))),
        RG('real-degree/pos', A(deg_real, uniform_bits(0.05, 20.0)), weight=2),
        RG('real-degree/neg(reflection)', A(deg_real, uniform_bits(-20.0, -0.05)), weight=2),
        RG('real-degree/small', A(deg_real, real_in(-60, -5))),
        RG('real-degree/complex-right', A(deg_real, polar(0.1, 20.0, -1.5, 1.5))),
        RG('real-degree/complex-left', A(deg_real, polar(0.1, 20.0, 1.65, 4.6))),
        RG('real-degree/imag-axis', A(deg_real, lambda r, b: C((0, 0, 0, 0), raw_rand(r, b, -3, 4)))),
        RG('near-int-degree/neg', A(near_int(0, 10, 8, 60), uniform_bits(-10.0, -0.05))),
        RG('complex-degree/complex', A(p_cplx, x_c)),
    ]


def t_laguerre():
    a = one_of(p_rat, p_real)
    return [
        RG('int-degree/real-pos', A(integer(0, 40), a, uniform_bits(0.0, 60.0)), weight=2),
        RG('int-degree/real-neg', A(integer(0, 40), a, uniform_bits(-60.0, 0.0))),
        RG('int-degree/complex', A(integer(0, 30), a, x_c)),
        RG('int-degree/a-npint/real', A(integer(0, 12), integer(-8, -1), uniform_bits(-20.0, 20.0))),
        RG('int-degree/a-near-npint/real', A(integer(0, 12), p_nnp, uniform_bits(-20.0, 20.0))),
        RG('real-degree/real-pos', A(deg_real, a, uniform_bits(0.05, 60.0)), weight=2),
        RG('real-degree/real-neg', A(deg_real, a, uniform_bits(-60.0, -0.05))),
        RG('real-degree/large-pos', A(deg_real, a, uniform_bits(64.0, 600.0))),
        RG('real-degree/complex', A(deg_real, a, x_c)),
        RG('neg-int-degree/real', A(integer(-8, -1), a, uniform_bits(-20.0, 20.0))),
        RG('complex-params/complex', A(p_cplx, p_cplx, x_c)),
    ]


def t_spherharm():
    th = uniform_bits(0.01, 3.13)
    ph = uniform_bits(-6.3, 6.3)

    def lm(r, b):
        l = r.randint(0, 25)
        m = r.randint(-l, l)
        return [I(l), I(m)]
    return [
        RG('int-l-int-m/|m|<=l', flat(lm, th, ph), weight=3),
        RG('int-l-int-m/theta-near-0', flat(lm, real_in(-60, -6, 0), ph)),
        RG('int-l-int-m/theta-near-pi', flat(lm, uniform_bits(3.1415, 3.14159), ph)),
        RG('neg-int-l/int-m', A(integer(-12, -1), integer(-3, 3), th, ph)),
        RG('large-int-l/int-m', flat(lambda r, b: (lambda l: [I(l), I(r.randint(-l, l))])(r.randint(40, 200)), th, ph), **HV),
        RG('real-l-real-m', A(real_in(-2, 3, 0), real_in(-2, 1), th, ph), weight=2, **HV),
        RG('real-l-int-m', A(real_in(-2, 3, 0), integer(-3, 3), th, ph), **HV),
        RG('int-l-real-m', A(integer(0, 8), real_in(-2, 1), th, ph), **HV),
        RG('int-l-int-m/complex-theta', flat(lm, polar(0.1, 3.0, -1.0, 1.0), ph), **HV),
    ]


def t_pcf(name):
    par = {'pcfd': one_of(integer(-8, 20), p_half, p_real, p_rat), 'pcfu': one_of(half_integer(-10, 8), integer(-6, 6), p_real, p_rat),
           'pcfv': one_of(half_integer(-8, 8), integer(-6, 6), p_real, p_rat), 'pcfw': one_of(p_real, p_rat, integer(-5, 5))}[name]
    ipar = {'pcfd': integer(0, 30), 'pcfu': half_integer(-16, -1), 'pcfv': half_integer(0, 10), 'pcfw': integer(-5, 5)}[name]
    regs = [
        RG('generic/real-pos', A(par, uniform_bits(0.05, 12.0)), weight=2),
        RG('generic/real-neg', A(par, uniform_bits(-12.0, -0.05)), weight=2),
        RG('generic/real-large', A(par, one_of(uniform_bits(12.0, 60.0), uniform_bits(-60.0, -12.0))), **HV),
        RG('generic/real-small', A(par, real_in(-60, -5))),
        RG('special-order/real', A(ipar, uniform_bits(-12.0, 12.0))),
    ]
    if name != 'pcfw':
        regs += [
            RG('generic/complex-right', A(par, polar(0.1, 12.0, -1.5, 1.5))),
            RG('generic/complex-left', A(par, polar(0.1, 12.0, 1.65, 4.6))),
            RG('generic/imag-axis', A(par, lambda r, b: C((0, 0, 0, 0), raw_rand(r, b, -3, 4)))),
            RG('near-special-order/real', A(near_int(-4, 8, 8, 60) if name == 'pcfd' else near_half_int(-5, 5, 8, 60), uniform_bits(-10.0, 10.0))),
            RG('complex-order/complex', A(p_cplx, polar(0.1, 8.0))),
        ]
    else:
        regs += [RG('large-order/real', A(one_of(uniform_bits(5.0, 30.0), uniform_bits(-30.0, -5.0)), uniform_bits(-10.0, 10.0)), **HV)]
        # release 1.3.0 forms k = sqrt(1+e^(2 pi a)) - e^(pi a) with cancellation (9.1*a bits for a > 0): give the reference
        # sources that many extra bits so that they stay self-consistent
        for rg in regs:
            rg.ref_extra = lambda specs: 60 + int(10 * abs(float(K.spec_fraction(specs[0]))))
    return regs


def _tiny_x(r, bits, p=None):
    bits = max(2, min(bits, 200))
    return Fraction(r.choice([-1, 1]) * ((1 << (bits - 1)) | r.getrandbits(bits - 1) | 1), 1 << (bits + r.randint(4, 150)))


def _special_x(r, bits, p):
    """0, +-1, +-2^-k and m*2^-k for k up to 3p + 30 (the thresholds of the near-zero special cases scale with p)"""
    t = r.random()
    if t < 0.2:
        return Fraction(0)
    if t < 0.35:
        return Fraction(r.choice([-1, 1]))
    k = r.randint(1, 3 * p + 30)
    if t < 0.6:
        return Fraction(r.choice([-1, 1]), 2 ** k)
    return Fraction(r.choice([-1, 1]) * r.choice([3, 5, 7, 11, 1023, (1 << 52) + 1]), 2 ** k)


def exact_cells():
    z11 = (-20.0, 20.0)
    zin = (-0.95, 0.95)
    out = {
        'hyp1f1': [make_pfq_cell('hyp1f1', 'terminating/n<=12', 1, 1, 0, 12, *z11, via='hyp1f1', form='mixed'),
                   make_pfq_cell('hyp1f1', 'terminating/n-13..80', 1, 1, 13, 80, *z11, via='hyp1f1', form='mixed'),
                   make_pfq_cell('hyp1f1', 'terminating/n<=40-large-z', 1, 1, 1, 40, -400.0, 400.0, via='hyp1f1', form='mixed')],
        'hyp2f1': [make_pfq_cell('hyp2f1', 'terminating/|z|<1', 2, 1, 0, 40, *zin, via='hyp2f1', form='mixed'),
                   make_pfq_cell('hyp2f1', 'terminating/|z|-1..30', 2, 1, 1, 40, 1.0, 30.0, via='hyp2f1', form='mixed'),
                   make_pfq_cell('hyp2f1', 'terminating/neg-z', 2, 1, 1, 40, -30.0, -0.5, via='hyp2f1', form='mixed'),
                   make_pfq_cell('hyp2f1', 'terminating/n-41..300', 2, 1, 41, 300, -2.0, 2.0, via='hyp2f1', form='mixed', heavy=True)],
        'hyp1f2': [make_pfq_cell('hyp1f2', 'terminating', 1, 2, 0, 40, -100.0, 100.0, via='hyp1f2', form='mixed')],
        'hyp2f0': [make_pfq_cell('hyp2f0', 'terminating', 2, 0, 0, 30, -5.0, 5.0, via='hyp2f0', form='mixed')],
        'hyp2f2': [make_pfq_cell('hyp2f2', 'terminating', 2, 2, 0, 40, -60.0, 60.0, via='hyp2f2', form='mixed')],
        'hyp2f3': [make_pfq_cell('hyp2f3', 'terminating', 2, 3, 0, 40, -100.0, 100.0, via='hyp2f3', form='mixed')],
        'hyp3f2': [make_pfq_cell('hyp3f2', 'terminating/|z|<1', 3, 2, 0, 40, *zin, via='hyp3f2', form='mixed'),
                   make_pfq_cell('hyp3f2', 'terminating/z=1', 3, 2, 1, 30, 1.0, 1.0, via='hyp3f2', form='mixed'),
                   make_pfq_cell('hyp3f2', 'terminating/|z|>1', 3, 2, 1, 40, 1.0, 30.0, via='hyp3f2', form='mixed')],
        'hyper': [make_pfq_cell('hyper', 'terminating/1F0', 1, 0, 0, 40, -5.0, 5.0),
                  make_pfq_cell('hyper', 'terminating/3F0', 3, 0, 1, 20, -3.0, 3.0),
                  make_pfq_cell('hyper', 'terminating/3F1', 3, 1, 1, 30, -5.0, 5.0),
                  make_pfq_cell('hyper', 'terminating/4F3', 4, 3, 1, 40, -3.0, 3.0, form='mixed'),
                  make_pfq_cell('hyper', 'terminating/5F4', 5, 4, 1, 30, -2.0, 2.0),
                  make_pfq_cell('hyper', 'terminating/2F4', 2, 4, 1, 30, -200.0, 200.0),
                  make_pfq_cell('hyper', 'terminating/4F1', 4, 1, 1, 15, -2.0, 2.0)],
        'legendre': [make_poly_cell('legendre', 'int-degree/[-1,1]', 0, 0, 80, -1.0, 1.0),
                     make_poly_cell('legendre', 'neg-int-degree/[-1,1]', 0, -40, -1, -1.0, 1.0),
                     make_poly_cell('legendre', 'any-int-degree/x-in-{0,+-1,m*2^-k}', 0, -30, 30, 0, 0, xgen=_special_x, weight=3),
                     make_poly_cell('legendre', 'int-degree/tiny-argument', 0, 0, 40, 0, 0, xgen=_tiny_x),
                     make_poly_cell('legendre', 'int-degree/outside', 0, 0, 60, -20.0, 20.0),
                     make_poly_cell('legendre', 'int-degree-81..400/[-1,1]', 0, 81, 400, -1.0, 1.0, heavy=True)],
        'chebyt': [make_poly_cell('chebyt', 'int-degree/[-1,1]', 0, 0, 80, -1.0, 1.0),
                   make_poly_cell('chebyt', 'neg-int-degree/[-1,1]', 0, -40, -1, -1.0, 1.0),
                   make_poly_cell('chebyt', 'any-int-degree/x-in-{0,+-1,m*2^-k}', 0, -30, 30, 0, 0, xgen=_special_x, weight=2),
                   make_poly_cell('chebyt', 'int-degree/tiny-argument', 0, 0, 40, 0, 0, xgen=_tiny_x),
                   make_poly_cell('chebyt', 'int-degree/outside', 0, 0, 60, -20.0, 20.0),
                   make_poly_cell('chebyt', 'int-degree-81..400/[-1,1]', 0, 81, 400, -1.0, 1.0, heavy=True)],
        'chebyu': [make_poly_cell('chebyu', 'int-degree/[-1,1]', 0, 0, 80, -1.0, 1.0),
                   make_poly_cell('chebyu', 'neg-int-degree/[-1,1]', 0, -40, -1, -1.0, 1.0),
                   make_poly_cell('chebyu', 'any-int-degree/x-in-{0,+-1,m*2^-k}', 0, -30, 30, 0, 0, xgen=_special_x, weight=2),
                   make_poly_cell('chebyu', 'int-degree/tiny-argument', 0, 0, 40, 0, 0, xgen=_tiny_x),
                   make_poly_cell('chebyu', 'int-degree/outside', 0, 0, 60, -20.0, 20.0)],
        'hermite': [make_poly_cell('hermite', 'int-degree/moderate', 0, 0, 60, -10.0, 10.0),
                    make_poly_cell('hermite', 'int-degree/x-in-{0,+-1,m*2^-k}', 0, 0, 30, 0, 0, xgen=_special_x),
                    make_poly_cell('hermite', 'int-degree/tiny-argument', 0, 0, 40, 0, 0, xgen=_tiny_x),
                    make_poly_cell('hermite', 'int-degree/large-x', 0, 0, 40, -2000.0, 2000.0),
                    make_poly_cell('hermite', 'int-degree-61..300/moderate', 0, 61, 300, -20.0, 20.0, heavy=True)],
        'laguerre': [make_poly_cell('laguerre', 'int-degree/rational-a', 1, 0, 40, -60.0, 60.0),
                     make_poly_cell('laguerre', 'int-degree/rational-a/x-in-{0,+-1,m*2^-k}', 1, 0, 30, 0, 0, xgen=_special_x),
                     make_poly_cell('laguerre', 'int-degree/rational-a>-1/pos-x', 1, 0, 60, 0.0, 100.0, par_gt=-1)],
        'gegenbauer': [make_poly_cell('gegenbauer', 'int-degree/rational-a>0/[-1,1]', 1, 0, 40, -1.0, 1.0, positive_par=True),
                       make_poly_cell('gegenbauer', 'int-degree/rational-a>0/x-in-{0,+-1,m*2^-k}', 1, 0, 30, 0, 0, positive_par=True, xgen=_special_x),
                       make_poly_cell('gegenbauer', 'int-degree/rational-a>0/outside', 1, 0, 30, -20.0, 20.0, positive_par=True)],
        'jacobi': [make_poly_cell('jacobi', 'int-degree/rational-a,b>-1/[-1,1]', 2, 0, 40, -1.0, 1.0, par_gt=-1),
                   make_poly_cell('jacobi', 'int-degree/rational-a,b>-1/x-in-{0,+-1,m*2^-k}', 2, 0, 30, 0, 0, par_gt=-1, xgen=_special_x),
                   make_poly_cell('jacobi', 'int-degree/rational-a,b>-1/outside', 2, 0, 30, -20.0, 20.0, par_gt=-1),
                   make_poly_cell('jacobi', 'int-degree/integer-a,b-in--6..6/[-1,1]', 2, 0, 12, -1.0, 1.0, par_lo=-6, par_hi=6, dens=(1,)),
                   make_poly_cell('jacobi', 'int-degree/rational-a,b-any/[-1,1]', 2, 0, 20, -1.0, 1.0, par_lo=-6, par_hi=6)],
    }
    return out


TABLE = {
    'hyp0f1': t_hyp0f1(), 'hyp1f1': t_hyp1f1(), 'hyp1f2': t_hyp1f2(), 'hyp2f0': t_hyp2f0(), 'hyp2f1': t_hyp2f1(),
    'hyp2f2': t_hyp2f2(), 'hyp2f3': t_hyp2f3(), 'hyp3f2': t_hyp3f2(), 'hyper': t_hyper(), 'hyperu': t_hyperu(),
    'whitm': t_whit(False), 'whitw': t_whit(True), 'meijerg': t_meijerg(), 'appellf1': t_appellf1(), 'hyper2d': t_hyper2d(),
    'legendre': t_legendre(), 'legenp': t_legenp('legenp'), 'legenq': t_legenp('legenq'), 'chebyt': t_cheby(), 'chebyu': t_cheby(),
    'jacobi': t_jacobi(), 'gegenbauer': t_gegenbauer(), 'hermite': t_hermite(), 'laguerre': t_laguerre(),
    'spherharm': t_spherharm(), 'pcfd': t_pcf('pcfd'), 'pcfu': t_pcf('pcfu'), 'pcfv': t_pcf('pcfv'), 'pcfw': t_pcf('pcfw'),
}
for _f, _cells in exact_cells().items():
    TABLE[_f] = TABLE[_f] + _cells


# high-precision stratum (2500 / 3000 / 3500 bits): exact cells are cheap there (no reference evaluation)
TABLE['hyp1f1'] = TABLE['hyp1f1'] + [HP(RG('hp/generic/|z|<64-real', A(p_gen, p_low, uniform_bits(-64.0, 64.0)))),
                                     HP(make_pfq_cell('hyp1f1', 'hp/terminating/n<=40', 1, 1, 0, 40, -20.0, 20.0, via='hyp1f1', form='mixed'))]
TABLE['hyp2f1'] = TABLE['hyp2f1'] + [HP(RG('hp/generic/|z|<=0.8-real', A(p_gen, p_gen, p_low, z_in))),
                                     HP(make_pfq_cell('hyp2f1', 'hp/terminating/|z|<1', 2, 1, 0, 40, -0.95, 0.95, via='hyp2f1', form='mixed'))]
TABLE['hyp0f1'] = TABLE['hyp0f1'] + [HP(RG('hp/b-generic/|z|<128-real', A(p_low, uniform_bits(-128.0, 128.0))))]
TABLE['hyperu'] = TABLE['hyperu'] + [HP(RG('hp/generic/large-pos', A(p_gen, p_gen, uniform_bits(2600.0, 6000.0))))]
for _f in ('legendre', 'chebyt', 'chebyu'):
    TABLE[_f] = TABLE[_f] + [HP(make_poly_cell(_f, 'hp/any-int-degree/[-1,1]', 0, -30, 60, -1.0, 1.0)),
                             HP(make_poly_cell(_f, 'hp/any-int-degree/x-in-{0,+-1,m*2^-k}', 0, -30, 30, 0, 0, xgen=_special_x))]
TABLE['hermite'] = TABLE['hermite'] + [HP(make_poly_cell('hermite', 'hp/int-degree/moderate', 0, 0, 60, -10.0, 10.0))]
TABLE['laguerre'] = TABLE['laguerre'] + [HP(make_poly_cell('laguerre', 'hp/int-degree/rational-a', 1, 0, 40, -60.0, 60.0))]
TABLE['jacobi'] = TABLE['jacobi'] + [HP(make_poly_cell('jacobi', 'hp/int-degree/rational-a,b>-1/[-1,1]', 2, 0, 30, -1.0, 1.0, par_gt=-1))]


def shards(tier, seed):
    # VERIF_BUDGET_SCALE (default 1) scales the per-shard CPU budget; used only to self-validate on a shared, loaded machine
    import os
    scale = float(os.environ.get('VERIF_BUDGET_SCALE', '1') or 1)
    return [{'n': CASES[tier], 'nshards': NSHARDS, 'budget_s': BUDGET[tier] * scale, 'wall_s': WALL[tier]} for _ in range(NSHARDS)]


def run_shard(shard, rec):
    K.run(PROP, TABLE, shard, rec, shard['n'], tmax=6.0 if shard.get('tier') == 'quick' else 20.0)


_req = K.required(TABLE)


def required(agg, tier):
    miss = list(_req(agg, tier))
    if not agg['events'].get('results compared with an exact Fraction value'):
        miss.append('the exact Fraction oracle for terminating series saw no case')
    return miss


def replay(case, rec):
    K.replay(PROP, TABLE, case, rec)
