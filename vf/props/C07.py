"""C07 -- decimal strings convert to correctly rounded binary values.

Observed: raw tuples returned by libmp.from_str, mp.mpf(str[, prec=, rounding=]), mp.convert(str), mp.convert(Decimal),
iv.mpf(str) / libmp.mpi_from_str for every documented interval string form, iv.mpf([str, str]).
Oracle: vf/exact_strings.py + vf/exactq.py -- the literal is parsed independently into n*10**E (or p/q), then
  * inside the envelope 1e-100 <= |v| <= 1e100 the result must equal the exact correct rounding (every mode);
  * for every literal and every directed mode the result must not lie on the wrong side of v (exact integer
    comparison for |E| <= 2*10^5, rigorous integer enclosure of 5**|E| beyond; None -> undecided);
  * interval forms must contain the denoted number / range.
"""
from fractions import Fraction
from vf import exactq as Q
from vf import gens as G
from vf import exact_strings as X

PROP = 'C07'
LEVEL = 'exploration'
RULE = ('seeded stratified generation: literal form (int, fixed, exponent classes incl. 399..402 / 1e3..1e6 / 1e9, 1e18, 2^70, p/q, '
        'decorated, zero, midpoint hunters, grid hunters, interval string forms) x rounding mode x route x precision; a case is '
        'non-trivial when the exact value is not representable in p bits (a rounding decision was made); '
        'distinct = distinct (literal, p, mode, route)')
ASSUMPTIONS = ['vf/exact_strings.parse_literal + exactq.round_to (twin implementations, self-tested) are correct',
               'integer enclosure of 5**k by outward-truncated binary exponentiation is rigorous (cross-checked against the exact '
               'comparison for |E| <= 10^4 in the shard self-test)',
               'results are read from ._mpf_ / ._mpi_']
SHARD_TIMEOUT = {'quick': 300, 'thorough': 2400}
LEVEL_TEXT = ('exploration: ~6*10^5 (quick) / ~6*10^6 (thorough) literal conversions on the real code, each decided exactly: '
              'correct rounding inside 1e-100..1e100 (all five modes), never-on-the-wrong-side for every directed conversion of '
              'every literal (any exponent size), containment for the interval string forms')
LEVEL_NOTE = ('trusted base: vf/exactq.py + vf/exact_strings.py (Python int arithmetic); literals not generated are not covered; '
              'for |E| > 2*10^5 the comparison uses a rigorous integer enclosure and may be undecided')
TECHNIQUE = 'runtime reference-model monitor: exact rational oracle on every observed string conversion'

CASES = {'quick': 32000, 'thorough': 400000}
FORMS = ['int', 'fixed', 'exp-small', 'exp-env', 'exp-switch', 'exp-big', 'exp-astro', 'frac', 'tie', 'tie-long', 'grid',
         'grid-long', 'decor', 'zero', 'fixed-long', 'iv']
IV_FORMS = ['plain', 'pm', 'paren', 'pm%', 'paren%', 'brackets', 'shared', 'list']
DIRECTED = ('f', 'c', 'd', 'u')


def shards(tier, seed):
    return [{'n': CASES[tier]} for _ in range(16)]


def _mp():
    import mpmath
    return mpmath


# ---------------------------------------------------------------------------------------
# literal generators
# ---------------------------------------------------------------------------------------

def digits(r, D, lead=True):
    """a string of D decimal digits with an adversarial or random pattern (first digit non-zero if lead)"""
    if D <= 0:
        return ''
    k = r.random()
    if k < 0.55 or D < 3:
        s = ''.join(r.choice('0123456789') for _ in range(D)) if D < 40 else str(r.getrandbits(4 * D + 8))[:D].rjust(D, '7')
    elif k < 0.65:
        s = '9' * D
    elif k < 0.75:
        s = '1' + '0' * (D - 2) + '1'
    elif k < 0.85:
        s = r.choice('1234') + '4' + '9' * (D - 2)
    elif k < 0.93:
        s = r.choice('123456789') + '5' + '0' * (D - 3) + r.choice('01')
    else:
        h = D // 2
        s = digits(r, h, lead) + '0' * (D - h - 1) + r.choice('123456789')
    if lead and s[0] == '0':
        s = r.choice('123456789') + s[1:]
    return s


def documented_branch(lit):
    """Which branch of from_str a literal takes according to the documented switch: (man, exp) after stripping the
    trailing zeros of the fractional part; approximate iff |exp| > 400 + bitcount(man)//3 (the rule since the fix
    e389835: literals whose exponent is comparable to their digit count are converted exactly, so no literal inside
    1e-100..1e100 reaches the approximate branch)."""
    x = lit.lower().strip()
    if '/' in x:
        return 'rational', 0
    parts = x.split('e')
    exp = int(parts[1]) if len(parts) == 2 else 0
    x = parts[0].lstrip('+-')
    if '.' in x:
        a, b = x.split('.')
        b = b.rstrip('0')
        exp -= len(b)
        x = a + b
    man = int(x or '0')
    return ('approx-branch' if abs(exp) > 400 + man.bit_length() // 3 else 'exact-branch'), exp


def no_digits_left(lit):
    """mechanism classifier: the literal has no integer digits and its fractional digits are all zeros ('.0', '-.00e5'),
    so that stripping the trailing zeros of the fraction leaves no digit at all"""
    x = lit.lower().strip().lstrip('+-').split('e')[0]
    if '.' not in x:
        return False
    a, b = x.split('.')
    return a == '' and b.strip('0') == ''


def lit_with_exp(r, mant_digits, frac_len, docexp):
    """literal  ddd.ddd e X  whose documented exponent is docexp (mantissa last digit non-zero)"""
    ds = mant_digits
    if ds[-1] == '0':
        ds = ds[:-1] + r.choice('123456789')
    frac_len = min(frac_len, len(ds))
    X_ = docexp + frac_len
    if frac_len:
        ip, fp = ds[:len(ds) - frac_len], ds[len(ds) - frac_len:]
        m = (ip or r.choice(['', '0'])) + '.' + fp
    else:
        m = ds
    return m + r.choice('eE') + r.choice(['', '+'] if X_ >= 0 else ['']) + str(X_)


def hunter(r, p, tie, long_):
    """decimal expansion of a p-bit midpoint (tie) or p-bit grid point, then K more digits and +-1 in the last place.
    Value inside the envelope.  long_ -> more than 400 fractional digits (approximate branch inside the envelope)."""
    m = G.mantissa(r, p) if p > 1 else 1
    if tie:
        m = (m << 1) | 1
    # value m*2^t with |log2| < ~300
    top = r.randint(-300, 300) if r.random() < 0.7 else r.randint(-20, 20)
    t = top - m.bit_length()
    if t < 0:
        n, E = m * X.pow5(-t), t
    else:
        n, E = m << t, 0
    if long_:
        K = max(0, 401 + E) + r.choice([0, 1, 2, 50, 200, 500])
        if K == 0:
            K = r.choice([1, 3])
    else:
        room = 400 + E          # fractional digits still allowed in the exact branch
        if room < 0:
            return None
        K = r.choice([0, 0, 1, 2, 5, 17, 30, 100, 390])
        K = min(K, room)
    delta = r.choice([-1, 1]) if K else (0 if tie else r.choice([-1, 1]))
    if not tie and K == 0:
        # a grid point itself (exactly representable): every mode must return it
        delta = 0 if r.random() < 0.5 else delta
    n2 = n * 10 ** K + delta
    E2 = E - K
    if r.random() < 0.5:
        n2 = -n2
    if -E2 <= 1200 and r.random() < 0.6:
        lit = X.digits_to_literal(n2, E2, 'fixed')
    else:
        lit = X.digits_to_literal(n2, E2, 'exp', exp_shift=r.choice([0, 0, 3, 10 ** 6]))
    return lit


def gen_literal(r, form, p):
    sg = r.choice(['', '', '-', '-', '+'])
    if form == 'int':
        D = r.choice([r.randint(1, 18), r.randint(19, 60), r.randint(300, 450), r.randint(1000, 3000)])
        s = digits(r, D)
        if r.random() < 0.25:
            s += '0' * r.choice([1, 5, 399, 400, 401, 450])
        return sg + s
    if form in ('fixed', 'fixed-long'):
        if form == 'fixed':
            fl = r.choice([r.randint(1, 20), r.randint(21, 120), r.randint(380, 400)])
        else:
            fl = r.choice([r.randint(401, 420), r.randint(421, 900), r.randint(1000, 3000)])
        il = r.choice([0, 1, 1, r.randint(1, 30), r.randint(1, 110)])
        ip = digits(r, il) if il else r.choice(['', '0'])
        if r.random() < 0.4:
            # small number: leading zeros after the point
            z = r.randint(1, max(1, min(fl - 1, 105)))
            fp = '0' * z + digits(r, fl - z)
        else:
            fp = digits(r, fl, lead=False)
        if not ip and not fp:
            ip = '0'
        return sg + ip + '.' + fp
    if form == 'exp-small':
        D = r.choice([1, 2, r.randint(1, 17), r.randint(18, 40)])
        return sg + lit_with_exp(r, digits(r, D), r.randint(0, D), r.randint(-60, 60))
    if form == 'exp-env':
        # value inside the envelope with a documented exponent well inside 40..400
        D = r.choice([r.randint(1, 20), r.randint(20, 120), r.randint(120, 300)])
        lo, hi = max(-400, -100 - D + 1), min(400, 100 - D)
        docexp = r.randint(lo, hi) if lo <= hi else -D
        if r.random() < 0.5 and lo <= -41:
            docexp = r.randint(lo, -41)
        return sg + lit_with_exp(r, digits(r, D), r.randint(0, D), docexp)
    if form == 'exp-switch':
        D = r.choice([1, r.randint(1, 20), r.randint(100, 500)])
        docexp = r.choice([1, -1]) * r.choice([398, 399, 400, 401, 402, 403])
        return sg + lit_with_exp(r, digits(r, D), r.randint(0, D), docexp)
    if form == 'exp-big':
        D = r.choice([1, r.randint(1, 20), r.randint(20, 60), r.randint(400, 1200)])
        docexp = r.choice([1, -1]) * (r.choice([410, 500, 1000, 4000, 10 ** 4, 10 ** 5, 10 ** 6]) + r.randint(-3, 3))
        if docexp < 0 and r.random() < 0.3:
            docexp = -(D + r.randint(0, 99))      # many digits, value inside the envelope
        return sg + lit_with_exp(r, digits(r, D), r.randint(0, D), docexp)
    if form == 'exp-astro':
        D = r.choice([1, r.randint(1, 20), r.randint(20, 60)])
        docexp = r.choice([1, -1]) * (r.choice([10 ** 9 + 7, 10 ** 12, 10 ** 18, 2 ** 70]) + r.randint(-3, 3))
        return sg + lit_with_exp(r, digits(r, D), r.randint(0, D), docexp)
    if form == 'frac':
        a = r.randint(1, 10 ** r.choice([1, 3, 18, 40, 120]))
        b = r.randint(1, 10 ** r.choice([1, 3, 18, 40, 120]))
        if r.random() < 0.3:
            # quotient next to a rounding boundary: a/b ~ (m+1/2) 2^-k
            m = (G.mantissa(r, max(2, p)) << 1) | 1
            a = m * b + r.choice([-1, 0, 1])
            b = b << (p + 1)
            if a <= 0:
                a = m * b
        sp = r.choice(['', '', ' '])
        s2 = r.choice(['', '', '-'])
        return sg.replace('+', '') + str(a) + sp + '/' + sp + s2 + str(b)
    if form in ('tie', 'tie-long', 'grid', 'grid-long'):
        for _ in range(20):
            lit = hunter(r, p, form.startswith('tie'), form.endswith('long'))
            if lit is not None:
                return lit
        return '0.5'
    if form == 'decor':
        D = r.randint(1, 25)
        core = r.choice([
            digits(r, D) + '.',
            '.' + digits(r, D, lead=False),
            '000' + digits(r, D) + '.' + digits(r, 3, lead=False) + '000',
            digits(r, D) + '.e' + str(r.randint(-30, 30)),
            '.' + digits(r, D, lead=False) + 'E+00' + str(r.randint(0, 30)),
            digits(r, D) + 'e-00' + str(r.randint(0, 99)),
            digits(r, 1) + '.' + '0' * r.choice([1, 10, 401, 500]),
            digits(r, D) + '0' * 20 + 'e-' + str(r.choice([20, 410, 421])),
            '0' * r.choice([1, 401]) + digits(r, D),
            '0.' + '0' * r.choice([5, 399, 400, 401, 410]) + digits(r, D),
        ])
        ws = r.choice(['', ' ', '  ', '\t', '\n'])
        ws2 = r.choice(['', ' ', '\n', ' \t'])
        return ws + sg + core + ws2
    if form == 'zero':
        return sg + r.choice(['0', '0.0', '.0', '0.', '00.00', '0e5', '0e-5', '0.0e500', '0e-401', '0e1000000', '0.000e+0',
                              '0e-1000000000000'])
    raise ValueError(form)


# ---------------------------------------------------------------------------------------
# the checks
# ---------------------------------------------------------------------------------------

def value_of(lit):
    k = X.parse_literal(lit)
    if k is None or k[0] == 'special':
        return None
    return k


def cmp_raw(raw, val):
    if val[0] == 'dec':
        return X.cmp_raw_dec(raw, val[1], val[2])
    return X.cmp_raw_frac(raw, val[1], val[2])


def sign_of(val):
    if val[0] == 'dec':
        return (val[1] > 0) - (val[1] < 0)
    p, q = val[1], val[2]
    s = (p > 0) - (p < 0)
    return s if q > 0 else -s


def in_envelope(val):
    return X.in_envelope_dec(val[1], val[2]) if val[0] == 'dec' else X.in_envelope_frac(val[1], val[2])


def correct(val, p, mode):
    if val[0] == 'dec':
        return X.round_dec(val[1], val[2], p, mode)
    return X.round_frac(val[1], val[2], p, mode)


def wrong_side(c, sv, mode):
    """c = sign(result - v); True iff the directed result is on the forbidden side"""
    if mode == 'f':
        return c > 0
    if mode == 'c':
        return c < 0
    if sv == 0:
        return c != 0
    if mode == 'd':
        return c * sv > 0
    if mode == 'u':
        return c * sv < 0
    return False


def convert(mpm, lit, p, mode, route):
    """run the real code; returns the raw tuple"""
    mp = mpm.mp
    if route == 'from_str':
        return mpm.libmp.from_str(lit, p, mode)
    if route == 'mpf-kw':
        return mp.mpf(lit, prec=p, rounding=mode)._mpf_
    if route in ('mpf-ctx', 'convert', 'mpc', 'Decimal'):
        assert mode == 'n'
        old = mp.prec
        mp.prec = p
        try:
            if route == 'mpf-ctx':
                return mp.mpf(lit)._mpf_
            if route == 'mpc':
                z = mp.mpc(lit, lit)
                assert z._mpc_[0] == z._mpc_[1]
                return z._mpc_[0]
            if route == 'Decimal':
                import decimal
                return mp.convert(decimal.Decimal(lit.strip()))._mpf_
            return mp.convert(lit)._mpf_
        finally:
            mp.prec = old
    if route == 'iv-list':
        iv = mpm.iv
        old = iv.prec
        iv.prec = p
        try:
            a, b = iv.mpf([lit, lit])._mpi_
        finally:
            iv.prec = old
        return a if mode == 'f' else b
    raise ValueError(route)


def check_literal(mpm, rec, lit, p, mode, route, form):
    val = value_of(lit)
    case = {'kind': 'literal', 'lit': lit, 'prec': p, 'mode': mode, 'route': route, 'form': form}
    if val is None:
        rec.undecided('oracle parser does not understand the literal', case)
        return
    branch, docexp = documented_branch(lit)
    try:
        got = convert(mpm, lit, p, mode, route)
    except Exception as e:
        rec.case((lit, p, mode, route), True, cls='%s/%s/%s' % (form, branch, mode))
        key = 'C07/str_to_man_exp/no-digits-left' if no_digits_left(lit) else 'C07/from_str/%s/exception' % branch
        rec.violation(key, 'valid literal rejected: %r' % (e,), case, repr(e), 'a value')
        return
    env = in_envelope(val)
    sv = sign_of(val)
    want = None
    if env or (val[0] == 'dec' and abs(val[2]) <= 20000) or val[0] == 'frac':
        want = correct(val, p, mode)
    nontrivial = _rounded(val, p)
    rec.case((lit, p, mode, route), nontrivial,
             cls='%s/%s/%s/%s' % (form, branch, mode, 'env' if env else 'out'))
    rec.cls('route/' + route)
    rec.sample(dict(case, lit=lit[:120]))
    if not Q.is_canonical(got) or not got[1] and got != Q.fzero:
        rec.violation('C07/from_str/%s/not-a-finite-number' % branch, 'conversion of a finite literal gave a special/non-canonical value',
                      case, got, want)
        return
    # (1) directed: never on the wrong side, for every literal
    if mode in DIRECTED:
        c = cmp_raw(got, val)
        if c is None:
            rec.undecided('enclosure of 10**E cannot decide the side', case)
            return
        rec.event('directed side decided')
        if wrong_side(c, sv, mode):
            rec.violation('C07/from_str/%s/directed' % branch,
                          'directed conversion (mode %s) on the wrong side of the exact decimal' % mode, case, got, want)
            return
    # (2) inside the envelope: correctly rounded
    if env:
        rec.event('in-envelope result compared with exact rounding')
        if got != want:
            if mode == 'n':
                key = 'C07/from_str/%s/nearest-in-envelope' % branch
            else:
                key = 'C07/from_str/%s/directed-in-envelope-not-tight' % branch
            rec.violation(key, 'literal inside 1e-100..1e100 not correctly rounded (mode %s, prec %d)' % (mode, p), case, got, want)
    elif want is not None and got != want:
        rec.event('outside envelope: not correctly rounded (observed, not asserted) mode=' + ('n' if mode == 'n' else 'directed'))
        rec.note('outside-envelope misrounding', {'lit': lit[:80], 'prec': p, 'mode': mode, 'got': got, 'correct': want}, cap=5)


def _rounded(val, p):
    """True iff the exact value does not fit in p bits"""
    if val[0] == 'frac':
        return not Q.fits(Q.Ex(val[1], val[2], 0), p)
    n, E = val[1], val[2]
    if n == 0:
        return False
    if E < 0:
        # n/10^-E: dyadic only if 5^-E divides n
        k = -E
        if abs(n).bit_length() < (k * 2321928) // 1000000:
            return True
        if abs(E) > X.EXACT_E:
            return True
        return not Q.fits(Q.Ex(n, X.pow5(k), E), p)
    if (E * 2321928) // 1000000 > p + 1:
        return True
    return not Q.fits(Q.Ex(n * X.pow5(E), 1, E), p)


# -- interval string forms -------------------------------------------------------------

def frac_of(val):
    if val[0] == 'frac':
        return Fraction(val[1], val[2])
    n, E = val[1], val[2]
    return Fraction(n) * Fraction(10) ** E


def cmp_raw_q(raw, q):
    return X.cmp_raw_frac(raw, q.numerator, q.denominator)


def gen_iv(r, p, form):
    """returns (string or list, lower, upper, components) where lower/upper are ('val', parsed) or ('q', Fraction)"""
    def small_lit(maxexp=300):
        f = r.choice(['int', 'fixed', 'exp-small', 'exp-env', 'tie', 'grid', 'decor'])
        if f == 'int':
            return r.choice(['', '-']) + digits(r, r.randint(1, 30))
        s = gen_literal(r, f, p).strip()
        return s.lstrip('+')
    if form in ('plain', 'list'):
        f = r.choice(['int', 'fixed', 'exp-small', 'exp-env', 'exp-switch', 'exp-big', 'exp-astro', 'tie', 'grid', 'grid-long',
                      'fixed-long', 'zero'])
        a = gen_literal(r, f, p).strip()
        if form == 'list':
            f2 = r.choice(['same', 'other'])
            if f2 == 'same':
                return [a, a], ('val', value_of(a)), ('val', value_of(a)), [a]
            b = gen_literal(r, r.choice(['int', 'fixed', 'exp-small', 'exp-switch', 'exp-big', 'grid']), p).strip()
            va, vb = value_of(a), value_of(b)
            # order them (exactly) when cheap; else use the same literal twice
            try:
                if abs(va[2]) > 3000 or abs(vb[2]) > 3000:
                    raise OverflowError
                if frac_of(va) > frac_of(vb):
                    a, b, va, vb = b, a, vb, va
            except OverflowError:
                b, vb = a, va
            return [a, b], ('val', va), ('val', vb), [a, b]
        return a, ('val', value_of(a)), ('val', value_of(a)), [a]
    if form in ('pm', 'paren', 'pm%', 'paren%'):
        a = small_lit()
        b = r.choice([digits(r, r.randint(1, 6)), '0.' + digits(r, r.randint(1, 25), lead=False),
                      digits(r, r.randint(1, 5)) + 'e-' + str(r.randint(1, 60)), '0', '1e-400', '1e-450'])
        pct = form.endswith('%')
        va, vb = frac_of(value_of(a)), frac_of(value_of(b))
        h = abs(va) * vb / 100 if pct else vb
        sp = r.choice(['', ' '])
        if form.startswith('pm'):
            s = a + sp + '+-' + sp + b + ('%' if pct else '')
        else:
            s = a + sp + '(' + b + ('%' if pct else '') + ')'
        return s, ('q', va - h), ('q', va + h), [a, b]
    if form == 'brackets':
        a, b = small_lit(), small_lit()
        va, vb = value_of(a), value_of(b)
        if frac_of(va) > frac_of(vb):
            a, b, va, vb = b, a, vb, va
        sp = r.choice(['', ' '])
        return '[' + a + ',' + sp + b + ']', ('val', va), ('val', vb), [a, b]
    if form == 'shared':
        neg = r.random() < 0.4
        x = digits(r, r.randint(1, 12))
        if r.random() < 0.7:
            k = r.randint(0, len(x))
            x = x[:k] + '.' + x[k:]
        L = r.randint(1, 8)
        y, z = digits(r, L, lead=False), digits(r, L, lead=False)
        if y == z:
            z = y[:-1] + ('1' if y[-1] != '1' else '2')
        if (y > z) != neg:       # lower endpoint first: smaller digits first for positive, larger first for negative
            y, z = z, y
        e = r.choice(['', '', 'e' + str(r.randint(-60, 60)), 'e' + str(r.choice([-420, 410, -1000, 100000]))])
        sgn = '-' if neg else ''
        s = sgn + x + '[' + y + ',' + r.choice(['', ' ']) + z + ']' + e
        a, b = sgn + x + y + e, sgn + x + z + e
        return s, ('val', value_of(a)), ('val', value_of(b)), [a, b]
    raise ValueError(form)


def check_iv(mpm, rec, s, lower, upper, comps, p, form, via):
    case = {'kind': 'iv', 'string': s, 'prec': p, 'form': form, 'via': via,
            'lower': _bound_json(lower), 'upper': _bound_json(upper), 'components': comps}
    branches = [documented_branch(c)[0] for c in comps]
    approx = 'approx-branch' in branches
    iv = mpm.iv
    try:
        if via == 'libmp' and isinstance(s, str):
            a, b = mpm.libmp.mpi_from_str(s, p)
        else:
            old = iv.prec
            iv.prec = p
            try:
                a, b = (iv.mpf(s) if via != 'convert' else iv.convert(s))._mpi_
            finally:
                iv.prec = old
    except Exception as e:
        rec.case((repr(s), p, via), True, cls='iv/%s/raised' % form)
        key = 'C07/mpi_from_str/%s/exception' % form
        if any(no_digits_left(c) for c in comps):
            key = 'C07/str_to_man_exp/no-digits-left'
        rec.violation(key, 'valid interval string rejected: %r' % (e,), case, repr(e), 'an interval')
        return
    rec.case((repr(s), p, via), True, cls='iv/%s/%s' % (form, 'approx-branch' if approx else 'exact-branch'))
    rec.cls('route/iv-' + via)
    rec.sample(dict(case, string=repr(s)[:120], components=[c[:60] for c in comps], lower=str(case['lower'])[:80],
                    upper=str(case['upper'])[:80]))

    def cmpb(raw, bound):
        if bound[0] == 'val':
            return cmp_raw(raw, bound[1])
        return cmp_raw_q(raw, bound[1])
    for raw in (a, b):
        if not Q.is_canonical(raw) or (not raw[1] and raw != Q.fzero):
            rec.violation('C07/mpi_from_str/%s/not-finite' % form, 'finite interval string gave a special endpoint', case, (a, b), None)
            return
    ca, cb = cmpb(a, lower), cmpb(b, upper)
    if ca is None or cb is None:
        rec.undecided('enclosure of 10**E cannot decide containment', case)
        return
    rec.event('interval containment decided')
    if ca > 0 or cb < 0:
        key = 'C07/from_str/approx-branch/directed' if approx else 'C07/mpi_from_str/%s/containment' % form
        rec.violation(key, 'interval from string does not contain the denoted %s' % ('number' if lower == upper else 'range'),
                      case, (a, b), 'lower endpoint <= %s, upper endpoint >= %s' % (case['lower'], case['upper']))


def _bound_json(b):
    if b[0] == 'q':
        return 'Fraction(%d,%d)' % (b[1].numerator, b[1].denominator)
    v = b[1]
    return '%s:%d:%d' % (v[0], v[1], v[2])


# ---------------------------------------------------------------------------------------
ROUTES_N = ['from_str', 'mpf-kw', 'mpf-ctx', 'convert', 'mpc', 'Decimal']
ROUTES_FC = ['from_str', 'mpf-kw', 'iv-list']
ROUTES_DU = ['from_str', 'mpf-kw']


def run_case(mpm, rec, r, i):
    form = FORMS[i % len(FORMS)]
    j = i // len(FORMS)
    mode = G.MODES[j % 5]
    p = G.pick_prec(r, big=False)
    if form in ('tie', 'tie-long', 'grid', 'grid-long') and r.random() < 0.6:
        p = r.choice([24, 53, 53, 64, 113])
    if form == 'iv':
        ivf = IV_FORMS[(j // 1) % len(IV_FORMS)]
        s, lo, up, comps = gen_iv(r, p, ivf)
        via = 'libmp' if (ivf != 'list' and r.random() < 0.4) else r.choice(['mpf', 'convert'])
        check_iv(mpm, rec, s, lo, up, comps, p, ivf, via)
        return
    lit = gen_literal(r, form, p)
    if mode == 'n':
        route = r.choice(ROUTES_N)
        if route == 'Decimal' and (form in ('frac',) or abs(documented_branch(lit)[1]) > 10 ** 17):
            route = 'convert'
        if route == 'mpc' and form == 'frac':
            route = 'mpf-ctx'
    elif mode in 'fc':
        route = r.choice(ROUTES_FC)
    else:
        route = r.choice(ROUTES_DU)
    check_literal(mpm, rec, lit, p, mode, route, form)


def run_shard(shard, rec):
    mpm = _mp()
    r = G.rng(PROP, shard['seed'], shard['shard'])
    if shard['shard'] == 0:
        bad = X.selftest(300)
        if bad:
            raise RuntimeError('exact_strings selftest failed: %d mismatches' % bad)
        rec.event('oracle self-test (enclosure vs exact comparison, parser twins) passed')
    from vf.instrument import AnchorCount
    with AnchorCount(rec, ['mpmath.libmp.libmpf:from_str', 'mpmath.libmp.libmpf:str_to_man_exp',
                           'mpmath.libmp.libmpi:mpi_from_str', 'mpmath.libmp.libmpi:mpi_from_str_a_b',
                           'mpmath.libmp.libmpf:from_rational', 'mpmath.ctx_iv:convert_mpf_',
                           r'mpmath.libmp.libmpf:from_str@mpf_pow_int\(ften']):
        for i in range(shard['n']):
            run_case(mpm, rec, r, i + shard['shard'] * 5)
    rec.event('conversions observed', rec.evals)


def required(agg, tier):
    miss = []
    cl = agg['classes']
    for form in FORMS[:-1]:
        if not any(k.startswith(form + '/') for k in cl):
            miss.append('no %s literal observed' % form)
    for f in IV_FORMS:
        if not any(k.startswith('iv/%s/' % f) for k in cl):
            miss.append('interval form %s never observed' % f)
    for b in ('approx-branch', 'exact-branch'):
        for m in G.MODES:
            if not any(('/%s/%s/' % (b, m)) in k for k in cl):
                miss.append('no %s case in mode %s' % (b, m))
    for f in ('tie-long', 'grid-long', 'fixed-long'):
        if not any(k.startswith(f + '/') and k.endswith('/n/env') for k in cl):
            miss.append('no in-envelope many-digit literal of form %s in nearest mode' % f)
    if not agg['events'].get('directed side decided'):
        miss.append('no directed conversion was decided')
    if not agg['events'].get('in-envelope result compared with exact rounding'):
        miss.append('no in-envelope conversion was compared')
    if not agg['events'].get('interval containment decided'):
        miss.append('no interval containment was decided')
    for a in ('mpmath.libmp.libmpf:from_str', 'mpmath.libmp.libmpi:mpi_from_str'):
        if a in agg['anchors'] and not agg['anchors'][a]:
            miss.append('anchor %s never reached' % a)
    return miss


def replay(case, rec):
    mpm = _mp()
    c = case['case']
    if c.get('kind') == 'literal':
        check_literal(mpm, rec, c['lit'], c['prec'], c['mode'], c['route'], c.get('form', 'replay'))
    elif c.get('kind') == 'iv':
        def bound(t):
            if t.startswith('Fraction('):
                a, b = t[9:-1].split(',')
                return ('q', Fraction(int(a), int(b)))
            k, a, b = t.split(':')
            return ('val', (k, int(a), int(b)))
        s = c['string']
        check_iv(mpm, rec, s, bound(c['lower']), bound(c['upper']), c['components'], c['prec'], c['form'], c['via'])
    else:
        rec.undecided('unknown replay case kind')
