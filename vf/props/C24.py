"""C24 -- function evaluations terminate, restated as *bounded progress*.

Every call f(args) of a catalog function (categories elementary, gamma, zeta, expint, bessel, hyper, elliptic,
intpart, numtheory) with finite arguments inside the stated envelope, at working precision 10..3500 bits, must
return or raise a documented exception within B logical steps (sys.monitoring PY_START events + backward JUMP
events, counted process-wide by instrument.StepBudget around the outermost call).  B belongs to the input class:

  |x| <= 10^4 in each component (counts <= 300)   B = 2*10^7      (quick tier: only this class)
  |x| <= 10^6 in each component (counts <= 1000)  B = 4*10^8      (thorough tier: both classes)

Monitors and verdicts
  * step counter: a call over B is re-executed once in a fresh process with 25 times the allowance (steps and CPU
    time of the first pass alike): it terminates -> held and noted 'over budget but terminates' (step count in the
    evidence); it does not -> violation, witness = frame stack at the interruption;
  * iteration monitors (LINE events) on the loops the property names: mpf_psi0 / mpc_psi0 / mpc_psi Euler-Maclaurin
    loops and the hypsum precision-doubling loop must stay within an iteration bound derived from their algorithm
    (5-6 times the legitimate count) -> violation C24/loop-bound/<loop>/<cell> within a second, also where the
    iterations are too heavy for the step counter to get anywhere;
  * exception type of every call: anything but ValueError (incl. ComplexResult), ZeroDivisionError, NoConvergence,
    NotImplementedError escaping -> violation "neither returns nor raises a documented exception";
  * CPU-time caps: T1 per call, extended to T2 only while the step rate projects to reach B.  A capped call is compared
    with the reference release (mpmath 1.3.0): the release returns within T_REF -> the tree gets 25 times that time
    (at least 30 s / 120 s) in a fresh interpreter, still not back -> violation C24/hang/<function>/<cell>; the release
    is capped too -> undecided.  MemoryError under the 6 GB address-space limit, child death -> undecided.

Each shard runs its cases in a forked child; the parent (which never executes library code) supervises through a
pipe, so a hung or crashed case costs one `undecided` and the rest of the shard still runs.  After an interruption
(budget / cap / loop bound) the child keeps running (its warm caches are expensive to rebuild) but is marked *tainted*:
asynchronously interrupted library code may have left a module-level cache half-updated, so a violation observed in
a tainted child is never reported directly -- the case is re-executed in a fresh child forked from the clean parent
and only that result counts.
"""
import os, sys, time, json, math, signal, select, traceback, collections
from vf import gens as G
from vf import catalog as K
from vf.exactq import canon, fzero

PROP = 'C24'
LEVEL = 'exploration'
CATEGORIES = ('elementary', 'gamma', 'zeta', 'expint', 'bessel', 'hyper', 'elliptic', 'intpart', 'numtheory')
BUDGET = {'quick': 2 * 10**7, 'thorough': 4 * 10**8}
XMAX = {'quick': 10**4, 'thorough': 10**6}
# integer "count" arguments (derivative order, polynomial degree, index of a zero, Stirling/Bell index ...): the cost
# of the library's (terminating) recurrences is polynomial in them, so "moderate size" is read as this envelope
NMAX = {'quick': 300, 'thorough': 1000}
# Wall-clock caps (never a violation, only `undecided`).  A case gets T1 seconds; when T1 expires the child looks at
# the step rate so far: if the case would reach the step budget within T2 at that rate (a loop-like, many-small-steps
# computation: the budget can still decide it) it is allowed to run on, otherwise (few gigantic steps) it is stopped.
WALL_T1 = {'quick': 3.0, 'thorough': 8.0}
WALL_T2 = {'quick': 40.0, 'thorough': 600.0}
WALL_HARD_EXTRA = 15.0                                  # parent kills the child this long after the applicable cap
SHARD_TIMEOUT = {'quick': 1500, 'thorough': 3300}
# A shard starts no new case once its children have used this much CPU time (so the set of executed cases does not
# depend on the load of the machine), or once the wall-clock safety limit is reached (so that the worker always
# reports before the runner's watchdog).  Skipped cases are counted, never a verdict.
SHARD_DEADLINE = {'quick': 55.0, 'thorough': 780.0}
SHARD_WALL_SAFETY = {'quick': 420.0, 'thorough': 2500.0}
# A call that exceeds B is not yet a violation (the statement is about termination after a *bounded* amount of
# computation; B is only the restatement): it is re-executed once in a fresh child with the extended allowance
# EXT*B steps and EXT*t1 CPU seconds, t1 = CPU time the first pass needed to exceed B (both budgets scaled alike).
#   it terminates                          -> held, noted as 'over budget but terminates' with its step count
#   it exceeds EXT*B steps, or EXT*t1 s    -> violation (over B and not finished within 25 times that allowance)
#   EXT*t1 is above the practical cap T3 and the cap fires first, or the step rate of the first pass projects beyond
#   T3 -> undecided.  For cells already listed as known findings only the short cap T3_KNOWN is spent (the verdict
#   never depends on the list, only the time spent does).
EXT = 25
# Calls stopped by a CPU cap are compared with the reference release (mpmath 1.3.0, own module state): when the release
# returns within T_REF, the tree gets HANG_FACTOR times that time (at least T_HANG_MIN) in a fresh interpreter; still
# not back -> violation C24/hang/... ("does not return where the release returns quickly"); the release is capped as
# well -> undecided as before.
NEEDS_REF = True
T_REF = {'quick': 3.0, 'thorough': 8.0}
HANG_FACTOR = 25
T_HANG_MIN = {'quick': 30.0, 'thorough': 120.0}
T3 = {'quick': 400.0, 'thorough': 800.0}
T3_KNOWN = {'quick': 20.0, 'thorough': 300.0}
DEADLINE_SLACK = {'quick': 20.0, 'thorough': 90.0}      # an extension beyond T1 must project to end before deadline+slack
N_SHARDS = 16
MEM_LIMIT = 6 * 2**30        # address-space limit of a child (bytes)

RULE = ('seeded stratified generation: every catalog function x argument style (generic, asymptotic edge |z|~c*p and '
        '|z|~c*sqrt(p), big, tiny, precision-relative (x + i 2^-k, k swept around the precision), unit circle, near non-positive integers, large order, degenerate parameter pairs) x '
        'precision 10..3500; every case is non-trivial (the call is executed under the step counter); '
        'distinct = distinct (function, exact argument specs, precision)')
ASSUMPTIONS = ['bounded progress stands in for termination: B logical steps (PY_START + backward JUMP) with B fixed a priori '
               '(2*10^7 for |x|<=10^4, 4*10^8 for |x|<=10^6); a call over B that also fails to finish within 25 times that allowance '
               '(steps, and CPU time of the first pass) is reported as non-terminating; one that finishes is held and listed',
               'hang oracle: a call that the reference release 1.3.0 completes within 3 s / 8 s CPU must complete in the tree within 25 times that time (at least 30 s / 120 s)',
               'iteration bounds of the anchored loops: 2 wp+200 (psi0 loops), 6 wp+60 m+400 (psi_m loop), 64 doublings (hypsum); legitimate counts are about 0.35 wp / 1.3 wp+13 m / < 20',
               'integer count/order/index arguments are limited to 300 (quick) / 1000 (thorough): recurrences polynomial in them terminate but are outside "moderate size"',
               'documented exceptions = ValueError (incl. ComplexResult), ZeroDivisionError, NoConvergence, NotImplementedError; '
               'OverflowError is documented only for exact=True arithmetic and astronomically large numbers, so it is not accepted here',
               'argument kinds per function are those declared in vf/catalog.py, narrowed to real where the documentation restricts the function to real arguments']
LEVEL_TEXT = ('exploration: ~1.4*10^4 (quick) / ~7*10^4 (thorough) calls of the 184 catalog functions on the real code under a '
              'process-wide step counter; generators aim at the edges of asymptotic validity, parameters near non-positive '
              'integers, |z| near 1, large orders, precisions up to 3500 bits')
LEVEL_NOTE = ('trusted base: CPython sys.monitoring event delivery (self-tested in every worker by cutting a deliberate endless loop); '
              'inputs not generated are not covered; termination is claimed only as "within B steps"')
TECHNIQUE = 'runtime monitors: process-wide logical step budget around every outermost call, iteration-bound monitors on the anchored loops, exception-type check; fork-supervised workers with CPU-time caps'

DOCUMENTED = ('ValueError', 'ZeroDivisionError', 'NoConvergence', 'NotImplementedError', 'ComplexResult')

ANCHORS = ['mpmath.libmp.gammazeta:mpf_psi0', 'mpmath.libmp.gammazeta:mpc_psi0', 'mpmath.libmp.gammazeta:mpc_psi',
           'mpmath.ctx_mp:MPContext.hypsum', 'mpmath.functions.hypergeometric:hypercomb',
           'mpmath.functions.zeta:_hurwitz_em', 'mpmath.functions.rszeta:Rzeta_set', 'mpmath.functions.rszeta:Rzeta_simul',
           'mpmath.libmp.libhyper:mpf_erfc', 'mpmath.libmp.libhyper:mpf_ei', 'mpmath.libmp.libhyper:mpc_ei',
           'mpmath.ctx_base:StandardBaseContext.sum_accurately']

# Functions that the documentation defines for real arguments only (the catalog lists the first argument as 'z' or the
# function takes reals by definition): complex input is outside the property and is not generated.
REAL_ONLY = {'atan2', 'hypot', 'fmod', 'erfinv', 'siegeltheta', 'siegelz', 'primepi', 'arg', 'phase', 'riemannr',
             'betainc', 'spherharm', 'coulombf', 'coulombg', 'cbrt', 'ncdf', 'besseljzero', 'besselyzero'}
# Cost table fixed a priori from a calibration scout on the unchanged tree (mean seconds per generated case, each
# case capped at 5 s; functions below 0.03 s are not listed).  It only thins the *sample* of the costly functions
# (fewer cases, smaller share of the > 1000-bit precisions) so that the tiers fit their time budget; no function,
# style or precision class is excluded.
COST = {'airyai': 0.11, 'airyaizero': 0.45, 'airybi': 0.27, 'airybizero': 0.37, 'altzeta': 0.15, 'angerj': 0.42,
        'appellf1': 0.05, 'barnesg': 0.23, 'bei': 0.26, 'ber': 0.58, 'besseli': 0.25, 'besselj': 0.07,
        'besseljzero': 0.38, 'besselk': 0.18, 'bessely': 0.25, 'besselyzero': 0.23, 'beta': 0.09, 'betainc': 0.10,
        'chi': 0.06, 'ci': 0.03, 'clcos': 0.62, 'clsin': 0.22, 'coulombf': 0.41, 'coulombg': 0.37, 'digamma': 0.23,
        'ellippi': 0.29, 'elliprd': 0.04, 'elliprg': 0.04, 'elliprj': 0.12, 'eta': 0.04, 'expint': 0.11,
        'fac2': 0.09, 'ff': 0.09, 'fresnelc': 0.09, 'fresnels': 0.04, 'gamma': 0.13, 'gammainc': 0.33,
        'gegenbauer': 0.10, 'hankel1': 0.21, 'hankel2': 0.06, 'harmonic': 0.20, 'hurwitz': 0.21, 'hyp0f1': 0.03,
        'hyp1f1': 0.12, 'hyp1f2': 0.04, 'hyp2f0': 0.03, 'hyp2f1': 0.04, 'hyp2f2': 0.20, 'hyp2f3': 0.04,
        'hyp3f2': 1.08, 'hyperfac': 0.14, 'hyperu': 0.16, 'jacobi': 0.04, 'jtheta': 0.08, 'kei': 0.25, 'ker': 0.39,
        'laguerre': 0.18, 'legenp': 0.09, 'legenq': 0.48, 'lerchphi': 0.60, 'loggamma': 0.16, 'lommels1': 0.44,
        'lommels2': 0.31, 'pcfd': 0.12, 'pcfu': 0.15, 'pcfv': 0.11, 'pcfw': 0.18, 'polyexp': 0.15, 'polygamma': 0.14,
        'polylog': 0.20, 'primezeta': 0.96, 'psi': 0.11, 'qp': 0.12, 'rf': 0.10, 'rgamma': 0.10, 'riemannr': 0.10,
        'scorergi': 0.13, 'shi': 0.06, 'siegeltheta': 0.09, 'siegelz': 0.10, 'stieltjes': 0.37, 'struveh': 0.11,
        'struvel': 0.08, 'whitw': 0.15, 'zeta': 0.21}
CASES_PER_FUNCTION = {'quick': 110, 'thorough': 600}
MIN_CASES = {'quick': 10, 'thorough': 60}


def weight(name):
    c = COST.get(name, 0.0)
    return 1.0 if c <= 0.03 else max(0.03, 0.03 / c)


PRECS_SMALL = [10, 11, 15, 24, 53, 53, 64, 100, 113, 200]
PRECS_MID = [333, 400, 401, 600, 1000]
PRECS_BIG = [2000, 2500, 3000, 3500]


def functions():
    return sorted(n for n, (c, s) in K.ENTRIES.items() if c in CATEGORIES)


# ---------------------------------------------------------------------------------------
# generators (specs only; no mpmath import here)
# ---------------------------------------------------------------------------------------

def rawf(x):
    return K.raw_from_float(float(x))


def _clamp(x, xmax):
    if x != x:
        return 1.0
    return max(-float(xmax), min(float(xmax), x))


def pick_prec(r, name, tier, style='generic'):
    if style == 'precrel':
        w = weight(name)
        return r.choice([53, 53, 200, 200, 1000 if w > 0.3 else 113, 24, 100, 113, 333, 64, 400 if w > 0.1 else 100])
    x = r.random()
    w = math.sqrt(weight(name))
    if style in ('big', 'order'):
        w *= 0.5              # large magnitude x large precision is the costly corner: sampled, but thinner
    big = (0.05 if tier == 'quick' else 0.08) * w * w
    mid = 0.22 * w
    if x < big:
        return r.choice(PRECS_BIG)
    if x < big + mid:
        return r.choice(PRECS_MID + [r.randint(201, 1200)])
    if x < big + mid + 0.1:
        return r.randint(10, 200)
    return r.choice(PRECS_SMALL)


def magnitude(r, style, p, xmax):
    """a positive float magnitude for the main argument according to the style"""
    if style == 'edge':
        c = math.exp(r.uniform(math.log(0.04), math.log(4.0)))
        c = r.choice([c, 0.11, 0.4, 0.693, 1.0, 0.25, 2.0]) * (1 + r.choice([0, 0, 1e-3, -1e-3, 0.03, -0.03]))
        wp = p + r.choice([0, 10, 20, 30])
        m = c * (wp if r.random() < 0.7 else math.sqrt(wp) * r.choice([1, 0.83, 2, 4]))
    elif style == 'big':
        m = math.exp(r.uniform(math.log(30.0), math.log(xmax)))
        if r.random() < 0.25:
            m = xmax * r.choice([1.0, 0.999, 0.5])
    elif style == 'tiny':
        m = 2.0 ** (-r.choice([1, 3, 10, 30, 60, p // 2, p, p + 5, 2 * p if 2 * p < 1000 else 900, 1000]))
    elif style == 'unit':
        m = 1.0 + r.choice([-1, 1]) * 2.0 ** (-r.choice([1, 2, 3, 5, 8, 12, 20, 30, 50]))
        if r.random() < 0.15:
            m = 1.0
    else:
        m = math.exp(r.uniform(math.log(0.01), math.log(40.0)))
    return min(max(m, 1e-300), float(xmax))


def precrel_k(r, p):
    """exponent k of a component 2^-k that is tiny *relative to the precision*: swept around p, where guard-bit and
    balancing logic switches (p/2, 0.8 p ... p+30, also around the usual working precisions p+10, p+20)"""
    c = r.random()
    if c < 0.1:
        return p // 2 + r.randint(-2, 2)
    if c < 0.8:
        return r.randint(int(0.8 * p), p + 30)
    return p + r.choice([10, 20, 30]) + r.randint(-6, 6)


def precrel_spec(r, kind, p, xmax):
    """x + i 2^-k (or 2^-k + i y, or a real x +- 2^-k next to an integer) with moderate x"""
    x = r.choice([0.3, 2.5, 7.25, -1.5, -0.75, 1.0, 2.0, 30.5, 0.5, r.uniform(-12, 40), r.uniform(0.05, 3)])
    k = precrel_k(r, p)
    tiny = canon(r.randint(0, 1), 1 if r.random() < 0.6 else (r.getrandbits(20) | 1), -k - (0 if r.random() < 0.6 else 20))
    if kind == 'p':
        return K.R(rawf(abs(x) + 0.25))
    if kind == 'x':
        n = int(round(x))
        return K.R(canon(1 if n < 0 else 0, (abs(n) << k) + r.choice([-1, 1]), -k)) if n else K.R(tiny)
    if r.random() < 0.7:
        return K.C(rawf(x), tiny)
    return K.C(tiny, rawf(x))


def num_spec(r, kind, style, p, xmax):
    """kind 'x' real / 'z' real or complex / 'p' positive"""
    if style == 'precrel':
        return precrel_spec(r, kind, p, xmax)
    m = magnitude(r, style, p, xmax)
    if kind == 'p':
        return K.R(rawf(m))
    if kind == 'x' or r.random() < 0.4:
        s = -1 if r.random() < 0.45 else 1
        v = s * m
        if style in ('edge', 'big', 'generic') and r.random() < 0.2:
            # exactly / nearly an integer or half-integer (poles, reflection formula, recurrences)
            v = s * (math.floor(m) + r.choice([0, 0.5, 0, 2.0 ** -20, -2.0 ** -40]))
        return K.R(rawf(_clamp(v, xmax)))
    # complex: direction on the circle, with emphasis on the axes and the diagonals
    t = r.choice([r.uniform(0, 2 * math.pi), math.pi / 2, -math.pi / 2, math.pi, math.pi / 4, 3 * math.pi / 4,
                  math.pi - 1e-6, math.pi / 2 + 1e-9, 1e-7, r.uniform(0, 2 * math.pi)])
    re, im = m * math.cos(t), m * math.sin(t)
    if r.random() < 0.15:
        re = r.choice([0.5, 0.0, 1.0, -0.5]); im = m * r.choice([-1, 1])            # critical line / imaginary axis
    if r.random() < 0.1:
        im = im * 2.0 ** -r.choice([20, 50, p])                                       # nearly real
    if im == 0:
        im = 2.0 ** -30
    return K.C(rawf(_clamp(re, xmax)), rawf(_clamp(im, xmax)))


def near_int_raw(r, n, p):
    """n +- 2^-k exactly (k up to a little above the precision)"""
    k = r.choice([1, 5, 10, 20, 40, 52, p - 2, p, p + 8, 2 * p])
    k = max(1, min(k, 4000))
    s = 1 if n < 0 else 0
    m = (abs(n) << k) + r.choice([-1, 1])
    if m <= 0:
        m = 1
    return canon(s if n else r.randint(0, 1), m, -k)


def param_spec(r, style, p, xmax, real_only=False):
    """hypergeometric-type parameter / order"""
    x = r.random()
    if style == 'nearint' or x < 0.12:
        n = -r.choice([0, 1, 2, 3, 5, 10, 30, 100]) if r.random() < 0.8 else r.choice([1, 2, 7, 50])
        if r.random() < 0.3:
            return K.I(n)
        return K.R(near_int_raw(r, n, p))
    if style == 'order':
        big = math.exp(r.uniform(math.log(20.0), math.log(xmax)))
        c = r.random()
        if c < 0.4:
            return K.I(int(big) * r.choice([1, 1, -1]))
        if c < 0.6:
            return K.R(rawf(_clamp((int(big) + 0.5) * r.choice([1, -1]), xmax)))
        if c < 0.85 or real_only:
            return K.R(rawf(_clamp(big * r.choice([1, -1]), xmax)))
        return K.C(rawf(_clamp(big * r.uniform(-1, 1), xmax)), rawf(_clamp(big * r.uniform(-1, 1), xmax)))
    if x < 0.75:
        q = K.gen_param(r, 53)
        if real_only and q[0] == 'C':
            q = K.R(q[1])
        return q
    if x < 0.9:
        return K.I(r.choice([-30, -12, -7, 13, 25, 40, 100]))
    return K.R(rawf(r.uniform(-40, 40)))


def int_spec(r, kind, style, nmax):
    lo = 1 if kind == 'n1' else 0
    if style == 'order' or r.random() < 0.15:
        n = int(math.exp(r.uniform(math.log(10), math.log(nmax))))
        if r.random() < 0.2:
            n = nmax
    else:
        n = r.choice([0, 1, 2, 3, 4, 5, 7, 10, 20, 33])
    return max(lo, n)


STYLES = ['generic', 'precrel', 'edge', 'edge', 'edge', 'big', 'tiny', 'unit', 'nearint', 'order', 'precrel', 'generic']

# shapes whose main (last / first) numeric argument should receive the magnitude style
def gen_args(r, name, style, p, tier):
    cat, shape = K.ENTRIES[name]
    xmax, nmax = XMAX[tier], NMAX[tier]
    ro = name in REAL_ONLY
    kinds = shape.split()
    out = []
    nparam = sum(1 for k in kinds if k in ('a', 'o'))
    prev_param = None
    for idx, kind in enumerate(kinds):
        last = idx == len(kinds) - 1
        if kind in ('z', 'x', 'p', 'x0'):
            k2 = {'x0': 'x'}.get(kind, kind)
            if ro and k2 == 'z':
                k2 = 'x'
            st = style if style in ('edge', 'big', 'tiny', 'unit', 'precrel') else 'generic'
            if not last and len(kinds) > 1 and kind in ('z', 'p') and kinds[-1] in ('z', 'p', 'x') and r.random() < 0.6:
                st = 'generic'            # leading numeric parameters (s of polylog, a of hurwitz ...) mostly moderate
            if kind == 'x0':
                v = num_spec(r, 'x', st, p, xmax)
                if v[1] == fzero:
                    v = K.R(rawf(1.0))
                out.append(v)
            else:
                out.append(num_spec(r, k2, st, p, xmax))
        elif kind in ('u', 'u01'):
            k = r.choice([1, 2, 8, 30, p, p + 10]) if style in ('edge', 'unit', 'tiny') else r.choice([1, 2, 8])
            if style == 'unit':       # 1 - 2^-k
                raw = canon(0 if kind == 'u01' else r.randint(0, 1), (1 << min(k, 3000)) - 1, -min(k, 3000))
            else:
                raw = K.raw_rand(r, 53, -min(k, 1000), 0, sign=0 if kind == 'u01' else None)
            out.append(K.R(raw))
        elif kind in ('n', 'n1'):
            out.append(K.I(int_spec(r, kind, style, nmax)))
        elif kind == 'i':
            if cat == 'numtheory':
                c = r.random()
                if style == 'big' or (style == 'order' and c < 0.5):
                    v = int(math.exp(r.uniform(math.log(50), math.log(xmax))))
                    if name in POLY_INT:
                        v = min(v, nmax)
                else:
                    v = r.choice([-7, -2, -1, 0, 1, 2, 3, 5, 10, 17, 30, 64, 100, 257])
                out.append(K.I(v))
            else:
                # spherharm m: |m| <= l typically, also outside
                l = out[-1][1] if out and out[-1][0] == 'I' else 3
                out.append(K.I(r.randint(-l - 1, l + 1)))
        elif kind == 'j':
            out.append(K.I(r.randint(1, 4)))
        elif kind == 'k':
            v = r.choice([0, 0, -1, 1, 2, -2, 5, -7])
            if style in ('order', 'big'):
                v = r.choice([-1, 1]) * int(math.exp(r.uniform(0, math.log(nmax))))
            out.append(K.I(v))
        elif kind in ('a', 'o'):
            st = style if style in ('nearint', 'order') else 'generic'
            if st == 'order' and nparam > 1 and r.random() < 0.5 and prev_param is not None:
                st = 'generic'
            q = param_spec(r, st, p, xmax, real_only=ro)
            if style == 'precrel' and not ro and r.random() < 0.4:
                q = precrel_spec(r, 'z', p, xmax)
            # degenerate pairs: difference of two parameters an integer (hyp2f1 / hyperu / whit / legenp connection formulas)
            if prev_param is not None and r.random() < 0.15 and prev_param[0] in ('I', 'R') and q[0] != 'C':
                q = _shift_spec(prev_param, r.choice([0, 1, -1, 2, -3, 10]))
            prev_param = q
            out.append(q)
        elif kind == 'q':
            if style == 'unit':
                k = r.choice([3, 6, 10, 16])
                raw = canon(r.randint(0, 1), (1 << k) - 1, -k)
                out.append(K.R(raw) if (ro or r.random() < 0.6) else K.C(raw, K.raw_rand(r, 53, -k - 2, -k)))
            else:
                out.append(K.gen_args('jtheta', r, 53, None)[2])
        elif kind == 'm':
            if style == 'unit':
                k = r.choice([3, 10, 30, p, p + 5])
                out.append(K.R(canon(0, (1 << min(k, 3000)) + r.choice([-1, 1]), -min(k, 3000))))
            elif style == 'big':
                out.append(num_spec(r, 'z', 'big', p, xmax))
            else:
                out.append(K.gen_args('ellipk', r, 53, None)[0])
        elif kind == 'tau':
            im = r.choice([2.0 ** -r.choice([1, 2, 4, 6]), r.uniform(0.05, 3.0), 10.0 if style == 'big' else 1.0])
            out.append(K.C(rawf(r.uniform(-2, 2) if style != 'big' else r.uniform(-100, 100)), rawf(im)))
        else:
            raise ValueError(kind)
    return out


# numtheory functions whose exact integer algorithm is polynomial in the argument: argument limited like a count
POLY_INT = {'bernoulli', 'eulernum', 'bell', 'fib', 'fibonacci'}


def _shift_spec(q, d):
    if q[0] == 'I':
        return K.I(q[1] + d)
    s, m, e, bc = q[1]
    if not m:
        return K.I(d)
    if e >= 0:
        v = (-1) ** s * (m << e) + d
        return K.I(v)
    v = (-1) ** s * m + (d << -e)
    return K.R(canon(1 if v < 0 else 0, abs(v), e)) if v else K.I(0)


def _c(re, im):
    return K.C(rawf(re), rawf(im))


# Seed-independent cases executed in every run (one per known mechanism, so that a known finding is met on every seed
# alike and its disappearance after a fix is visible), plus the regression witnesses of the planned mutants' loops.
DIRECTED = [
    ('pcfw', 53, [K.I(20), _c(-23.8, -5e-9)]),            # sum_accurately with all-zero terms
    ('eulernum', 53, [K.I(-2)]),                           # negative index
    ('digamma', 24, [_c(-1.9, -1.0)]),                     # mpc_psi0 Euler-Maclaurin loop
    ('primezeta', 53, [K.R(rawf(2.0 ** -10))]),            # Moebius sum next to the natural boundary Re(s)=0
    ('digamma', 53, [K.R(rawf(3.0))]),                     # mpf_psi0 loop (guarded)
    ('digamma', 64, [K.R(rawf(-7.25))]),
    ('digamma', 53, [K.R(rawf(-1.9))]),
    ('gamma', 200, [K.C(rawf(2.5), canon(0, 1, -200))]), ('loggamma', 1000, [K.C(rawf(0.3), canon(0, 1, -900))]),
    ('rgamma', 53, [K.C(rawf(7.25), canon(1, 1, -73))]), ('factorial', 200, [K.C(rawf(7.25), canon(0, 1, -215))]),   # Im z = 2^-k, k ~ prec
    ('ei', 53, [K.R(rawf(45.0))]), ('ei', 100, [K.R(rawf(78.5))]), ('e1', 53, [K.R(rawf(44.0))]),   # Ei asymptotic cutoff 0.693 wp
    ('erfc', 53, [K.R(rawf(7.5))]), ('erfc', 200, [K.R(rawf(12.4))]),                                # erfc asymptotic cutoff
    ('laguerre', 53, [K.I(1), K.I(0), K.I(1)]), ('jacobi', 53, [K.I(1), K.I(0), K.I(0), K.I(0)]),      # hypsum gives up at maxprec (exact zero)
    ('hyp2f1', 53, [K.I(1), K.I(1), K.I(2), K.R(rawf(-1.0))]),
    ('harmonic', 24, [_c(-2.9, -1.0)]),
    ('polygamma', 100, [K.I(2), _c(-3.7, 0.25)]),                # mpc_psi loop
    ('hyp2f1', 53, [K.I(1), K.I(1), K.I(2), K.R(rawf(-1.0 + 2.0 ** -30))]),      # hypsum close to |z| = 1
    ('lambertw', 53, [K.R(rawf(-0.36787944117144233 + 2.0 ** -40)), K.I(0)]),   # Halley iteration next to the branch point
    ('lambertw', 200, [_c(1e-300, 0.5), K.I(-1)]),
]


def ncases(name, tier):
    return max(MIN_CASES[tier], int(CASES_PER_FUNCTION[tier] * weight(name)))


def _noise(spec, r):
    """seed-dependent low mantissa bits on full-width mantissas; short mantissas (integers, half-integers, n +- 2^-k,
    powers of two ...) keep their exact structure"""
    if spec[0] == 'I':
        return spec

    def f(raw):
        sg, m, e, bc = raw
        if bc < 40:
            return raw
        return canon(sg, (m >> 16 << 16) | r.getrandbits(16) | 1, e)
    return (spec[0],) + tuple(f(x) for x in spec[1:])


def make_cases(tier, seed, shard, nshards):
    """List of cases of this shard: (function, style, precision, specs).

    Stratified and seed-stable (DESIGN 2.4): case j of a function has a *shape* -- style, precision, magnitudes,
    parameter structure -- drawn from a generator keyed by (function, j) only, so every seed visits the same cells
    (quick is a prefix of thorough) and a known over-budget cell is met on every seed alike.  The seed supplies the
    low mantissa bits of all full-width arguments, and -- for every second case of the cheap class (|x| <= 10^4,
    precision <= 400, not a large-magnitude style) -- the complete arguments (exploratory half)."""
    import random
    r = G.rng(PROP, seed, shard)
    fns = functions()
    cases = []
    for fi, name in enumerate(fns):
        nq = ncases(name, 'quick')
        n = ncases(name, tier)
        # case j of the function belongs to shard (j + fi) % nshards: all shards see all functions
        for j in range(n):
            if (j + fi) % nshards != shard:
                continue
            rs = random.Random('C24-shape:%s:%d' % (name, j))
            env = 'quick' if j < nq else 'thorough'          # envelope of the case: |x| <= 10^4 / 10^6
            style = STYLES[(j // nshards + j) % len(STYLES)]
            p = pick_prec(rs, name, env, style)
            if j % 2 == 1 and p <= 400 and style not in ('big', 'order'):
                specs = gen_args(r, name, style, p, 'quick')
                style += '*'                                 # exploratory: arguments fully seed-dependent
            else:
                specs = [_noise(sp, r) for sp in gen_args(rs, name, style, p, env)]
            cases.append((name, style, p, specs))
    r.shuffle(cases)
    for j, (name, p, specs) in enumerate(DIRECTED):
        if j % nshards == shard:
            cases.insert(0, (name, 'directed', p, specs))
    return cases


# ---------------------------------------------------------------------------------------
# regime cell (fixed a priori) for budget keys
# ---------------------------------------------------------------------------------------

def regime(specs, p):
    """coarse cell, fixed a priori: argument kind (R: all real, C: some complex) / magnitude bucket / precision bucket.
    magnitude: 'tiny' when some non-zero non-integer component is below 2^-10 in magnitude (arguments next to 0,
    to an axis or to the edge of a domain), else 'large' when some component is >= 2^10, else 'moderate'"""
    kind = 'C' if any(s[0] == 'C' for s in specs) else 'R'
    lows, tops = [], []
    for s in specs:
        if s[0] == 'I':
            if s[1]:
                tops.append(abs(s[1]).bit_length())
            continue
        for raw in s[1:]:
            if raw[1]:
                t = raw[2] + raw[3]
                tops.append(t)
                lows.append(t)
    if lows and min(lows) <= -10:
        mb = 'tiny'
    elif tops and max(tops) > 10:
        mb = 'large'
    else:
        mb = 'moderate'
    return '%s/mag:%s/%s' % (kind, mb, 'p<=400' if p <= 400 else 'p>400')


def input_class(name, specs):
    """'small' when every argument is within the quick envelope (|x| <= 10^4, counts <= 300), else 'big'.
    The step budget and the extended wall cap are attached to the input class, not to the tier: B = 2*10^7 for
    'small', 4*10^8 for 'big' (the thorough tier runs both classes)."""
    kinds = K.ENTRIES[name][1].split()
    for kind, s in zip(kinds, specs):
        if s[0] == 'I':
            count = kind in ('n', 'n1', 'k', 'j') or (kind == 'i' and name in POLY_INT)
            if abs(s[1]) > (NMAX['quick'] if count else XMAX['quick']):
                return 'big'
            continue
        for raw in s[1:]:
            if raw[1] and _absval_gt(raw, XMAX['quick']):
                return 'big'
    return 'small'


def _absval_gt(raw, bound):
    sg, m, e, bc = raw
    return (m << e) > bound if e >= 0 else m > (bound << -e)


CLASS_TIER = {'small': 'quick', 'big': 'thorough'}


def show_spec(s):
    if s[0] == 'I':
        return str(s[1])

    def f(raw):
        sg, m, e, bc = raw
        if not m:
            return '0'
        if bc <= 60 and -1100 < e < 1000:
            return repr(math.ldexp((-1) ** sg * m, e))
        h = '%x' % m
        if len(h) > 24:
            h = '%s..%s[%d bits]' % (h[:8], h[-8:], bc)
        return '%s0x%s*2^%d' % ('-' if sg else '', h, e)
    if s[0] == 'R':
        return f(s[1])
    return '(%s + %sj)' % (f(s[1]), f(s[2]))


# ---------------------------------------------------------------------------------------
# child: executes cases under the step counter
# ---------------------------------------------------------------------------------------

class WallTimeout(BaseException):
    pass


class LoopBound(BaseException):
    pass


# Iteration monitors on the loops the property names as mechanisms.  The step budget cannot decide an endless loop whose
# iterations get heavier and heavier (Euler-Maclaurin loops call mpf_bernoulli with a growing index: 10^6 steps take
# seconds, 2*10^7 take minutes), so these loops get their own bounded-progress oracle, derived from the algorithm and
# independent of time: the asymptotic series B_2k/(2k z^2k) has its smallest term at k ~ pi|z| and the code shifts z to
# |z| ~ 0.11 wp (psi0) or 0.4 wp + 4m (psi_m) first, so a call performs about 0.35 wp (resp. 1.3 wp + 13 m) iterations;
# hypsum doubles its extra precision from 50 bits, so 64 doublings exceed any memory.  Bounds are 5-6 times that.
LOOPS = [
    ('mpmath.libmp.gammazeta:mpf_psi0', r'^\s*t = \(t\*x2\) >> wp', lambda L: 2 * L.get('wp', 4000) + 200),
    ('mpmath.libmp.gammazeta:mpc_psi0', r'^\s*t = mpc_mul\(t, z2, wp\)', lambda L: 2 * L.get('wp', 4000) + 200),
    ('mpmath.libmp.gammazeta:mpc_psi', r'^\s*zm = mpc_mul\(zm, z2, wp\)', lambda L: 6 * L.get('wp', 4000) + 60 * L.get('m', 1000) + 400),
    # hypsum: the body of the doubling loop never runs with extraprec above maxprec (checked at the loop head); 24 doublings
    # from 50 bits is beyond any maxprec the library derives (1000 p^0.25 + 4 p)
    ('mpmath.ctx_mp:MPContext.hypsum', r'^\s*wp = prec \+ extraprec',
     lambda L: 24 if L.get('extraprec', 0) <= 2 * L.get('maxprec', 10**30) else 0),
    # Stirling series of log gamma, used after shifting |z| above 0.2 wp: smallest term at k ~ 2 pi |z| ~ 1.3 wp, k advances
    # by 2 per iteration -> about 0.65 wp iterations at most
    ('mpmath.libmp.gammazeta:real_stirling_series', r'^\s*p, q, pb, qb = stirling_coefficient\(k\)', lambda L: 3 * L.get('prec', 4000) + 200),
    ('mpmath.libmp.gammazeta:complex_stirling_series', r'^\s*p, q, pb, qb = stirling_coefficient\(k\)', lambda L: 3 * L.get('prec', 4000) + 200),
    # n!/x^n is used for x > 0.693 wp: the terms vanish in fixed point before n reaches x (for huge x much earlier)
    ('mpmath.libmp.libhyper:ei_asymptotic', r'^\s*t = \(k\*t\*x\) >> prec', lambda L: 2 * L.get('prec', 4000) + 100),
    # erfc asymptotic series, used for x^2 * 1.44 > wp: smallest term at k ~ x^2 ~ 0.7 wp (for huge x much earlier)
    ('mpmath.libmp.libhyper:mpf_erfc', r'^\s*term = \(\(term \* \(2\*k - 1\)\) << wp\) // t', lambda L: 2 * L.get('wp', 4000) + 100),
    # Halley iteration of lambertw: written as at most 100 iterations; AGM: quadratic convergence, ~log2(prec) iterations
    ('mpmath.functions.functions:lambertw', r'^\s*ew = ctx\.exp\(w\)', lambda L: 150),
    ('mpmath.libmp.libelefun:agm_fixed', r'^\s*anew = \(a\+b\)>>1', lambda L: 300),
    # hypercomb raises the precision by >= 10 bits per round and gives up at maxprec
    ('mpmath.functions.hypergeometric:hypercomb', r'^\s*ctx\.prec \+= 10\s*$', lambda L: int(L.get('maxprec', 30000)) // 10 + 10),
]


EVERY_ITERATION = {'mpmath.ctx_mp:MPContext.hypsum', 'mpmath.functions.functions:lambertw', 'mpmath.libmp.libelefun:agm_fixed',
                   'mpmath.functions.hypergeometric:hypercomb'}


class LoopMonitor(object):
    """LINE events on the first statement of the body of each anchored loop; iterations are counted per frame."""
    TOOL = 0

    def __init__(self):
        self.lines = {}
        self.state = {}
        self.maxima = {}
        self.unresolved = []
        self.active = False
        self.errors = 0

    def install(self):
        import re, inspect
        from vf.instrument import resolve, mon, E
        try:
            mon.use_tool_id(self.TOOL, 'vf-c24-loops')
        except ValueError:
            mon.free_tool_id(self.TOOL); mon.use_tool_id(self.TOOL, 'vf-c24-loops')
        for name, rx, bound in (LOOPS if not os.environ.get('VERIF_C24_NOLOOPMON') else []):      # switch for self-validation only
            f = resolve(name)
            hit = []
            if f is not None:
                try:
                    src, start = inspect.getsourcelines(f)
                    hit = [start + i for i, ln in enumerate(src) if re.search(rx, ln)]
                except Exception:
                    hit = []
            if len(hit) != 1:
                self.unresolved.append(name)
                continue
            code = f.__code__
            self.lines[(code, hit[0])] = (name, bound)
            self.state[code] = [None, 0]
            self.maxima[name] = [0, 0.0]
            mon.set_local_events(self.TOOL, code, E.LINE)
        lines, state, maxima, me = self.lines, self.state, self.maxima, self
        getframe = sys._getframe

        def on_line(code, line):
            ent = lines.get((code, line))
            if ent is None or not me.active:
                return
            st = state[code]
            fr = getframe(1)
            if st[0] is not fr:
                st[0] = fr
                st[1] = 0
            st[1] = n = st[1] + 1
            if not n & 15 or ent[0] in EVERY_ITERATION:
                try:
                    b = ent[1](fr.f_locals)
                    mx = maxima[ent[0]]
                    if n > mx[0]:
                        mx[0] = n
                    if b > 0 and n / b > mx[1]:
                        mx[1] = n / b
                    over = n > b
                    wp = fr.f_locals.get('wp')
                except Exception:            # a fault of the monitor must never look like a library exception
                    me.errors += 1
                    return
                if over:
                    me.active = False
                    st[0] = None
                    raise LoopBound('%s: %d iterations in one call, bound %d (wp=%s)' % (ent[0], n, b, wp))
        mon.register_callback(self.TOOL, E.LINE, on_line)
        return self

    def release(self):
        for st in self.state.values():
            st[0] = None


def _stack_summary(exc, limit=14):
    out = []
    for fs in traceback.extract_tb(exc.__traceback__):
        fn = fs.filename
        if '/mpmath/' in fn:
            fn = 'mpmath/' + fn.split('/mpmath/', 1)[1]
        elif fn.endswith('C24.py'):
            continue
        out.append('%s:%d %s' % (fn, fs.lineno, fs.name))
    return out[-limit:]


class Watch(object):
    """SIGPROF handler implementing the two-stage cap.  The caps are measured in CPU time of the child (ITIMER_PROF /
    time.process_time), so they do not depend on the load of the machine; only the shard deadline is wall-clock."""

    def __init__(self, sb, tier, cpu_left):
        self.sb, self.tier = sb, tier
        self.hard_end = cpu_left + DEADLINE_SLACK[tier]          # in CPU seconds of this child
        self.notify = None
        self.stage = 0
        self.extended = False

    def arm(self, budget, t2, full=False):
        self.budget = budget
        self.t2 = t2
        self.t0 = time.process_time()
        self.stage = 2 if full else 1
        self.extended = full
        signal.setitimer(signal.ITIMER_PROF, t2 if full else WALL_T1[self.tier])

    def disarm(self):
        self.stage = 0
        signal.setitimer(signal.ITIMER_PROF, 0)

    def __call__(self, signum, frame):
        if self.stage == 1:
            el = max(time.process_time() - self.t0, 1e-3)
            steps = self.sb.steps
            need = (self.budget - steps) * el / steps if steps > 0 else float('inf')
            need = 1.3 * need + 1.0
            if el + need <= self.t2 and time.process_time() + need <= self.hard_end:
                self.stage = 2
                self.extended = True
                signal.setitimer(signal.ITIMER_PROF, need)
                if self.notify:
                    self.notify()
                return
        if self.stage:
            self.stage = 0
            raise WallTimeout()


def _selftest_loop():
    i = 0
    while True:
        i += 1


def run_one(mp, sb, watch, name, specs, p, budget, t2, full=False):
    """-> dict(out=..., steps=..., [exc, msg, stack])"""
    f = getattr(mp, name)
    mp.prec = p
    mp.trap_complex = False
    mp.pretty = False
    args = [K.build(mp, s) for s in specs]
    res = {}
    t0 = time.process_time()
    try:
        try:
            watch.arm(budget, t2, full)
            if LOOPMON is not None:
                LOOPMON.active = True
            sb.start(budget)
            try:
                f(*args)
            finally:
                sb.active = False
                if LOOPMON is not None:
                    LOOPMON.active = False
                    LOOPMON.release()
                watch.disarm()
            res['out'] = 'returned'
        except WallTimeout as e:
            res['out'] = 'wall2' if watch.extended else 'wall'
            res['stack'] = _stack_summary(e)
        except sb_exc as e:
            res['out'] = 'budget'
            res['stack'] = _stack_summary(e)
        except LoopBound as e:
            res['out'] = 'loopbound'
            res['msg'] = str(e)
            res['loop'] = str(e).split(':')[1].split(':')[0] if False else str(e).split(': ')[0]
            res['stack'] = _stack_summary(e)
        except MemoryError as e:
            res['out'] = 'memory'
        except Exception as e:
            tn = type(e).__name__
            names = [k.__name__ for k in type(e).__mro__]
            res['exc'] = tn
            res['msg'] = str(e)[:200]
            if any(n in DOCUMENTED for n in names):
                res['out'] = 'documented'
            else:
                res['out'] = 'undocumented'
                res['stack'] = _stack_summary(e)
    except WallTimeout as e:           # alarm delivered in the harness epilogue
        watch.disarm()
        res.setdefault('out', 'wall')
        res.setdefault('stack', [])
    sb.active = False
    res['steps'] = sb.steps
    res['wall'] = round(time.process_time() - t0, 3)
    mp.prec = 53
    return res


from vf.instrument import BudgetExceeded as sb_exc
LOOPMON = None


def child_main(cases, start, wfd, tier, cpu_left, wall_end):
    from vf.instrument import StepBudget, AnchorCount
    import mpmath
    mp = mpmath.mp
    w = os.fdopen(wfd, 'w', buffering=1)

    def send(obj):
        w.write(json.dumps(obj) + '\n')
        w.flush()

    class _R(object):
        def __init__(self): self.a = {}
        def anchor(self, k, v): self.a[k] = self.a.get(k, 0) + v
    ar = _R()
    try:
        import resource
        resource.setrlimit(resource.RLIMIT_AS, (MEM_LIMIT, MEM_LIMIT))      # a runaway allocation becomes MemoryError -> undecided
    except Exception:
        pass
    sb = StepBudget(BUDGET[tier])
    sb.install()
    watch = Watch(sb, tier, cpu_left)
    signal.signal(signal.SIGPROF, watch)
    global LOOPMON
    LOOPMON = LoopMonitor().install()
    ac = AnchorCount(ar, ANCHORS)
    ac.__enter__()
    # self-test of the monitor in this very process: a deliberate endless loop must be cut
    ok = False
    try:
        sb.start(50000)
        _selftest_loop()
    except sb_exc:
        ok = True
    sb.active = False
    sb.last_backedges.clear()
    send({'selftest': ok})
    tainted = False
    i = start
    try:
        while i < len(cases):
            if time.process_time() > cpu_left or time.time() > wall_end:
                send({'deadline': i})
                break
            name, style, p, specs = cases[i][:4]
            opt = cases[i][4] if len(cases[i]) > 4 else {}
            ct = CLASS_TIER[input_class(name, specs)]
            budget = opt.get('budget', BUDGET[ct])
            t2 = opt.get('t2', WALL_T2[ct])
            full = bool(opt) or style in ('directed', 'replay')
            send({'begin': i})
            if full:
                send({'extended': i, 't2': t2})
            watch.notify = lambda i=i, t2=t2: send({'extended': i, 't2': t2})
            res = run_one(mp, sb, watch, name, specs, p, budget, t2, full=full)
            res['budget'] = budget
            res['extended_pass'] = bool(opt)
            res['i'] = i
            res['tainted'] = tainted
            send(res)
            i += 1
            if res['out'] in ('budget', 'wall', 'wall2', 'memory', 'loopbound'):
                tainted = True
                if res['out'] == 'memory':
                    break
    finally:
        try:
            ac.__exit__(None, None, None)
        except Exception:
            pass
        send({'anchors': ar.a, 'done': i >= len(cases),
              'loops': {k: v for k, v in LOOPMON.maxima.items()}, 'loops_unresolved': LOOPMON.unresolved,
              'loop_monitor_errors': LOOPMON.errors})
        w.close()


# ---------------------------------------------------------------------------------------
# parent: supervision and verdicts
# ---------------------------------------------------------------------------------------

def verdict(rec, case, res, tier):
    name, style, p, specs = case[:4]
    opt = case[4] if len(case) > 4 else {}
    ident = (name, tuple(specs), p)
    out = res['out']
    steps = res.get('steps', 0)
    cell = regime(specs, p)
    cat = K.ENTRIES[name][0]
    ct = CLASS_TIER[input_class(name, specs)]
    B = res.get('budget', BUDGET[ct])
    cdesc = {'function': name, 'args': [show_spec(s) for s in specs], 'specs': specs, 'prec': p, 'style': style,
             'steps': steps, 'cpu_s': res.get('wall')}
    rec.case(ident, True, cls='%s/%s' % (cat, out if out != 'documented' else 'documented:' + res.get('exc', '?')))
    rec.cls('style/' + style.rstrip('*') + ('/exploratory' if style.endswith('*') else ''))
    rec.cls('class/' + ('|x|<=1e4 (B=2e7)' if ct == 'quick' else '|x|<=1e6 (B=4e8)'))
    rec.cls('fn/' + name)
    rec.event('outermost calls under the step counter')
    if opt.get('mode') == 'ref' and out in ('returned', 'documented'):
        rec.cls('slow-but-returns (reference compared)/' + name)
        rec.maximum('CPU time ratio tree/reference of calls first stopped by a cap', round((res.get('wall') or 0) / max(res.get('ref_cpu_s') or 0, 1e-3), 1),
                    {'function': name, 'args': cdesc['args'], 'prec': p, 'tree_cpu_s': res.get('wall'), 'ref_cpu_s': res.get('ref_cpu_s')})
    elif opt and out in ('returned', 'documented'):
        # extended pass: over B, but it terminates
        rec.cls('over-budget-but-terminates/' + name)
        rec.note('over budget B but terminates within %d*B (held)' % EXT,
                 {'function': name, 'args': cdesc['args'], 'prec': p, 'steps': steps, 'B': B // EXT, 'cpu_s': res.get('wall')})
        rec.maximum('steps of calls over B that terminate', steps, {'function': name, 'args': cdesc['args'], 'prec': p})
    if out in ('returned', 'documented', 'undocumented'):
        rec.maximum('steps/' + name, steps, {'args': cdesc['args'], 'prec': p})
        rec.cls('hist/%s/%d' % (name, int(4 * math.log2(max(steps, 1)))))
        rec.maximum('steps (any function)', steps, {'function': name, 'args': cdesc['args'], 'prec': p})
    if len(rec.samples) < 8 and steps > 1000:
        rec.sample({'function': name, 'args': cdesc['args'], 'prec': p, 'steps': steps, 'outcome': out,
                    'exception': res.get('exc')})
    if out == 'budget':
        cdesc['stack'] = res.get('stack')
        rec.violation('C24/budget/%s/%s' % (name, cell),
                      '%s did not return within %d logical steps (%d x the budget B=%d of its input class |x|<=%d; prec %d): no bounded progress'
                      % (name, B, EXT if opt else 1, B // (EXT if opt else 1), XMAX[ct], p), cdesc,
                      observed='> %d steps; interrupted at %s' % (B, (res.get('stack') or ['?'])[-1]),
                      expected='return or documented exception within %d steps' % B)
    elif out == 'loopbound':
        cdesc['stack'] = res.get('stack'); cdesc['message'] = res.get('msg')
        loop = (res.get('loop') or '?').split(':')[-1]
        rec.violation('C24/loop-bound/%s/%s' % (loop, cell),
                      'the %s loop reached through %s runs past the iteration bound of its algorithm: %s' % (loop, name, res.get('msg')), cdesc,
                      observed=res.get('msg'), expected='asymptotic series truncated at its smallest term / precision doubling bounded by maxprec')
    elif out == 'undocumented':
        cdesc['stack'] = res.get('stack'); cdesc['message'] = res.get('msg')
        rec.violation('C24/undocumented-exception/%s/%s' % (name, res['exc']),
                      '%s neither returns nor raises a documented exception: %s escapes' % (name, res['exc']), cdesc,
                      observed='%s: %s' % (res['exc'], res.get('msg')),
                      expected='return value or one of ValueError/ZeroDivisionError/NoConvergence/NotImplementedError')
    elif out == 'wall':
        cdesc['stack'] = res.get('stack')
        rec.undecided('CPU-time cap T1=%.0f s reached, step rate too low to reach the budget within T2=%.0f s' % (WALL_T1[tier], WALL_T2[ct]), cdesc)
    elif opt.get('mode') == 'ref' and out == 'ref-capped':
        cdesc['stack'] = opt.get('first_stack'); cdesc['steps'] = opt.get('first'); cdesc['cpu_s'] = opt.get('first_cpu')
        rec.undecided('%s; the reference release does not return within %.0f s either'
                      % ('CPU-time cap reached before the step budget (step rate too low)' if opt.get('first_out') in ('wall', 'wall2')
                         else opt.get('first_out'), T_REF[tier]), cdesc)
    elif opt.get('mode') == 'ref' and out == 'wall2':
        cdesc['stack'] = res.get('stack'); cdesc['reference'] = {'outcome': res.get('ref_out'), 'cpu_s': res.get('ref_cpu_s')}
        rec.violation('C24/hang/%s/%s' % (name, cell),
                      '%s does not return within %.0f CPU s (%d steps so far) although release 1.3.0 %s in %.2f s for the same input: no bounded progress'
                      % (name, res.get('tree_cpu_allowance_s') or 0, steps, 'returns' if res.get('ref_out') == 'returned' else 'raises ' + str(res.get('ref_out')),
                         res.get('ref_cpu_s') or 0), cdesc,
                      observed='still running after %.0f CPU s; interrupted at %s' % (res.get('wall') or 0, (res.get('stack') or ['?'])[-1]),
                      expected='return or documented exception (the release needs %.2f CPU s)' % (res.get('ref_cpu_s') or 0))
    elif out == 'wall2' and opt.get('time_scaled'):
        cdesc['stack'] = res.get('stack'); cdesc['first_pass_cpu_s'] = opt.get('first_cpu')
        rec.violation('C24/budget/%s/%s' % (name, cell),
                      '%s exceeded the budget B=%d in %.1f CPU s and did not return within %d times that time (%d steps done): no bounded progress'
                      % (name, B // EXT, opt.get('first_cpu') or 0, EXT, steps), cdesc,
                      observed='> %d steps in %.0f CPU s; interrupted at %s' % (steps, res.get('wall') or 0, (res.get('stack') or ['?'])[-1]),
                      expected='return or documented exception within B=%d steps (or at least within %d x that allowance)' % (B // EXT, EXT))
    elif out == 'wall2':
        cdesc['stack'] = res.get('stack')
        rec.undecided('extended CPU-time cap T2 reached before the step budget', cdesc)
    elif out == 'memory':
        rec.undecided('MemoryError', cdesc)
    if out == 'documented':
        rec.event('documented exception: ' + res.get('exc', '?'))


def supervise(cases, rec, tier, t_start, confirm=None, final=True):
    """confirm: list collecting cases to re-execute in a fresh child (None: report whatever is seen)"""
    if confirm is None and final:
        confirm = []
    ext = ExtendedPasses(rec, tier) if final else None
    # the child's caps are CPU time; the parent's kill limits are wall-clock, generous (x4) to tolerate a loaded machine
    hard1 = 4 * (WALL_T1[tier] + WALL_HARD_EXTRA)
    hard2 = 4 * (WALL_T2[tier] + WALL_HARD_EXTRA)    # upper bound; the child enforces the class-specific T2
    wall_end = t_start + SHARD_WALL_SAFETY[tier]
    cpu_used = 0.0
    i = 0
    anchors = collections.Counter()
    while i < len(cases):
        rfd, wfd = os.pipe()
        sys.stdout.flush(); sys.stderr.flush()
        pid = os.fork()
        if pid == 0:
            code = 0
            try:
                os.close(rfd)
                child_main(cases, i, wfd, tier, SHARD_DEADLINE[tier] - cpu_used if final else 1e9, wall_end if final else 1e18)
            except BaseException:
                traceback.print_exc()
                code = 3
            finally:
                os._exit(code)
        os.close(wfd)
        buf = b''
        cur = i                  # case being executed by the child
        began = None
        t_began = time.time()
        hard = hard1
        finished = False         # child said it is done with the whole list / hit deadline
        killed = False
        eof = False
        while not eof:
            rl, _, _ = select.select([rfd], [], [], 1.0)
            if ext is not None and (ext.queue or ext.running):
                ext.pump()
            if rl:
                data = os.read(rfd, 1 << 16)
                if not data:
                    eof = True
                buf += data
                while b'\n' in buf:
                    line, buf = buf.split(b'\n', 1)
                    try:
                        msg = json.loads(line)
                    except ValueError:
                        continue
                    if 'selftest' in msg:
                        rec.event('step-budget self-test (endless loop cut)' if msg['selftest'] else 'step-budget self-test FAILED')
                    elif 'begin' in msg:
                        began = msg['begin']; t_began = time.time(); hard = hard1
                    elif 'extended' in msg:
                        hard = 4 * (msg.get('t2', WALL_T2[tier]) + WALL_HARD_EXTRA)
                        rec.event('cases run under the extended wall cap T2 (directed, or step rate projects to reach the budget)')
                    elif 'deadline' in msg:
                        rec.event('cases not started: shard deadline', len(cases) - msg['deadline'])
                        cur = len(cases)
                        finished = True
                    elif 'anchors' in msg:
                        anchors.update(msg['anchors'])
                        for k, (n, ratio) in (msg.get('loops') or {}).items():
                            rec.maximum('iterations per call of the anchored loop in ' + k, n)
                            rec.maximum('iterations per call / bound, anchored loop in ' + k, round(ratio, 3))
                        if msg.get('loop_monitor_errors'):
                            rec.event('loop monitor internal errors', msg['loop_monitor_errors'])
                        for k in msg.get('loops_unresolved') or []:
                            rec.anchor('unresolved loop monitor:' + k, 1)
                        if msg.get('done'):
                            finished = True
                    elif 'i' in msg:
                        if confirm is not None and msg['out'] == 'budget':
                            rec.event('calls over the budget B (candidates for the extended pass)')
                            ext.add(cases[msg['i']], msg)
                        elif confirm is not None and msg['out'] in ('wall', 'wall2'):
                            rec.event('calls stopped by a CPU cap (compared with the reference release)')
                            ext.add_ref(cases[msg['i']], msg)
                        elif confirm is not None and msg.get('tainted') and msg['out'] in ('undocumented', 'loopbound'):
                            confirm.append((cases[msg['i']], None))
                            rec.event('violation candidates seen in a tainted child, re-executed in a fresh one')
                        else:
                            verdict(rec, cases[msg['i']], msg, tier)
                        cur = msg['i'] + 1
                        began = None
            elif began is not None and time.time() - t_began > hard:
                try:
                    os.kill(pid, signal.SIGKILL)
                except OSError:
                    pass
                killed = True
                break
        os.close(rfd)
        try:
            _, st, ru = os.wait4(pid, 0)
            cpu_used += ru.ru_utime + ru.ru_stime
        except OSError:
            st = 0
        if killed or (not finished and began is not None and cur == began):
            # the case 'began' never reported: hung in one gigantic step (killed) or the child died
            name, style, p, specs = cases[cur]
            cdesc = {'function': name, 'args': [show_spec(s) for s in specs], 'specs': specs, 'prec': p, 'exit_status': st}
            rec.case((name, tuple(specs), p), True, cls='%s/%s' % (K.ENTRIES[name][0], 'killed' if killed else 'child-died'))
            rec.undecided('hard wall-clock cap: child killed' if killed else 'child process died (status %s)' % st, cdesc)
            cur += 1
        elif not finished and cur == i and began is None:
            # child made no progress at all and did not report: avoid an endless respawn loop
            rec.undecided('child process produced nothing (status %s)' % st, {'at': i})
            break
        i = cur
        if finished:
            break
    for k, v in anchors.items():
        rec.anchor(k, v)
    if final:
        for c, first in confirm:
            # fresh child per case (never tainted when it reports), no shard deadline for confirmations
            if first is None:
                supervise([c], rec, tier, time.time(), confirm=None, final=False)
        ext.finish()


class ExtendedPasses(object):
    """Extended passes (25 times the allowance) for the calls that went over B.  Each runs in a fresh interpreter
    started as soon as the candidate is seen, next to the shard's own child (at most 2 at a time), so the rare
    long pass overlaps with the rest of the shard instead of adding to its wall time."""

    def __init__(self, rec, tier):
        self.rec, self.tier = rec, tier
        self.known = None
        self.running = []
        self.queue = []

    def add(self, c, first):
        rec, tier = self.rec, self.tier
        if self.known is None:
            try:
                from vf.core import load_known
                self.known = set(load_known(PROP))
            except Exception:
                self.known = set()
        name, style, p, specs = c[:4]
        B = first.get('budget', BUDGET['quick'])
        key = 'C24/budget/%s/%s' % (name, regime(specs, p))
        t3 = T3_KNOWN[tier] if key in self.known else T3[tier]
        rate = first.get('steps', 0) / max(first.get('wall') or 0.0, 1e-3)
        projected = EXT * B / max(rate, 1.0)
        if projected > 1.25 * t3 and EXT * (first.get('wall') or 0.0) > t3:
            # 25*B cannot be reached within the cap: the reference release decides whether this is a hang
            first = dict(first, out='over B; %d*B not reachable within the CPU cap (%d s)%s'
                         % (EXT, t3, ' [cell listed as known finding: short cap]' if key in self.known else ''))
            self.add_ref(c, first)
            return
        t_ext = EXT * max(first.get('wall') or 0.0, 0.5)
        job = (name, style, p, specs, {'budget': EXT * B, 't2': min(t_ext, t3), 'time_scaled': t_ext <= t3,
                                       'first': first.get('steps'), 'first_cpu': first.get('wall')})
        self.queue.append(job)
        self.pump()

    def add_ref(self, c, first):
        name, style, p, specs = c[:4]
        self.queue.append((name, style, p, specs, {'mode': 'ref', 'budget': EXT * first.get('budget', BUDGET['quick']),
                                                   't2': T_REF[self.tier] + 2 * HANG_FACTOR * T_REF[self.tier],
                                                   'first': first.get('steps'), 'first_cpu': first.get('wall'),
                                                   'first_out': first.get('out'), 'first_stack': first.get('stack')}))
        self.pump()

    def pump(self):
        import subprocess, tempfile
        self.running = [j for j in self.running if not self.reap(j, block=False)]
        while self.queue and len(self.running) < 2:
            job = self.queue.pop(0)
            fd, inpath = tempfile.mkstemp(prefix='vf-C24-ext-', suffix='.in.json')
            os.write(fd, json.dumps({'tier': self.tier, 'name': job[0], 'prec': job[2], 'specs': job[3],
                                     'budget': job[4]['budget'], 't2': job[4]['t2'], 'mode': job[4].get('mode', 'ext')}).encode())
            os.close(fd)
            outpath = inpath[:-8] + '.out.json'
            env = dict(os.environ)
            root = os.path.dirname(os.path.dirname(os.path.dirname(os.path.abspath(__file__))))
            env['PYTHONPATH'] = root + (os.pathsep + env['PYTHONPATH'] if env.get('PYTHONPATH') else '')
            m = sys.modules.get('mpmath')
            if m is not None:           # the tree this worker is checking
                env['VERIF_REPO'] = os.path.dirname(os.path.dirname(os.path.abspath(m.__file__)))
            env.setdefault('MPMATH_NOGMPY', '1')
            proc = subprocess.Popen([sys.executable, '-c', 'import sys; from vf.props import C24; C24.ext_main(sys.argv[1], sys.argv[2])',
                                     inpath, outpath], env=env, stdout=subprocess.DEVNULL, stderr=subprocess.DEVNULL)
            if job[4].get('mode') != 'ref':
                self.rec.event('extended passes run (budget %d*B)' % EXT)
            self.running.append({'job': job, 'proc': proc, 'in': inpath, 'out': outpath, 't0': time.time()})

    def reap(self, j, block):
        """-> True when the job is finished and its verdict recorded"""
        import subprocess
        limit = 4 * (j['job'][4]['t2'] + WALL_HARD_EXTRA) + 60
        try:
            if block:
                j['proc'].wait(timeout=max(1.0, limit - (time.time() - j['t0'])))
            elif j['proc'].poll() is None:
                if time.time() - j['t0'] <= limit:
                    return False
                raise subprocess.TimeoutExpired('ext', limit)
        except subprocess.TimeoutExpired:
            j['proc'].kill()
            j['proc'].wait()
        res = None
        try:
            res = json.load(open(j['out']))
        except Exception:
            res = None
        for pth in (j['in'], j['out']):
            try:
                os.unlink(pth)
            except OSError:
                pass
        name, style, p, specs, opt = j['job']
        if res is None:
            cdesc = {'function': name, 'args': [show_spec(x) for x in specs], 'specs': specs, 'prec': p, 'exit_status': j['proc'].returncode}
            self.rec.case((name, tuple(specs), p), True, cls='%s/extended-pass-died' % K.ENTRIES[name][0])
            self.rec.cls('fn/' + name)
            self.rec.undecided('extended pass: process killed or died without a result', cdesc)
        else:
            verdict(self.rec, j['job'], res, self.tier)
        return True

    def finish(self):
        while self.running or self.queue:
            self.pump()
            if self.running:
                j = self.running.pop(0)
                self.reap(j, block=True)


def ext_main(inpath, outpath):
    """entry point of the fresh interpreter that executes one extended pass"""
    repo = os.environ.get('VERIF_REPO', '/repo')
    sys.path[:] = [q for q in sys.path if os.path.abspath(q or '.') != repo]
    sys.path.insert(0, repo)
    try:
        sys.set_int_max_str_digits(0)
    except AttributeError:
        pass
    d = json.load(open(inpath))

    def spec(x):
        if x[0] == 'I':
            return K.I(x[1])
        return (x[0],) + tuple(tuple(int(v) for v in raw) for raw in x[1:])
    specs = [spec(x) for x in d['specs']]
    import mpmath
    assert os.path.abspath(mpmath.__file__).startswith(os.path.abspath(repo) + os.sep), mpmath.__file__
    from vf.instrument import StepBudget
    try:
        import resource
        resource.setrlimit(resource.RLIMIT_AS, (MEM_LIMIT, MEM_LIMIT))
    except Exception:
        pass
    global LOOPMON
    t2 = d['t2']
    extra = {}
    if d.get('mode') == 'ref':
        # 1. the reference release, under a plain CPU cap
        from vf import refmodel
        mr = refmodel.ref()
        tier = d['tier']

        def _cap(signum, frame):
            raise WallTimeout()
        signal.signal(signal.SIGPROF, _cap)
        t0 = time.process_time()
        ref_out = 'returned'
        try:
            signal.setitimer(signal.ITIMER_PROF, T_REF[tier])
            try:
                refmodel.call(mr.mp, d['name'], specs, d['prec'])
            finally:
                signal.setitimer(signal.ITIMER_PROF, 0)
        except WallTimeout:
            ref_out = 'capped'
        except MemoryError:
            ref_out = 'memory'
        except Exception as e:
            ref_out = 'exception:' + type(e).__name__
        t_ref = time.process_time() - t0
        extra = {'ref_out': ref_out, 'ref_cpu_s': round(t_ref, 3)}
        if ref_out in ('capped', 'memory'):
            with open(outpath, 'w') as f:
                json.dump(dict(extra, out='ref-capped', steps=0, wall=0.0), f)
            return
        # 2. the tree again, with HANG_FACTOR times the time the release needed (at least T_HANG_MIN)
        t2 = max(HANG_FACTOR * t_ref, T_HANG_MIN[tier])
        extra['tree_cpu_allowance_s'] = round(t2, 1)
    sb = StepBudget(d['budget'])
    sb.install()
    watch = Watch(sb, d['tier'], 1e9)
    signal.signal(signal.SIGPROF, watch)
    LOOPMON = LoopMonitor().install()
    res = run_one(mpmath.mp, sb, watch, d['name'], specs, d['prec'], d['budget'], t2, full=True)
    res['budget'] = d['budget']
    res['extended_pass'] = True
    res.update(extra)
    with open(outpath, 'w') as f:
        json.dump(res, f)


def shards(tier, seed):
    return [{'nshards': N_SHARDS} for _ in range(N_SHARDS)]


def run_shard(shard, rec):
    t0 = time.time()
    tier = shard['tier']
    cases = make_cases(tier, shard['seed'], shard['shard'], shard.get('nshards', N_SHARDS))
    rec.event('cases generated', len(cases))
    supervise(cases, rec, tier, t0)
    if shard['shard'] == 0:
        _notes_outside_property(rec)


def _notes_outside_property(rec):
    """observations outside the input class of the property (never asserted)"""
    import mpmath
    mp = mpmath.mp
    old = sys.getrecursionlimit()
    try:
        mp.prec = 53
        try:
            mp.fmod(mp.mpc(1, 2), 3)
            o = 'returned'
        except BaseException as e:
            o = type(e).__name__
        rec.note('outside the property (fmod is documented for real x, y): fmod(mpc(1,2), 3)', o)
    finally:
        sys.setrecursionlimit(old)
        mp.prec = 53


def required(agg, tier):
    miss = []
    ev = agg['events']
    if not ev.get('outermost calls under the step counter'):
        miss.append('no call was observed under the step counter')
    if not ev.get('step-budget self-test (endless loop cut)'):
        miss.append('the step-budget self-test never tripped: the monitor is not delivering events')
    if ev.get('step-budget self-test FAILED'):
        miss.append('the step-budget self-test failed in %d worker(s)' % ev['step-budget self-test FAILED'])
    classes = agg['classes']
    for c in CATEGORIES:
        if not any(k.startswith(c + '/') for k in classes):
            miss.append('no function of category %s observed' % c)
    seen = set(k[3:] for k in classes if k.startswith('fn/'))
    missing = [f for f in functions() if f not in seen]
    if missing:
        miss.append('catalog functions never called: ' + ' '.join(missing[:12]))
    for a in ANCHORS[:5]:
        if not agg['anchors'].get(a) and not agg['anchors'].get('unresolved:' + a):
            miss.append('anchor never reached: ' + a)
    if ev.get('loop monitor internal errors'):
        miss.append('the loop monitor raised internally %d time(s)' % ev['loop monitor internal errors'])
    if not any(k.startswith('iterations per call of the anchored loop') and v[0] > 0 for k, v in agg['maxima'].items()):
        miss.append('the loop-iteration monitors saw no iteration at all')
    skipped = ev.get('cases not started: shard deadline', 0)
    gen = ev.get('cases generated', 0)
    if gen and skipped > 0.2 * gen:
        miss.append('%d of %d generated cases not started before the shard deadline' % (skipped, gen))
    # fold the per-function step histograms into a compact summary (max and 99.9th percentile per function)
    hist = collections.defaultdict(dict)
    for k in list(classes):
        if k.startswith('hist/'):
            _, fn, b = k.split('/')
            hist[fn][int(b)] = classes.pop(k)
        elif k.startswith('fn/'):
            classes.pop(k)
    summ = {}
    for fn, h in sorted(hist.items()):
        n = sum(h.values())
        need = n - n * 0.999
        acc = 0
        p999 = None
        for b in sorted(h, reverse=True):
            acc += h[b]
            if acc > need or acc == n:
                p999 = b
                break
        mx = agg['maxima'].get('steps/' + fn)
        summ[fn] = {'calls': n, 'max_steps': mx[0] if mx else None,
                    'p99.9_steps_upper': int(2 ** ((p999 + 1) / 4.0)) if p999 is not None else None,
                    'max_witness': mx[1] if mx else None}
        agg['maxima'].pop('steps/' + fn, None)
    if summ:
        agg['notes']['steps per function (calls, max, 99.9th percentile bucket upper edge; budget 2e7 for |x|<=1e4, 4e8 above)'] = summ
    return miss


def replay(case, rec):
    from vf.core import unjson_int
    c = case['case']
    tier = case.get('tier', 'quick')

    def raw(t):
        return (int(t[0]), unjson_int(t[1]), unjson_int(t[2]), int(t[3]))

    def spec(s):
        if s[0] == 'I':
            return K.I(unjson_int(s[1]))
        if s[0] == 'R':
            return K.R(raw(s[1]))
        return K.C(raw(s[1]), raw(s[2]))
    specs = [spec(s) for s in c['specs']]
    cases = [(c['function'], c.get('style', 'replay'), int(c['prec']), specs)]
    supervise(cases, rec, tier, time.time())
