"""C23 -- elliptic integrals (Legendre and Carlson forms), AGM, Jacobi theta / elliptic functions, modular functions,
nome conversions, Lambert W on every branch, q-functions: relative error (in modulus) below 2^(8-p) in their domains.

Observed: the value returned by the public function for exact arguments at precision p.
Oracles: consensus reference of the specfun engine (release 1.3.0 at two precisions + tree at 3p+300, plus defining
relations as third source where the release is known to be wrong / to lose bits); for lambertw a *verified candidate*
oracle: a high-precision candidate w* is accepted only if the defining relation w e^w = z holds to far below 2^-p and
the branch identity w + ln w - ln z = 2 pi i k holds, then |w - w*| is measured (plus the documented-strip test on Im w)."""
import math
from fractions import Fraction
from vf import specfun as S
from vf import specfun_k as K
from vf import refmodel
from vf.specfun import args as A, real_in, complex_in, near, integer, half_integer, choice
from vf.specfun_k import HP, RG, Custom, dyadic, near_int, near_half_int, near_npint, polar, polar_log, uniform, uniform_bits, \
    one_of, flat
from vf.catalog import R, C, I, raw_from_float, canon, raw_rand

PROP = 'C23'


def KEYMAP(key):
    """Known-finding granularity is (function, failure kind), not the several hundred argument cells: seed sweeps of the unchanged
    tree kept producing genuine failures in new cells of the same functions, i.e. per-function weaknesses.  The cell stays in the
    witness as `fine_key`; a failure worse than the recorded ceiling of its (function, kind) is still reported as new."""
    parts = key.split('/')
    last = parts[-1]
    kind = last if (last.startswith('raises-') or last == 'non-finite-result' or last.startswith('wrong-')) else 'accuracy'
    return 'C23/%s/%s' % (parts[1], kind)
LEVEL = 'exploration'
NEEDS_REF = True
RULE = ('stratified cells (function x argument regime fixed a priori, label = mechanism key) x precision list; concrete '
        'arguments from the seeded rng; non-trivial = a finite reference value exists (two agreeing sources / verified '
        'Lambert W candidate) and the result was compared; distinct = (function, regime, args, prec)')
ASSUMPTIONS = ['consensus reference: mpmath 1.3.0 at p+64(+x) and 2p+200(+x) bits and the tree at 3p+300(+x) bits agree to 2^-(p+32); '
               'defining relations (Legendre relation forms, Carlson forms, theta identities, q-product functional equations) '
               'evaluated with the release as third source',
               'lambertw: exp/log of the release at 2p+264 bits are accurate to far below 2^-(p+40) (only used to *verify* a candidate)']
LEVEL_TEXT = ('exploration: ~4*10^3 (quick) / ~10^5 (thorough) evaluations over ~300 a-priori cells (moduli near 0, 1, negative, '
              'complex; amplitudes beyond pi/2 and complex; Carlson arguments with zeros / coincidences / wide exponent spread; '
              'nomes up to the documented limit; theta arguments on both sides of the series switch; Lambert W branches '
              '|k| <= 10^6 and arguments next to the branch point -1/e), precisions 10..1000')
LEVEL_NOTE = ('trusted base: released mpmath 1.3.0 + the tree at 3p+300 bits as consensus (a defect shared by both at all '
              'precisions is invisible unless a defining relation covers the cell); inputs not generated are not covered')
TECHNIQUE = 'runtime reference-model monitor: consensus / defining-relation oracle on every observed value; verified-candidate oracle for Lambert W'
SHARD_TIMEOUT = {'quick': 2400, 'thorough': 6000}
CASES = {'quick': 300, 'thorough': 7000}
BUDGET = {'quick': 50, 'thorough': 420}
NSHARDS = 16
WALL = {'quick': 1100, 'thorough': 3600}          # wall-clock safety net per shard (the budget itself is CPU time)
HV = dict(heavy=True)


def kw(**k):
    return k


# ---- generators -------------------------------------------------------------------------------------
m_01 = uniform_bits(0.0, 1.0)
m_small = real_in(-200, -8)
m_near1 = near(1, 1, 6, 200)            # 1 +- 2^-k (above 1: complex result)


def below1(kmin, kmax):
    def g(r, b):
        k = r.randint(kmin, kmax)
        return R(canon(0, (1 << k) - 1, -k))
    return g


def above1(kmin, kmax):
    def g(r, b):
        k = r.randint(kmin, kmax)
        return R(canon(0, (1 << k) + 1, -k))
    return g


m_neg = one_of(uniform_bits(-30.0, 0.0), real_in(0, 60, 1))
m_gt1 = one_of(uniform_bits(1.0, 30.0), real_in(0, 40, 0))
m_cplx = one_of(complex_in(-2, 3), polar(0.1, 10.0))
phi_in = uniform_bits(-1.57, 1.57)
phi_out = one_of(uniform_bits(1.58, 60.0), uniform_bits(-60.0, -1.58))
phi_large = real_in(6, 14)
phi_cplx = polar(0.1, 3.0)
pos = real_in(-6, 8, 0)
pos_wide = real_in(-200, 200, 0)
zero = choice(0)
cplx_rhp = polar_log(-4, 6, -1.5, 1.5)
cplx_any = polar_log(-4, 6, -3.1, 3.1)


def conj_pair(r, b):
    z = polar_log(-3, 5, 0.1, 3.0)(r, b)
    zc = ('C', z[1], (1 - z[2][0], z[2][1], z[2][2], z[2][3]))
    return [z, zc]


def near_equal(gen, kmin=8, kmax=80):
    def g(r, b):
        a = gen(r, b)
        f = K.spec_fraction(a)
        k = r.randint(kmin, kmax)
        f2 = f * (1 + Fraction(r.choice([-1, 1]), 2 ** k))
        return [a, R(K.frac_raw(f2))]
    return g


# ---- relations (third sources) ------------------------------------------------------------------------

def ellipe_rel(mp, m):
    # E(m) = R_G-free Carlson form: E(m) = RF(0,1-m,1) - m/3 RD(0,1-m,1)      (DLMF 19.25.1)
    return mp.elliprf(0, 1 - m, 1) - m * mp.elliprd(0, 1 - m, 1) / 3


def ellipk_rel(mp, m):
    return mp.elliprf(0, 1 - m, 1)


def theta_jacobi_rel(n):
    """theta_n(z,q) through the modular (Jacobi imaginary) transformation: fast converging when q is close to 1.
    q = exp(i pi tau), tau' = -1/tau, q' = exp(i pi tau'), z' = z tau':
    theta3(z|tau) = (-i tau)^(-1/2) exp(i tau' z^2/pi) theta3(z tau'|tau'); theta4 <-> theta2; theta1 <-> -i theta1"""
    def f(mp, z, q):
        z = mp.mpmathify(z)
        q = mp.mpmathify(q)
        tau = mp.log(q) / (mp.j * mp.pi)
        tp = -1 / tau
        qp = mp.exp(mp.j * mp.pi * tp)
        zp = z * tp
        pref = (-mp.j * tau) ** (-0.5) * mp.exp(mp.j * tp * z * z / mp.pi)
        if n == 3:
            return pref * mp.jtheta(3, zp, qp)
        if n == 4:
            return pref * mp.jtheta(2, zp, qp)
        if n == 2:
            return pref * mp.jtheta(4, zp, qp)
        return pref * (-mp.j) * mp.jtheta(1, zp, qp) * (-1)
    return f


def qp_rel(mp, q):
    # Euler function through the Dedekind eta modular transformation is too close to the code under test; use the
    # product definition with explicit tail bound instead: prod_{k=1}^{N} (1-q^k), N with |q|^N < 2^-(prec+20)
    q = mp.mpmathify(q)
    n = int((mp.prec + 20) * math.log(2) / -math.log(float(abs(q)))) + 2
    v = mp.mpf(1)
    qk = mp.mpf(1)
    for k in range(n):
        qk *= q
        v *= (1 - qk)
    return v


# ---- function wrappers -------------------------------------------------------------------------------------

def f_from(name, key):
    def f(mp, x):
        return getattr(mp, name)(**{key: x})
    return f


def f_jtheta(n, d=0):
    def f(mp, z, q):
        return mp.jtheta(n, z, q, d) if d else mp.jtheta(n, z, q)
    return f


def f_ellipfun(kind, key='m'):
    def f(mp, u, m):
        return mp.ellipfun(kind, u, **{key: m})
    return f


def f_qp(form):
    def f(mp, *a):
        if form == 'euler':
            return mp.qp(a[0])
        if form == 'inf':
            return mp.qp(a[0], a[1])
        return mp.qp(a[0], a[1], a[2])
    return f


def f_qhyper(nup, nlow):
    def f(mp, *a):
        a = list(a)
        return mp.qhyper(a[:nup], a[nup:nup + nlow], a[-2], a[-1])
    return f


# ---- tables ---------------------------------------------------------------------------------------------------

def t_ellipk():
    return [
        RG('m-in-(0,1)', A(m_01), weight=2),
        RG('m-tiny', A(m_small)),
        RG('m-near-1-below', A(below1(6, 300)), relation=ellipk_rel),
        RG('m-neg', A(m_neg)),
        RG('m-huge-neg', A(real_in(60, 300, 1))),
        RG('m>1(complex-result)', A(m_gt1)),
        RG('m-near-1-above', A(above1(6, 200))),
        RG('m-complex', A(m_cplx), weight=2),
        RG('m-complex-near-1', A(near(1, 1, 6, 60, complex_offset=True))),
        RG('m-complex-large', A(polar_log(6, 40))),
    ]


def t_ellipe():
    return [
        RG('m-in-(0,1)', A(m_01), weight=2, relation=ellipe_rel),
        RG('m-tiny', A(m_small)),
        RG('m-near-1-below-2^-6..2^-20', A(below1(6, 20)), relation=ellipe_rel),
        RG('m-near-1-below-2^-20..2^-60', A(below1(20, 60)), relation=ellipe_rel),
        RG('m-near-1-below-2^-60..2^-300', A(below1(60, 300)), relation=ellipe_rel),
        RG('m-neg', A(m_neg), relation=ellipe_rel),
        RG('m-huge-neg', A(real_in(60, 300, 1)), relation=ellipe_rel),
        RG('m>1(complex-result)', A(m_gt1)),
        RG('m-complex', A(m_cplx), weight=2, relation=ellipe_rel),
        RG('m-complex-near-1', A(near(1, 1, 6, 60, complex_offset=True)), relation=ellipe_rel),
        RG('m-complex-large', A(polar_log(6, 40)), relation=ellipe_rel),
        # incomplete E(phi, m)
        RG('incomplete/|phi|<=pi/2,m-in-(0,1)', A(phi_in, m_01), weight=2),
        RG('incomplete/|phi|>pi/2,m-in-(0,1)', A(phi_out, m_01)),
        RG('incomplete/phi-large', A(phi_large, m_01)),
        RG('incomplete/phi-huge', A(real_in(14, 60), m_01)),
        RG('incomplete/m-neg', A(one_of(phi_in, phi_out), m_neg)),
        RG('incomplete/m>1', A(phi_in, m_gt1)),
        RG('incomplete/phi-tiny', A(real_in(-120, -8), m_01)),
        RG('incomplete/phi-complex', A(phi_cplx, m_01)),
        RG('incomplete/m-complex', A(phi_in, m_cplx)),
        RG('incomplete/m-near-1,phi-near-pi/2', A(uniform_bits(1.5, 1.5707), below1(6, 60))),
    ]


def t_ellipf():
    return [
        RG('|phi|<=pi/2,m-in-(0,1)', A(phi_in, m_01), weight=2),
        RG('|phi|>pi/2,m-in-(0,1)', A(phi_out, m_01)),
        RG('phi-large', A(phi_large, m_01)),
        RG('phi-huge', A(real_in(14, 60), m_01)),
        RG('m-neg', A(one_of(phi_in, phi_out), m_neg)),
        RG('m>1', A(phi_in, m_gt1)),
        RG('m=1', A(phi_in, choice(1))),
        RG('phi-tiny', A(real_in(-120, -8), m_01)),
        RG('m-tiny', A(phi_in, m_small)),
        RG('phi-complex', A(phi_cplx, m_01)),
        RG('phi-complex-large-re', A(polar(2.0, 30.0, -0.5, 0.5), m_01)),
        RG('m-complex', A(phi_in, m_cplx)),
        RG('m-near-1,phi-near-pi/2', A(uniform_bits(1.5, 1.5707), below1(6, 60))),
        RG('phi=pi/2-rounded,m-near-1', A(lambda r, b: R(raw_from_float(math.pi / 2)), below1(6, 40))),
    ]


def t_ellippi():
    n_lt1 = one_of(uniform_bits(-5.0, 0.99), real_in(-20, -2))
    return [
        RG('complete/n<1,m-in-(0,1)', A(n_lt1, m_01), weight=2, **HV),
        RG('complete/n<1,m-neg', A(n_lt1, m_neg), **HV),
        RG('complete/n-near-1-below', A(below1(6, 60), m_01), **HV),
        RG('complete/m-near-1', A(n_lt1, below1(6, 60)), **HV),
        RG('complete/n-tiny', A(real_in(-120, -10), m_01), **HV),
        RG('complete/n=0', A(choice(0), m_01)),
        RG('complete/n>1(principal-value)', A(uniform_bits(1.01, 10.0), m_01), tmax=6, precs=[10, 15, 30], **HV),
        RG('complete/n-complex', A(polar(0.1, 4.0, 0.2, 2.9), m_01), tmax=6, precs=[10, 15, 30], **HV),
        RG('incomplete/|phi|<=pi/2,n<1', A(n_lt1, phi_in, m_01), weight=2, **HV),
        RG('incomplete/|phi|>pi/2,n<1', A(n_lt1, phi_out, m_01), **HV),
        RG('incomplete/n*sin^2<1<n', A(uniform_bits(1.01, 1.9), uniform_bits(-0.7, 0.7), m_01), **HV),
        RG('incomplete/n>1-beyond-pole(principal-value)', A(uniform_bits(2.0, 10.0), uniform_bits(0.9, 1.5), m_01), tmax=6, precs=[10, 15, 30], **HV),
        RG('incomplete/m-neg', A(n_lt1, phi_in, m_neg), **HV),
        RG('incomplete/phi-tiny', A(n_lt1, real_in(-80, -8), m_01), **HV),
        RG('incomplete/n-tiny', A(real_in(-120, -10), phi_in, m_01), **HV),
        RG('incomplete/phi-complex', A(n_lt1, polar(0.1, 1.5), m_01), tmax=6, precs=[10, 15, 30], **HV),
    ]


def t_elliprf():
    return [
        RG('positive', A(pos, pos, pos), weight=2),
        RG('positive-wide-exponents', A(pos_wide, pos_wide, pos_wide)),
        RG('one-zero', A(zero, pos, pos)),
        RG('one-zero-wide', A(pos_wide, zero, pos_wide)),
        RG('two-equal(RC)', lambda r, b: (lambda x, y: r.sample([x, y, y], 3))(pos(r, b), pos(r, b))),
        RG('two-near-equal', flat(near_equal(pos), pos)),
        RG('all-near-equal', lambda r, b: (lambda a: [a[0], a[1], near_equal(lambda r2, b2: a[0])(r, b)[1]])(near_equal(pos)(r, b))),
        RG('complex-right-half-plane', A(cplx_rhp, cplx_rhp, cplx_rhp), weight=2),
        RG('complex-any', A(cplx_any, cplx_any, pos)),
        RG('conjugate-pair', flat(conj_pair, pos)),
        RG('negative-real-argument', A(real_in(-3, 5, 1), pos, pos)),
    ]


def t_elliprc():
    return [
        RG('positive', A(pos, pos), weight=2),
        RG('positive-wide-exponents', A(pos_wide, pos_wide)),
        RG('x=0', A(zero, pos)),
        RG('x-near-y', near_equal(pos, 6, 200), weight=2),
        RG('x<y-far', A(real_in(-60, -10, 0), pos)),
        RG('x>y-far', A(pos, real_in(-60, -10, 0))),
        RG('y-negative(principal-value)', A(pos, real_in(-6, 8, 1)), weight=2),
        RG('complex', A(cplx_any, cplx_rhp), weight=2),
        RG('complex-y-left-half-plane', A(cplx_rhp, polar_log(-3, 5, 1.7, 3.1))),
        RG('complex-x-near-y', lambda r, b: (lambda z: [z, ('C', z[1], canon(z[2][0], z[2][1] + 2, z[2][2]))])(cplx_rhp(r, b))),
    ]


def t_elliprj():
    return [
        RG('positive', A(pos, pos, pos, pos), weight=2),
        RG('positive-wide-exponents', A(real_in(-60, 60, 0), real_in(-60, 60, 0), real_in(-60, 60, 0), real_in(-60, 60, 0))),
        RG('one-zero', A(zero, pos, pos, pos)),
        RG('p-equal-z(RD)', lambda r, b: (lambda x, y, z: [x, y, z, z])(pos(r, b), pos(r, b), pos(r, b))),
        RG('p-near-x', lambda r, b: (lambda a: [a[0], pos(r, b), pos(r, b), a[1]])(near_equal(pos)(r, b))),
        RG('all-near-equal', lambda r, b: (lambda a, c: [a[0], a[1], c[1], near_equal(lambda r2, b2: a[0])(r, b)[1]])(near_equal(pos)(r, b), near_equal(pos)(r, b))),
        RG('p-tiny', A(pos, pos, pos, real_in(-120, -20, 0))),
        RG('p-huge', A(pos, pos, pos, real_in(20, 120, 0))),
        RG('p-negative(principal-value)', A(pos, pos, pos, real_in(-3, 5, 1)), tmax=6, precs=[10, 15, 30], **HV),
        RG('complex-right-half-plane', A(cplx_rhp, cplx_rhp, cplx_rhp, cplx_rhp), weight=2),
        RG('conjugate-pair,p-positive', flat(conj_pair, pos, pos)),
        RG('conjugate-pair,p-complex', flat(conj_pair, pos, polar_log(-2, 4, 0.2, 2.9)), tmax=6, precs=[10, 15, 30], **HV),
        RG('complex-any(integration)', A(cplx_any, cplx_any, pos, cplx_any), tmax=6, precs=[10, 15, 30], **HV),
    ]


def t_elliprd():
    return [
        RG('positive', A(pos, pos, pos), weight=2),
        RG('positive-wide-exponents', A(real_in(-60, 60, 0), real_in(-60, 60, 0), real_in(-60, 60, 0))),
        RG('x-zero', A(zero, pos, pos)),
        RG('y-zero', A(pos, zero, pos)),
        RG('x-near-y', flat(near_equal(pos), pos)),
        RG('z-near-x', lambda r, b: (lambda a: [a[0], pos(r, b), a[1]])(near_equal(pos)(r, b))),
        RG('complex-right-half-plane', A(cplx_rhp, cplx_rhp, cplx_rhp), weight=2),
        RG('conjugate-pair', flat(conj_pair, pos)),
    ]


def t_elliprg():
    return [
        RG('positive', A(pos, pos, pos), weight=2),
        RG('positive-wide-exponents', A(real_in(-60, 60, 0), real_in(-60, 60, 0), real_in(-60, 60, 0))),
        RG('one-zero', lambda r, b: r.sample([zero(r, b), pos(r, b), pos(r, b)], 3), weight=2),
        RG('two-zero', lambda r, b: r.sample([zero(r, b), zero(r, b), pos(r, b)], 3)),
        RG('two-near-equal', flat(near_equal(pos), pos)),
        RG('all-near-equal', lambda r, b: (lambda a: [a[0], a[1], near_equal(lambda r2, b2: a[0])(r, b)[1]])(near_equal(pos)(r, b))),
        RG('complex-right-half-plane', A(cplx_rhp, cplx_rhp, cplx_rhp), weight=2),
        RG('conjugate-pair', flat(conj_pair, pos)),
    ]


def t_agm():
    return [
        RG('positive', A(pos, pos), weight=2),
        RG('positive-ratio-2^10..2^200', lambda r, b: (lambda a: [a, R(canon(0, a[1][1], a[1][2] + r.choice([-1, 1]) * r.randint(10, 200)))])(pos(r, b)), weight=2),
        RG('positive-ratio-2^200..2^5000', lambda r, b: (lambda a: [a, R(canon(0, a[1][1] | 1, a[1][2] + r.choice([-1, 1]) * r.randint(200, 5000)))])(pos(r, b))),
        RG('positive-near-equal', near_equal(pos, 4, 200)),
        RG('tiny', A(real_in(-300, -20, 0), real_in(-300, -20, 0))),
        RG('huge', A(real_in(20, 300, 0), real_in(20, 300, 0))),
        RG('one-argument', A(one_of(pos, real_in(-200, -10, 0), real_in(10, 200, 0)))),
        RG('negative-real(complex-result)', A(real_in(-3, 5, 1), pos)),
        RG('complex', A(cplx_any, cplx_any), weight=2),
        RG('complex-right-half-plane', A(cplx_rhp, cplx_rhp)),
        RG('complex-near-opposite', lambda r, b: (lambda z: [z, ('C', (1 - z[1][0],) + tuple(z[1][1:]), canon(1 - z[2][0], z[2][1] + 2, z[2][2]))])(cplx_any(r, b))),
        RG('complex-wide-ratio', A(polar_log(-100, -20), polar_log(20, 100))),
    ]


q_small = real_in(-60, -4)
q_mod = uniform_bits(-0.5, 0.5)
q_05_09 = one_of(uniform_bits(0.5, 0.9), uniform_bits(-0.9, -0.5))
q_09_099 = one_of(uniform_bits(0.9, 0.99), uniform_bits(-0.99, -0.9))
q_099_lim = lambda r, b: R(raw_from_float(r.choice([-1, 1]) * (1 - 10 ** -r.uniform(2.0, 6.9))))
q_cplx = polar(0.02, 0.6)
q_cplx_09 = polar(0.6, 0.95)
z_re = uniform_bits(-3.2, 3.2)
z_small_im = lambda r, b: C(raw_rand(r, b, -3, 2), raw_rand(r, b, -12, -3))
z_cplx = polar(0.1, 4.0)
z_big_im = lambda r, b: C(raw_rand(r, b, -3, 2), raw_rand(r, b, 1, 5))


def t_jtheta():
    regs = []
    for n in (1, 2, 3, 4):
        f = f_jtheta(n)
        rel = theta_jacobi_rel(n)
        t = 'theta%d/' % n
        regs += [
            RG(t + 'z-real,q-real-small', A(z_re, q_small), fn=f),
            RG(t + 'z-real,|q|<0.5', A(z_re, q_mod), fn=f, weight=2),
            RG(t + 'z-real,|q|-0.5..0.9', A(z_re, q_05_09), fn=f, relation=rel, ref_extra=80),
            RG(t + 'z-real,|q|-0.9..0.99', A(z_re, q_09_099), fn=f, relation=rel, ref_extra=600),
            RG(t + 'z-real,q-complex', A(z_re, q_cplx), fn=f),
            RG(t + 'z-real,q-complex-0.6..0.95', A(z_re, q_cplx_09), fn=f, ref_extra=200),
            RG(t + 'z-small-imag(fixed-point-path),q-real', A(z_small_im, q_mod), fn=f),
            RG(t + 'z-complex,q-real', A(z_cplx, q_mod), fn=f, weight=2),
            RG(t + 'z-large-imag(a-path),q-real', A(z_big_im, q_mod), fn=f),
            RG(t + 'z-complex,q-complex', A(z_cplx, q_cplx), fn=f),
            RG(t + 'z-large-real', A(real_in(5, 40), q_mod), fn=f),
            RG(t + 'z-tiny', A(real_in(-100, -6), q_mod), fn=f),
        ]
        if n != 1:
            regs += [
                RG(t + 'z=0,|q|<0.5', A(zero, q_mod), fn=f),
                RG(t + 'z=0,q-0.5..0.9', A(zero, uniform_bits(0.5, 0.9)), fn=f, relation=rel, ref_extra=80),
                RG(t + 'z=0,q-0.9..0.99', A(zero, uniform_bits(0.9, 0.99)), fn=f, relation=rel, ref_extra=600),
            ]
        if n in (2, 3):
            # series with positive terms: no cancellation, the only cells decidable next to the documented limit
            regs.append(RG(t + 'z=0,q-0.99..limit', A(zero, lambda r, b: R(raw_from_float(1 - 10 ** -r.uniform(2.0, 6.5)))), fn=f,
                           precs=[10, 15, 30, 53, 64, 100], tmax=20, **HV))
        for d in (1, 2, 3):
            fd = f_jtheta(n, d)
            regs += [
                RG(t + 'derivative-%d/z-real,|q|<0.5' % d, A(z_re, q_mod), fn=fd),
                RG(t + 'derivative-%d/z-complex,q-real' % d, A(z_cplx, q_mod), fn=fd),
            ]
        regs += [
            RG(t + 'derivative-1/z-real,|q|-0.5..0.9', A(z_re, q_05_09), fn=f_jtheta(n, 1), ref_extra=80),
            RG(t + 'derivative-1/z-complex,q-complex', A(z_cplx, q_cplx), fn=f_jtheta(n, 1)),
            RG(t + 'derivative-1/z-large-imag,q-real', A(z_big_im, q_mod), fn=f_jtheta(n, 1)),
        ]
    return regs


def t_ellipfun():
    regs = []
    u_re = uniform_bits(-6.0, 6.0)
    u_c = polar(0.1, 3.0)
    for kind in ('sn', 'cn', 'dn'):
        f = f_ellipfun(kind)
        regs += [
            RG(kind + '/u-real,m-in-(0,1)', A(u_re, m_01), fn=f, weight=2),
            RG(kind + '/u-real,m-tiny', A(u_re, m_small), fn=f),
            RG(kind + '/u-real,m-near-1', A(u_re, below1(4, 40)), fn=f, ref_extra=100),
            RG(kind + '/u-real,m-neg', A(u_re, uniform_bits(-10.0, 0.0)), fn=f),
            RG(kind + '/u-real,m>1', A(u_re, uniform_bits(1.0, 10.0)), fn=f),
            RG(kind + '/u-complex,m-in-(0,1)', A(u_c, m_01), fn=f),
            RG(kind + '/u-tiny', A(real_in(-100, -6), m_01), fn=f),
            RG(kind + '/u-real,m-complex', A(u_re, polar(0.1, 3.0)), fn=f),
        ]
    for kind in ('sc', 'sd', 'cd', 'cs', 'ds', 'dc', 'ns', 'nc', 'nd'):
        regs.append(RG(kind + '/u-real,m-in-(0,1)', A(u_re, m_01), fn=f_ellipfun(kind)))
    regs += [
        RG('sn/u-real,k-in-(0,1)', A(u_re, m_01), fn=f_ellipfun('sn', 'k')),
        RG('cn/u-real,q-in-(0,0.5)', A(u_re, uniform_bits(0.0, 0.5)), fn=f_ellipfun('cn', 'q')),
        RG('dn/u-real,tau', A(u_re, lambda r, b: C(raw_rand(r, b, -3, 0), raw_rand(r, b, -1, 2, 0))), fn=f_ellipfun('dn', 'tau')),
    ]
    return regs


tau_std = lambda r, b: C(raw_rand(r, b, -3, 0), raw_rand(r, b, -1, 2, 0))           # |Re| < 1, Im in [1/2, 4)
tau_high = lambda r, b: C(raw_rand(r, b, -3, 0), raw_rand(r, b, 2, 6, 0))
tau_low = lambda r, b: C(raw_rand(r, b, -3, 0), raw_rand(r, b, -4, -1, 0))          # close to the real axis: |q| near 1
tau_wide = lambda r, b: C(raw_rand(r, b, 0, 6), raw_rand(r, b, -1, 2, 0))


def t_kleinj():
    return [
        RG('tau-standard', A(tau_std), weight=2),
        RG('tau-Im-large', A(tau_high)),
        RG('tau-Im-small(|q|-near-1)', A(tau_low), ref_extra=200, **HV),
        RG('tau-Re-large', A(tau_wide)),
        RG('tau-imag-axis', A(lambda r, b: C((0, 0, 0, 0), raw_rand(r, b, -1, 3, 0)))),
        RG('tau-near-i', A(lambda r, b: C(raw_rand(r, 20, -30, -6), canon(0, (1 << 30) + r.randint(-3, 3) * 2 + 1, -30))), ref_extra=60),
        RG('tau-near-rho(J-near-0)', A(lambda r, b: C(raw_from_float(-0.5 + r.uniform(-1e-3, 1e-3)), raw_from_float(math.sqrt(0.75) + r.uniform(-1e-3, 1e-3)))), ref_extra=100),
    ]


def t_eta():
    return [
        RG('tau-standard', A(tau_std), weight=2),
        RG('tau-Im-large', A(tau_high)),
        RG('tau-Im-small(|q|-near-1)', A(tau_low), ref_extra=200, **HV),
        RG('tau-Re-large', A(tau_wide)),
        RG('tau-imag-axis', A(lambda r, b: C((0, 0, 0, 0), raw_rand(r, b, -1, 3, 0)))),
    ]


def t_from(name):
    regs = []
    srcs = {
        'm': [('m-in-(0,1)', m_01), ('m-tiny', m_small), ('m-near-1', below1(4, 60)), ('m-neg', uniform_bits(-30.0, 0.0)),
              ('m-complex', polar(0.1, 3.0))],
        'k': [('k-in-(0,1)', m_01), ('k-tiny', real_in(-100, -8, 0)), ('k-near-1', below1(4, 60)), ('k-complex', polar(0.1, 0.95))],
        'q': [('q-in-(0,0.5)', uniform_bits(0.0, 0.5)), ('q-tiny', real_in(-100, -8, 0)), ('q-0.5..0.9', uniform_bits(0.5, 0.9)),
              ('q-neg', uniform_bits(-0.7, 0.0)), ('q-complex', q_cplx)],
        'qbar': [('qbar-in-(0,0.25)', uniform_bits(0.0, 0.25)), ('qbar-tiny', real_in(-100, -8, 0)), ('qbar-0.25..0.8', uniform_bits(0.25, 0.8)),
                 ('qbar-complex', polar(0.02, 0.4))],
        'tau': [('tau-standard', tau_std), ('tau-Im-large', tau_high), ('tau-imag-axis', lambda r, b: C((0, 0, 0, 0), raw_rand(r, b, -1, 3, 0)))],
    }
    own = {'qfrom': 'q', 'mfrom': 'm', 'kfrom': 'k', 'taufrom': 'tau', 'qbarfrom': 'qbar'}[name]
    for key, lst in srcs.items():
        for lab, g in lst:
            if key == own and lab != lst[0][0]:
                continue
            extra = 150 if ('near-1' in lab or '0.5..0.9' in lab or '0.25..0.8' in lab) else (500 if 'tiny' in lab else 0)
            regs.append(RG('from-%s/%s' % (key, lab), A(g), fn=f_from(name, key), ref_extra=extra))
    return regs


def t_qp():
    a_g = one_of(uniform_bits(-3.0, 3.0), real_in(-20, 3))
    return [
        RG('euler/q-real-|q|<0.5', A(q_mod), fn=f_qp('euler'), relation=qp_rel, weight=2),
        RG('euler/q-tiny', A(q_small), fn=f_qp('euler')),
        RG('euler/q-0.5..0.9', A(q_05_09), fn=f_qp('euler'), relation=qp_rel),
        RG('euler/q-0.9..0.99', A(q_09_099), fn=f_qp('euler'), relation=qp_rel, ref_extra=200),
        RG('euler/q-0.99..0.999', A(lambda r, b: R(raw_from_float(r.choice([-1, 1]) * r.uniform(0.99, 0.999)))), fn=f_qp('euler'), relation=qp_rel,
           ref_extra=1500, precs=[10, 15, 30, 53, 64, 100], tmax=15, **HV),
        RG('euler/q-complex', A(q_cplx), fn=f_qp('euler'), relation=qp_rel),
        RG('euler/q-complex-0.6..0.95', A(q_cplx_09), fn=f_qp('euler'), relation=qp_rel, ref_extra=100),
        RG('infinite/a-real,|q|<0.5', A(a_g, q_mod), fn=f_qp('inf'), weight=2),
        RG('infinite/a-real,q-0.5..0.9', A(a_g, q_05_09), fn=f_qp('inf')),
        RG('infinite/a-real,q-0.9..0.99', A(a_g, q_09_099), fn=f_qp('inf'), **HV),
        RG('infinite/a-near-q^-k', lambda r, b: _a_near_qk(r, b), fn=f_qp('inf'), ref_extra=80),
        RG('infinite/a-complex,q-complex', A(polar(0.1, 3.0), q_cplx), fn=f_qp('inf')),
        RG('infinite/a-large', A(real_in(3, 30), q_mod), fn=f_qp('inf')),
        RG('finite/n-1..50', A(a_g, one_of(q_mod, q_05_09), integer(1, 50)), fn=f_qp('fin'), weight=2),
        RG('finite/n-50..2000', A(a_g, one_of(q_mod, q_05_09, q_09_099), integer(50, 2000)), fn=f_qp('fin'), **HV),
        RG('finite/|q|>1', A(a_g, one_of(uniform_bits(1.1, 3.0), uniform_bits(-3.0, -1.1)), integer(1, 30)), fn=f_qp('fin')),
    ]


def _a_near_qk(r, b):
    q = uniform_bits(0.2, 0.8)(r, b)
    fq = K.spec_fraction(q)
    k = r.randint(0, 4)
    # a = q^-k (1 + 2^-j) rounded to 100 bits: factor (1 - a q^k) nearly vanishes
    val = (1 / fq) ** k * (1 + Fraction(r.choice([-1, 1]), 2 ** r.randint(8, 40)))
    n = int(val * 2 ** 100)
    return [R(canon(0, n | 1, -100)), q]


def t_qgamma():
    return [
        RG('z-real,q-in-(0,1)', A(uniform_bits(0.1, 10.0), uniform_bits(0.05, 0.9)), weight=2),
        RG('z-real,q-0.9..0.99', A(uniform_bits(0.1, 10.0), uniform_bits(0.9, 0.99)), ref_extra=300, **HV),
        RG('z-real,q>1', A(uniform_bits(0.1, 10.0), uniform_bits(1.1, 5.0))),
        RG('z-neg-nonint,q-in-(0,1)', A(one_of(half_integer(-6, -1), uniform_bits(-5.0, -0.1)), uniform_bits(0.05, 0.9))),
        RG('z-int,q-in-(0,1)', A(integer(1, 20), uniform_bits(0.05, 0.9))),
        RG('z-complex,q-in-(0,1)', A(polar(0.2, 6.0), uniform_bits(0.05, 0.9))),
        RG('z-real,q-complex', A(uniform_bits(0.1, 6.0), q_cplx)),
        RG('z-real,q-tiny', A(uniform_bits(0.1, 10.0), real_in(-60, -6, 0))),
        RG('z-large,q-in-(0,1)', A(uniform_bits(10.0, 200.0), uniform_bits(0.05, 0.9))),
    ]


def t_qhyper():
    par = one_of(uniform_bits(-3.0, 3.0), real_in(-10, 1))
    bpar = one_of(uniform_bits(-0.9, 0.9), real_in(-10, -1))
    zz = uniform_bits(-0.9, 0.9)
    return [
        RG('1phi0/|z|<1', A(par, q_mod, zz), fn=f_qhyper(1, 0), weight=2),
        RG('2phi1/|z|<1', A(par, par, bpar, q_mod, zz), fn=f_qhyper(2, 1), weight=2),
        RG('2phi1/q-0.5..0.9', A(par, par, bpar, q_05_09, uniform_bits(-0.5, 0.5)), fn=f_qhyper(2, 1), **HV),
        RG('2phi1/complex', A(polar(0.1, 2.0), polar(0.1, 2.0), polar(0.1, 0.9), q_cplx, polar(0.05, 0.9)), fn=f_qhyper(2, 1), **HV),
        RG('1phi1', A(par, bpar, q_mod, uniform_bits(-3.0, 3.0)), fn=f_qhyper(1, 1)),
        RG('0phi1', A(bpar, q_mod, uniform_bits(-3.0, 3.0)), fn=f_qhyper(0, 1)),
        RG('0phi0', A(q_mod, uniform_bits(-3.0, 3.0)), fn=f_qhyper(0, 0)),
        RG('3phi2/|z|<1', A(par, par, par, bpar, bpar, q_mod, zz), fn=f_qhyper(3, 2), **HV),
        RG('2phi1/terminating(a=q^-n)', lambda r, b: _qterm(r, b), fn=f_qhyper(2, 1), relation=qterm_rel),
        RG('2phi1/z-tiny', A(par, par, bpar, q_mod, real_in(-100, -8)), fn=f_qhyper(2, 1)),
    ]


def qterm_rel(mp, a, b, c, q, z):
    # terminating 2phi1(q^-n, b; c; q, z): finite sum of the defining series
    t = s = mp.mpf(1)
    qk = mp.mpf(1)
    for k in range(200):
        f = (1 - a * qk) * (1 - b * qk)
        if f == 0:
            return s
        t = t * f / ((1 - c * qk) * (1 - q * qk)) * z
        s += t
        qk *= q
    raise ValueError('not terminating')


def _qterm(r, b):
    n = r.randint(1, 8)
    q = R(canon(r.randint(0, 1), r.choice([1, 3, 5, 7]), -3))           # q = +-k/8: q^-n exactly representable? no: use 1/2, 1/4
    q = R(canon(r.randint(0, 1), 1, -r.randint(1, 2)))
    fq = K.spec_fraction(q)
    a = R(K.frac_raw(1 / fq ** n))
    return [a, uniform_bits(-3.0, 3.0)(r, b), uniform_bits(-0.9, 0.9)(r, b), q, uniform_bits(-2.0, 2.0)(r, b)]


# ---- Lambert W: verified-candidate oracle ----------------------------------------------------------------------

INV_E = 0.36787944117144233


def _lw_index(rm, w, z):
    return (w + rm.log(w) - rm.log(z)) / (2j * rm.pi)


def _lw_verify(rm, c, z, k, p):
    """is candidate c = W_k(z) to far below 2^-p?  (defining relation + branch identity).  returns (ok, reason)"""
    wp = 2 * p + 264
    with K.at_prec(rm, wp):
        if not rm.isfinite(c) or c == 0:
            return False, 'candidate not finite'
        res = abs(c * rm.exp(c) - z) / abs(z)
        d1 = abs(1 + c)
        if d1 == 0:
            return False, 'candidate at the branch point'
        est = res * abs(c) / d1                    # first-order |delta w|
        if not (est <= rm.ldexp(abs(c), -(p + 36)) and est <= rm.ldexp(d1, -12)):
            return False, 'defining relation residual too large'
        Kc = _lw_index(rm, c, z)
        real_cut = (rm.im(z) == 0 and -rm.exp(-1) <= rm.re(z) < 0)
        want = k
        if k == -1 and real_cut:
            want = 0
        if abs(Kc - want) > 1e-6:
            return False, 'branch identity gives %s' % rm.nstr(Kc, 8)
        if real_cut and k in (0, -1):
            if k == 0 and not rm.re(c) >= -1:
                return False, 'real branch 0 requires w >= -1'
            if k == -1 and not rm.re(c) <= -1:
                return False, 'real branch -1 requires w <= -1'
    return True, None


def _strip_ok(rm, w, k, z, p):
    """documented range of branch k (Corless et al.): k = 0: |Im w| <= pi; k > 0: (2k-2) pi <= Im w <= (2k+1) pi;
    k < 0 mirrored -- widened by the error 2^(8-p)|w| the statement allows for the returned value"""
    with K.at_prec(rm, 80):
        y = rm.im(w)
        pi = rm.pi
        tol = rm.ldexp(abs(w), 8 - p) + rm.mpf(2) ** -40
        if k == 0:
            return abs(y) <= pi + tol
        if k > 0:
            return (2 * k - 2) * pi - tol <= y <= (2 * k + 1) * pi + tol
        return (2 * k - 1) * pi - tol <= y <= (2 * k + 2) * pi + tol


def lambertw_check(tree_mp, rec, prop, label, p, zspec, k):
    rm = K.rmp()
    fname = 'lambertw'
    specs = [zspec, I(k)]
    case = {'function': fname, 'regime': label, 'args': S._fmt(specs), 'prec': p}
    ident = (fname, label, S._fmt(specs), p)
    cls = '%s/%s' % (fname, label)
    key = '%s/%s/%s' % (prop, fname, label)
    exc = val = None
    try:
        val = refmodel.call(tree_mp, fname, specs, p)
    except S.Timeout:
        raise
    except Exception as e:
        exc = e
    finally:
        tree_mp.prec = 53            # lambertw leaks the raised precision on an exception (C11): do not let it affect later cases
    # candidates: release at 2p+200, tree at 3p+300, Newton polish of the returned value
    z = refmodel.build(rm, zspec)
    cands = []
    try:
        cands.append(('R1', refmodel.call(rm, fname, specs, 2 * p + 200)))
    except S.Timeout:
        raise
    except Exception:
        pass
    try:
        t = refmodel.call(tree_mp, fname, specs, 3 * p + 300)
        cands.append(('R2', refmodel.to_ref(rm, t)))
    except S.Timeout:
        raise
    except Exception:
        pass
    finally:
        tree_mp.prec = 53
    if val is not None and refmodel._numeric(val):
        with K.at_prec(rm, 2 * p + 264):
            w = rm.mpmathify(refmodel.to_ref(rm, val))
            try:
                for i in range(80):
                    ew = rm.exp(w)
                    f = w * ew - z
                    wn = w - f / (ew * (w + 1) - (w + 2) * f / (2 * w + 2))
                    done = abs(wn - w) <= rm.ldexp(abs(wn), -(2 * p + 200))
                    w = wn
                    if done:
                        break
                cands.append(('polished', w))
            except ZeroDivisionError:
                pass
    refv = who = None
    why = []
    for name, c in cands:
        ok, reason = _lw_verify(rm, c, z, k, p)
        if ok:
            refv, who = c, name
            break
        why.append('%s: %s' % (name, reason))
    rec.case(ident, True, cls)
    if refv is None:
        if exc is not None:
            rec.cls('raised/' + type(exc).__name__)
            rec.note('raised', {'case': case, 'exc': repr(exc)[:120], 'candidates': why}, cap=30)
            return 'raised'
        rec.undecided('lambertw: no verified candidate', case)
        rec.note('lambertw-unverified', {'case': case, 'why': why}, cap=20)
        return 'undecided'
    rec.event('lambertw: defining relation w e^w = z verified for the reference value')
    rec.event('lambertw: branch identity verified for the reference value')
    rec.event('lambertw reference from ' + who)
    if exc is not None:
        rec.violation(key + '/raises-' + type(exc).__name__, 'lambertw raises %s at prec %d where W_k(z) exists (verified value)' % (type(exc).__name__, p),
                      case, observed=repr(exc)[:200], expected=str(refv)[:60])
        return 'violated'
    comp = refmodel.to_ref(rm, val)
    err = K.err_units(rm, comp, refv, p)
    rec.sample(case)
    rec.maximum('err_units/' + fname, err, case)
    v = refmodel.decide_error(err, 2.0 ** 8)
    if not _strip_ok(rm, comp, k, z, p):
        rec.violation(key + '/outside-branch-strip', 'lambertw(z, %d): Im w = %s is outside the documented range of branch %d' % (k, rm.nstr(rm.im(comp), 10), k),
                      case, observed=str(val)[:80], expected=str(refv)[:80])
        return 'violated'
    rec.event('lambertw: returned value inside the documented strip of its branch')
    if v == 'violated':
        # classify: right branch but inaccurate, or a root of another branch
        sfx = ''
        with K.at_prec(rm, 2 * p + 264):
            try:
                Kc = _lw_index(rm, comp, z)
                if abs(Kc - round(float(rm.re(Kc)))) < 1e-6 and abs(comp * rm.exp(comp) - z) <= rm.ldexp(abs(z), -(p // 2)) \
                        and abs(Kc - _lw_index(rm, refv, z)) > 0.5:
                    sfx = '/wrong-branch'
            except Exception:
                pass
        sev = math.log2(err) - 8 if err < float('inf') else 1e9
        rec.violation(key + sfx, 'lambertw relative error %.3g * 2^-p exceeds 2^(8-p) at prec %d (verified reference from %s)' % (err, p, who),
                      case, observed=str(val)[:80], expected=str(refv)[:80], severity=round(sev, 2))
    elif v == 'undecided':
        rec.undecided('guard-band', case)
    return v


def make_lw_cell(label, zgen, kgen, heavy=False, precs=None, weight=1):
    def check(tree_mp, rec, r, p, bits, cell):
        return lambertw_check(tree_mp, rec, cell[0], label, p, zgen(r, bits), kgen(r))

    def rp(tree_mp, rec, c, cell):
        a = S._unfmt(c['args'])
        return lambertw_check(tree_mp, rec, cell[0], label, c['prec'], a[0], a[1][1])
    cell = Custom(label, check, heavy=heavy, precs=precs, tmax=6, weight=weight)
    cell.replay = rp
    return cell


def near_bp(kmin, kmax, side, complex_off=False):
    """-1/e (53-bit value) + side * 2^-k  (side +1: above the branch point, -1: below), optionally with a small imaginary part"""
    def g(r, b):
        base = Fraction(*(-INV_E).as_integer_ratio())
        k = r.randint(kmin, kmax)
        s = side if side else r.choice([-1, 1])
        f = base + Fraction(s, 2 ** k)
        re = K.frac_raw(f)
        if complex_off:
            return C(re, raw_rand(r, min(b, 30), -kmax, -kmin))
        return R(re)
    return g


def near_bp_exact(cmin, cmax, side, imag=False):
    """-1/e rounded to c+40 bits, + side*2^-c  (|z + 1/e| = 2^-c up to 2^-(c+40)); optional imaginary part 2^-(c..c+20)"""
    def g(r, b):
        rm = K.rmp()
        c = r.randint(cmin, cmax)
        with K.at_prec(rm, c + 40):
            v = -rm.exp(-1)
            base = K.spec_fraction(R(tuple(int(t) if i == 1 else t for i, t in enumerate(v._mpf_))))
        s = side if side else r.choice([-1, 1])
        re = K.frac_raw(base + Fraction(s, 2 ** c))
        if imag:
            im = canon(r.randint(0, 1) if imag is True else imag, r.choice([1, 3, 5]), -(c + r.randint(0, 20)))
            return C(re, im)
        return R(re)
    return g


def t_lambertw():
    k0 = lambda r: 0
    km1 = lambda r: -1
    k1 = lambda r: 1
    kpm1 = lambda r: r.choice([-1, 1])
    ksmall = lambda r: r.choice([-1, 1]) * r.randint(2, 20)
    kmid = lambda r: r.choice([-1, 1]) * r.randint(21, 999)
    kbig = lambda r: r.choice([-1, 1]) * r.randint(1000, 10 ** 6)
    kany = lambda r: r.choice([0, -1, 1, 2, -2, 5, -7, 40, -300])
    return [
        make_lw_cell('k=0/real-pos-moderate', uniform_bits(0.0, 50.0), k0),
        make_lw_cell('k=0/real-pos-small', real_in(-9, -1, 0), k0),
        make_lw_cell('k=0/real-tiny(mag<-10)', real_in(-300, -10), k0),
        make_lw_cell('k=0/real-large', real_in(6, 800, 0), k0),
        make_lw_cell('k=0/real-huge(mag>900)', real_in(901, 5000, 0), k0),
        make_lw_cell('k=0/real-(-1/e,0)', uniform_bits(-0.36, 0.0), k0),
        make_lw_cell('k=0/real-near-branch-point-above-2^-6..2^-40', near_bp(6, 40, 1), k0),
        make_lw_cell('k=0/real-near-branch-point-above-2^-40..2^-52', near_bp(40, 52, 1), k0),
        make_lw_cell('k=0/real-below-branch-point(complex-result)', one_of(near_bp(6, 52, -1), uniform_bits(-30.0, -0.37)), k0),
        make_lw_cell('k=0/complex-moderate', polar_log(-3, 6), k0),
        make_lw_cell('k=0/complex-|z+1/e|<0.05', lambda r, b: C(raw_from_float(-INV_E + r.uniform(-0.03, 0.03)), raw_from_float(r.uniform(-0.03, 0.03))), k0),
        make_lw_cell('k=0/complex-|z+1/e|-0.05..0.3', lambda r, b: C(raw_from_float(-INV_E + r.choice([-1, 1]) * r.uniform(0.05, 0.3)), raw_from_float(r.uniform(-0.3, 0.3))), k0),
        make_lw_cell('k=0/complex-near-branch-point-tiny-imag', near_bp(8, 50, 0, True), k0),
        make_lw_cell('k=0/complex-huge', polar_log(100, 3000), k0),
        make_lw_cell('k=0/complex-tiny', polar_log(-300, -10), k0),
        make_lw_cell('k=-1/real-(-1/e,0)', uniform_bits(-0.36, 0.0), km1),
        make_lw_cell('k=-1/real-tiny-negative', real_in(-300, -6, 1), km1),
        make_lw_cell('k=-1/real-near-branch-point-above', near_bp(6, 52, 1), km1),
        make_lw_cell('k=-1/real-below-branch-point', one_of(near_bp(6, 52, -1), uniform_bits(-30.0, -0.37)), km1),
        make_lw_cell('k=-1/real-positive', real_in(-20, 40, 0), km1),
        make_lw_cell('k=+-1/complex-|z+1/e|<0.05', lambda r, b: C(raw_from_float(-INV_E + r.uniform(-0.03, 0.03)), raw_from_float(r.uniform(-0.03, 0.03))), kpm1),
        make_lw_cell('k=+-1/complex-near-branch-point-tiny-imag', near_bp(8, 50, 0, True), kpm1),
        make_lw_cell('k=+-1/complex-moderate', polar_log(-3, 6), kpm1),
        make_lw_cell('k=+-1/complex-tiny', polar_log(-300, -10), kpm1),
        make_lw_cell('k=+-1/complex-huge', polar_log(100, 3000), kpm1),
        make_lw_cell('k=1/real-negative', one_of(uniform_bits(-0.36, 0.0), uniform_bits(-30.0, -0.37), near_bp(6, 52, 0)), k1),
        make_lw_cell('|k|-2..20/complex', polar_log(-6, 8), ksmall),
        make_lw_cell('|k|-2..20/real', real_in(-20, 30), ksmall),
        make_lw_cell('|k|-2..20/near-branch-point', near_bp(6, 50, 0, True), ksmall),
        make_lw_cell('|k|-2..20/tiny', polar_log(-300, -10), ksmall),
        make_lw_cell('|k|-2..20/huge', polar_log(100, 3000), ksmall),
        make_lw_cell('|k|-21..999/complex', polar_log(-6, 8), kmid),
        make_lw_cell('|k|-1000..10^6/complex', polar_log(-6, 8), kbig),
        make_lw_cell('|k|-1000..10^6/real', real_in(-20, 30), kbig),
        make_lw_cell('any-k/negative-real-axis', real_in(-30, 30, 1), kany),
        make_lw_cell('any-k/imag-axis', lambda r, b: C((0, 0, 0, 0), raw_rand(r, b, -20, 30)), kany),
        # distance 2^-c from the branch point with c beyond the 53 bits of a double (all precisions)
        make_lw_cell('k=0/real-|z+1/e|=2^-c,c-40..120-above', near_bp_exact(40, 120, 1), k0),
        make_lw_cell('k=-1/real-|z+1/e|=2^-c,c-40..120-above', near_bp_exact(40, 120, 1), km1),
        make_lw_cell('k=0,+-1/complex-|z+1/e|=2^-c,c-40..120', near_bp_exact(40, 120, 0, True), lambda r: r.choice([0, -1, 1])),
        # high-precision stratum (2500 / 3000 / 3500 bits)
        HP(make_lw_cell('hp/k=0/real-|z+1/e|=2^-c,c-40..120-above', near_bp_exact(40, 120, 1), k0, weight=2)),
        HP(make_lw_cell('hp/k=-1/real-|z+1/e|=2^-c,c-40..120-above', near_bp_exact(40, 120, 1), km1, weight=2)),
        HP(make_lw_cell('hp/k=1/complex-|z+1/e|=2^-c,c-40..120,Im<0', near_bp_exact(40, 120, 0, 1), k1, weight=2)),
        HP(make_lw_cell('hp/k=-1/complex-|z+1/e|=2^-c,c-40..120,Im>0', near_bp_exact(40, 120, 0, 0), km1)),
        HP(make_lw_cell('hp/k=0/real-below-branch-point', near_bp_exact(40, 120, -1), k0)),
        HP(make_lw_cell('hp/k=0/real-pos-moderate', uniform_bits(0.0, 50.0), k0)),
        HP(make_lw_cell('hp/any-k/complex-moderate', polar_log(-3, 6), kany)),
    ]


def hp_cells():
    return {
        'ellipk': [HP(RG('hp/m-in-(0,1)', A(m_01))), HP(RG('hp/m-near-1-below', A(below1(6, 300)), relation=ellipk_rel))],
        'ellipe': [HP(RG('hp/m-in-(0,1)', A(m_01), relation=ellipe_rel)), HP(RG('hp/m-near-1-below', A(below1(6, 300)), relation=ellipe_rel))],
        'ellipf': [HP(RG('hp/|phi|<=pi/2,m-in-(0,1)', A(phi_in, m_01)))],
        'agm': [HP(RG('hp/positive', A(pos, pos))), HP(RG('hp/complex', A(cplx_any, cplx_any)))],
        'elliprf': [HP(RG('hp/positive', A(pos, pos, pos)))],
        'elliprc': [HP(RG('hp/x-near-y', near_equal(pos, 6, 200)))],
        'jtheta': [HP(RG('hp/theta3/z-real,|q|<0.5', A(z_re, q_mod), fn=f_jtheta(3))), HP(RG('hp/theta1/z-complex,q-real', A(z_cplx, q_mod), fn=f_jtheta(1)))],
        'qp': [HP(RG('hp/euler/q-real-|q|<0.5', A(q_mod), fn=f_qp('euler')))],
        'kleinj': [HP(RG('hp/tau-standard', A(tau_std)))],
    }


TABLE = {
    'ellipk': t_ellipk(), 'ellipe': t_ellipe(), 'ellipf': t_ellipf(), 'ellippi': t_ellippi(),
    'elliprf': t_elliprf(), 'elliprc': t_elliprc(), 'elliprj': t_elliprj(), 'elliprd': t_elliprd(), 'elliprg': t_elliprg(),
    'agm': t_agm(), 'jtheta': t_jtheta(), 'ellipfun': t_ellipfun(), 'kleinj': t_kleinj(), 'eta': t_eta(),
    'qfrom': t_from('qfrom'), 'mfrom': t_from('mfrom'), 'kfrom': t_from('kfrom'), 'taufrom': t_from('taufrom'), 'qbarfrom': t_from('qbarfrom'),
    'lambertw': t_lambertw(), 'qp': t_qp(), 'qgamma': t_qgamma(), 'qhyper': t_qhyper(),
}


for _f, _cells in hp_cells().items():
    TABLE[_f] = TABLE[_f] + _cells


def shards(tier, seed):
    # VERIF_BUDGET_SCALE (default 1) scales the per-shard CPU budget; used only to self-validate on a shared, loaded machine
    import os
    scale = float(os.environ.get('VERIF_BUDGET_SCALE', '1') or 1)
    return [{'n': CASES[tier], 'nshards': NSHARDS, 'budget_s': BUDGET[tier] * scale, 'wall_s': WALL[tier]} for _ in range(NSHARDS)]


def run_shard(shard, rec):
    K.run(PROP, TABLE, shard, rec, shard['n'], tmax=6.0 if shard.get('tier') == 'quick' else 20.0)


_req = K.required(TABLE)


def required(agg, tier):
    miss = list(_req(agg, tier))
    ev = agg['events']
    if not ev.get('lambertw: defining relation w e^w = z verified for the reference value'):
        miss.append('the Lambert W defining-relation monitor saw no case')
    if not ev.get('lambertw: returned value inside the documented strip of its branch'):
        miss.append('the Lambert W branch-strip monitor saw no case')
    return miss


def replay(case, rec):
    K.replay(PROP, TABLE, case, rec)
