"""C04 -- complex arithmetic is correctly rounded per component.

Observed: z+w, z-w, z*w, z*x, x*z, z+x, x+z, z-x, x-z (x real: mpf/int/float), fadd/fsub/fmul with complex
arguments (prec=, rounding= in all five modes, exact=True), z**n (n >= 0) via ** / mp.power / mpf-valued exponent,
z/w, x/z, z/x, 1/z, z**-1, z**-n, fdiv, and mpc ==/!= complex/int/float/mpf/mpc.
Oracle: exactq on the exact components (sums/products/integer Gaussian powers) -> round_to -> raw equality;
quotients: exact Gaussian-rational quotient, |got-q|^2 <= (4*2^-p)^2 |q|^2 decided in integers."""
import math
from vf import exactq as Q
from vf import gens as G
from vf import exact_extra as X

PROP = 'C04'
LEVEL = 'exploration'
RULE = ('seeded stratified generation: operation x rounding mode x entry point x operand-shape class x precision; '
        'non-trivial = at least one exact component does not fit in p bits (it was rounded), or a quotient/negative power '
        '(always inexact), or an equality between values that differ only beyond the working precision; '
        'distinct = distinct (op, operands, p, mode, entry point)')
ASSUMPTIONS = ['exactq / exact_extra (Python int arithmetic) are correct',
               'operands are injected exactly through ctx.make_mpc/make_mpf (raw tuples) or as exactly equal Python numbers',
               '"exact result of at most about 10^4 bits" is fixed a priori as n*(|exponent difference of the parts| + longest mantissa + 1) <= 9000; '
               'larger powers are observed, not asserted',
               '"a few units in the last place" for quotients/reciprocals/negative powers is fixed at |got-q| <= 4*2^-p*|q| (DESIGN section 3/C04)']
SHARD_TIMEOUT = {'quick': 600, 'thorough': 3600}
LEVEL_TEXT = ('exploration: ~2.3*10^5 (quick) / ~2.5*10^6 (thorough) generated complex operations on the real code, each component compared '
              'bit-for-bit with the correct rounding of the exact component (sums, products, Gaussian-integer powers); quotients and '
              'negative powers decided exactly against 4*2^-p relative modulus error')
LEVEL_NOTE = 'trusted base: vf/exactq.py + vf/exact_extra.py (integer arithmetic only); inputs not generated are not covered'
TECHNIQUE = 'runtime reference-model monitor: exact rational oracle on every observed complex arithmetic result'

CASES = {'quick': 18000, 'thorough': 200000}
_BIG = 0.0              # share of precisions drawn from the 2500..3500 list (thorough tier only)
OPS = ['add', 'sub', 'mul', 'mulcancel', 'addr', 'subr', 'rsubr', 'mulr', 'pow', 'powaxis', 'powedge', 'div', 'rdiv', 'divr',
       'recip', 'negpow', 'eq', 'exactkw', 'square']
POW_ENVELOPE = 9000
DIV_TOL = 4


def shards(tier, seed):
    return [{'n': CASES[tier]} for _ in range(16)]


def _mp():
    import mpmath
    return mpmath.mp


# ---------------------------------------------------------------------------------------
# operands
# ---------------------------------------------------------------------------------------

def comp(r, p, zero=0.03):
    return G.raw_real(r, p, wild=False, special=0, zero=zero)


def gen_z(r, p, kind=None, grid=False):
    """a complex operand as a pair of raw reals.  grid=True bounds the exponent difference between the parts
    (the oracle needs both on one integer grid)"""
    kind = kind or r.choice(['generic', 'generic', 'gap', 'long', 'purere', 'pureim', 'short', 'wild'])
    if kind == 'wild' and grid:
        kind = 'generic'
    if kind == 'generic':
        a, b = comp(r, p), comp(r, p)
    elif kind == 'gap':
        a, b, _ = G.pair_with_gap(r, p, r.choice(G.GAPS[:-2] if grid else G.GAPS))
    elif kind == 'long':
        a = Q.canon(r.randint(0, 1), G.mantissa(r, r.choice([p + 1, 2 * p, 3 * p + 7, 305])), G.exponent(r, p, wild=False))
        b = Q.canon(r.randint(0, 1), G.mantissa(r, r.choice([p + 1, 2 * p, 3 * p + 7, 305])), G.exponent(r, p, wild=False))
    elif kind == 'purere':
        a, b = comp(r, p, 0), Q.fzero
    elif kind == 'pureim':
        a, b = Q.fzero, comp(r, p, 0)
    elif kind == 'short':
        a = Q.canon(r.randint(0, 1), r.choice([1, 3, 5, 7, 255]), r.randint(-6, 6))
        b = Q.canon(r.randint(0, 1), r.choice([1, 3, 5, 7, 255]), r.randint(-6, 6))
    else:
        a, b = G.raw_real(r, p, special=0), G.raw_real(r, p, special=0)
    if grid and a[1] and b[1] and abs(a[2] - b[2]) > 6000:
        b = (b[0], b[1], a[2] + r.randint(-50, 50), b[3])
    return a, b


def z_obj(mp, r, z, allow_py=True):
    """mpc object or (sometimes) an exactly equal Python complex"""
    if allow_py and r.random() < 0.2:
        fa, fb = X.as_float(z[0]), X.as_float(z[1])
        if fa is not None and fb is not None:
            return complex(fa, fb), 'complex'
    return mp.make_mpc(z), 'mpc'


def x_obj(mp, r, x, allow_py=True):
    if allow_py and r.random() < 0.35:
        v = G.as_python_number(r, x)
        if v is not None:
            return v, type(v).__name__
    return mp.make_mpf(x), 'mpf'


def ex2(z):
    return Q.from_raw(z[0]), Q.from_raw(z[1])


def rnd2(e, p, mode):
    return Q.round_to(e[0], p, mode), Q.round_to(e[1], p, mode)


def fits2(e, p):
    return Q.fits(e[0], p) and Q.fits(e[1], p)


# ---------------------------------------------------------------------------------------
# correctly rounded family
# ---------------------------------------------------------------------------------------

def exact_binary(op, z, w):
    a, b = ex2(z)
    c, d = ex2(w)
    if op == 'add':
        return Q.add(a, c), Q.add(b, d)
    if op == 'sub':
        return Q.sub(a, c), Q.sub(b, d)
    if op == 'mul':
        return X.cmul(a, b, c, d)
    raise ValueError(op)


def run_op(mp, op, x, y, p, mode, via, kw=None):
    """op in add/sub/mul/div, operands are objects"""
    if via == 'op':
        old = mp.prec
        mp.prec = p
        try:
            if op == 'add': return x + y
            if op == 'sub': return x - y
            if op == 'mul': return x * y
            return x / y
        finally:
            mp.prec = old
    f = {'add': mp.fadd, 'sub': mp.fsub, 'mul': mp.fmul, 'div': mp.fdiv}[op]
    if kw is not None:
        return f(x, y, **kw)
    return f(x, y, prec=p, rounding=mode)


def as_pair(res):
    if hasattr(res, '_mpc_'):
        return res._mpc_
    if hasattr(res, '_mpf_'):
        return (res._mpf_, Q.fzero)
    return ('not-an-mp-number', repr(res))


def key_cr(opname, z, w, p, got, want, real_operand):
    """mechanism key of a per-component misrounding"""
    if real_operand and opname in ('add', 'sub'):
        # documented shape of the shortcut: only the real parts are combined; was the other part passed through unrounded?
        zi = z[1] if real_operand == 'right' else w[1]
        if got[0] == want[0] and zi[1] and zi[3] > p and got[1] in (zi, (1 - zi[0], zi[1], zi[2], zi[3])):
            return 'C04/%s-real/untouched-component-unrounded' % opname
        return 'C04/%s-real' % opname
    if opname == 'mul' and not real_operand:
        bad = [i for i in (0, 1) if got[i] != want[i]]
        return 'C04/mul/' + '+'.join('re' if i == 0 else 'im' for i in bad)
    return 'C04/' + opname + ('-real' if real_operand else '')


def check_cr(mp, rec, r, cell, opname, z, w, p, mode, via, real_operand=None, order='zw'):
    """z, w pairs of raws (a real operand is (x, fzero) and passed as a real object)"""
    ident = (cell, X.rid(z[0]), X.rid(z[1]), X.rid(w[0]), X.rid(w[1]), p, mode, via, order)
    e = exact_binary(opname, z, w)
    if real_operand == 'right':
        x, tx = z_obj(mp, r, z, via != 'op')
        y, ty = x_obj(mp, r, w[0])
    elif real_operand == 'left':
        x, tx = x_obj(mp, r, z[0])
        y, ty = z_obj(mp, r, w, via != 'op')
    else:
        x, tx = z_obj(mp, r, z)
        y, ty = z_obj(mp, r, w)
        if tx == 'complex' and ty == 'complex' and via == 'op':
            x, tx = mp.make_mpc(z), 'mpc'
    if via == 'op' and tx not in ('mpc', 'mpf') and ty not in ('mpc', 'mpf'):
        x, tx = (mp.make_mpc(z), 'mpc') if real_operand != 'left' else (mp.make_mpf(z[0]), 'mpf')
    case = {'op': opname, 'z': z, 'w': w, 'prec': p, 'mode': mode, 'via': via, 'real_operand': real_operand, 'types': [tx, ty]}
    res = run_op(mp, opname, x, y, p, mode, via)
    got = as_pair(res)
    want = rnd2(e, p, mode)
    rec.case(ident, not fits2(e, p), cls='%s/%s/%s' % (cell, mode, via))
    rec.sample(case)
    if got != want:
        rec.violation(key_cr(opname, z, w, p, got, want, real_operand),
                      '%s%s: component not correctly rounded (mode %s, prec %d)' % (opname, ' with real operand' if real_operand else '', mode, p),
                      case, got, want)


def cancel_pair(r, p):
    """z, w with a*c ~ b*d (real part of the product cancels) or a*d ~ -b*c"""
    a = comp(r, p, 0); c = comp(r, p, 0); b = comp(r, p, 0)
    A, C, B = Q.from_raw(a), Q.from_raw(c), Q.from_raw(b)
    t = Q.div(Q.mul(A, C), B)                       # d ~ ac/b
    k = r.choice([p, p + 1, 2 * p, max(2, p // 2)])
    d = Q.round_to(t, k, r.choice(G.MODES))
    if r.random() < 0.5:
        z, w = (a, b), (c, d)
    else:
        # imaginary part cancels: a*d + b*c ~ 0  ->  swap roles
        z, w = (a, b), ((1 - d[0], d[1], d[2], d[3]), c)
    return z, w


# ---------------------------------------------------------------------------------------
# powers
# ---------------------------------------------------------------------------------------

def pow_size(z, n):
    (sa, ma, ea, abc), (sb, mb, eb, bbc) = z
    if ma and mb:
        return n * (abs(ea - eb) + max(abc, bbc) + 1)
    return n * (max(abc, bbc) + 1)


def call_pow(mp, z, n, p, via):
    x = mp.make_mpc(z)
    old = mp.prec
    mp.prec = p
    try:
        if via == 'op':
            return x ** n
        if via == 'power':
            return mp.power(x, n)
        return x ** mp.make_mpf(Q.canon(1 if n < 0 else 0, abs(n), 0))
    finally:
        mp.prec = old


def check_pow(mp, rec, r, cell, z, n, p, via):
    A, B, e = X.common_grid(z[0], z[1])
    size = pow_size(z, n)
    case = {'op': 'pow', 'z': z, 'n': n, 'prec': p, 'via': via, 'size_bound': size}
    wr, wi = X.gauss_pow(A, B, n)
    ex = (Q.Ex(wr, 1, e * n), Q.Ex(wi, 1, e * n))
    want = rnd2(ex, p, 'n')
    got = as_pair(call_pow(mp, z, n, p, via))
    axis = (not z[0][1]) or (not z[1][1])
    if size > POW_ENVELOPE:
        rec.cls('unasserted/pow-beyond-envelope/' + ('correctly-rounded' if got == want else 'not-correctly-rounded'))
        return
    rec.case((cell, X.rid(z[0]), X.rid(z[1]), n, p, via), not fits2(ex, p), cls='%s/n/%s' % (cell, via))
    rec.sample(case)
    if got != want:
        if n == 2 and not axis:
            key = 'C04/pow/square'
        elif axis:
            bc = max(z[0][3], z[1][3])
            key = 'C04/pow/axis-operand/' + ('real-power-exact-path' if bc * n < 10000 or n <= 2 else 'real-power-inexact-path')
            # the inexact real power is documented to stay within one ulp: anything worse (or in the wrong slot) is another mechanism
            for g, x in zip(got, ex):
                if x.n == 0:
                    near = (g == Q.fzero)
                else:
                    v = X.pq_from_ex(x)
                    near = bool(g[1]) and X.ulp_verdict(g, 1 if x.n < 0 else 0, v, v, p)[0] is True
                if not near:
                    key = 'C04/pow/axis-operand/off-by-more-than-1ulp'
        else:
            key = 'C04/pow/general'
        rec.violation(key, 'z**%d (exact size bound %d bits) not correctly rounded per component' % (n, size), case, got, want)


# ---------------------------------------------------------------------------------------
# quotients
# ---------------------------------------------------------------------------------------

def quot_err(got, Nr, Ni, Dn, eq, p):
    """exact test |got - q| <= DIV_TOL*2^-p*|q| for q = (Nr + i Ni)/Dn * 2^eq.  Returns (ok or None, err in units of 2^-p)"""
    gr, gi = got
    for t in (gr, gi):
        if not t[1] and t != Q.fzero:
            return False, float('inf')
    gR, gI, eg = X.common_grid(gr, gi)
    if Nr == 0 and Ni == 0:
        return (gR == 0 and gI == 0), 0.0
    if gR == 0 and gI == 0:
        return False, float(2 ** min(p, 1000))
    E = min(eg, eq)
    if max(eg, eq) - E > X.SPREAD_CAP:
        return None, None
    Xr = ((gR * Dn) << (eg - E)) - (Nr << (eq - E))
    Xi = ((gI * Dn) << (eg - E)) - (Ni << (eq - E))
    lhs = Xr * Xr + Xi * Xi                 # |got-q|^2 * Dn^2 * 2^(-2E)
    rhs = Nr * Nr + Ni * Ni                 # |q|^2 * Dn^2 * 2^(-2eq)
    sh = 2 * (E - eq) + 2 * p
    l2 = lhs << sh if sh >= 0 else lhs
    r1 = rhs << -sh if sh < 0 else rhs
    ok = l2 <= r1 * DIV_TOL * DIV_TOL
    # err = sqrt(l2 / r1) (reporting / severity only; int/int true division is correctly rounded for any size)
    try:
        err = math.sqrt(l2 / r1)
    except OverflowError:
        err = float('inf')
    quot_err.log2 = math.log2(err) if 0 < err < float('inf') else (l2.bit_length() - r1.bit_length()) / 2.0
    return ok, err


def check_quot(mp, rec, r, cell, kind, z, w, n, p, mode, via):
    """kind: div (z/w), rdiv (x/w), divr (z/x), recip (1/w), negpow (w**-n)"""
    ident = (cell, kind, X.rid(z[0]), X.rid(z[1]), X.rid(w[0]), X.rid(w[1]), n, p, mode, via)
    case = {'op': kind, 'z': z, 'w': w, 'n': n, 'prec': p, 'mode': mode, 'via': via}
    C, D, e2 = X.common_grid(w[0], w[1])
    if C == 0 and D == 0:
        return
    if kind == 'negpow' or (kind == 'recip' and via == 'pow'):
        wr, wi = X.gauss_pow(C, D, n)
        Nr, Ni, Dn, eq = wr, -wi, wr * wr + wi * wi, -e2 * n
    else:
        A, B, e1 = X.common_grid(z[0], z[1])
        Nr, Ni, Dn, eq = A * C + B * D, B * C - A * D, C * C + D * D, e1 - e2
    old = mp.prec
    try:
        if kind == 'negpow' or (kind == 'recip' and via == 'pow'):
            res = call_pow(mp, w, -n, p, r.choice(['op', 'power', 'mpfexp']) if kind == 'negpow' else 'op')
        elif kind == 'recip':
            one = r.choice([1, 1.0, mp.make_mpf(Q.canon(0, 1, 0))])
            res = run_op(mp, 'div', one, mp.make_mpc(w), p, mode, via)
        elif kind == 'rdiv':
            x, _ = x_obj(mp, r, z[0], allow_py=True)
            res = run_op(mp, 'div', x, mp.make_mpc(w), p, mode, via)
        elif kind == 'divr':
            x, _ = x_obj(mp, r, w[0], allow_py=True)
            res = run_op(mp, 'div', mp.make_mpc(z), x, p, mode, via)
        else:
            x, tx = z_obj(mp, r, z)
            y, ty = z_obj(mp, r, w)
            if tx == 'complex' and ty == 'complex' and via == 'op':
                y = mp.make_mpc(w)
            res = run_op(mp, 'div', x, y, p, mode, via)
    finally:
        mp.prec = old
    got = as_pair(res)
    ok, err = quot_err(got, Nr, Ni, Dn, eq, p)
    if mode != 'n':
        # directed rounding of quotients is outside the statement's quantifier: observed only
        rec.cls('unasserted/%s/%s' % (kind, mode))
        if err is not None:
            rec.maximum('observed (not asserted) directed-mode quotient error, units of 2^-p', err, case)
        return
    rec.case(ident, True, cls='%s/%s/%s' % (cell, mode, via))
    if ok is None:
        rec.undecided('quotient error not decidable (exponent spread)', case)
        return
    rec.maximum('largest modulus error of %s, units of 2^-p' % ('negative powers' if kind == 'negpow' else 'quotients/reciprocals'), err, case)
    if not ok:
        severity = min(err, 1e300)
        if kind == 'negpow':
            key = 'C04/negpow/' + negpow_path(w, n)
            severity = negpow_severity(got, Nr, Ni, Dn, eq, p, w, n, err)
            rec.maximum('negative powers on the log-exp path: log2 of [error of the exponent n*log(z) in units of 2^-p per unit of n*(|log2|z||+2)]',
                        severity, case)
        else:
            key = 'C04/' + kind
        rec.violation(key, '%s: modulus error %.3g * 2^-p exceeds %d * 2^-p' % (kind, err, DIV_TOL), case, got,
                      'within %d*2^-p of the exact quotient' % DIV_TOL, severity=severity)


def negpow_path(w, n):
    """which documented branch of the complex integer power handles w**n (switch: n*(|exponent difference| + longest mantissa) < 10000)"""
    (sa, ma, ea, abc), (sb, mb, eb, bbc) = w
    if not ma or not mb:
        return 'axis-operand'
    if n <= 2:
        return 'n<=2'
    return 'exact-power-path' if n * (abs(ea - eb) + max(abc, bbc)) < 10000 else 'log-exp-path'


def negpow_severity(got, Nr, Ni, Dn, eq, p, w, n, err):
    """log2 of [error of the computed exponent n*log(z) in units of 2^-p, divided by n*(|log2|z||+2)]: the a-priori
    model of the log-exp path is (a few)*|n log z|*2^-(p+14), i.e. a normalised value of about 2^-13"""
    l2rel = quot_err.log2 - p                    # log2 of the relative modulus error
    logerr = l2rel * math.log(2) if l2rel > 60 else math.log1p(2.0 ** l2rel)
    mag = max(t[2] + t[3] for t in w if t[1])
    norm = n * (abs(mag) + 2)
    return math.log2(logerr) + p - math.log2(norm)          # log2 of the normalised error (about -13 for the model)


# ---------------------------------------------------------------------------------------
# equality
# ---------------------------------------------------------------------------------------

def check_eq(mp, rec, r, cell, p):
    z = gen_z(r, p, r.choice(['generic', 'purere', 'short', 'long', 'pureim', 'wild']))
    how = r.choice(['same', 'same', 'lastbit', 'beyond', 'other', 'swap', 'negim'])
    w = z
    if how == 'lastbit':
        i = r.randint(0, 1)
        t = z[i]
        if t[1]:
            t2 = Q.canon(t[0], (int(t[1]) << 1) + r.choice([-1, 1]), t[2] - 1)
            w = (t2, z[1]) if i == 0 else (z[0], t2)
    elif how == 'beyond':
        i = r.randint(0, 1)
        t = z[i]
        if t[1]:
            k = p + r.choice([1, 2, 10, 100])
            t2 = Q.canon(t[0], (int(t[1]) << k) + r.choice([-1, 1]), t[2] - k)
            w = (t2, z[1]) if i == 0 else (z[0], t2)
    elif how == 'other':
        w = gen_z(r, p)
    elif how == 'swap':
        w = (z[1], z[0])
    elif how == 'negim':
        t = z[1]
        w = (z[0], (1 - t[0], t[1], t[2], t[3]) if t[1] else t)
    # right-hand object type
    cands = ['mpc']
    fa, fb = X.as_float(w[0]), X.as_float(w[1])
    if fa is not None and fb is not None:
        cands.append('complex')
    if w[1] == Q.fzero:
        cands.append('mpf')
        if fa is not None:
            cands.append('float')
        if X.as_int(w[0], 5000) is not None:
            cands.append('int')
    ty = r.choice(cands)
    if ty == 'mpc': y = mp.make_mpc(w)
    elif ty == 'complex': y = complex(fa, fb)
    elif ty == 'mpf': y = mp.make_mpf(w[0])
    elif ty == 'float': y = fa
    else: y = X.as_int(w[0], 5000)
    x = mp.make_mpc(z)
    want = (z == w)          # canonical raw tuples: equal values <=> equal tuples
    old = mp.prec
    mp.prec = p
    try:
        form = r.choice(['==', '!=', 'r==', 'r!='])
        if form == '==': got = (x == y)
        elif form == '!=': got = not (x != y)
        elif form == 'r==': got = (y == x)
        else: got = not (y != x)
    finally:
        mp.prec = old
    rec.case((cell, X.rid(z[0]), X.rid(z[1]), X.rid(w[0]), X.rid(w[1]), ty, form, p), how in ('same', 'lastbit', 'beyond', 'negim'),
             cls='%s/%s/%s' % (cell, ty, how))
    if got is not want:
        rec.violation('C04/eq/' + ty, 'mpc %s %s disagrees with exact componentwise equality' % (form, ty),
                      {'op': 'eq', 'z': z, 'w': w, 'type': ty, 'form': form, 'prec': p}, got, want)


# ---------------------------------------------------------------------------------------
def pick_via(r, mode, i):
    if mode != 'n':
        return 'f'
    return 'op' if r.random() < 0.5 else 'f'


def run_case(mp, rec, r, i):
    op = OPS[i % len(OPS)]
    mode = G.MODES[(i // len(OPS)) % 5]
    p = G.pick_prec(r, big=(_BIG > 0 and r.random() < _BIG))
    via = pick_via(r, mode, i)
    if op in ('add', 'sub', 'mul'):
        if op in ('add', 'sub') and r.random() < 0.6:
            a, c, g1 = G.pair_with_gap(r, p, None, long_big=r.choice([None, None, 2 * p, 305]))
            b, d, g2 = G.pair_with_gap(r, p, None, long_big=r.choice([None, None, 2 * p, 305]))
            z, w = (a, b), (c, d)
        else:
            z, w = gen_z(r, p), gen_z(r, p)
        check_cr(mp, rec, r, op, op, z, w, p, mode, via)
    elif op == 'mulcancel':
        z, w = cancel_pair(r, p)
        check_cr(mp, rec, r, op, 'mul', z, w, p, mode, via)
    elif op in ('addr', 'subr', 'rsubr', 'mulr'):
        z = gen_z(r, p, r.choice(['generic', 'long', 'long', 'gap', 'wild', 'short']))
        if r.random() < 0.6 and z[0][1]:
            a, xx, _ = G.pair_with_gap(r, p, None)
            z = (a, z[1])
        else:
            xx = G.raw_real(r, p, special=0, zero=0.05)
        xw = (xx, Q.fzero)
        if op == 'addr':
            if r.random() < 0.5:
                check_cr(mp, rec, r, op, 'add', z, xw, p, mode, via, 'right')
            else:
                check_cr(mp, rec, r, op, 'add', xw, z, p, mode, via, 'left', order='xz')
        elif op == 'subr':
            check_cr(mp, rec, r, op, 'sub', z, xw, p, mode, via, 'right')
        elif op == 'rsubr':
            check_cr(mp, rec, r, op, 'sub', xw, z, p, mode, via, 'left', order='xz')
        else:
            if r.random() < 0.5:
                check_cr(mp, rec, r, op, 'mul', z, xw, p, mode, via, 'right')
            else:
                check_cr(mp, rec, r, op, 'mul', xw, z, p, mode, via, 'left', order='xz')
    elif op in ('pow', 'powaxis', 'powedge', 'square'):
        pvia = r.choice(['op', 'op', 'power', 'mpfexp'])
        if op == 'square':
            z = gen_z(r, p, r.choice(['generic', 'long', 'gap', 'short']), grid=True)
            n = 2
        elif op == 'powaxis':
            z = gen_z(r, p, r.choice(['purere', 'pureim']), grid=True)
            bc = max(z[0][3], z[1][3], 1)
            n = r.choice([0, 1, 2, 3, 4, 5, 6, 7, r.randint(0, 60), max(3, 1000 // bc + r.randint(-1, 1)), max(3, 8000 // (bc + 1)),
                          max(3, 10000 // bc + r.randint(-1, 1))])
        elif op == 'powedge':
            # around the size where the exact algorithm is given up
            z = gen_z(r, p, r.choice(['generic', 'gap', 'short', 'long']), grid=True)
            per = pow_size(z, 1)
            n = max(3, r.choice([8000, 9000, 9900, 10100, 11000]) // per + r.choice([0, 0, 1]))
        else:
            z = gen_z(r, p, r.choice(['generic', 'short', 'short', 'gap', 'long']), grid=True)
            n = r.choice([0, 1, 2, 3, 4, 5, 6, 7, 8, r.randint(9, 40), r.randint(3, 300)])
        if pow_size(z, n) > 14000:
            n = max(3, 14000 // pow_size(z, 1))
            if pow_size(z, n) > 20000:
                return
        check_pow(mp, rec, r, op, z, n, p, pvia)
    elif op in ('div', 'rdiv', 'divr', 'recip', 'negpow'):
        w = gen_z(r, p, r.choice(['generic', 'generic', 'gap', 'long', 'short', 'purere', 'pureim']), grid=True)
        z = gen_z(r, p, None, grid=True)
        n = 1
        qvia = via
        if op == 'rdiv':
            z = (G.raw_real(r, p, wild=False, special=0, zero=0.03), Q.fzero)
        elif op == 'divr':
            xx = G.raw_real(r, p, wild=False, special=0, zero=0)
            z, w = gen_z(r, p, None, grid=True), (xx, Q.fzero)
        elif op == 'recip':
            z = (Q.canon(0, 1, 0), Q.fzero)
            if r.random() < 0.4 and mode == 'n':
                qvia = 'pow'
        elif op == 'negpow':
            per = pow_size(w, 1)
            n = r.choice([1, 2, 3, 4, 5, r.randint(2, 50), r.randint(2, 400), max(2, 9000 // per), max(2, 12000 // per),
                          max(2, r.choice([30000, 100000]) // per)])
            if pow_size(w, n) > 120000:
                n = max(2, 120000 // per)
            if mode != 'n':
                mode = 'n'
        check_quot(mp, rec, r, op, op, z, w, n, p, mode, qvia)
    elif op == 'eq':
        check_eq(mp, rec, r, op, p)
    elif op == 'exactkw':
        bop = r.choice(['add', 'sub', 'mul'])
        z, w = gen_z(r, p, grid=True), gen_z(r, p, grid=True)
        kw = r.choice([{'exact': True}, {'prec': mp.inf}, {'dps': mp.inf}])
        e = exact_binary(bop, z, w)
        res = run_op(mp, bop, mp.make_mpc(z), mp.make_mpc(w), p, 'n', 'f', kw=kw)
        want = (Q.exact_raw(e[0]), Q.exact_raw(e[1]))
        rec.case((op, bop, X.rid(z[0]), X.rid(z[1]), X.rid(w[0]), X.rid(w[1])), True, cls='exactkw/' + bop)
        if as_pair(res) != want:
            rec.violation('C04/exact-keyword/' + bop, 'f%s(complex, complex, exact) not exact' % bop,
                          {'op': 'exactkw', 'bop': bop, 'z': z, 'w': w, 'kw': repr(kw)}, as_pair(res), want)


def run_shard(shard, rec):
    global _BIG
    if shard.get('tier') == 'thorough':
        _BIG = 0.12
    mp = _mp()
    r = G.rng(PROP, shard['seed'], shard['shard'])
    from vf.instrument import AnchorCount
    with AnchorCount(rec, ['mpmath.libmp.libmpc:mpc_add', 'mpmath.libmp.libmpc:mpc_sub', 'mpmath.libmp.libmpc:mpc_mul',
                           'mpmath.libmp.libmpc:mpc_add_mpf', 'mpmath.libmp.libmpc:mpc_sub_mpf', 'mpmath.libmp.libmpc:mpc_mul_mpf',
                           'mpmath.libmp.libmpc:mpc_mul_int', 'mpmath.libmp.libmpc:mpc_square', 'mpmath.libmp.libmpc:complex_int_pow',
                           'mpmath.libmp.libmpc:mpc_pow_int', 'mpmath.libmp.libmpc:mpc_div', 'mpmath.libmp.libmpc:mpc_reciprocal',
                           'mpmath.libmp.libmpc:mpc_mpf_div', 'mpmath.libmp.libmpc:mpc_div_mpf',
                           'mpmath.libmp.libmpc:mpc_pow_int@return mpc_exp']):
        base = shard['shard'] * 7919
        for k in range(shard['n']):
            run_case(mp, rec, r, base + k * 7)
    rec.event('complex results compared with the exact components', rec.evals)


def required(agg, tier):
    miss = []
    cl = agg['classes']
    for op in OPS:
        if not any(k.startswith(op + '/') for k in cl):
            miss.append('no %s case observed' % op)
    for mode in G.MODES:
        for op in ('add', 'sub', 'mul', 'addr', 'mulr'):
            if not any(k.startswith('%s/%s/' % (op, mode)) for k in cl):
                miss.append('%s never observed in rounding mode %s' % (op, mode))
    for a in ('mpmath.libmp.libmpc:mpc_mul', 'mpmath.libmp.libmpc:complex_int_pow', 'mpmath.libmp.libmpc:mpc_div',
              'mpmath.libmp.libmpc:mpc_square'):
        if a in agg['anchors'] and not agg['anchors'][a]:
            miss.append('anchor %s never reached' % a)
    return miss


def replay(case, rec):
    mp = _mp()
    from vf.core import unjson_int
    import random
    c = case['case']

    def raw(t):
        return (int(t[0]), unjson_int(t[1]), unjson_int(t[2]), int(t[3]))

    def zz(t):
        return (raw(t[0]), raw(t[1]))

    class R0(random.Random):
        def random(self): return 1.0          # never substitute Python numbers: replay uses mp objects
    r = R0(0)
    op = c['op']
    if op in ('add', 'sub', 'mul'):
        check_cr(mp, rec, r, 'replay', op, zz(c['z']), zz(c['w']), int(c['prec']), c['mode'], c['via'], c.get('real_operand'))
    elif op == 'pow':
        check_pow(mp, rec, r, 'replay', zz(c['z']), unjson_int(c['n']), int(c['prec']), c['via'])
    elif op in ('div', 'rdiv', 'divr', 'recip', 'negpow'):
        check_quot(mp, rec, random.Random(0), 'replay', op, zz(c['z']), zz(c['w']), unjson_int(c['n']), int(c['prec']), c['mode'], c['via'])
    else:
        rec.undecided('replay of %s cases re-runs the seeded shard instead' % op)
