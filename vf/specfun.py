"""Shared engine for the special-function accuracy properties C18..C23 (and reusable elsewhere).

A property module supplies TABLE = {function_name: [Regime, ...]} and calls ``run(PROP, TABLE, shard, rec, ...)``.
A Regime is a *cell of the argument space fixed a priori* (label + generator); violations are keyed
``<PROP>/<function>/<regime label>`` with severity = bits lost beyond the tolerance, so a known finding is
attached to a cell, never to an input.

Oracle: vf.refmodel.consensus (released 1.3.0 at two precisions + tree at 3p+300 must agree to 2^-(p+32));
decision with guard band; everything else is `undecided`.  Each evaluation runs under a wall-clock alarm
(-> undecided 'timeout', never a violation).
"""
import math, signal, collections
from . import refmodel, gens as G
from .catalog import R, C, I, raw_rand, build, canon

PRECS_LIGHT = [10, 11, 15, 24, 30, 53, 64, 100, 113, 200, 333, 399, 400, 401, 600, 1000]
PRECS_HEAVY = [10, 15, 30, 53, 64, 100, 200, 333]


class Regime(object):
    def __init__(self, label, gen, fn=None, kwargs=None, precs=None, weight=1, heavy=False, tol_exp=None,
                 real_result=None):
        """gen(r, bits) -> list of specs;  fn: optional callable f(lib_mp, *args) used for tree AND reference
        (default: getattr(lib_mp, function_name)); precs: allowed precisions; heavy: use the shorter precision list"""
        self.label, self.gen, self.fn, self.kwargs = label, gen, fn, kwargs
        self.precs, self.weight, self.heavy, self.tol_exp = precs, weight, heavy, tol_exp


class Timeout(BaseException):
    pass


def _alarm(signum, frame):
    raise Timeout()


class time_limit(object):
    """CPU-time limit (user time of this process, ITIMER_VIRTUAL): independent of machine load.
    Expiry raises Timeout inside the running code -> the case is `undecided`, never a violation."""

    def __init__(self, seconds):
        self.s = seconds

    def __enter__(self):
        self.old = signal.signal(signal.SIGVTALRM, _alarm)
        signal.setitimer(signal.ITIMER_VIRTUAL, self.s)

    def __exit__(self, *a):
        signal.setitimer(signal.ITIMER_VIRTUAL, 0)
        signal.signal(signal.SIGVTALRM, self.old)
        return False


# ---- generator helpers ---------------------------------------------------------------------

def real_in(lo_exp, hi_exp, sign=None):
    """real with magnitude 2^[lo,hi]"""
    return lambda r, b: R(raw_rand(r, b, lo_exp, hi_exp, sign))


def complex_in(lo_exp, hi_exp, im_lo=None, im_hi=None):
    def g(r, b):
        return C(raw_rand(r, b, lo_exp, hi_exp), raw_rand(r, b, lo_exp if im_lo is None else im_lo,
                                                             hi_exp if im_hi is None else im_hi))
    return g


def near(center_num, center_den=1, kmin=4, kmax=40, complex_offset=False):
    """center +- 2^-k  (center = exact rational with power-of-two denominator), optionally with a tiny imaginary part"""
    def g(r, b):
        k = r.randint(kmin, kmax)
        d = center_den
        assert d & (d - 1) == 0
        sh = d.bit_length() - 1
        kk = max(k, sh)
        num = (center_num << (kk - sh)) + r.choice([-1, 1])
        if num == 0:
            num = 1
        re = canon(1 if num < 0 else 0, abs(num), -kk)
        if complex_offset:
            return C(re, raw_rand(r, min(b, 20), -kmax, -kmin))
        return R(re)
    return g


def integer(lo, hi):
    return lambda r, b: I(r.randint(lo, hi))


def choice(*vals):
    def g(r, b):
        v = r.choice(vals)
        if isinstance(v, int):
            return I(v)
        if isinstance(v, float):
            from .catalog import raw_from_float
            return R(raw_from_float(v))
        if isinstance(v, complex):
            from .catalog import raw_from_float
            return C(raw_from_float(v.real), raw_from_float(v.imag))
        return v
    return g


def half_integer(lo, hi):
    return lambda r, b: R(canon(*(lambda n: (1 if n < 0 else 0, abs(n), -1))(2 * r.randint(lo, hi) + 1)))


def args(*gens):
    """combine per-argument generators into a Regime.gen"""
    return lambda r, b: [g(r, b) for g in gens]


# ---- the engine -----------------------------------------------------------------------------

def _fmt(specs):
    out = []
    for s in specs:
        if s[0] == 'I':
            out.append(s[1])
        elif s[0] == 'R':
            out.append(['R', s[1][0], hex(s[1][1]), s[1][2]])
        else:
            out.append(['C', [s[1][0], hex(s[1][1]), s[1][2]], [s[2][0], hex(s[2][1]), s[2][2]]])
    return out


def evaluate_case(tree_mp, prop, fname, reg, specs, p, rec, tol_exp=8, tmax=20.0, cls_extra=''):
    """one evaluation: tree at p vs consensus reference.  Returns verdict string."""
    R1 = refmodel.ref()
    rmp = R1.mp
    fn = reg.fn or fname
    tol_exp = reg.tol_exp if reg.tol_exp is not None else tol_exp
    ident = (fname, reg.label, _fmt(specs), p)
    case = {'function': fname, 'regime': reg.label, 'args': _fmt(specs), 'prec': p, 'kwargs': repr(reg.kwargs)}
    cls = '%s/%s' % (fname, reg.label)
    key = '%s/%s/%s' % (prop, fname, reg.label)
    exc = None
    val = None
    try:
        with time_limit(tmax):
            try:
                val = refmodel.call(tree_mp, fn, specs, p, reg.kwargs)
            except Timeout:
                raise
            except Exception as e:
                exc = e
    except Timeout:
        tree_mp.prec = 53
        rec.case(ident, False, cls)
        rec.undecided('timeout-tree', case)
        return 'undecided'
    try:
        with time_limit(tmax * 6):
            refv, info = refmodel.consensus(tree_mp, fn, specs, p, reg.kwargs)
    except Timeout:
        tree_mp.prec = 53
        rmp.prec = 53
        rec.case(ident, False, cls)
        rec.undecided('timeout-reference', case)
        return 'undecided'
    except Exception as e:
        rec.case(ident, False, cls)
        rec.undecided('reference-error:' + type(e).__name__, case)
        return 'undecided'
    if exc is not None:
        rec.case(ident, True, cls)
        if refv is not None:
            # the function is defined and computable here (two sources agree incl. the tree itself at high precision)
            rec.violation(key + '/raises-' + type(exc).__name__,
                          '%s raises %s at prec %d where the function is defined (reference and tree@3p+300 agree on a value)'
                          % (fname, type(exc).__name__, p), case, observed=repr(exc)[:200], expected=str(refv)[:60], severity=None)
            return 'violated'
        rec.cls('raised/' + type(exc).__name__)
        rec.note('raised', {'case': case, 'exc': repr(exc)[:120], 'reference': info}, cap=30)
        return 'raised'
    if refv is None:
        rec.case(ident, False, cls)
        rec.undecided(info, case)
        return 'undecided'
    if not refmodel._numeric(val):
        rec.case(ident, False, cls)
        rec.undecided('non-numeric result', case)
        return 'undecided'
    comp = refmodel.to_ref(rmp, val)
    old = rmp.prec
    rmp.prec = 2 * p + 300
    try:
        if rmp.isnan(comp) or rmp.isinf(comp) or rmp.isinf(refv) or rmp.isnan(refv):
            if (rmp.isinf(comp) and rmp.isinf(refv) and comp == refv):
                rec.case(ident, False, cls)
                return 'held'
            rec.case(ident, False, cls)
            rec.undecided('non-finite', case)
            return 'undecided'
        if refv == 0:
            rec.case(ident, True, cls)
            if comp == 0:
                return 'held'
            rec.undecided('exact-zero-reference', case)
            return 'undecided'
        err = float(rmp.ldexp(abs(comp - refv) / abs(refv), p))
    finally:
        rmp.prec = old
    verdict = refmodel.decide_error(err, 2.0 ** tol_exp)
    rec.case(ident, True, cls)
    rec.sample(case)
    rec.maximum('err_units/' + fname, err, case)
    if verdict == 'violated':
        sev = math.log2(err) - tol_exp if err < float('inf') else 1e9
        rec.violation(key, '%s relative error %.3g * 2^-p exceeds 2^(%d-p) at prec %d' % (fname, err, tol_exp, p),
                      case, observed=str(val)[:80], expected=str(refv)[:80], severity=round(sev, 2))
    elif verdict == 'undecided':
        rec.undecided('guard-band', case)
    return verdict


def run(prop, table, shard, rec, n_cases, tol_exp=8, tmax=20.0, bits_choices=(53, 53, 20, 100)):
    """stratified loop: (function, regime) cells in a fixed seed-independent order, concrete values from the seeded rng"""
    import mpmath
    tree_mp = mpmath.mp
    r = G.rng(prop, shard['seed'], shard['shard'])
    cells = []
    for fname in sorted(table):
        if not hasattr(tree_mp, fname) and not any(rg.fn for rg in table[fname]):
            rec.note('absent', fname)
            continue
        for rg in table[fname]:
            cells.extend([(fname, rg)] * rg.weight)
    nsh = shard.get('nshards', 16)
    mine = [c for i, c in enumerate(cells) if i % nsh == shard['shard'] % nsh]
    if not mine:
        mine = cells
    counts = collections.Counter()
    i = 0
    import time
    t_end = time.time() + shard.get('budget_s', 1e9)
    while i < n_cases and time.time() < t_end:
        fname, rg = mine[i % len(mine)]
        precs = rg.precs or (PRECS_HEAVY if rg.heavy else PRECS_LIGHT)
        if shard.get('tier') == 'quick':
            precs = [q for q in precs if q <= 400] or precs[:1]
        p = precs[(i // len(mine) + r.randrange(len(precs))) % len(precs)]
        bits = min(r.choice(bits_choices), max(p, 4)) if r.random() < 0.8 else r.choice([2 * p, p + 7])
        try:
            specs = rg.gen(r, max(2, bits))
        except Exception as e:
            rec.note('generator-error', '%s/%s: %r' % (fname, rg.label, e))
            i += 1
            continue
        v = evaluate_case(tree_mp, prop, fname, rg, specs, p, rec, tol_exp, tmax)
        counts[v] += 1
        i += 1
    for k, v in counts.items():
        rec.event('verdict:' + k, v)
    rec.event('reference consensus evaluations', sum(counts.values()))


def required_functions(table):
    def req(agg, tier):
        miss = []
        seen = set(k.split('/')[0] for k in agg['classes'])
        for f in table:
            if f not in seen:
                miss.append('function %s never observed' % f)
        return miss[:10]
    return req


def _unfmt(a):
    from .catalog import canon as _c
    out = []
    for s in a:
        if isinstance(s, int):
            out.append(I(s))
        elif s[0] == 'R':
            m = int(s[2], 16) if isinstance(s[2], str) else s[2]
            out.append(R((s[1], m, s[3], m.bit_length()) if m else (0, 0, 0, 0)))
        else:
            def raw(t):
                m = int(t[1], 16) if isinstance(t[1], str) else t[1]
                return (t[0], m, t[2], m.bit_length()) if m else (0, 0, 0, 0)
            out.append(C(raw(s[1]), raw(s[2])))
    return out


def replay(prop, table, case, rec, tol_exp=8):
    """re-execute one recorded case (from a replay file) against the current tree"""
    import mpmath
    c = case['case']
    fname = c['function']
    regs = [rg for rg in table.get(fname, []) if rg.label == c['regime']]
    if not regs:
        rec.undecided('replay: regime not found')
        return
    evaluate_case(mpmath.mp, prop, fname, regs[0], _unfmt(c['args']), c['prec'], rec, tol_exp, tmax=120.0)
