"""ball -- small, self-contained, rigorous interval ("ball") arithmetic.  Does NOT import mpmath.

Representation
--------------
Exact dyadic numbers are pairs (m, e) of Python ints meaning m * 2**e (m signed, not normalised).
``RB``  real interval  [lo, hi]  with dyadic endpoints, every operation rounds the lower endpoint down and the
        upper endpoint up to ``wp`` significant bits (floating endpoints: tiny and huge values keep full
        *relative* accuracy).  ``CB`` complex rectangle (re: RB, im: RB).
Working precision is the module global set by ``setprec(wp)`` / ``with prec(wp):`` (``getprec()``).
Anything that cannot be enclosed in a finite interval (division by an interval containing 0, pole inside the
argument, overflow guard, ...) raises ``Indeterminate`` -- never a wrong answer.  A rectangle that straddles a
branch cut gives the hull of both sides (valid for the principal value at every point of the rectangle, wide).
Exact zeros stay exact ([0,0] * anything = [0,0]), so a point argument exactly ON a cut stays on it; the value
there follows mpmath's documented conventions: formulas of function_docs.py with log/sqrt/arg continuous from
above on the negative real axis (arg(-x) = +pi, sqrt(-x) = +i sqrt(x); there are no signed zeros).

API
---
construction   RB.from_raw((sign,man,exp,bc)) | RB.from_int(n) | RB.from_fraction(q) | RB.point(m,e) | RB(lo,hi)
               CB(re, im) | CB.from_raw(re_raw, im_raw) ;  from_spec(('R',raw)|('C',raw,raw)|('I',n))
RB methods     + - * / (also with int/Fraction), -x, abs(x), x.sqr(), x.lo/x.hi (dyadic pairs), lo_fraction(),
               hi_fraction(), is_point(), is_zero(), sign() (1,-1,0=contains 0), contains(v), overlaps(o),
               certainly_lt(o), certainly_gt(o), rel_width_bits(), hull(o)
real functions sqrt, rpow_int(x,n), root(x,n), hypot, exp, expm1, log, log1p, sin, cos, cos_sin, tan, cot, sec, csc,
               sinh, cosh, tanh, coth, sech, csch, asin, acos, atan, atan2(y,x), asinh, acosh, atanh, asec, acsc, acot,
               asech, acsch, acoth, power(x,y), powm1(x,y), sinpi, cospi, cospi_sinpi, sinc, sincpi,
               pi(), const_e(), ln2(), ln10()        (all take/return RB at the current precision)
complex        c_exp c_log c_sqrt c_root c_power c_sin c_cos c_tan c_cot c_sec c_csc c_sinh c_cosh c_tanh c_coth
               c_sech c_csch c_asin c_acos c_atan c_asinh c_acosh c_atanh c_asec c_acsc c_acot c_asech c_acsch
               c_acoth c_expj c_expjpi c_sinpi c_cospi c_arg c_abs c_log1p c_expm1 c_powm1 c_sinc c_sincpi
by name        evaluate(fname, args)   args = RB / CB / int ; real argument outside the real domain gives the
               principal complex value (CB); names are those of the mpmath context (exp, ln, log, log10, sqrt, cbrt,
               root, nthroot, power, powm1, sin, ..., atan2, hypot, arg, expj, expjpi, sinpi, cospi, sinc, sincpi,
               log1p, expm1)
driver         enclose(fname, specs, p, decide=None, good_bits=None, cap=None) -> Enclosure(value, wp, status)
               raises the precision p+32 -> 2p+64 -> 4p+128 -> cap until ``decide(value)`` returns something else
               than 'undecided' (or until every part has good_bits relative bits, default p+10); returns the
               last (tightest) enclosure otherwise; value None when no finite enclosure was obtained.
decisions      decide_rel_error(computed_raw, RB, tol_exp)          'held'/'violated'/'undecided', tol = 2**tol_exp
               decide_rel_error_complex(re_raw, im_raw, CB, tol_exp, rule='part'|'larger')
               decide_directed(computed_raw, RB, mode)   mode in f,c,d,u
               contains_check(lo_raw, hi_raw, RB)         violated iff enclosure entirely outside [lo,hi]
               err_bits(computed_raw, RB) -> (min_err_log2, max_err_log2) floats for reporting
self-test      python -m vf.ball     (exit 0)
"""
import math
from fractions import Fraction

__all__ = ['RB', 'CB', 'Indeterminate', 'setprec', 'getprec', 'prec', 'enclose', 'evaluate']


class Indeterminate(Exception):
    """no finite enclosure could be produced (pole / division by zero-containing interval / guard exceeded)"""


_WP = 64
EXP_MAG_CAP = 4200        # exp(x) refused for |x| >= 2**EXP_MAG_CAP
TRIG_MAG_CAP = 140000     # sin/cos refused for |x| >= 2**TRIG_MAG_CAP
REDUCE_CAP = 700000       # never compute pi beyond this many bits


def setprec(wp):
    global _WP
    _WP = int(wp)


def getprec():
    return _WP


class prec(object):
    def __init__(self, wp):
        self.wp = wp

    def __enter__(self):
        global _WP
        self.old = _WP
        _WP = int(self.wp)

    def __exit__(self, *a):
        global _WP
        _WP = self.old


# ---------------------------------------------------------------------------------------
# exact dyadic helpers: value = m * 2**e
# ---------------------------------------------------------------------------------------

def _rnd(m, e, wp, up):
    """round m*2^e to at most wp significant bits, toward +inf if up else toward -inf"""
    bl = m.bit_length()
    if bl > wp:
        s = bl - wp
        if up:
            return -((-m) >> s), e + s
        return m >> s, e + s
    return m, e


def _dcmp(m1, e1, m2, e2):
    """three-way comparison of exact dyadics"""
    if m1 == 0 or m2 == 0 or (m1 > 0) != (m2 > 0):
        return (m1 > m2) - (m1 < m2)
    s = 1 if m1 > 0 else -1
    t1 = m1.bit_length() + e1
    t2 = m2.bit_length() + e2
    if t1 != t2:
        return s if t1 > t2 else -s
    if e1 >= e2:
        a, b = m1 << (e1 - e2), m2
    else:
        a, b = m1, m2 << (e2 - e1)
    return (a > b) - (a < b)


def _dadd(m1, e1, m2, e2, wp, up):
    """directed rounding of the exact sum; operands astronomically far apart are handled by a one-unit
    perturbation instead of an astronomically long shift"""
    if not m1:
        return _rnd(m2, e2, wp, up)
    if not m2:
        return _rnd(m1, e1, wp, up)
    t1 = m1.bit_length() + e1
    t2 = m2.bit_length() + e2
    if t1 < t2:
        m1, e1, t1, m2, e2, t2 = m2, e2, t2, m1, e1, t1
    if t1 - t2 > wp + 6:
        # |x2| < 2^t2 <= 2^(t1-wp-7): express x1 on the grid 2^E, E = t1-wp-6 (directed), then move one grid unit
        E = t1 - wp - 6
        if e1 >= E:
            M = m1 << (e1 - E)
        elif up:
            M = -((-m1) >> (E - e1))
        else:
            M = m1 >> (E - e1)
        if up:
            if m2 > 0:
                M += 1
        elif m2 < 0:
            M -= 1
        return _rnd(M, E, wp, up)
    if e1 >= e2:
        return _rnd((m1 << (e1 - e2)) + m2, e2, wp, up)
    return _rnd(m1 + (m2 << (e2 - e1)), e1, wp, up)


def _dadd_exact(m1, e1, m2, e2):
    if not m1:
        return m2, e2
    if not m2:
        return m1, e1
    if e1 >= e2:
        return (m1 << (e1 - e2)) + m2, e2
    return m1 + (m2 << (e2 - e1)), e1


def _ddiv(m1, e1, m2, e2, wp, up):
    """directed rounding of (m1 2^e1)/(m2 2^e2), m2 != 0"""
    if not m1:
        return 0, 0
    k = wp + 3 + m2.bit_length() - m1.bit_length()
    if k < 0:
        k = 0
    if up:
        q = -((-m1 << k) // m2)
    else:
        q = (m1 << k) // m2
    return _rnd(q, e1 - e2 - k, wp, up)


def _dsqrt(m, e, wp, up):
    """directed sqrt of m*2^e, m >= 0"""
    if not m:
        return 0, 0
    k = 2 * (wp + 2) - m.bit_length()
    if k < 0:
        k = 0
    if (e - k) & 1:
        k += 1
    M = m << k
    r = math.isqrt(M)
    if up and r * r != M:
        r += 1
    return _rnd(r, (e - k) >> 1, wp, up)


def _iroot(M, n):
    """floor(M ** (1/n)) for ints M >= 0, n >= 1 (Newton from above; classical termination)"""
    if M < 2 or n == 1:
        return M
    r = 1 << -(-M.bit_length() // n)
    while True:
        t = ((n - 1) * r + M // r ** (n - 1)) // n
        if t >= r:
            return r
        r = t


def _droot(m, e, n, wp, up):
    """directed n-th root of m*2^e (m >= 0) by integer bracketing r**n <= M < (r+1)**n"""
    if not m:
        return 0, 0
    k = n * (wp + 2) - m.bit_length()
    if k < 0:
        k = 0
    k += (e - k) % n
    M = m << k
    r = _iroot(M, n)
    if up and r ** n != M:
        r += 1
    return _rnd(r, (e - k) // n, wp, up)


def _frac_of(m, e):
    return Fraction(m << e) if e >= 0 else Fraction(m, 1 << -e)


def _dy_of(v):
    """exact dyadic (m,e) of an int / raw tuple / dyadic pair; None if v is not exactly dyadic"""
    if isinstance(v, int):
        return v, 0
    if isinstance(v, tuple):
        if len(v) == 4:
            s, m, e, bc = v
            if not m and e:
                raise ValueError('special value %r has no dyadic form' % (v,))
            return (-int(m) if s else int(m)), e
        return v
    if isinstance(v, Fraction):
        d = v.denominator
        if d & (d - 1) == 0:
            return v.numerator, -(d.bit_length() - 1)
        return None
    raise TypeError(type(v))


# ---------------------------------------------------------------------------------------
# real intervals
# ---------------------------------------------------------------------------------------

class RB(object):
    __slots__ = ('am', 'ae', 'bm', 'be')

    def __init__(self, lo, hi=None):
        if hi is None:
            hi = lo
        self.am, self.ae = lo
        self.bm, self.be = hi

    # -- construction ---------------------------------------------------------------
    @staticmethod
    def point(m, e=0):
        r = RB.__new__(RB)
        r.am = r.bm = m
        r.ae = r.be = e
        return r

    @staticmethod
    def from_int(n):
        return RB.point(int(n), 0)

    @staticmethod
    def from_raw(raw):
        m, e = _dy_of(tuple(raw))
        return RB.point(m, e)

    @staticmethod
    def from_fraction(q, wp=None):
        wp = wp or _WP
        q = Fraction(q)
        d = _dy_of(q)
        if d is not None:
            return RB.point(*d)
        lo = _ddiv(q.numerator, 0, q.denominator, 0, wp, False)
        hi = _ddiv(q.numerator, 0, q.denominator, 0, wp, True)
        return RB(lo, hi)

    @staticmethod
    def make(am, ae, bm, be):
        r = RB.__new__(RB)
        r.am, r.ae, r.bm, r.be = am, ae, bm, be
        return r

    # -- inspection -------------------------------------------------------------------
    @property
    def lo(self):
        return self.am, self.ae

    @property
    def hi(self):
        return self.bm, self.be

    def lo_fraction(self):
        return _frac_of(self.am, self.ae)

    def hi_fraction(self):
        return _frac_of(self.bm, self.be)

    def is_point(self):
        return (self.am == self.bm and self.ae == self.be) or _dcmp(self.am, self.ae, self.bm, self.be) == 0

    def is_zero(self):
        return self.am == 0 and self.bm == 0

    def sign(self):
        """1 if certainly > 0, -1 if certainly < 0, 0 otherwise (contains 0)"""
        if self.am > 0:
            return 1
        if self.bm < 0:
            return -1
        return 0

    def contains_zero(self):
        return self.am <= 0 <= self.bm

    def contains(self, v):
        """v: int / raw tuple / dyadic pair / Fraction / RB (subset test)"""
        if isinstance(v, RB):
            return _dcmp(self.am, self.ae, v.am, v.ae) <= 0 and _dcmp(v.bm, v.be, self.bm, self.be) <= 0
        d = _dy_of(v)
        if d is None:
            return self.lo_fraction() <= v <= self.hi_fraction()
        return _dcmp(self.am, self.ae, d[0], d[1]) <= 0 and _dcmp(d[0], d[1], self.bm, self.be) <= 0

    def overlaps(self, o):
        return _dcmp(self.am, self.ae, o.bm, o.be) <= 0 and _dcmp(o.am, o.ae, self.bm, self.be) <= 0

    def certainly_lt(self, o):
        o = _coerce(o)
        return _dcmp(self.bm, self.be, o.am, o.ae) < 0

    def certainly_gt(self, o):
        o = _coerce(o)
        return _dcmp(self.am, self.ae, o.bm, o.be) > 0

    def certainly_le(self, o):
        o = _coerce(o)
        return _dcmp(self.bm, self.be, o.am, o.ae) <= 0

    def certainly_ge(self, o):
        o = _coerce(o)
        return _dcmp(self.am, self.ae, o.bm, o.be) >= 0

    def hull(self, o):
        lo = self.lo if _dcmp(self.am, self.ae, o.am, o.ae) <= 0 else o.lo
        hi = self.hi if _dcmp(self.bm, self.be, o.bm, o.be) >= 0 else o.hi
        return RB(lo, hi)

    def mag(self):
        """an integer k with |x| < 2**k for every x in the interval (None for the exact zero)"""
        ks = [m.bit_length() + e for m, e in (self.lo, self.hi) if m]
        return max(ks) if ks else None

    def width(self):
        """an upper bound (64 significant bits, rounded up) of hi - lo"""
        return _dadd(self.bm, self.be, -self.am, self.ae, 64, True)

    def rel_width_bits(self):
        """floor-ish number of correct leading bits: log2(min|x| / width); inf for a point, -1 if it contains 0
        (and is not the exact zero)"""
        if self.is_point():
            return float('inf')
        if self.am <= 0 <= self.bm:
            return -1
        wm, we = self.width()
        mn = (self.am, self.ae) if self.am > 0 else (-self.bm, self.be)
        return (mn[0].bit_length() + mn[1]) - (wm.bit_length() + we)

    def __repr__(self):
        def f(m, e):
            if not m:
                return '0'
            try:
                mm = m >> max(0, m.bit_length() - 70)
                ee = e + max(0, m.bit_length() - 70)
                return '%.17g*2^%d' % (math.ldexp(mm, 0) / 2.0 ** (mm.bit_length()), ee + mm.bit_length())
            except OverflowError:
                return '(%d bits)*2^%d' % (m.bit_length(), e)
        return 'RB[%s, %s]' % (f(self.am, self.ae), f(self.bm, self.be))

    def to_floats(self):
        def f(m, e):
            try:
                return math.ldexp(m >> max(0, m.bit_length() - 64), e + max(0, m.bit_length() - 64))
            except OverflowError:
                return math.copysign(math.inf, m)
        return f(self.am, self.ae), f(self.bm, self.be)

    # -- arithmetic -------------------------------------------------------------------
    def __neg__(self):
        return RB.make(-self.bm, self.be, -self.am, self.ae)

    def __pos__(self):
        wp = _WP
        a = _rnd(self.am, self.ae, wp, False)
        b = _rnd(self.bm, self.be, wp, True)
        return RB(a, b)

    def __abs__(self):
        if self.am >= 0:
            return self
        if self.bm <= 0:
            return -self
        n = -self
        hi = self.hi if _dcmp(self.bm, self.be, n.bm, n.be) >= 0 else n.hi
        return RB((0, 0), hi)

    def __add__(self, o):
        o = _coerce(o)
        wp = _WP
        a = _dadd(self.am, self.ae, o.am, o.ae, wp, False)
        b = _dadd(self.bm, self.be, o.bm, o.be, wp, True)
        return RB(a, b)

    __radd__ = __add__

    def __sub__(self, o):
        o = _coerce(o)
        wp = _WP
        a = _dadd(self.am, self.ae, -o.bm, o.be, wp, False)
        b = _dadd(self.bm, self.be, -o.am, o.ae, wp, True)
        return RB(a, b)

    def __rsub__(self, o):
        return _coerce(o) - self

    def __mul__(self, o):
        o = _coerce(o)
        wp = _WP
        a, ae, b, be = self.am, self.ae, self.bm, self.be
        c, ce, d, de = o.am, o.ae, o.bm, o.be
        if a >= 0:
            if c >= 0:
                lo, hi = (a * c, ae + ce), (b * d, be + de)
            elif d <= 0:
                lo, hi = (b * c, be + ce), (a * d, ae + de)
            else:
                lo, hi = (b * c, be + ce), (b * d, be + de)
        elif b <= 0:
            if c >= 0:
                lo, hi = (a * d, ae + de), (b * c, be + ce)
            elif d <= 0:
                lo, hi = (b * d, be + de), (a * c, ae + ce)
            else:
                lo, hi = (a * d, ae + de), (a * c, ae + ce)
        else:
            if c >= 0:
                lo, hi = (a * d, ae + de), (b * d, be + de)
            elif d <= 0:
                lo, hi = (b * c, be + ce), (a * c, ae + ce)
            else:
                l1, l2 = (a * d, ae + de), (b * c, be + ce)
                h1, h2 = (a * c, ae + ce), (b * d, be + de)
                lo = l1 if _dcmp(l1[0], l1[1], l2[0], l2[1]) <= 0 else l2
                hi = h1 if _dcmp(h1[0], h1[1], h2[0], h2[1]) >= 0 else h2
        return RB(_rnd(lo[0], lo[1], wp, False), _rnd(hi[0], hi[1], wp, True))

    __rmul__ = __mul__

    def sqr(self):
        wp = _WP
        a = abs(self)
        return RB(_rnd(a.am * a.am, 2 * a.ae, wp, False), _rnd(a.bm * a.bm, 2 * a.be, wp, True))

    def __truediv__(self, o):
        o = _coerce(o)
        wp = _WP
        c, ce, d, de = o.am, o.ae, o.bm, o.be
        if c <= 0 <= d:
            raise Indeterminate('division by an interval containing zero')
        a, ae, b, be = self.am, self.ae, self.bm, self.be
        if c > 0:
            if a >= 0:
                lo, hi = (a, ae, d, de), (b, be, c, ce)
            elif b <= 0:
                lo, hi = (a, ae, c, ce), (b, be, d, de)
            else:
                lo, hi = (a, ae, c, ce), (b, be, c, ce)
        else:
            if a >= 0:
                lo, hi = (b, be, d, de), (a, ae, c, ce)
            elif b <= 0:
                lo, hi = (b, be, c, ce), (a, ae, d, de)
            else:
                lo, hi = (b, be, d, de), (a, ae, d, de)
        return RB(_ddiv(lo[0], lo[1], lo[2], lo[3], wp, False), _ddiv(hi[0], hi[1], hi[2], hi[3], wp, True))

    def __rtruediv__(self, o):
        return _coerce(o) / self

    def ldexp(self, k):
        return RB.make(self.am, self.ae + k, self.bm, self.be + k)


ZERO = RB.point(0, 0)
ONE = RB.point(1, 0)


def _coerce(o):
    if isinstance(o, RB):
        return o
    if isinstance(o, int):
        return RB.point(o, 0)
    if isinstance(o, Fraction):
        return RB.from_fraction(o)
    if isinstance(o, tuple):
        return RB.point(*_dy_of(o))
    raise TypeError('cannot coerce %r to RB' % (type(o),))


def _hull_pts(pts):
    """hull of a list of RB"""
    r = pts[0]
    for q in pts[1:]:
        r = r.hull(q)
    return r


def sqrt(x):
    x = _coerce(x)
    if x.am < 0:
        raise Indeterminate('sqrt of an interval reaching below zero')
    wp = _WP
    return RB(_dsqrt(x.am, x.ae, wp, False), _dsqrt(x.bm, x.be, wp, True))


def sqrt_clip(x):
    """sqrt(max(x,0)) -- for quantities that are mathematically >= 0 but whose enclosure may dip below 0"""
    if x.bm < 0:
        raise Indeterminate('sqrt_clip of a negative interval')
    wp = _WP
    lo = (0, 0) if x.am <= 0 else _dsqrt(x.am, x.ae, wp, False)
    return RB(lo, _dsqrt(x.bm, x.be, wp, True))


def rpow_int(x, n):
    """x**n for an integer n (repeated squaring, even powers of zero-straddling intervals handled by sqr)"""
    x = _coerce(x)
    n = int(n)
    if n == 0:
        return ONE
    if n < 0:
        return ONE / rpow_int(x, -n)
    if n == 1:
        return +x
    if x.sign() == 0 and not x.is_zero():
        # monotone pieces: odd power monotone; even power = (|x|)^n
        if n & 1:
            return RB(rpow_int(RB(x.lo), n).lo, rpow_int(RB(x.hi), n).hi)
        return rpow_int(abs(x), n)
    result = None
    base = x
    while n:
        if n & 1:
            result = base if result is None else result * base
        n >>= 1
        if n:
            base = base.sqr()
    return result


def root(x, n):
    """real n-th root of x >= 0 (n >= 1) by integer bracketing; odd/even alike (negative x is the caller's
    business: the principal root is complex)"""
    x = _coerce(x)
    n = int(n)
    if n < 1:
        raise ValueError(n)
    if x.am < 0:
        raise Indeterminate('root of an interval reaching below zero')
    wp = _WP
    if n > 40 or n * wp > 400000:
        if x.am == 0:
            raise Indeterminate('large-order root of an interval touching zero')
        return exp(log(x) / n)
    return RB(_droot(x.am, x.ae, n, wp, False), _droot(x.bm, x.be, n, wp, True))


def hypot(x, y):
    x, y = _coerce(x), _coerce(y)
    if y.is_zero():
        return abs(x)
    if x.is_zero():
        return abs(y)
    return sqrt(x.sqr() + y.sqr())


# ---------------------------------------------------------------------------------------
# constants (fixed point: integer pairs lo <= value * 2**W <= hi)
# ---------------------------------------------------------------------------------------

def _atan_inv_fixed(q, W, hyperbolic=False):
    """enclosure (lo, hi) of 2^W * atan(1/q)  (or atanh(1/q)), q >= 2 integer.
    Terms 2^W / ((2j+1) q^(2j+1)).  p_j = floor(2^W / q^(2j+1)) is obtained exactly by repeated floor division
    (floor(floor(a/b)/c) = floor(a/(bc))).  The true term lies in [floor(p_j/(2j+1)), floor(p_j/(2j+1)) + 1].
    Truncation after p_J = 0: atan -- alternating with decreasing terms, |remainder| <= first omitted term < 1;
    atanh -- remainder < sum_{i>=J} 2^W/q^(2i+1) < (2^W / q^(2J+1)) / (1 - 1/q^2) < 4/3 < 2."""
    q2 = q * q
    p = (1 << W) // q
    lo = hi = 0
    j = 0
    while p:
        f = p // (2 * j + 1)
        if hyperbolic or not (j & 1):
            lo += f
            hi += f + 1
        else:
            lo -= f + 1
            hi -= f
        p //= q2
        j += 1
    if hyperbolic:
        hi += 2
    else:
        lo -= 1
        hi += 1
    return lo, hi


_PI_CACHE = [0, 0, 0]
_LN2_CACHE = [0, 0, 0]


def _shrink(cache, W):
    cw, lo, hi = cache
    s = cw - W
    return lo >> s, -((-hi) >> s)


def _pi_fixed(W):
    """(lo, hi) with lo <= pi * 2^W <= hi.  Machin: pi = 16 atan(1/5) - 4 atan(1/239)."""
    if W > REDUCE_CAP:
        raise Indeterminate('pi requested at %d bits' % W)
    if W < 8:
        W = 8
    if _PI_CACHE[0] < W:
        cw = max(W + W // 4 + 64, 2 * _PI_CACHE[0])
        a5 = _atan_inv_fixed(5, cw + 8)
        a239 = _atan_inv_fixed(239, cw + 8)
        lo = 16 * a5[0] - 4 * a239[1]
        hi = 16 * a5[1] - 4 * a239[0]
        _PI_CACHE[:] = [cw, lo >> 8, -((-hi) >> 8)]
    return _shrink(_PI_CACHE, W)


def _ln2_fixed(W):
    """(lo, hi) with lo <= ln2 * 2^W <= hi.  ln 2 = 18 atanh(1/26) - 2 atanh(1/4801) + 8 atanh(1/8749)
    (checked against sum 1/(k 2^k) in the self-test)."""
    if W > REDUCE_CAP:
        raise Indeterminate('ln2 requested at %d bits' % W)
    if W < 8:
        W = 8
    if _LN2_CACHE[0] < W:
        cw = max(W + W // 4 + 64, 2 * _LN2_CACHE[0])
        a = _atan_inv_fixed(26, cw + 8, True)
        b = _atan_inv_fixed(4801, cw + 8, True)
        c = _atan_inv_fixed(8749, cw + 8, True)
        lo = 18 * a[0] - 2 * b[1] + 8 * c[0]
        hi = 18 * a[1] - 2 * b[0] + 8 * c[1]
        _LN2_CACHE[:] = [cw, lo >> 8, -((-hi) >> 8)]
    return _shrink(_LN2_CACHE, W)


def pi():
    W = _WP + 4
    lo, hi = _pi_fixed(W)
    return +RB((lo, -W), (hi, -W))


def ln2():
    W = _WP + 4
    lo, hi = _ln2_fixed(W)
    return +RB((lo, -W), (hi, -W))


def const_e():
    return exp(ONE)


def ln10():
    return log(RB.point(10, 0))


def _to_fixed(m, e, W):
    """(lo, hi) ints with lo <= m*2^e * 2^W <= hi"""
    s = e + W
    if s >= 0:
        v = m << s
        return v, v
    lo = m >> (-s)
    if (lo << (-s)) == m:
        return lo, lo
    return lo, lo + 1


# ---------------------------------------------------------------------------------------
# kernels at exact dyadic points.  Each returns a 4-tuple (lo_m, lo_e, hi_m, hi_e) enclosing the function value
# with relative width about 2^-wp (the callers round outward to the working precision).
# ---------------------------------------------------------------------------------------

def _exp_series_fixed(rlo, rhi, W):
    """0 <= rlo <= r*2^W <= rhi, r <= 2^-1 assumed.  Returns (lo, hi) enclosing exp(r) * 2^W.
    All terms are positive: the truncated floor-sum from rlo is a lower bound.  Upper: ceil-terms from rhi; the
    loop stops when the upper term t_J <= 1 ulp; the remaining true terms sum to
    r^J/J! (1 + r/(J+1) + ...) <= t_J / (1 - r) <= 2 ulp  (r <= 1/2)."""
    one = 1 << W
    lo = one
    t = one
    j = 1
    while t:
        t = ((t * rlo) >> W) // j
        lo += t
        j += 1
    hi = one
    t = one
    j = 1
    while True:
        pr = -((-t * rhi) >> W)          # ceil(t r)
        t = -((-pr) // j)                # ceil(pr / j)
        hi += t
        j += 1
        if t <= 1:
            break
    return lo, hi + 2


def _exp_point(m, e, wp):
    if m == 0:
        return 1, 0, 1, 0
    mag = m.bit_length() + e                      # |x| < 2^mag
    if mag < -wp - 4:
        # |exp(x) - 1| <= 2|x| < 2^(mag+1) <= 2^-(wp+3); exp(x) > 1 for x > 0, < 1 for x < 0
        k = wp + 3
        if m > 0:
            return 1, 0, (1 << k) + 1, -k
        return (1 << k) - 1, -k, 1, 0
    if mag > EXP_MAG_CAP:
        raise Indeterminate('exp argument beyond 2^%d' % EXP_MAG_CAP)
    k = int(math.sqrt(wp) / 2) + 2                 # halvings
    W = wp + max(mag, 0) + k + 24
    xlo, xhi = _to_fixed(m, e, W)
    llo, lhi = _ln2_fixed(W)
    n = xlo // llo
    while True:
        if n >= 0:
            rlo, rhi = xlo - n * lhi, xhi - n * llo
        else:
            rlo, rhi = xlo - n * llo, xhi - n * lhi
        if rlo >= 0:
            break
        n -= 1
    if rhi > (1 << W):
        raise Indeterminate('exp reduction failed')      # cannot happen: r < ln2 + tiny
    # r/2^k at scale W+k has the same integer representation; r/2^k <= 2^-k <= 1/2
    W2 = W + k
    lo, hi = _exp_series_fixed(rlo, rhi, W2)
    for _ in range(k):
        lo = (lo * lo) >> W2
        hi = -((-(hi * hi)) >> W2)
    return lo, n - W2, hi, n - W2


def _atanh2_rational(N, D, W):
    """enclosure of 2 atanh(N/D), |N/D| <= 1/4, N != 0, relative width ~ 2^-(W-3).
    t = N/D, c = bl(D)-bl(N) so 2^(-c-1) < t < 2^(1-c);  T = t 2^(W+c) in [Tlo, Thi];  u = t^2 at scale W;
    S = sum_{j>=0} u^j/(2j+1) (all terms positive: floor-sum from ulo is a lower bound);  upper: ceil-terms from
    uhi until the upper power pw_J <= 1 ulp, then remainder sum_{i>=J} u^i/(2i+1) <= u^J/(1-u) <= 2 ulp (u <= 1/16).
    result = 2 T S."""
    neg = N < 0
    if neg:
        N = -N
    c = D.bit_length() - N.bit_length()
    sh = W + c
    Tlo, rem = divmod(N << sh, D)
    Thi = Tlo + 1 if rem else Tlo
    s2 = W + 2 * c
    ulo = (Tlo * Tlo) >> s2
    uhi = ((Thi * Thi) >> s2) + 1
    one = 1 << W
    slo = one
    pw = one
    j = 1
    while True:
        pw = (pw * ulo) >> W
        if not pw:
            break
        slo += pw // (2 * j + 1)
        j += 1
    shi = one
    pw = one
    j = 1
    while True:
        pw = -((-pw * uhi) >> W)
        shi += -((-pw) // (2 * j + 1))
        j += 1
        if pw <= 1:
            break
    shi += 2
    lo = 2 * Tlo * slo
    hi = 2 * Thi * shi
    ex = -(sh + W)
    if neg:
        return -hi, ex, -lo, ex
    return lo, ex, hi, ex


def _log_point(m, e, wp):
    """log(m 2^e), m > 0.  x = M 2^s with M in [3/4, 3/2); log x = s ln2 + 2 atanh((M-1)/(M+1)), |t| <= 1/5."""
    if m <= 0:
        raise Indeterminate('log of a non-positive point')
    bl = m.bit_length()
    s = bl + e - 1
    if 2 * m >= 3 << (bl - 1):
        s += 1
    f = s - e                                    # M = m / 2^f
    if f >= 0:
        N, D = m - (1 << f), m + (1 << f)
    else:
        N, D = (m << -f) - 1, (m << -f) + 1
    if s == 0:
        if N == 0:
            return 0, 0, 0, 0
        return _atanh2_rational(N, D, wp + 8)
    W = wp + s.bit_length() + 10
    llo, lhi = _ln2_fixed(W)
    if s > 0:
        a, b = s * llo, s * lhi
    else:
        a, b = s * lhi, s * llo
    if N == 0:
        return a, -W, b, -W
    l = _atanh2_rational(N, D, wp + 8)
    lo = _dadd_exact(a, -W, l[0], l[1])
    hi = _dadd_exact(b, -W, l[2], l[3])
    return lo[0], lo[1], hi[0], hi[1]


def _horner_alt(ulo, uhi, W, first, depth):
    """Interval Horner evaluation of  B_1 = 1 - u/d_1 (1 - u/d_2 (1 - ... ))  with d_j = (first+2j-2)(first+2j-1)
    (first=2: sin(a)/a with u=a^2;  first=1: cos(a)), 0 <= u < 1 at scale W.
    Every bracket B_j lies in (0, 1]; the innermost one (index depth+1) is replaced by [0, 1], which is exactly
    the alternating-series remainder bound (remainder <= first omitted term)."""
    one = 1 << W
    blo, bhi = 0, one
    for j in range(depth, 0, -1):
        d = (first + 2 * j - 2) * (first + 2 * j - 1)
        plo = ((ulo * blo) >> W) // d
        pr = -((-uhi * bhi) >> W)        # ceil(u B)
        phi = -((-pr) // d)              # ceil(pr / d)
        blo, bhi = one - phi, one - plo
        if blo < 0:
            blo = 0
    return blo, bhi


def _cos_sin_small(alo, ale, ahi, ahe, wp):
    """0 <= a in [alo 2^ale, ahi 2^ahe], a <= 0.85.  Returns (cos 4-tuple, sin 4-tuple); sin carries the factor a
    as a floating quantity (relative accuracy for tiny a)."""
    if ahi == 0:
        return (1, 0, 1, 0), (0, 0, 0, 0)
    W = wp + 12
    amag = ahi.bit_length() + ahe                    # a < 2^amag, amag <= 0
    if amag > 0:
        raise Indeterminate('internal: small-argument kernel called with a >= 1')
    # u = a^2 at scale W
    ulo = _to_fixed(alo * alo, 2 * ale, W)[0]
    uhi = _to_fixed(ahi * ahi, 2 * ahe, W)[1]
    # depth: prod_{j<=J} u/d_j < 2^-(W+2)
    bits = 0.0
    J = 0
    lu = 2.0 * amag
    while bits < W + 3:
        J += 1
        bits += math.log2((2 * J - 1) * (2 * J)) - lu
    clo, chi = _horner_alt(ulo, uhi, W, 1, J)
    slo, shi = _horner_alt(ulo, uhi, W, 2, J)
    return (clo, -W, chi, -W), (alo * slo, ale - W, ahi * shi, ahe - W)


def _reduce_pi2(m, e, wp):
    """x = m 2^e != 0.  Returns (n, sgn, alo, ale, ahi, ahe): x = n pi/2 + sgn a, a > 0 enclosed by the dyadic
    interval, a <= pi/4 + tiny, relative width of the enclosure <= 2^-(wp+4).  pi is taken with
    wp + log2|x| + 16 bits and more whenever the reduced argument is small (x close to a multiple of pi/2):
    the loop ends only when the reduced interval excludes 0 and is tight in the relative sense."""
    mag = m.bit_length() + e
    if mag <= -1:
        a = abs(m)
        return 0, (1 if m > 0 else -1), a, e, a, e
    if mag > TRIG_MAG_CAP:
        raise Indeterminate('trig argument beyond 2^%d' % TRIG_MAG_CAP)
    W = wp + mag + 16
    if -e > W and -e < W + 60000:
        W = -e
    for _ in range(12):
        plo, phi = _pi_fixed(W + 1)
        hlo, hhi = plo >> 2, (phi + 3) >> 2          # pi/2 at scale W  (pi 2^(W+1) / 4)
        xlo, xhi = _to_fixed(m, e, W)
        n = (2 * xlo + hlo) // (2 * hlo)
        if n >= 0:
            rlo, rhi = xlo - n * hhi, xhi - n * hlo
        else:
            rlo, rhi = xlo - n * hlo, xhi - n * hhi
        if rlo > 0 or rhi < 0:
            small = rlo if rlo > 0 else -rhi
            width = rhi - rlo
            have = small.bit_length() - width.bit_length()
            if have >= wp + 4:
                sg = 1
                if rlo <= 0:
                    sg, rlo, rhi = -1, -rhi, -rlo
                # keep only wp+10 bits of the reduced argument (outward): the series works at that size
                am, ae = _rnd(rlo, -W, wp + 10, False)
                bm, be = _rnd(rhi, -W, wp + 10, True)
                return n, sg, am, ae, bm, be
            W += (wp + 6 - have) + 8
        else:
            W += W // 2 + 64
        if W > REDUCE_CAP:
            break
    raise Indeterminate('argument reduction did not separate x from a multiple of pi/2')


def _cos_sin_point(m, e, wp):
    """returns (cos 4-tuple, sin 4-tuple, n, sgn) for x = m 2^e"""
    if m == 0:
        return (1, 0, 1, 0), (0, 0, 0, 0), 0, 0
    n, sgn, alo, ale, ahi, ahe = _reduce_pi2(m, e, wp)
    c, s = _cos_sin_small(alo, ale, ahi, ahe, wp)
    if sgn < 0:
        s = (-s[2], s[3], -s[0], s[1])
    q = n & 3
    if q == 1:
        c, s = (-s[2], s[3], -s[0], s[1]), c
    elif q == 2:
        c, s = (-c[2], c[3], -c[0], c[1]), (-s[2], s[3], -s[0], s[1])
    elif q == 3:
        c, s = s, (-c[2], c[3], -c[0], c[1])
    return c, s, n, sgn


def _t4(t):
    """RB from a kernel 4-tuple, rounded outward to the working precision"""
    wp = _WP
    return RB(_rnd(t[0], t[1], wp, False), _rnd(t[2], t[3], wp, True))


def _atan_series_small(d):
    """atan of an RB d with |d| <= 2^-16: d (1 - u/3 + u^2/5 - ...), u = d^2; the alternating remainder
    (<= first omitted term u^J/(2J+1) for every point of the interval) is added on both sides."""
    wp = _WP
    mg = d.mag()
    if mg is None:
        return ZERO
    if mg > -16:
        raise Indeterminate('internal: atan series called with a large argument')
    u = d.sqr()
    J = (wp + 8) // (-2 * mg) + 1
    s = ONE
    pw = ONE
    for j in range(1, J):
        pw = pw * u
        t = pw / (2 * j + 1)
        s = s - t if j & 1 else s + t
    pw = pw * u
    r = pw.hi
    s = s + RB((-r[0], r[1]), r)
    return d * s


def _atan_pos_rational(N, D):
    """RB enclosure of atan(N/D) for integers N >= 0, D > 0 at the working precision.
    N/D > 1: pi/2 - atan(D/N).  N/D < 2^-20: series.  Otherwise a double y0 ~ atan(t) is corrected rigorously:
    atan t = y0 + atan(delta), delta = tan(atan t - y0) = (N cos y0 - D sin y0)/(D cos y0 + N sin y0), with
    cos/sin of the exact dyadic y0 enclosed by the kernels 70 bits above the working precision (the numerator
    cancels ~53 bits).  Validity does not depend on the quality of y0, only the speed does."""
    global _WP
    if N == 0:
        return ZERO
    wp = _WP
    if N > D:
        a = _atan_pos_rational(D, N)
        return pi().ldexp(-1) - a
    if (N << 20) < D:
        _WP = wp + 8
        try:
            t = RB.point(N, 0) / RB.point(D, 0)
            r = _atan_series_small(t)
        finally:
            _WP = wp
        return +r
    y0 = math.atan(N / D)
    fm, fe = math.frexp(y0)
    ym, ye = int(fm * (1 << 53)), fe - 53
    _WP = wp + 72
    try:
        c, s, _, _ = _cos_sin_point(ym, ye, _WP)
        c, s = _t4(c), _t4(s)
        num = c * N - s * D
        den = c * D + s * N
        dl = num / den
        r = RB.point(ym, ye) + _atan_series_small(dl)
    finally:
        _WP = wp
    return +r


def _atan_point(m, e):
    """atan of the exact dyadic m 2^e -> RB"""
    global _WP
    if m == 0:
        return ZERO
    a = abs(m)
    if a.bit_length() + e < -20:
        wp = _WP
        _WP = wp + 8
        try:
            r = _atan_series_small(RB.point(a, e))
        finally:
            _WP = wp
        r = +r
        return -r if m < 0 else r
    if e >= 0:
        if e > 200000:
            raise Indeterminate('atan argument exponent too large')
        r = _atan_pos_rational(a << e, 1)
    else:
        r = _atan_pos_rational(a, 1 << -e)
    return -r if m < 0 else r


# ---------------------------------------------------------------------------------------
# real functions on RB
# ---------------------------------------------------------------------------------------

def _mono(x, kern, increasing=True):
    """apply a point kernel (dyadic -> RB) to a monotone function"""
    if x.is_point():
        return kern(x.am, x.ae)
    a = kern(x.am, x.ae)
    b = kern(x.bm, x.be)
    if increasing:
        return RB(a.lo, b.hi)
    return RB(b.lo, a.hi)


def exp(x):
    x = _coerce(x)
    wp = _WP
    return _mono(x, lambda m, e: _t4(_exp_point(m, e, wp + 2)))


def _expm1_point(m, e):
    """expm1 at an exact dyadic, relative accuracy ~2^-wp also for tiny arguments.
    |x| < 2^-(wp+4)/..: x <= expm1(x) <= x + x^2 (|x| <= 1/2).  0 < x < 1/4: x * E1(x), E1 = sum x^j/(j+1)!  by
    the positive series (tail <= 2 ulp as for exp).  x >= 1/4: exp(x) - 1 (at most 2 bits cancel).
    x < 0: expm1(x) = -expm1(-x)/(1 + expm1(-x))."""
    global _WP
    wp = _WP
    if m == 0:
        return ZERO
    mag = m.bit_length() + e
    if mag < -wp - 4:
        x = RB.point(m, e)
        return RB(x.lo, (x + x.sqr()).hi)
    if m < 0:
        _WP = wp + 4
        try:
            em = _expm1_point(-m, e)
            r = -(em / (ONE + em))
        finally:
            _WP = wp
        return +r
    if mag >= -1:
        _WP = wp + 6
        try:
            r = _t4(_exp_point(m, e, wp + 6)) - ONE
        finally:
            _WP = wp
        return +r
    W = wp + 16
    rlo, rhi = _to_fixed(m, e, W)
    one = 1 << W
    lo = one
    t = one
    j = 1
    while t:
        t = ((t * rlo) >> W) // (j + 1)
        lo += t
        j += 1
    hi = one
    t = one
    j = 1
    while True:
        pr = -((-t * rhi) >> W)
        t = -((-pr) // (j + 1))
        hi += t
        j += 1
        if t <= 1:
            break
    hi += 2
    return RB(_rnd(m * lo, e - W, wp, False), _rnd(m * hi, e - W, wp, True))


def expm1(x):
    x = _coerce(x)
    return _mono(x, _expm1_point)


def log(x):
    x = _coerce(x)
    if x.am <= 0:
        raise Indeterminate('log of an interval reaching zero or below')
    wp = _WP
    return _mono(x, lambda m, e: _t4(_log_point(m, e, wp + 2)))


def _log1p_point(m, e):
    """log(1 + m 2^e): tiny: y - y^2 <= log1p(y) <= y (|y| <= 1/2); otherwise the log kernel at the exact dyadic
    1 + y (its atanh form (x-1)/(x+1) keeps relative accuracy)."""
    wp = _WP
    if m == 0:
        return ZERO
    mag = m.bit_length() + e
    if mag < -wp - 6:
        y = RB.point(m, e)
        return RB((y - y.sqr()).lo, y.hi)
    if e >= 0:
        M, E = (m << e) + 1, 0
    else:
        M, E = m + (1 << -e), e
    if M <= 0:
        raise Indeterminate('log1p of a point <= -1')
    return _t4(_log_point(M, E, wp + 2))


def log1p(x):
    x = _coerce(x)
    if _dcmp(x.am, x.ae, -1, 0) <= 0:
        raise Indeterminate('log1p of an interval reaching -1')
    return _mono(x, _log1p_point)


def _exists_cong(nmin, nmax, res, mod):
    """is there an integer n in [nmin, nmax] with n = res (mod mod)?"""
    if nmin > nmax:
        return False
    first = nmin + ((res - nmin) % mod)
    return first <= nmax


def cos_sin(x):
    """(cos x, sin x) for an RB x.  Point: one kernel call.  Interval: both endpoints are reduced rigorously
    (x = n pi/2 + r, sign of r known), extrema (+-1) are added exactly when a multiple of pi/2 of the right
    residue mod 4 lies in [a, b] -- decided from the integer indices and the signs of the reduced arguments."""
    x = _coerce(x)
    wp = _WP
    if x.is_point():
        c, s, n, sg = _cos_sin_point(x.am, x.ae, wp + 2)
        return _t4(c), _t4(s)
    wm, we = x.width()
    if _dcmp(wm, we, 6, 0) > 0:
        full = RB.make(-1, 0, 1, 0)
        return full, full
    ca, sa, na, ga = _cos_sin_point(x.am, x.ae, wp + 2)
    cb, sb, nb, gb = _cos_sin_point(x.bm, x.be, wp + 2)
    nmin = na if ga <= 0 else na + 1
    nmax = nb if gb >= 0 else nb - 1
    c = _t4(ca).hull(_t4(cb))
    s = _t4(sa).hull(_t4(sb))
    if _exists_cong(nmin, nmax, 0, 4):
        c = RB(c.lo, (1, 0))
    if _exists_cong(nmin, nmax, 2, 4):
        c = RB((-1, 0), c.hi)
    if _exists_cong(nmin, nmax, 1, 4):
        s = RB(s.lo, (1, 0))
    if _exists_cong(nmin, nmax, 3, 4):
        s = RB((-1, 0), s.hi)
    return c, s


def cos(x):
    return cos_sin(x)[0]


def sin(x):
    return cos_sin(x)[1]


def _pole_between(x, parity):
    """is a multiple n pi/2 with n = parity (mod 2) inside the interval x?"""
    wp = _WP
    _, _, na, ga = _cos_sin_point(x.am, x.ae, wp)
    _, _, nb, gb = _cos_sin_point(x.bm, x.be, wp)
    nmin = na if ga <= 0 else na + 1
    nmax = nb if gb >= 0 else nb - 1
    return _exists_cong(nmin, nmax, parity, 2)


def tan(x):
    x = _coerce(x)
    if x.is_point():
        c, s = cos_sin(x)
        return s / c
    if _pole_between(x, 1):
        raise Indeterminate('tan: pole inside the interval')
    return RB(tan(RB(x.lo)).lo, tan(RB(x.hi)).hi)


def cot(x):
    x = _coerce(x)
    if x.is_point():
        c, s = cos_sin(x)
        return c / s
    if _pole_between(x, 0):
        raise Indeterminate('cot: pole inside the interval')
    return RB(cot(RB(x.hi)).lo, cot(RB(x.lo)).hi)


def sec(x):
    return ONE / cos(x)


def csc(x):
    return ONE / sin(x)


def cosh(x):
    x = abs(_coerce(x))
    E = exp(x)
    r = (E + ONE / E).ldexp(-1)
    if r.am <= 0 or _dcmp(r.am, r.ae, 1, 0) < 0:
        r = RB((1, 0), r.hi)                     # cosh >= 1 always
    return r


def _sinh_point(m, e):
    global _WP
    wp = _WP
    if m == 0:
        return ZERO
    neg = m < 0
    a = abs(m)
    _WP = wp + 6
    try:
        if a.bit_length() + e >= 0:
            E = _t4(_exp_point(a, e, wp + 6))
            r = (E - ONE / E).ldexp(-1)
        else:
            em = _expm1_point(a, e)
            r = (em + em / (ONE + em)).ldexp(-1)
    finally:
        _WP = wp
    r = +r
    return -r if neg else r


def sinh(x):
    return _mono(_coerce(x), _sinh_point)


def _tanh_point(m, e):
    """tanh x = em/(em+2), em = expm1(2x) (x > 0); for x > wp: 1 - 2^-(wp) < tanh x < 1"""
    global _WP
    wp = _WP
    if m == 0:
        return ZERO
    neg = m < 0
    a = abs(m)
    if a.bit_length() + e > 40 or (e >= 0 and (a << e) > wp + 2) or (e < 0 and (a >> -e) > wp + 2):
        # x > wp + 2: 1 - tanh x = 2/(e^{2x}+1) < 2 e^{-2x} < 2^(1 - 2.88 x) < 2^-(wp+2)
        r = RB(((1 << (wp + 2)) - 1, -(wp + 2)), (1, 0))
    else:
        _WP = wp + 6
        try:
            em = _expm1_point(a, e + 1)
            r = em / (em + 2)
        finally:
            _WP = wp
        r = +r
    return -r if neg else r


def tanh(x):
    return _mono(_coerce(x), _tanh_point)


def coth(x):
    return ONE / tanh(x)


def sech(x):
    return ONE / cosh(x)


def csch(x):
    return ONE / sinh(x)


def atan(x):
    return _mono(_coerce(x), _atan_point)


def atan2(y, x):
    """angle of the point (x, y), -pi < angle <= pi, angle(x<0, y=0) = +pi (continuous from above).
    A rectangle not containing the origin and not crossing the negative real axis from below: the extreme angles
    are attained at corners (the angle is monotone along any segment of a line not through the origin).
    A rectangle that contains points with x < 0 on both sides y >= 0 and y < 0 gives the hull [-pi, pi]."""
    y, x = _coerce(y), _coerce(x)
    if x.contains_zero() and y.contains_zero():
        raise Indeterminate('atan2: rectangle contains the origin')
    if x.is_point() and y.is_point():
        return _atan2_pt(y.am, y.ae, x.am, x.ae)
    if x.am < 0 and y.am < 0 <= y.bm:
        if x.bm >= 0:
            raise Indeterminate('atan2: rectangle contains the origin')
        p = pi()
        return RB((-p).lo, p.hi)
    pts = []
    for ym, ye in (y.lo, y.hi):
        for xm, xe in (x.lo, x.hi):
            pts.append(_atan2_pt(ym, ye, xm, xe))
    return _hull_pts(pts)


def _atan2_pt(ym, ye, xm, xe):
    if ym == 0:
        if xm > 0:
            return ZERO
        if xm < 0:
            return pi()
        raise Indeterminate('atan2(0, 0)')
    if xm == 0:
        hp = pi().ldexp(-1)
        return hp if ym > 0 else -hp
    # rational |y/x| = N/D
    ay, ax = abs(ym), abs(xm)
    d = ye - xe
    if d >= 0:
        N, D = ay << d, ax
    else:
        N, D = ay, ax << -d
    a = _atan_pos_rational(N, D)
    if xm > 0:
        return a if ym > 0 else -a
    p = pi()
    return p - a if ym > 0 else a - p


def asin(x):
    """asin x = atan(x / sqrt((1-x)(1+x))), |x| < 1; asin(+-1) = +-pi/2"""
    x = _coerce(x)
    if _dcmp(x.am, x.ae, -1, 0) < 0 or _dcmp(x.bm, x.be, 1, 0) > 0:
        raise Indeterminate('asin outside [-1, 1]')

    def k(m, e):
        global _WP
        wp = _WP
        c1 = _dcmp(m, e, 1, 0)
        c2 = _dcmp(m, e, -1, 0)
        if c1 == 0:
            return pi().ldexp(-1)
        if c2 == 0:
            return -pi().ldexp(-1)
        _WP = wp + 6
        try:
            p = RB.point(m, e)
            t = p / sqrt((ONE - p) * (ONE + p))
            r = atan(t)
        finally:
            _WP = wp
        return +r
    return _mono(x, k)


def acos(x):
    """acos x = 2 atan(sqrt((1-x)/(1+x))), -1 < x <= 1; acos(-1) = pi"""
    x = _coerce(x)
    if _dcmp(x.am, x.ae, -1, 0) < 0 or _dcmp(x.bm, x.be, 1, 0) > 0:
        raise Indeterminate('acos outside [-1, 1]')

    def k(m, e):
        global _WP
        wp = _WP
        if _dcmp(m, e, 1, 0) == 0:
            return ZERO
        if _dcmp(m, e, -1, 0) == 0:
            return pi()
        _WP = wp + 6
        try:
            p = RB.point(m, e)
            r = atan(sqrt((ONE - p) / (ONE + p))).ldexp(1)
        finally:
            _WP = wp
        return +r
    return _mono(x, k, increasing=False)


def asinh(x):
    """asinh x = sign(x) log1p(|x| + x^2/(1 + sqrt(1 + x^2)))"""
    def k(m, e):
        global _WP
        wp = _WP
        if m == 0:
            return ZERO
        _WP = wp + 6
        try:
            a = RB.point(abs(m), e)
            a2 = a.sqr()
            r = log1p(a + a2 / (ONE + sqrt(ONE + a2)))
        finally:
            _WP = wp
        r = +r
        return -r if m < 0 else r
    return _mono(_coerce(x), k)


def acosh(x):
    """acosh x = log1p((x-1) + sqrt((x-1)(x+1))), x >= 1"""
    x = _coerce(x)
    if _dcmp(x.am, x.ae, 1, 0) < 0:
        raise Indeterminate('acosh below 1')

    def k(m, e):
        global _WP
        wp = _WP
        _WP = wp + 6
        try:
            p = RB.point(m, e)
            d = p - ONE
            r = log1p(d + sqrt(d * (p + ONE)))
        finally:
            _WP = wp
        return +r
    return _mono(x, k)


def atanh(x):
    """atanh x = sign(x) 1/2 log1p(2|x|/(1-|x|)), |x| < 1"""
    x = _coerce(x)
    if _dcmp(x.am, x.ae, -1, 0) <= 0 or _dcmp(x.bm, x.be, 1, 0) >= 0:
        raise Indeterminate('atanh outside (-1, 1)')

    def k(m, e):
        global _WP
        wp = _WP
        if m == 0:
            return ZERO
        _WP = wp + 6
        try:
            a = RB.point(abs(m), e)
            r = log1p(a.ldexp(1) / (ONE - a)).ldexp(-1)
        finally:
            _WP = wp
        r = +r
        return -r if m < 0 else r
    return _mono(x, k)


def asec(x):
    return acos(ONE / _coerce(x))


def acsc(x):
    return asin(ONE / _coerce(x))


def acot(x):
    return atan(ONE / _coerce(x))


def asech(x):
    return acosh(ONE / _coerce(x))


def acsch(x):
    return asinh(ONE / _coerce(x))


def acoth(x):
    return atanh(ONE / _coerce(x))


def _is_int_point(x):
    """the integer value of a point RB that is an exact integer, else None"""
    if not x.is_point():
        return None
    m, e = x.am, x.ae
    if m == 0:
        return 0
    if e >= 0:
        if e > 100000:
            return None
        return m << e
    t = (m & -m).bit_length() - 1
    if t >= -e:
        return m >> -e
    return None


def power(x, y):
    """real x**y with a real result: x > 0 (exp(y log x)); x < 0 or x = 0 only for integer point y."""
    x, y = _coerce(x), _coerce(y)
    n = _is_int_point(y)
    if n is not None and abs(n) <= 64:
        return rpow_int(x, n)
    if x.am > 0:
        return exp(y * log(x))
    if n is not None and x.bm < 0:
        r = exp(y * log(-x))
        return -r if n & 1 else r
    if n is not None and x.is_zero() and n > 0:
        return ZERO
    raise Indeterminate('real power with a non-positive base and non-integer exponent')


def powm1(x, y):
    """x**y - 1 = expm1(y log x), x > 0 (negative x with integer y through the sign rule)"""
    x, y = _coerce(x), _coerce(y)
    n = _is_int_point(y)
    if x.am > 0:
        return expm1(y * log(x))
    if n is not None and x.bm < 0:
        if n & 1:
            return -exp(y * log(-x)) - ONE
        return expm1(y * log(-x))
    if n is not None and x.is_zero() and n > 0:
        return RB.point(-1, 0)
    raise Indeterminate('real powm1 with a non-positive base and non-integer exponent')


def _cospi_sinpi_point(m, e):
    """(cos(pi x), sin(pi x)) at x = m 2^e with exact reduction modulo 2 (|x| used: cos even, sin odd)."""
    global _WP
    wp = _WP
    neg = m < 0
    a = abs(m)
    if a == 0:
        return ONE, ZERO
    if e >= 1:
        return ONE, ZERO
    if e == 0:
        return (RB.point(-1, 0) if a & 1 else ONE), ZERO
    # e < 0: t = a 2^e mod 2, then n = round(2t), r = t - n/2 in [-1/4, 1/4]
    if a.bit_length() + e <= -2:
        n, rm = 0, a                     # |x| < 1/4
    else:
        k = 1 - e
        t = a & ((1 << k) - 1)           # t 2^e in [0, 2)
        # 2t 2^e = t 2^(e+1); n = round
        sh = -(e + 1)
        if sh > 0:
            n = (t + (1 << (sh - 1))) >> sh
            rm = t - (n << sh)           # r = rm 2^e
        else:
            n = t                        # e = -1: t in {0,1,2,3} halves -> n = t, r = 0
            rm = 0
    q = n & 3
    if rm == 0:
        c, s = [(ONE, ZERO), (ZERO, ONE), (RB.point(-1, 0), ZERO), (ZERO, RB.point(-1, 0))][q]
    else:
        _WP = wp + 6
        try:
            ang = pi() * RB.point(abs(rm), e)           # <= pi/4 (+rounding) <= 0.79
            c4, s4 = _cos_sin_small(ang.am, ang.ae, ang.bm, ang.be, _WP)
            c, s = _t4(c4), _t4(s4)
        finally:
            _WP = wp
        c, s = +c, +s
        if rm < 0:
            s = -s
        if q == 1:
            c, s = -s, c
        elif q == 2:
            c, s = -c, -s
        elif q == 3:
            c, s = s, -c
    if neg:
        s = -s
    return c, s


def cospi_sinpi(x):
    x = _coerce(x)
    if x.is_point():
        return _cospi_sinpi_point(x.am, x.ae)
    return cos_sin(pi() * x)


def cospi(x):
    return cospi_sinpi(x)[0]


def sinpi(x):
    return cospi_sinpi(x)[1]


def sinc(x):
    x = _coerce(x)
    if x.is_zero():
        return ONE
    return sin(x) / x


def sincpi(x):
    x = _coerce(x)
    if x.is_zero():
        return ONE
    return sinpi(x) / (pi() * x)


# ---------------------------------------------------------------------------------------
# complex rectangles
# ---------------------------------------------------------------------------------------

class CB(object):
    __slots__ = ('re', 'im')

    def __init__(self, re, im=None):
        self.re = _coerce(re)
        self.im = ZERO if im is None else _coerce(im)

    @staticmethod
    def from_raw(re_raw, im_raw):
        return CB(RB.from_raw(re_raw), RB.from_raw(im_raw))

    def is_point(self):
        return self.re.is_point() and self.im.is_point()

    def is_real(self):
        return self.im.is_zero()

    def is_imag(self):
        return self.re.is_zero()

    def __repr__(self):
        return 'CB(%r, %r)' % (self.re, self.im)

    def to_complex(self):
        a, b = self.re.to_floats(), self.im.to_floats()
        return complex(a[0], b[0]), complex(a[1], b[1])

    def contains(self, re_v, im_v):
        return self.re.contains(re_v) and self.im.contains(im_v)

    def overlaps(self, o):
        return self.re.overlaps(o.re) and self.im.overlaps(o.im)

    def hull(self, o):
        return CB(self.re.hull(o.re), self.im.hull(o.im))

    def conj(self):
        return CB(self.re, -self.im)

    def __neg__(self):
        return CB(-self.re, -self.im)

    def __pos__(self):
        return CB(+self.re, +self.im)

    def __add__(self, o):
        o = _ccoerce(o)
        return CB(self.re + o.re, self.im + o.im)

    __radd__ = __add__

    def __sub__(self, o):
        o = _ccoerce(o)
        return CB(self.re - o.re, self.im - o.im)

    def __rsub__(self, o):
        return _ccoerce(o) - self

    def __mul__(self, o):
        if isinstance(o, (int, RB, Fraction)):
            o = _coerce(o)
            return CB(self.re * o, self.im * o)
        a, b, c, d = self.re, self.im, o.re, o.im
        if d.is_zero():
            return CB(a * c, b * c)
        if b.is_zero():
            return CB(a * c, a * d)
        if c.is_zero():
            return CB(-(b * d), a * d)
        if a.is_zero():
            return CB(-(b * d), b * c)
        return CB(a * c - b * d, a * d + b * c)

    __rmul__ = __mul__

    def sqr(self):
        a, b = self.re, self.im
        if b.is_zero():
            return CB(a.sqr(), ZERO)
        if a.is_zero():
            return CB(-b.sqr(), ZERO)
        return CB(a.sqr() - b.sqr(), (a * b).ldexp(1))

    def recip(self):
        c, d = self.re, self.im
        if d.is_zero():
            return CB(ONE / c, ZERO)
        if c.is_zero():
            return CB(ZERO, -(ONE / d))
        n = c.sqr() + d.sqr()
        return CB(c / n, -(d / n))

    def __truediv__(self, o):
        if isinstance(o, (int, RB, Fraction)):
            o = _coerce(o)
            return CB(self.re / o, self.im / o)
        a, b, c, d = self.re, self.im, o.re, o.im
        if d.is_zero():
            return CB(a / c, b / c)
        if c.is_zero():
            return CB(b / d, -(a / d))
        n = c.sqr() + d.sqr()
        if b.is_zero():
            return CB(a * c / n, -(a * d) / n)
        return CB((a * c + b * d) / n, (b * c - a * d) / n)

    def __rtruediv__(self, o):
        return _ccoerce(o) / self

    def mul_i(self):
        return CB(-self.im, self.re)

    def mul_neg_i(self):
        return CB(self.im, -self.re)

    def ldexp(self, k):
        return CB(self.re.ldexp(k), self.im.ldexp(k))


def _ccoerce(o):
    if isinstance(o, CB):
        return o
    return CB(_coerce(o), ZERO)


def c_abs(z):
    return hypot(z.re, z.im)


def c_arg(z):
    return atan2(z.im, z.re)


def _exact_sumsq_m1(x, y):
    """for point RBs x, y: the exact dyadic x^2 + y^2 - 1 as (m, e), or None when the exponents are too far
    apart to make exact arithmetic worthwhile"""
    if not (x.is_point() and y.is_point()):
        return None
    es = [2 * v.ae for v in (x, y) if v.am] + [0]
    if max(es) - min(es) > 4 * _WP + 4000:
        return None
    s = _dadd_exact(x.am * x.am, 2 * x.ae, y.am * y.am, 2 * y.ae)
    return _dadd_exact(s[0], s[1], -1, 0)


def _log_abs(x, y):
    """log|x + iy| with relative accuracy also when |z| is close to 1: 1/2 log1p(x^2 + y^2 - 1), the argument
    formed exactly for point arguments, as (a-1)(a+1) + b^2 (a the larger of |x|,|y|) otherwise"""
    global _WP
    wp = _WP
    _WP = wp + 6
    try:
        h = _exact_sumsq_m1(x, y)
        if h is not None:
            hm, he = h
            if hm == 0:
                return ZERO
            if hm.bit_length() + he <= -1:
                r = log1p(RB.point(hm, he)).ldexp(-1)
            else:
                s = _dadd_exact(hm, he, 1, 0)
                r = log(+RB.point(s[0], s[1])).ldexp(-1)
            return r
        ax, ay = abs(x), abs(y)
        big, small = (ax, ay) if ax.certainly_ge(ay) or not ay.certainly_ge(ax) else (ay, ax)
        s = ax.sqr() + ay.sqr()
        if s.certainly_gt(Fraction(1, 2)) and s.certainly_lt(2):
            h = (big - ONE) * (big + ONE) + small.sqr()
            if h.certainly_gt(-1):
                r = log1p(h).ldexp(-1)
                return r
        r = log(s).ldexp(-1)
        return r
    finally:
        _WP = wp


def c_log(z):
    z = _ccoerce(z)
    if z.re.contains_zero() and z.im.contains_zero():
        raise Indeterminate('log of a rectangle containing 0')
    return CB(+_log_abs(z.re, z.im), c_arg(z))


def c_log1p(z):
    """log(1+z): Re = 1/2 log1p(2x + x^2 + y^2) (formed exactly for points), Im = arg(1 + x + iy)"""
    global _WP
    z = _ccoerce(z)
    x, y = z.re, z.im
    xp1 = x + ONE if not x.is_point() else RB.point(*_dadd_exact(x.am, x.ae, 1, 0))
    if xp1.contains_zero() and y.contains_zero():
        raise Indeterminate('log1p of a rectangle containing -1')
    im = atan2(y, +xp1)
    wp = _WP
    _WP = wp + 6
    try:
        re = None
        if x.is_point() and y.is_point():
            es = [v for v in ((2 * x.ae) if x.am else None, (2 * y.ae) if y.am else None, (x.ae + 1) if x.am else None)
                  if v is not None]
            if es and max(es) - min(es) <= 4 * wp + 4000:
                s = _dadd_exact(x.am * x.am, 2 * x.ae, y.am * y.am, 2 * y.ae)
                s = _dadd_exact(s[0], s[1], x.am, x.ae + 1)
                if s[0] == 0:
                    re = ZERO
                elif _dcmp(s[0], s[1], -1, 0) > 0:
                    re = log1p(RB.point(s[0], s[1])).ldexp(-1)
        if re is None:
            h = x.ldexp(1) + x.sqr() + y.sqr()
            if not h.certainly_gt(-1):
                raise Indeterminate('log1p: cannot separate |1+z| from 0')
            re = log1p(h).ldexp(-1)
    finally:
        _WP = wp
    return CB(+re, im)


def c_exp(z):
    z = _ccoerce(z)
    if z.im.is_zero():
        return CB(exp(z.re), ZERO)
    c, s = cos_sin(z.im)
    if z.re.is_zero():
        return CB(c, s)
    E = exp(z.re)
    return CB(E * c, E * s)


def c_expm1(z):
    """e^z - 1:  Re = expm1(x) cos y - 2 sin^2(y/2),  Im = e^x sin y"""
    z = _ccoerce(z)
    x, y = z.re, z.im
    if y.is_zero():
        return CB(expm1(x), ZERO)
    c, s = cos_sin(y)
    sh = sin(y.ldexp(-1))
    re = expm1(x) * c - sh.sqr().ldexp(1)
    return CB(re, exp(x) * s)


def c_sqrt(z):
    """principal square root; cut along the negative real axis, continuous from above (sqrt(-4) = +2i).
    x >= 0 or x indefinite:  u = sqrt((|z|+x)/2), v = y/(2u)   (valid wherever u > 0)
    x < 0:                   |v| = sqrt((|z|-x)/2), u = |y|/(2|v|), sign v = sign y (+ for y = 0)"""
    z = _ccoerce(z)
    x, y = z.re, z.im
    if y.is_zero():
        if x.am >= 0:
            return CB(sqrt(x), ZERO)
        if x.bm <= 0:
            return CB(ZERO, sqrt(-x))
        return CB(RB((0, 0), sqrt(RB(x.hi)).hi), RB((0, 0), sqrt(RB((-x).hi)).hi))
    if x.is_zero():
        # sqrt(iy) = sqrt(|y|/2) (1 + i sign y)
        if y.sign() == 0:
            raise Indeterminate('sqrt: imaginary rectangle straddling 0')
        t = sqrt(abs(y).ldexp(-1))
        return CB(t, t if y.sign() > 0 else -t)
    r = hypot(x, y)
    if x.bm >= 0:
        t = (r + x).ldexp(-1)
        if t.am <= 0:
            raise Indeterminate('sqrt: rectangle touches the cut')
        u = sqrt(t)
        return CB(u, y / u.ldexp(1))
    t = (r - x).ldexp(-1)
    w = sqrt(t)
    if y.am >= 0:
        return CB(y / w.ldexp(1), w)
    if y.bm < 0:
        return CB((-y) / w.ldexp(1), -w)
    # straddles the cut (points with y >= 0 and with y < 0): hull of both sides
    u = abs(y) / w.ldexp(1)
    return CB(RB((0, 0), u.hi), RB((-w).lo, w.hi))


def c_root(z, n):
    """principal n-th root exp(log(z)/n), n >= 1 integer"""
    z = _ccoerce(z)
    n = int(n)
    if n == 1:
        return +z
    if n == 2:
        return c_sqrt(z)
    if n < 1:
        raise ValueError(n)
    if z.im.is_zero() and z.re.am >= 0:
        return CB(root(z.re, n), ZERO)
    r = root(c_abs(z), n)
    a = c_arg(z) / n
    c, s = cos_sin(a)
    return CB(r * c, r * s)


def c_power(z, w):
    """principal power exp(w log z); integer exponents of modest size by repeated squaring when that is tighter"""
    z, w = _ccoerce(z), _ccoerce(w)
    if w.im.is_zero():
        n = _is_int_point(w.re)
        if n is not None and abs(n) <= 16:
            return c_pow_int(z, n)
        if z.im.is_zero() and z.re.am > 0:
            return CB(power(z.re, w.re), ZERO)
    if z.re.is_zero() and z.im.is_zero():
        if w.re.certainly_gt(0):
            return CB(ZERO, ZERO)
        raise Indeterminate('0 ** w with Re w <= 0')
    return c_exp(w * c_log(z))


def c_pow_int(z, n):
    if n == 0:
        return CB(ONE, ZERO)
    if n < 0:
        return c_pow_int(z, -n).recip()
    result = None
    base = z
    while n:
        if n & 1:
            result = base if result is None else result * base
        n >>= 1
        if n:
            base = base.sqr()
    return +result


def c_powm1(z, w):
    """z**w - 1 = expm1(w log z)"""
    z, w = _ccoerce(z), _ccoerce(w)
    return c_expm1(w * c_log(z))


def _cs_ch_sh(x, y):
    c, s = cos_sin(x)
    return c, s, cosh(y), sinh(y)


def c_sin(z):
    z = _ccoerce(z)
    c, s, ch, sh = _cs_ch_sh(z.re, z.im)
    return CB(s * ch, c * sh)


def c_cos(z):
    z = _ccoerce(z)
    c, s, ch, sh = _cs_ch_sh(z.re, z.im)
    return CB(c * ch, -(s * sh))


def _tan_like(c, s, ch, sh):
    """(s c + i sh ch)/(c^2 + sh^2)   [= tan(x+iy) for c,s = cos x, sin x]; no cancellation anywhere.
    For large |y| the quotient is formed after dividing through by ch^2 to avoid squaring huge numbers: not needed
    with floating endpoints."""
    d = c.sqr() + sh.sqr()
    return CB(s * c / d, sh * ch / d)


def _big_imag(y):
    """|y| so large that sinh/cosh overflow the guard: use the limit forms"""
    mg = y.mag()
    return mg is not None and mg > 40 and y.sign() != 0


def _tan_limit(y, sg):
    """tan (sg=1) / cot (sg=-1) of x+iy for |y| >= Y := wp+8 (sign of y definite):
    |Re| <= (1/2)/sinh^2 y <= 8 e^{-2|y|} (sinh|y| >= e^|y|/4),  Im = sg sign(y) t with
    tanh|y| <= t <= coth|y|, i.e. 1 - 2 e^{-2|y|} <= t <= 1 + 4 e^{-2|y|}; e^{-2|y|} <= 2^{-2Y}."""
    if y.sign() == 0 or not abs(y).certainly_gt(_WP + 8):
        raise Indeterminate('tan/cot: imaginary part large but not separated')
    k = 2 * (_WP + 8) - 3
    re = RB((-1, -k), (1, -k))
    im = RB(((1 << k) - 1, -k), ((1 << k) + 1, -k))
    if (y.sign() > 0) != (sg > 0):
        im = -im
    return CB(re, im)


def c_tan(z):
    z = _ccoerce(z)
    x, y = z.re, z.im
    if y.is_zero():
        return CB(tan(x), ZERO)
    if x.is_zero():
        return CB(ZERO, tanh(y))
    if _big_imag(y) or abs(y).certainly_gt(_WP + 8):
        return _tan_limit(y, 1)
    c, s = cos_sin(x)
    return _tan_like(c, s, cosh(y), sinh(y))


def c_cot(z):
    z = _ccoerce(z)
    x, y = z.re, z.im
    if y.is_zero():
        return CB(cot(x), ZERO)
    if x.is_zero():
        return CB(ZERO, -coth(y))
    if _big_imag(y) or abs(y).certainly_gt(_WP + 8):
        return _tan_limit(y, -1)
    c, s = cos_sin(x)
    ch, sh = cosh(y), sinh(y)
    d = s.sqr() + sh.sqr()
    return CB(s * c / d, -(sh * ch) / d)


def c_sec(z):
    return c_cos(z).recip()


def c_csc(z):
    return c_sin(z).recip()


def c_sinh(z):
    z = _ccoerce(z)
    c, s, ch, sh = _cs_ch_sh(z.im, z.re)
    return CB(sh * c, ch * s)


def c_cosh(z):
    z = _ccoerce(z)
    c, s, ch, sh = _cs_ch_sh(z.im, z.re)
    return CB(ch * c, sh * s)


def c_tanh(z):
    """tanh z = -i tan(iz)"""
    z = _ccoerce(z)
    t = c_tan(CB(-z.im, z.re))
    return CB(t.im, -t.re)


def c_coth(z):
    """coth z = i cot(iz)"""
    z = _ccoerce(z)
    t = c_cot(CB(-z.im, z.re))
    return CB(-t.im, t.re)


def c_sech(z):
    return c_cosh(z).recip()


def c_csch(z):
    return c_sinh(z).recip()


def c_asin(z):
    """asin z = -i log(iz + sqrt(1 - z^2)) (documented).  Evaluated in Kahan's cancellation-free form
         Re = atan2(x, Re(sqrt(1-z) sqrt(1+z))),  Im = asinh(Im(conj(sqrt(1-z)) sqrt(1+z)))
    which agrees with the documented formula everywhere including ON the cuts when sqrt is continuous from above
    (checked numerically in the self-test against the documented formula evaluated in CB arithmetic)."""
    global _WP
    z = _ccoerce(z)
    wp = _WP
    _WP = wp + 8
    try:
        a = c_sqrt(_one_minus(z))
        b = c_sqrt(_one_plus(z))
        re = atan2(z.re, a.re * b.re - a.im * b.im)
        im = asinh(a.re * b.im - a.im * b.re)
    finally:
        _WP = wp
    return CB(+re, +im)


def _one_minus(z):
    x = z.re
    if x.is_point():
        re = RB.point(*_dadd_exact(1, 0, -x.am, x.ae))
    else:
        re = ONE - x
    return CB(re, -z.im)


def _one_plus(z):
    x = z.re
    if x.is_point():
        re = RB.point(*_dadd_exact(1, 0, x.am, x.ae))
    else:
        re = ONE + x
    return CB(re, z.im)


def c_acos(z):
    """acos z = pi/2 + i log(iz + sqrt(1 - z^2)) (documented); Kahan's form
         Re = 2 atan2(Re sqrt(1-z), Re sqrt(1+z)),  Im = asinh(Im(conj(sqrt(1+z)) sqrt(1-z)))"""
    global _WP
    z = _ccoerce(z)
    wp = _WP
    _WP = wp + 8
    try:
        a = c_sqrt(_one_minus(z))
        b = c_sqrt(_one_plus(z))
        re = atan2(a.re, b.re).ldexp(1)
        im = asinh(b.re * a.im - b.im * a.re)
    finally:
        _WP = wp
    return CB(+re, +im)


def c_atan(z):
    """atan z = (i/2)(log(1 - iz) - log(1 + iz)) (documented).
         Re = 1/2 (arg(1 + iz) - arg(1 - iz)) = 1/2 (atan2(x, 1-y) - atan2(-x, 1+y))
         Im = 1/4 log(((1+y)^2 + x^2)/((1-y)^2 + x^2)) = 1/4 log1p(4y / ((1-y)^2 + x^2))"""
    global _WP
    z = _ccoerce(z)
    x, y = z.re, z.im
    wp = _WP
    _WP = wp + 8
    try:
        omy = _one_minus(CB(y, ZERO)).re
        opy = _one_plus(CB(y, ZERO)).re
        re = (atan2(x, omy) - atan2(-x, opy)).ldexp(-1)
        if y.is_zero():
            im = ZERO
        else:
            den = omy.sqr() + x.sqr()
            den2 = opy.sqr() + x.sqr()
            if den.contains_zero() or den2.contains_zero():
                raise Indeterminate('atan: rectangle contains a branch point')
            if y.sign() >= 0 or y.am >= 0:
                im = log1p(y.ldexp(2) / den).ldexp(-2)
            else:
                # y < 0 (or indefinite): use the mirrored form to keep the log1p argument > -1 robustly
                im = -(log1p((-y).ldexp(2) / den2).ldexp(-2))
    finally:
        _WP = wp
    return CB(+re, +im)


def c_asinh(z):
    """asinh z = log(z + sqrt(1 + z^2)) = -i asin(iz) (also on the cuts, checked in the self-test)"""
    z = _ccoerce(z)
    t = c_asin(CB(-z.im, z.re))
    return CB(t.im, -t.re)


def c_acosh(z):
    """acosh z = log(z + sqrt(z+1) sqrt(z-1)) (documented); Kahan's form
         Re = asinh(Re(conj(sqrt(z-1)) sqrt(z+1))),  Im = 2 atan2(Im sqrt(z-1), Re sqrt(z+1))"""
    global _WP
    z = _ccoerce(z)
    wp = _WP
    _WP = wp + 8
    try:
        zm = -_one_minus(z)
        a = c_sqrt(CB(zm.re, z.im))
        b = c_sqrt(_one_plus(z))
        re = asinh(a.re * b.re + a.im * b.im)
        im = atan2(a.im, b.re).ldexp(1)
    finally:
        _WP = wp
    return CB(+re, +im)


def c_atanh(z):
    """atanh z = 1/2 (log(1+z) - log(1-z)) (documented)
         Re = 1/4 log1p(4x/((1-x)^2 + y^2)),  Im = 1/2 (atan2(y, 1+x) - atan2(-y, 1-x))"""
    z = _ccoerce(z)
    t = c_atan(CB(-z.im, z.re))          # atanh z = -i atan(iz)
    return CB(t.im, -t.re)


def c_asec(z):
    return c_acos(_ccoerce(z).recip())


def c_acsc(z):
    return c_asin(_ccoerce(z).recip())


def c_acot(z):
    return c_atan(_ccoerce(z).recip())


def c_asech(z):
    return c_acosh(_ccoerce(z).recip())


def c_acsch(z):
    return c_asinh(_ccoerce(z).recip())


def c_acoth(z):
    return c_atanh(_ccoerce(z).recip())


def c_expj(z):
    """exp(i z)"""
    z = _ccoerce(z)
    return c_exp(CB(-z.im, z.re))


def c_expjpi(z):
    """exp(i pi z) = exp(-pi y) (cospi x + i sinpi x)"""
    z = _ccoerce(z)
    c, s = cospi_sinpi(z.re)
    if z.im.is_zero():
        return CB(c, s)
    E = exp(-(pi() * z.im))
    return CB(E * c, E * s)


def c_sinpi(z):
    z = _ccoerce(z)
    c, s = cospi_sinpi(z.re)
    if z.im.is_zero():
        return CB(s, ZERO)
    py = pi() * z.im
    return CB(s * cosh(py), c * sinh(py))


def c_cospi(z):
    z = _ccoerce(z)
    c, s = cospi_sinpi(z.re)
    if z.im.is_zero():
        return CB(c, ZERO)
    py = pi() * z.im
    return CB(c * cosh(py), -(s * sinh(py)))


def c_sinc(z):
    z = _ccoerce(z)
    if z.re.is_zero() and z.im.is_zero():
        return CB(ONE, ZERO)
    return c_sin(z) / z


def c_sincpi(z):
    z = _ccoerce(z)
    if z.re.is_zero() and z.im.is_zero():
        return CB(ONE, ZERO)
    return c_sinpi(z) / (z * pi())


# ---------------------------------------------------------------------------------------
# evaluation by name (mpmath context names) with the documented real-domain / principal-value rule
# ---------------------------------------------------------------------------------------

def _le(x, m, e=0):
    return _dcmp(x.bm, x.be, m, e) <= 0


def _lt(x, m, e=0):
    return _dcmp(x.bm, x.be, m, e) < 0


def _ge(x, m, e=0):
    return _dcmp(x.am, x.ae, m, e) >= 0


def _gt(x, m, e=0):
    return _dcmp(x.am, x.ae, m, e) > 0


def _dom_all(x):
    return True


def _dom_nonneg(x):
    return True if x.am >= 0 else (False if x.bm < 0 else None)


def _dom_pos(x):
    return True if x.am > 0 else (False if x.bm < 0 else None)


def _dom_unit_closed(x):          # |x| <= 1
    if _ge(x, -1) and _le(x, 1):
        return True
    if _lt(x, -1) or _gt(x, 1):
        return False
    return None


def _dom_unit_open(x):            # |x| < 1
    if _gt(x, -1) and _lt(x, 1):
        return True
    if _lt(x, -1) or _gt(x, 1):
        return False
    return None                    # +-1 themselves are poles of atanh


def _dom_ge1(x):
    return True if _ge(x, 1) else (False if _lt(x, 1) else None)


def _dom_outside_unit_closed(x):  # |x| >= 1   (asec, acsc)
    if _ge(x, 1) or _le(x, -1):
        return True
    if _gt(x, -1) and _lt(x, 1):
        return False
    return None


def _dom_outside_unit_open(x):    # |x| > 1    (acoth)
    if _gt(x, 1) or _lt(x, -1):
        return True
    if _gt(x, -1) and _lt(x, 1):
        return False
    return None


def _dom_01(x):                   # 0 < x <= 1 (asech)
    if x.am > 0 and _le(x, 1):
        return True
    if x.bm < 0 or _gt(x, 1):
        return False
    return None


def _dom_gtm1(x):
    return True if _gt(x, -1) else (False if _lt(x, -1) else None)


def _cbrt_real(x):
    return root(x, 3)


# name -> (real function, domain predicate, complex function)
_UNARY = {
    'exp': (exp, _dom_all, c_exp), 'expm1': (expm1, _dom_all, c_expm1),
    'ln': (log, _dom_pos, c_log), 'log1p': (log1p, _dom_gtm1, c_log1p),
    'sqrt': (sqrt, _dom_nonneg, c_sqrt), 'cbrt': (_cbrt_real, _dom_nonneg, lambda z: c_root(z, 3)),
    'sin': (sin, _dom_all, c_sin), 'cos': (cos, _dom_all, c_cos), 'tan': (tan, _dom_all, c_tan),
    'cot': (cot, _dom_all, c_cot), 'sec': (sec, _dom_all, c_sec), 'csc': (csc, _dom_all, c_csc),
    'sinh': (sinh, _dom_all, c_sinh), 'cosh': (cosh, _dom_all, c_cosh), 'tanh': (tanh, _dom_all, c_tanh),
    'coth': (coth, _dom_all, c_coth), 'sech': (sech, _dom_all, c_sech), 'csch': (csch, _dom_all, c_csch),
    'asin': (asin, _dom_unit_closed, c_asin), 'acos': (acos, _dom_unit_closed, c_acos),
    'atan': (atan, _dom_all, c_atan), 'asinh': (asinh, _dom_all, c_asinh),
    'acosh': (acosh, _dom_ge1, c_acosh), 'atanh': (atanh, _dom_unit_open, c_atanh),
    'asec': (asec, _dom_outside_unit_closed, c_asec), 'acsc': (acsc, _dom_outside_unit_closed, c_acsc),
    'acot': (acot, _dom_all, c_acot), 'asech': (asech, _dom_01, c_asech), 'acsch': (acsch, _dom_all, c_acsch),
    'acoth': (acoth, _dom_outside_unit_open, c_acoth),
    'sinpi': (sinpi, _dom_all, c_sinpi), 'cospi': (cospi, _dom_all, c_cospi),
    'sinc': (sinc, _dom_all, c_sinc), 'sincpi': (sincpi, _dom_all, c_sincpi),
}
# functions whose value is complex also for real arguments
_ALWAYS_COMPLEX = {'expj': c_expj, 'expjpi': c_expjpi}


def _as_arg(a):
    if isinstance(a, (RB, CB)):
        return a
    if isinstance(a, int):
        return RB.point(a, 0)
    if isinstance(a, Fraction):
        return RB.from_fraction(a)
    raise TypeError(type(a))


def evaluate(fname, args):
    """Enclosure of mpmath's documented value of fname(*args) at the current working precision.
    args: RB (real argument), CB (complex argument), int.  Returns RB when the documented result is real
    (real argument inside the real domain), else CB."""
    args = [_as_arg(a) for a in args]
    if fname == 'log' and len(args) == 1:
        fname = 'ln'
    if fname == 'nthroot':
        fname = 'root'
    if fname == 'phase':
        fname = 'arg'
    if fname in _UNARY and len(args) == 1:
        rf, dom, cf = _UNARY[fname]
        x = args[0]
        if isinstance(x, CB):
            return cf(x)
        d = dom(x)
        if d is True:
            return rf(x)
        if d is False:
            return cf(CB(x, ZERO))
        raise Indeterminate('%s: argument straddles the boundary of the real domain' % fname)
    if fname in _ALWAYS_COMPLEX:
        return _ALWAYS_COMPLEX[fname](_ccoerce(args[0]))
    if fname == 'log10':
        return _div_any(evaluate('ln', [args[0]]), ln10())
    if fname == 'log':
        return _div_any(evaluate('ln', [args[0]]), evaluate('ln', [args[1]]))
    if fname == 'arg':
        x = args[0]
        return c_arg(_ccoerce(x))
    if fname == 'atan2':
        return atan2(args[0], args[1])
    if fname == 'hypot':
        return hypot(args[0], args[1])
    if fname == 'root':
        x = args[0]
        n = _is_int_point(args[1])
        if n is None or n == 0:
            raise Indeterminate('root needs a nonzero integer order')
        if n < 0:
            return _div_any(ONE, evaluate('root', [x, RB.point(-n, 0)]))
        if isinstance(x, RB) and x.am >= 0:
            return root(x, n)
        return c_root(_ccoerce(x), n)
    if fname == 'power':
        x, y = args
        if isinstance(x, RB) and isinstance(y, RB):
            n = _is_int_point(y)
            if x.am > 0 or (n is not None and (x.bm < 0 or (x.is_zero() and n > 0))):
                return power(x, y)
            if x.bm < 0:
                return c_power(CB(x, ZERO), CB(y, ZERO))
            raise Indeterminate('power: base interval touches 0')
        return c_power(_ccoerce(x), _ccoerce(y))
    if fname == 'powm1':
        x, y = args
        if isinstance(x, RB) and isinstance(y, RB):
            n = _is_int_point(y)
            if x.am > 0 or (n is not None and (x.bm < 0 or (x.is_zero() and n > 0))):
                return powm1(x, y)
            if x.bm < 0:
                return c_powm1(CB(x, ZERO), CB(y, ZERO))
            raise Indeterminate('powm1: base interval touches 0')
        return c_powm1(_ccoerce(x), _ccoerce(y))
    if fname == 'pi':
        return pi()
    if fname == 'e':
        return const_e()
    if fname == 'ln2':
        return ln2()
    if fname == 'ln10':
        return ln10()
    raise KeyError('ball has no enclosure for %r' % fname)


def _div_any(a, b):
    if isinstance(a, RB) and isinstance(b, RB):
        return a / b
    return _ccoerce(a) / _ccoerce(b)


NAMES = sorted(list(_UNARY) + list(_ALWAYS_COMPLEX) + ['log', 'log10', 'arg', 'phase', 'atan2', 'hypot', 'root', 'nthroot',
                                                      'power', 'powm1'])


def from_spec(spec):
    k = spec[0]
    if k == 'I':
        return RB.point(int(spec[1]), 0)
    if k == 'R':
        return RB.from_raw(spec[1])
    if k == 'C':
        return CB.from_raw(spec[1], spec[2])
    raise ValueError(spec)


class Enclosure(object):
    """value: RB / CB / None;  wp: precision of the last attempt;  status: 'ok' (criterion met), 'wide' (cap
    reached with a finite but too wide enclosure), 'none' (no finite enclosure);  verdict: what ``decide``
    returned last;  reason: message of the last Indeterminate"""
    __slots__ = ('value', 'wp', 'status', 'verdict', 'reason', 'levels')

    def __init__(self, value, wp, status, verdict=None, reason=None, levels=0):
        self.value, self.wp, self.status, self.verdict, self.reason, self.levels = value, wp, status, verdict, reason, levels

    def __repr__(self):
        return 'Enclosure(%r, wp=%d, %s, %s)' % (self.value, self.wp, self.status, self.verdict)


def _good(value, bits, rule):
    if isinstance(value, RB):
        return value.rel_width_bits() >= bits
    if rule == 'part':
        return value.re.rel_width_bits() >= bits and value.im.rel_width_bits() >= bits
    # larger-part rule: widths of both parts small compared with a lower bound of max(|re|,|im|)
    mre, mim = abs(value.re), abs(value.im)
    big = mre.lo if _dcmp(mre.am, mre.ae, mim.am, mim.ae) >= 0 else mim.lo
    if big[0] == 0:
        return value.re.is_zero() and value.im.is_zero()
    top = big[0].bit_length() + big[1]
    for part in (value.re, value.im):
        if not part.is_point():
            w = part.width()
            if top - (w[0].bit_length() + w[1]) < bits:
                return False
    return True


def enclose(fname, specs, p, decide=None, good_bits=None, cap=None, rule='part', levels=None):
    """Adaptive driver: evaluate fname at the exact arguments ``specs`` (catalog specs ('R',raw) ('C',raw,raw)
    ('I',n), or ready RB/CB objects) with working precision p+32, 2p+64, 4p+128, cap (default 8p+512) until
    ``decide(value)`` is not 'undecided' -- or, without ``decide``, until every part (rule='part') / the larger
    part scale (rule='larger') has ``good_bits`` (default p+10) good bits."""
    args = [a if isinstance(a, (RB, CB)) else from_spec(a) for a in specs]
    if levels is None:
        levels = [p + 32, 2 * p + 64, 4 * p + 128, cap or (8 * p + 512)]
    if good_bits is None:
        good_bits = p + 10
    old = _WP
    last = Enclosure(None, levels[0], 'none')
    try:
        for i, wp in enumerate(levels):
            setprec(wp)
            try:
                v = evaluate(fname, args)
            except Indeterminate as ex:
                last = Enclosure(last.value, wp, last.status if last.value is not None else 'none', last.verdict,
                                 str(ex), i + 1)
                continue
            if decide is not None:
                d = decide(v)
                if d != 'undecided':
                    return Enclosure(v, wp, 'ok', d, None, i + 1)
                last = Enclosure(v, wp, 'wide', d, None, i + 1)
            else:
                if _good(v, good_bits, rule):
                    return Enclosure(v, wp, 'ok', None, None, i + 1)
                last = Enclosure(v, wp, 'wide', None, None, i + 1)
        return last
    finally:
        setprec(old)


# ---------------------------------------------------------------------------------------
# decision helpers (exact dyadic comparisons only)
# ---------------------------------------------------------------------------------------

def _absdiff(c, y):
    """|c - y| exactly; when the two are more than 2^4096 apart in magnitude (results with astronomically large
    exponents) a lower bound within 2^-8 relative instead of an impossible alignment: every decision below compares
    against tolerances < 1/2, which such a pair misses by a factor of about 1 or more either way"""
    if c[0] and y[0]:
        t1 = c[0].bit_length() + c[1]
        t2 = y[0].bit_length() + y[1]
        if abs(t1 - t2) > 4096:
            b = c if t1 > t2 else y
            return (abs(b[0]) << 8) - 1, b[1] - 8
    m, e = _dadd_exact(c[0], c[1], -y[0], y[1])
    return abs(m), e


def _err_ge(c, y, t):
    """|c - y| >= 2^t |y|   (exact)"""
    d = _absdiff(c, y)
    return _dcmp(d[0], d[1], abs(y[0]), y[1] + t) >= 0


def decide_rel_error(computed, E, tol_exp):
    """err(c, y) = |c - y| / |y| against tol = 2**tol_exp over all y in E.
    violated iff min err >= tol, held iff max err < tol, else undecided.
    For sign-definite E the function c/y - 1 is monotone in y, so max |.| is at an endpoint and min |.| is 0 when
    c lies in E and at an endpoint otherwise; for E containing 0 (not the exact zero) err is unbounded near 0."""
    c = _dy_of(tuple(computed)) if not isinstance(computed, RB) else computed.lo
    lo, hi = E.lo, E.hi
    if E.is_zero():
        return 'held' if c[0] == 0 else 'violated'
    inside = _dcmp(lo[0], lo[1], c[0], c[1]) <= 0 and _dcmp(c[0], c[1], hi[0], hi[1]) <= 0
    g_lo = _err_ge(c, lo, tol_exp)
    g_hi = _err_ge(c, hi, tol_exp)
    if E.am <= 0 <= E.bm:
        if (not inside) and g_lo and g_hi:
            return 'violated'
        return 'undecided'
    if not g_lo and not g_hi:
        return 'held'
    if (not inside) and g_lo and g_hi:
        return 'violated'
    return 'undecided'


def _dist_to(c, E):
    """(dmin, dmax) exact dyadics: min and max of |c - y| over y in E"""
    lo, hi = E.lo, E.hi
    a = _absdiff(c, lo)
    b = _absdiff(c, hi)
    dmax = a if _dcmp(a[0], a[1], b[0], b[1]) >= 0 else b
    inside = _dcmp(lo[0], lo[1], c[0], c[1]) <= 0 and _dcmp(c[0], c[1], hi[0], hi[1]) <= 0
    if inside:
        return (0, 0), dmax
    dmin = a if _dcmp(a[0], a[1], b[0], b[1]) <= 0 else b
    return dmin, dmax


def decide_rel_error_complex(c_re, c_im, E, tol_exp, rule='part'):
    """rule='part': the real decision on each part (violated if any part is, held if both are).
    rule='larger': each part's absolute error is measured against M = max(|Re y|, |Im y|):
       violated iff for some part min|c_k - y_k| >= tol * max M,   held iff for both parts max|c_k - y_k| < tol * min M."""
    if rule == 'part':
        a = decide_rel_error(c_re, E.re, tol_exp)
        b = decide_rel_error(c_im, E.im, tol_exp)
        if 'violated' in (a, b):
            return 'violated'
        if a == b == 'held':
            return 'held'
        return 'undecided'
    cr, ci = _dy_of(tuple(c_re)), _dy_of(tuple(c_im))
    are, aim = abs(E.re), abs(E.im)
    mlo = are.lo if _dcmp(are.am, are.ae, aim.am, aim.ae) >= 0 else aim.lo
    mhi = are.hi if _dcmp(are.bm, are.be, aim.bm, aim.be) >= 0 else aim.hi
    if mhi[0] == 0:
        return 'held' if (cr[0] == 0 and ci[0] == 0) else 'violated'
    held = mlo[0] != 0
    for c, part in ((cr, E.re), (ci, E.im)):
        dmin, dmax = _dist_to(c, part)
        if _dcmp(dmin[0], dmin[1], mhi[0], mhi[1] + tol_exp) >= 0:
            return 'violated'
        if held and not _dcmp(dmax[0], dmax[1], mlo[0], mlo[1] + tol_exp) < 0:
            held = False
    return 'held' if held else 'undecided'


def decide_directed(computed, E, mode):
    """direction of a directed rounding: 'f' needs c <= exact, 'c' needs c >= exact, 'd' |c| <= |exact|,
    'u' |c| >= |exact|.  held iff true for every y in E, violated iff false for every y in E."""
    c = _dy_of(tuple(computed))
    if mode in ('d', 'u'):
        if E.is_zero():
            return 'held' if c[0] == 0 else ('violated' if mode == 'd' else 'held')
        s = E.sign()
        if s == 0:
            return 'undecided'
        mode = {('d', 1): 'f', ('d', -1): 'c', ('u', 1): 'c', ('u', -1): 'f'}[(mode, s)]
    if mode == 'f':
        if _dcmp(c[0], c[1], E.am, E.ae) <= 0:
            return 'held'
        if _dcmp(c[0], c[1], E.bm, E.be) > 0:
            return 'violated'
        return 'undecided'
    if mode == 'c':
        if _dcmp(c[0], c[1], E.bm, E.be) >= 0:
            return 'held'
        if _dcmp(c[0], c[1], E.am, E.ae) < 0:
            return 'violated'
        return 'undecided'
    raise ValueError(mode)


def contains_check(lo_raw, hi_raw, E):
    """does the returned interval [lo, hi] contain the exact value enclosed by E?
    violated iff E lies entirely outside, held iff E lies entirely inside."""
    lo, hi = _dy_of(tuple(lo_raw)), _dy_of(tuple(hi_raw))
    if _dcmp(E.bm, E.be, lo[0], lo[1]) < 0 or _dcmp(E.am, E.ae, hi[0], hi[1]) > 0:
        return 'violated'
    if _dcmp(lo[0], lo[1], E.am, E.ae) <= 0 and _dcmp(E.bm, E.be, hi[0], hi[1]) <= 0:
        return 'held'
    return 'undecided'


def _log2_dy(m, e):
    m = abs(m)
    if not m:
        return float('-inf')
    bl = m.bit_length()
    if abs(e) > (1 << 900):
        return 1e300 if e > 0 else -1e300
    if bl > 60:
        return math.log2(m >> (bl - 60)) + float(bl - 60 + e)
    return math.log2(m) + float(e)


def _log2_ratio(a, b):
    """log2(|a| / |b|) for dyadic pairs, exponents subtracted exactly first (they may be astronomically large)"""
    if not a[0]:
        return float('-inf')
    if not b[0]:
        return float('inf')
    de = a[1] - b[1]
    if abs(de) > (1 << 60):
        return 1e300 if de > 0 else -1e300
    return _log2_dy(abs(a[0]), 0) - _log2_dy(abs(b[0]), 0) + float(de)


def err_bits(computed, E):
    """(log2 of the smallest, log2 of the largest) relative error |c-y|/|y| over the endpoints of E -- for
    reporting only (floats)"""
    c = _dy_of(tuple(computed))
    out = []
    for y in (E.lo, E.hi):
        if y[0] == 0:
            out.append(float('-inf') if c[0] == 0 else float('inf'))
            continue
        d = _absdiff(c, y)
        out.append(_log2_ratio(d, y))
    if E.contains(c):
        return float('-inf'), max(out)
    return min(out), max(out)


def abs_err_bits(computed, part, scale):
    """(log2 min, log2 max) of |c - y| / max|scale| for y in part -- the 'larger part' error measure (floats)"""
    c = _dy_of(tuple(computed))
    dmin, dmax = _dist_to(c, part)
    s = abs(scale).hi
    return _log2_ratio(dmin, s), _log2_ratio(dmax, s)


# ---------------------------------------------------------------------------------------
# self-test:  python -m vf.ball  [--quick] [--only NAME[,NAME..]] [--nproc N]
#   (a) independent integer algorithms for pi, e, ln2, ln10 at 1000 bits
#   (b) exact identities in ball itself, documented formulas vs the cancellation-free forms (also ON the cuts)
#   (c) containment of 3x-precision values of BOTH the working tree and the reference release, 3 precisions,
#       >= 10^4 points per function including adversarial ones
# ---------------------------------------------------------------------------------------

def _st_indep_constants(bits=1000):
    """independent integer algorithms (plain truncated series, error <= number of terms ulps)"""
    W = bits + 100

    def atan_inv(q):
        s, t, k, n = 0, (1 << W) // q, 0, 0
        while t:
            s += t // (2 * k + 1) if not (k & 1) else -(t // (2 * k + 1))
            t //= q * q
            k += 1
            n += 1
        return s, n + 2
    # Takano 1982: pi/4 = 12 atan(1/49) + 32 atan(1/57) - 5 atan(1/239) + 12 atan(1/110443)
    terms = [(12, 49), (32, 57), (-5, 239), (12, 110443)]
    v = err = 0
    for c, q in terms:
        s, n = atan_inv(q)
        v += 4 * c * s
        err += 4 * abs(c) * n
    out = {'pi': (v - err, v + err)}
    # e = sum 1/k!
    s, t, k = 0, 1 << W, 0
    while t:
        s += t
        k += 1
        t //= k
    out['e'] = (s, s + k + 2)
    # ln 2 = sum_{k>=1} 1/(k 2^k)
    s, k = 0, 1
    while (1 << W) >> k:
        s += ((1 << W) >> k) // k
        k += 1
    out['ln2'] = (s, s + k + 2)
    # ln 10 = 3 ln 2 + 2 atanh(1/9)
    a, t, j = 0, (1 << W) // 9, 0
    while t:
        a += t // (2 * j + 1)
        t //= 81
        j += 1
    out['ln10'] = (3 * s + 2 * a, 3 * (s + k + 2) + 2 * (a + j + 2))
    return W, out


def _st_constants(log):
    bad = 0
    W, ind = _st_indep_constants(1000)
    with prec(1000):
        mine = {'pi': pi(), 'e': const_e(), 'ln2': ln2(), 'ln10': ln10()}
    for k, (lo, hi) in ind.items():
        E = mine[k]
        ok = E.contains((lo, -W)) and E.contains((hi, -W)) and E.rel_width_bits() >= 995
        log('constant %-5s 1000 bits: independent value inside the enclosure: %s (good bits %s)' % (k, ok, E.rel_width_bits()))
        bad += not ok
    # hand-checked leading digits
    with prec(200):
        s = str(int(pi().lo_fraction() * 10 ** 50))
        ok = s == '314159265358979323846264338327950288419716939937510'
        log('pi digits %s' % ok)
        bad += not ok
        s = str(int(const_e().lo_fraction() * 10 ** 50))
        ok = s == '271828182845904523536028747135266249775724709369995'
        log('e digits %s' % ok)
        bad += not ok
        s = str(int(ln2().lo_fraction() * 10 ** 50))
        ok = s == '69314718055994530941723212145817656807550013436025'
        log('ln2 digits %s' % ok)
        bad += not ok
    return bad


def _st_rand_dy(r, bits, lo_exp, hi_exp, sign=None):
    m = (1 << (bits - 1)) | r.getrandbits(max(bits - 1, 1)) | 1 if bits > 1 else 1
    top = r.randint(lo_exp, hi_exp)
    s = r.randint(0, 1) if sign is None else sign
    return (-m if s else m), top - m.bit_length()


def _st_identities(say, n=1500):
    import random
    r = random.Random(12345)
    bad = 0

    def fail(msg):
        nonlocal bad
        bad += 1
        if bad <= 10:
            say('IDENTITY FAIL ' + msg)
    for wp in (64, 150, 700):
        with prec(wp):
            for i in range(n):
                bits = r.choice([1, 5, 30, wp // 2, wp])
                x = RB.point(*_st_rand_dy(r, bits, -60, 60))
                ax = abs(x)
                # exp(log x) contains x
                if ax.mag() < 40:
                    y = exp(log(ax))
                    if not y.contains(ax) or y.rel_width_bits() < wp - 12 - max(0, abs(ax.mag())).bit_length():
                        fail('exp(log x) wp=%d x=%r -> %r' % (wp, ax, y))
                    y = log(exp(x)) if x.mag() < 30 else None
                    if y is not None and not y.contains(x):
                        fail('log(exp x) wp=%d x=%r -> %r' % (wp, x, y))
                # sin^2 + cos^2 contains 1
                c, s = cos_sin(x)
                t = c.sqr() + s.sqr()
                if not t.contains(1) or t.rel_width_bits() < wp - 6:
                    fail('sin^2+cos^2 wp=%d x=%r -> %r' % (wp, x, t))
                # atan(tan x) contains x on (-pi/2, pi/2)
                if ax.mag() <= 0:
                    y = atan(tan(x))
                    if not y.contains(x):
                        fail('atan(tan x) wp=%d x=%r -> %r' % (wp, x, y))
                    y = tan(atan(x))
                    if not y.contains(x):
                        fail('tan(atan x) wp=%d x=%r -> %r' % (wp, x, y))
                    y = sin(asin(x))
                    if not y.contains(x):
                        fail('sin(asin x) wp=%d' % wp)
                    y = cos(acos(x))
                    if not y.contains(x):
                        fail('cos(acos x) wp=%d' % wp)
                    y = tanh(atanh(x))
                    if not y.contains(x):
                        fail('tanh(atanh x) wp=%d' % wp)
                if ax.mag() < 20:
                    y = asinh(sinh(x))
                    if not y.contains(x):
                        fail('asinh(sinh x) wp=%d x=%r %r' % (wp, x, y))
                    y = acosh(cosh(x))
                    if not y.contains(ax):
                        fail('acosh(cosh x) wp=%d x=%r %r' % (wp, x, y))
                    y = log1p(expm1(x)) if (x.am > 0 or x.mag() < 5) else x
                    if not y.contains(x):
                        fail('log1p(expm1 x) wp=%d x=%r %r' % (wp, x, y))
                    ch, sh = cosh(x), sinh(x)
                    t = ch.sqr() - sh.sqr()
                    if not t.contains(1):
                        fail('cosh^2-sinh^2 wp=%d' % wp)
                # roots
                k = r.choice([2, 3, 5, 7, 12])
                y = rpow_int(root(ax, k), k)
                if not y.contains(ax):
                    fail('root(x,k)^k wp=%d' % wp)
                # interval monotonicity / inclusion: f([a,b]) contains f(point inside)
                w = RB.point(*_st_rand_dy(r, 20, -30, 2, sign=0))
                X = RB(x.lo, (x + w).hi)
                mid = x + w.ldexp(-1)
                for f in (sin, cos, exp, atan, sinh, tanh, asinh):
                    if f is exp and X.mag() > 30:
                        continue
                    if f is sinh and X.mag() > 30:
                        continue
                    if not f(X).overlaps(f(mid)) or not f(X).contains(f(RB(mid.lo)).lo):
                        fail('inclusion %s wp=%d X=%r' % (f.__name__, wp, X))
            # documented formulas versus the cancellation-free forms, generic + on the cuts
            for i in range(n // 3):
                kind = r.randrange(6)
                if kind == 0:
                    z = CB(RB.point(*_st_rand_dy(r, 30, -8, 4)), RB.point(*_st_rand_dy(r, 30, -8, 4)))
                elif kind == 1:
                    z = CB(RB.point(*_st_rand_dy(r, 30, -8, 4)), ZERO)
                elif kind == 2:
                    z = CB(ZERO, RB.point(*_st_rand_dy(r, 30, -8, 4)))
                elif kind == 3:
                    z = CB(RB.point(*_st_rand_dy(r, 30, 1, 4)), RB.point(*_st_rand_dy(r, 5, -40, -20)))
                elif kind == 4:
                    z = CB(RB.point(*_st_rand_dy(r, 5, -40, -20)), RB.point(*_st_rand_dy(r, 30, 1, 4)))
                else:
                    z = CB(RB.point(*_st_rand_dy(r, 30, -30, -10)), RB.point(*_st_rand_dy(r, 30, -30, -10)))
                one = CB(ONE, ZERO)
                I = CB(ZERO, ONE)
                try:
                    s1z2 = c_sqrt(one - z.sqr())
                    lg = c_log(z.mul_i() + s1z2)
                    doc = {
                        'asin': lg.mul_neg_i(),
                        'acos': CB(pi().ldexp(-1), ZERO) + lg.mul_i(),
                        'atan': (c_log(one - z.mul_i()) - c_log(one + z.mul_i())).mul_i().ldexp(-1),
                        'acosh': c_log(z + c_sqrt(z + one) * c_sqrt(z - one)),
                        'asinh': c_log(z + c_sqrt(one + z.sqr())),
                        'atanh': (c_log(one + z) - c_log(one - z)).ldexp(-1),
                    }
                except Indeterminate:
                    continue
                for name, d in doc.items():
                    try:
                        v = globals()['c_' + name](z)
                    except Indeterminate:
                        continue
                    if not v.overlaps(d):
                        fail('documented formula vs robust form: %s wp=%d z=%r\n   doc=%r\n   got=%r' % (name, wp, z, d, v))
    say('identities: %d failures' % bad)
    return bad


# ---- comparison with mpmath (tree and reference release) ------------------------------------------

_ST_UNARY = ['exp', 'expm1', 'ln', 'log1p', 'sqrt', 'cbrt', 'sin', 'cos', 'tan', 'cot', 'sec', 'csc', 'sinh', 'cosh',
             'tanh', 'coth', 'sech', 'csch', 'asin', 'acos', 'atan', 'asinh', 'acosh', 'atanh', 'asec', 'acsc', 'acot',
             'asech', 'acsch', 'acoth', 'sinpi', 'cospi', 'sinc', 'sincpi', 'expj', 'expjpi', 'arg', 'log10']
_ST_BINARY = ['power', 'powm1', 'atan2', 'hypot', 'log', 'root']
_EXPLIKE = ('exp', 'expm1', 'sinh', 'cosh', 'tanh', 'coth', 'sech', 'csch', 'expj', 'expjpi', 'sinpi', 'cospi', 'sincpi')
_TRIGLIKE = ('sin', 'cos', 'tan', 'cot', 'sec', 'csc', 'sinc', 'expj')


def _st_near_pi2(r, bits):
    """nearest `bits`-bit dyadic to k pi/2, k up to 2^200"""
    k = r.choice([1, 2, 3, 4, 5, 7, r.randint(1, 1000), r.getrandbits(r.choice([20, 64, 200])) | 1])
    W = bits + k.bit_length() + 8
    plo, phi = _pi_fixed(W)
    v = k * plo                                   # k pi 2^W, want k pi / 2
    m, e = v, -W - 1
    bl = m.bit_length()
    if bl > bits:
        s = bl - bits
        m = (m + (1 << (s - 1))) >> s
        e += s
    if r.random() < 0.3:
        m += r.choice([-1, 1])
    if r.random() < 0.5:
        m = -m
    return m, e


def _st_real_point(r, fname, p):
    """(m, e) exact dyadic argument for a real-function test"""
    bits = r.choice([p, p, p, 5, 2 * p, 1, 20])
    k = r.random()
    if fname in ('sinpi', 'cospi', 'sincpi', 'expjpi') and k < 0.3:
        n = r.randint(-50, 50) if r.random() < 0.7 else r.getrandbits(80)
        j = r.choice([0, 0, 1, 2, 3])             # n/4 multiples + tiny offsets
        m, e = 4 * n + j, -2
        if r.random() < 0.5:
            d = r.choice([20, 50, p, 2 * p])
            m, e = (m << d) + r.choice([-1, 1]), e - d
        return m, e
    if fname in _TRIGLIKE and k < 0.3:
        return _st_near_pi2(r, r.choice([p, p, 2 * p, p + 7]))
    if k < 0.25:
        # near +-1: 1 +- 2^-j  (also j > p: long exact mantissas)
        j = r.choice([1, 2, 3, 10, 20, p // 2, p - 1, p, p + 5, 2 * p, r.randint(1, 3 * p)])
        s = r.choice([-1, 1])
        m, e = (1 << j) + r.choice([-1, 1]), -j
        return s * m, e
    if k < 0.33:
        return _st_rand_dy(r, bits, -r.choice([100, 1000, 100000]), -41)
    if k < 0.40:
        if fname in _EXPLIKE or fname in ('power', 'powm1'):
            return _st_rand_dy(r, bits, 5, r.choice([10, 20, 30]))
        if fname in _TRIGLIKE:
            return _st_rand_dy(r, bits, 41, r.choice([100, 1000, 100000]))
        return _st_rand_dy(r, bits, 41, r.choice([100, 1000, 100000]))
    if fname in _EXPLIKE:
        return _st_rand_dy(r, bits, -40, 9)
    return _st_rand_dy(r, bits, -40, 40)


def _st_complex_point(r, fname, p):
    bits = r.choice([p, p, 5, 20, 1])
    k = r.random()
    lim = 9 if (fname in _EXPLIKE or fname in _TRIGLIKE or fname in ('tan', 'cot', 'sec', 'csc')) else 40
    if fname in ('tan', 'cot', 'sec', 'csc', 'tanh', 'coth', 'sech', 'csch'):
        lim = 5

    def rnd():
        return _st_rand_dy(r, bits, -40, lim)
    if k < 0.2:
        return rnd(), rnd()
    if k < 0.3:
        # anisotropic
        a = rnd()
        b = _st_rand_dy(r, bits, a[0].bit_length() + a[1] - r.choice([40, 60, 100, 2 * p]), a[0].bit_length() + a[1] - 33)
        return (a, b) if r.random() < 0.5 else (b, a)
    if k < 0.4:
        # on an axis exactly
        a = rnd()
        return (a, (0, 0)) if r.random() < 0.5 else ((0, 0), a)
    if k < 0.6:
        # near the branch points +-1, +-i
        j = r.choice([1, 5, 20, p // 2, p, 2 * p])
        d = r.choice([(1, 0), (-1, 0), (0, 1), (0, -1), (1, 1), (1, -1), (-1, 1), (-1, -1)])
        c = r.choice([(1, 0), (-1, 0), (0, 1), (0, -1)])
        re = ((c[0] << j) + d[0], -j)
        im = ((c[1] << j) + d[1], -j)
        return re, im
    if k < 0.75:
        # next to the real / imaginary axis beyond the branch points (both sides of the cuts), and on them
        a = _st_rand_dy(r, bits, -2, 6)
        j = r.choice([10, 50, p, 2 * p, 1000])
        t = r.choice([(1, -j), (-1, -j), (0, 0)])
        return (a, t) if r.random() < 0.5 else (t, a)
    if k < 0.85 and (fname in _TRIGLIKE or fname in ('tan', 'cot', 'sec', 'csc')):
        a = _st_near_pi2(r, r.choice([p, 2 * p]))
        if a[0].bit_length() + a[1] > 30:
            a = _st_near_pi2(r, p)
        j = r.choice([10, 50, p, 2 * p])
        t = r.choice([(1, -j), (-1, -j), (3, -j - 2)])
        return a, t
    if k < 0.9:
        return _st_rand_dy(r, bits, -1000, -41), _st_rand_dy(r, bits, -1000, -41)
    return rnd(), rnd()


def _st_raw(m, e):
    if m == 0:
        return (0, 0, 0, 0)
    s = 1 if m < 0 else 0
    m = abs(m)
    t = (m & -m).bit_length() - 1
    m >>= t
    return (s, m, e + t, m.bit_length())


def _st_args(r, fname, kind, p):
    """list of specs"""
    def R():
        return ('R', _st_raw(*_st_real_point(r, fname, p)))

    def C():
        a, b = _st_complex_point(r, fname, p)
        return ('C', _st_raw(*a), _st_raw(*b))
    if fname in _ST_UNARY:
        return [R() if kind == 'R' else C()]
    if fname in ('atan2', 'hypot'):
        a = _st_rand_dy(r, p, -40, 40)
        b = _st_rand_dy(r, p, -40, 40)
        q = r.random()
        if q < 0.1:
            a = (0, 0)
        elif q < 0.2:
            b = (0, 0)
        elif q < 0.4:
            b = _st_rand_dy(r, p, -1000, 1000)
        if a[0] == 0 and b[0] == 0:
            b = (1, 0)
        return [('R', _st_raw(*a)), ('R', _st_raw(*b))]
    if fname == 'root':
        n = r.choice([1, 2, 3, 4, 5, 7, 10, 12, 50, 1000])
        x = R() if kind == 'R' else C()
        return [x, ('I', n)]
    if fname == 'log':
        x = R() if kind == 'R' else C()
        b = ('R', _st_raw(*_st_rand_dy(r, r.choice([2, 10, p]), -5, 10, sign=0)))
        if r.random() < 0.15:
            b = ('R', _st_raw(*_st_rand_dy(r, p, -3, 3, sign=1)))
        if b[1] == (0, 1, 0, 1):
            b = ('I', 10)
        if r.random() < 0.2:
            b = ('I', r.choice([2, 10, 16, 3]))
        return [x, b]
    if fname in ('power', 'powm1'):
        q = r.random()
        if kind == 'R':
            base = _st_rand_dy(r, p, -8, 8, sign=0 if q < 0.7 else None)
            if fname == 'powm1' and r.random() < 0.4:
                j = r.choice([5, 20, p - 1, 2 * p])
                base = ((1 << j) + r.choice([-1, 1]), -j)
            x = ('R', _st_raw(*base))
        else:
            a, b = _st_complex_point(r, 'ln', p)
            x = ('C', _st_raw(*a), _st_raw(*b))
        q = r.random()
        if q < 0.3:
            y = ('I', r.randint(-20, 20))
        elif q < 0.45:
            y = ('R', _st_raw(2 * r.randint(-10, 10) + 1, -1))
        elif q < 0.8 or kind == 'R':
            y = ('R', _st_raw(*_st_rand_dy(r, p, -30 if fname == 'powm1' else -8, 5)))
        else:
            y = ('C', _st_raw(*_st_rand_dy(r, p, -8, 4)), _st_raw(*_st_rand_dy(r, p, -8, 4)))
        return [x, y]
    raise KeyError(fname)


def _st_parts(v):
    """(re_raw, im_raw or None) of an mpmath value"""
    if hasattr(v, '_mpf_'):
        return tuple(v._mpf_), None
    if hasattr(v, '_mpc_'):
        return tuple(v._mpc_[0]), tuple(v._mpc_[1])
    return None


def _st_finite(raw):
    return raw is None or raw[1] != 0 or raw == (0, 0, 0, 0)


def _st_contains(E, parts):
    re, im = parts
    re = (re[0], int(re[1]), re[2], re[3])
    if im is not None:
        im = (im[0], int(im[1]), im[2], im[3])
    if isinstance(E, RB):
        if im is not None and im != (0, 0, 0, 0):
            return False
        return E.contains(re)
    if im is None:
        im = (0, 0, 0, 0)
    return E.re.contains(re) and E.im.contains(im)


def _st_aniso(E):
    """how many bits the smaller part of a complex enclosure lies below the larger one (mpmath computes the
    larger part to the working precision only: its smaller part needs that many extra bits)"""
    if not isinstance(E, CB):
        return 0
    a, b = E.re.mag(), E.im.mag()
    if a is None or b is None:
        return 0
    # mpmath's complex inverse functions are accurate in the absolute sense only (relative to 1, or to the larger
    # part): the smaller part gets relative accuracy when the precision exceeds its distance below max(1, larger)
    return min(max(abs(a - b), -min(a, b)), 130000)


def _st_compare_task(task):
    """worker: one (function, kind, precision) cell"""
    import os, sys, random, time
    fname, kind, p, npts, seed = task
    repo = os.environ.get('VERIF_REPO', '/repo')
    if repo not in sys.path:
        sys.path.insert(0, repo)
    import mpmath
    from vf import refmodel
    from vf.catalog import build
    libs = [('tree', mpmath.mp), ('ref', refmodel.ref().mp)]
    r = random.Random('ball:%s:%s:%s:%s' % (fname, kind, p, seed))
    res = {'task': task, 'n': 0, 'indet': 0, 'skipped': 0, 'escalated': 0, 'ok': 0, 'one_lib_only': 0, 'fails': [],
           'wide': 0, 'ball_s': 0.0, 'notes': []}
    wp = p + 32
    for i in range(npts):
        specs = _st_args(r, fname, kind, p)
        t0 = time.time()
        # first level that yields a finite enclosure (arguments with more bits than wp may need the next level)
        enc = enclose(fname, specs, p, decide=lambda v: 'any', levels=[wp, 2 * p + 64, 4 * p + 128])
        E = enc.value
        res['ball_s'] += time.time() - t0
        if E is None:
            res['indet'] += 1
            if len(res['notes']) < 3:
                res['notes'].append('indet %s %s' % (specs, enc.reason))
            continue
        if not _good(E, p + 8, 'larger'):
            res['wide'] += 1
        verdicts = []
        for lname, lib in libs:
            got = None
            xtra = _st_aniso(E)
            for level, mpprec in enumerate((3 * p, 8 * p + 200, 3 * p + 64 + xtra, 8 * p + 400 + 2 * xtra)):
                if level >= 2 and mpprec <= 8 * p + 200:
                    break
                old = lib.prec
                lib.prec = mpprec
                try:
                    args = [build(lib, s) for s in specs]
                    v = getattr(lib, fname)(*args)
                    parts = _st_parts(v)
                except Exception as ex:
                    parts = None
                finally:
                    lib.prec = old
                if parts is None or not (_st_finite(parts[0]) and _st_finite(parts[1])):
                    got = 'skip'
                    break
                if _st_contains(E, parts):
                    got = 'ok' if level == 0 else 'ok-escalated'
                    break
                got = ('miss', parts)
            verdicts.append(got)
        if all(v == 'skip' for v in verdicts):
            res['skipped'] += 1
            continue
        res['n'] += 1
        oks = [v for v in verdicts if isinstance(v, str) and v.startswith('ok')]
        if any(v == 'ok-escalated' for v in verdicts):
            res['escalated'] += 1
        misses = [v for v in verdicts if isinstance(v, tuple)]
        if misses and not oks:
            if len(res['fails']) < 5:
                res['fails'].append({'specs': specs, 'ball': repr(E), 'mp': repr(misses[0][1])})
            else:
                res['fails'].append(None)
        elif misses:
            res['one_lib_only'] += 1
            if len(res['notes']) < 3:
                res['notes'].append('only one library inside: %s %s' % (specs, verdicts))
        else:
            res['ok'] += 1
    res['nfail'] = len(res['fails'])
    res['fails'] = [f for f in res['fails'] if f]
    return res


def selftest(argv=None):
    import sys, os, time, argparse
    ap = argparse.ArgumentParser(prog='python -m vf.ball')
    ap.add_argument('--quick', action='store_true', help='1/10 of the comparison points')
    ap.add_argument('--only', default=None)
    ap.add_argument('--nproc', type=int, default=int(os.environ.get('VERIF_NPROC', '8')))
    ap.add_argument('--points', type=int, default=None, help='points per (function, kind, precision) cell')
    a = ap.parse_args(argv)
    t0 = time.time()

    def log(s):
        print(s)
        sys.stdout.flush()
    bad = 0
    if not a.only:
        bad += _st_constants(log)
        bad += _st_identities(log, 300 if a.quick else 1500)
    precs = (53, 113, 400)
    tasks = []
    for fname in _ST_UNARY + _ST_BINARY:
        if a.only and fname not in a.only.split(','):
            continue
        kinds = ['R'] if fname in ('atan2', 'hypot') else ['R', 'C']
        per = a.points or (170 if a.quick else 1700)      # x 2 kinds x 3 precisions >= 10^4 per function
        if len(kinds) == 1:
            per *= 2
        for kind in kinds:
            for p in precs:
                tasks.append((fname, kind, p, per, 0))
    from vf import refmodel
    refmodel.ensure_ref()
    import multiprocessing as mpc_
    ctx = mpc_.get_context('fork')
    results = []
    with ctx.Pool(a.nproc) as pool:
        for res in pool.imap_unordered(_st_compare_task, tasks, chunksize=1):
            results.append(res)
    per_f = {}
    for res in results:
        fname = res['task'][0]
        d = per_f.setdefault(fname, {'n': 0, 'ok': 0, 'nfail': 0, 'indet': 0, 'skipped': 0, 'escalated': 0, 'one_lib_only': 0,
                                     'wide': 0, 'ball_s': 0.0, 'fails': [], 'notes': []})
        for k in ('n', 'ok', 'nfail', 'indet', 'skipped', 'escalated', 'one_lib_only', 'wide', 'ball_s'):
            d[k] += res[k]
        d['fails'].extend(res['fails'][:2])
        d['notes'].extend(res['notes'][:1])
    log('%-8s %7s %7s %6s %6s %6s %6s %6s %6s %9s' % ('function', 'points', 'ok', 'FAIL', 'indet', 'skip', 'escal', '1lib', 'wide', 'ms/value'))
    for fname in sorted(per_f):
        d = per_f[fname]
        tot = d['n'] + d['indet']
        log('%-8s %7d %7d %6d %6d %6d %6d %6d %6d %9.3f' % (fname, d['n'], d['ok'], d['nfail'], d['indet'], d['skipped'],
                                                           d['escalated'], d['one_lib_only'], d['wide'],
                                                           1e3 * d['ball_s'] / max(1, tot)))
        for f in d['fails'][:3]:
            log('   FAIL %s' % (f,))
        bad += d['nfail']
        if d['n'] and d['indet'] > 0.2 * (d['n'] + d['indet']):
            log('   too many indeterminate enclosures for %s' % fname)
            bad += 1
        if not a.quick and not a.points and not a.only and d['n'] < 10000:
            log('   fewer than 10^4 compared points for %s' % fname)
            bad += 1
    log('ball self-test: %d problem(s), %.1f s' % (bad, time.time() - t0))
    return 1 if bad else 0


if __name__ == '__main__':
    import sys
    sys.exit(selftest())


def nearest_pi2_multiple(m, e):
    """for classifiers: (n, log2|x - n pi/2|) for the exact dyadic x = m 2^e (float log, -inf for x = 0)"""
    if m == 0:
        return 0, float('-inf')
    n, sg, alo, ale, ahi, ahe = _reduce_pi2(m, e, 30)
    return n, _log2_dy(ahi, ahe)
