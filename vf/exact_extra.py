"""exact_extra -- helpers on top of exactq for C03..C06 (no mpmath import).

* ``PQ``: a non-negative rational ``num/den * 2**e`` with an exponent of any size; exact comparison and
  exact distance tests that never materialise 2**e (so they work for x**(10**12)).
* ``pow_enclosure``: rigorous bracket  lo <= man**n * 2**(exp*n) <= hi  by binary exponentiation on integer
  mantissas with outward truncation (independent of mpmath; used when the exact power is too large).
* ``side_verdict`` / ``ulp_verdict``: three-valued verdicts (True held / False violated / None undecided) of
  "directed result on the right side of every value of the enclosure" and "within one ulp of every value".
* exact Gaussian-rational helpers for C04, Python reference hashes for C05.
"""
from fractions import Fraction
import math
from . import exactq as Q

SPREAD_CAP = 6_000_000


class PQ(object):
    """num/den * 2**e, num >= 0, den > 0"""
    __slots__ = ('num', 'den', 'e')

    def __init__(self, num, den=1, e=0):
        assert num >= 0 and den > 0
        self.num, self.den, self.e = num, den, e

    def is_zero(self):
        return self.num == 0

    def top(self):
        """t with 2**(t-1) <= value < 2**(t+1) (value > 0)"""
        return self.e + self.num.bit_length() - self.den.bit_length() + 1

    def floor_log2(self):
        """exact k with 2**k <= value < 2**(k+1)"""
        k = self.num.bit_length() - self.den.bit_length()
        # num/den in [2^(k-1), 2^(k+1))
        if k >= 0:
            ok = self.num >= (self.den << k)
        else:
            ok = (self.num << (-k)) >= self.den
        if not ok:
            k -= 1
        return k + self.e

    def __repr__(self):
        return 'PQ(%d-bit/%d-bit * 2^%s)' % (self.num.bit_length(), self.den.bit_length(), self.e)


def pq_from_ex(x):
    """|x| of a finite exactq value (s == 0)"""
    assert not Q.is_special(x) and x.s == 0
    return PQ(abs(x.n), x.d, x.e)


def pq_from_raw(t):
    sign, man, exp, bc = t
    return PQ(int(man), 1, exp)


def pq_cmp(a, b):
    """exact three-way comparison of two PQ values; None when it would need an astronomically large shift
    *and* the magnitudes do not already decide it (cannot happen for values of similar size)"""
    if a.num == 0 or b.num == 0:
        return (a.num > 0) - (b.num > 0)
    ta, tb = a.top(), b.top()
    if ta - tb >= 3:
        return 1
    if tb - ta >= 3:
        return -1
    # a.num * b.den * 2^a.e  vs  b.num * a.den * 2^b.e
    x, y = a.num * b.den, b.num * a.den
    d = a.e - b.e
    if abs(d) > SPREAD_CAP:
        return None
    if d >= 0:
        x <<= d
    else:
        y <<= -d
    return (x > y) - (x < y)


def pq_dist_le(a, b, k):
    """|a - b| <= 2**k ?  (exact; None if undecidable for size reasons)"""
    # |a.num*b.den*2^a.e - b.num*a.den*2^b.e| <= a.den*b.den*2^k
    E = min(a.e if a.num else k, b.e if b.num else k, k)
    sa, sb, sk = (a.e - E if a.num else 0), (b.e - E if b.num else 0), k - E
    if max(sa, sb, sk) > SPREAD_CAP:
        # grossly different magnitudes: decide by magnitude where that is certain
        if a.num and b.num:
            ta, tb = a.top(), b.top()
            big = max(ta, tb)
            if abs(ta - tb) >= 4 and k <= big - 4:
                return False      # |a-b| >= larger/2 >= 2^(big-2) > 2^k
        return None
    x = (a.num * b.den) << sa
    y = (b.num * a.den) << sb
    return abs(x - y) <= ((a.den * b.den) << sk)


# ---------------------------------------------------------------------------------------
# enclosure of integer powers
# ---------------------------------------------------------------------------------------

def _trunc(m, e, W, up):
    bl = m.bit_length()
    if bl <= W:
        return m, e
    sh = bl - W
    if up:
        return -((-m) >> sh), e + sh
    return m >> sh, e + sh


def pow_enclosure(man, exp, n, W):
    """(lo, hi) PQ values with lo <= man**n * 2**(exp*n) <= hi, n >= 1, man >= 1; all intermediate mantissas
    are kept to W bits, lower bounds truncated down and upper bounds rounded up (products of positive
    numbers are monotone in each factor)."""
    assert n >= 1 and man >= 1
    lm, le = man, exp      # lower bound of the running square
    hm, he = man, exp
    rl = rh = None         # running product
    while True:
        if n & 1:
            if rl is None:
                rl, rh = (lm, le), (hm, he)
            else:
                rl = _trunc(rl[0] * lm, rl[1] + le, W, False)
                rh = _trunc(rh[0] * hm, rh[1] + he, W, True)
        n >>= 1
        if not n:
            break
        lm, le = _trunc(lm * lm, le + le, W, False)
        hm, he = _trunc(hm * hm, he + he, W, True)
    return PQ(rl[0], 1, rl[1]), PQ(rh[0], 1, rh[1])


def pq_inverse(a):
    return PQ(a.den, a.num, -a.e)


def power_bounds(raw, n, W=None, exact_limit=200_000):
    """For a finite nonzero raw base and integer n != 0 return (sign, lo, hi, exact) with
    lo <= |x**n| <= hi (PQ); exact is True when lo == hi is the exact value."""
    sign, man, exp, bc = raw
    man = int(man)
    rs = sign & (n & 1)
    k = abs(n)
    if man == 1:
        v = PQ(1, 1, exp * n)
        return rs, v, v, True
    if bc * k <= exact_limit:
        v = PQ(man ** k, 1, exp * k)
        if n < 0:
            v = pq_inverse(v)
        return rs, v, v, True
    lo, hi = pow_enclosure(man, exp, k, W)
    if n < 0:
        lo, hi = pq_inverse(hi), pq_inverse(lo)
    return rs, lo, hi, False


def side_verdict(got_raw, rs, lo, hi, mode):
    """Is a directed-rounding result on the permitted side of the exact value v, sign(v) = -1**rs,
    lo <= |v| <= hi?  True: for every admissible v; False: for no admissible v; None: depends on v."""
    gs, gm, ge, gbc = got_raw
    if not gm:
        if got_raw != Q.fzero:
            return False                      # inf/nan for a finite nonzero power
        # got == 0: v > 0: floor/down side ok; v < 0: ceiling/down side ok
        if mode == 'd':
            return True
        if mode == 'u':
            return False
        return (mode == 'f') == (rs == 0)
    g = pq_from_raw(got_raw)
    if gs != rs:
        # opposite sign: only floor (got negative, v positive) / ceiling (got positive, v negative) are "sides"
        if mode == 'f':
            return gs == 1
        if mode == 'c':
            return gs == 0
        return False
    # same sign: compare magnitudes
    if mode in ('d', 'u'):
        want_small = (mode == 'd')
    elif mode == 'f':
        want_small = (rs == 0)
    elif mode == 'c':
        want_small = (rs == 1)
    else:
        raise ValueError(mode)
    if want_small:                            # need |got| <= |v|
        c = pq_cmp(g, lo)
        if c is not None and c <= 0:
            return True
        c = pq_cmp(g, hi)
        if c is not None and c > 0:
            return False
        return None
    c = pq_cmp(g, hi)                         # need |got| >= |v|
    if c is not None and c >= 0:
        return True
    c = pq_cmp(g, lo)
    if c is not None and c < 0:
        return False
    return None


def ulp_verdict(got_raw, rs, lo, hi, p):
    """|got - v| <= 1 ulp of v at precision p (2 ulp(v) when got lies in the next binade above v, i.e. one ulp of
    the returned value) for every / no admissible v with lo <= |v| <= hi.  Returns (verdict, err_ulps_estimate)."""
    gs, gm, ge, gbc = got_raw
    if not gm:
        if got_raw != Q.fzero:
            return False, None
        g = PQ(0)
    else:
        g = pq_from_raw(got_raw)
    klo, khi = lo.floor_log2(), hi.floor_log2()
    if gm and gs != rs:
        # wrong sign: distance is |got| + |v| >= |v| >= 2^k >= ulp; equality only for p == 1 and got -> 0 (excluded)
        return False, None
    gk = g.floor_log2() if gm else None

    def tol(k):
        t = k - p + 1
        if gk is not None and gk == k + 1:
            t += 1
        return t
    # held: both endpoints within the smaller tolerance
    t_small = min(tol(klo), tol(khi))
    a = pq_dist_le(g, lo, t_small)
    b = a if lo is hi else pq_dist_le(g, hi, t_small)
    est = None
    if a and b:
        return True, est
    # violated: got outside [lo, hi] and farther than the larger tolerance from the nearer endpoint
    t_big = max(tol(klo), tol(khi))
    c_lo = pq_cmp(g, lo)
    c_hi = pq_cmp(g, hi)
    if c_lo is not None and c_lo < 0:
        d = pq_dist_le(g, lo, t_big)
        if d is False:
            return False, est
    elif c_hi is not None and c_hi > 0:
        d = pq_dist_le(g, hi, t_big)
        if d is False:
            return False, est
    return None, est


def err_in_ulps(got_raw, v, p):
    """float estimate of |got - v| / ulp(v) for an exact PQ v (reporting only)"""
    try:
        g = pq_from_raw(got_raw)
        k = v.floor_log2()
        E = min(g.e, v.e)
        if max(g.e, v.e) - E > SPREAD_CAP:
            return float('inf')
        x = (g.num * v.den) << (g.e - E)
        y = (v.num * g.den) << (v.e - E)
        num, den = abs(x - y), v.den * g.den
        # num/den * 2^E / 2^(k-p+1)
        sh = E - (k - p + 1)
        if abs(sh) > SPREAD_CAP:
            return float('inf')
        if sh >= 0:
            num <<= sh
        else:
            den <<= -sh
        return num / den          # CPython int/int true division: correctly rounded, any size
    except (OverflowError, MemoryError):
        return float('inf')


# ---------------------------------------------------------------------------------------
# complex helpers (components are exactq values)
# ---------------------------------------------------------------------------------------

def cmul(a, b, c, d):
    """(a+bi)(c+di) exactly -> (re, im)"""
    return Q.sub(Q.mul(a, c), Q.mul(b, d)), Q.add(Q.mul(a, d), Q.mul(b, c))


def gauss_pow(am, bm, n):
    """(am + i bm)**n for Python ints, n >= 0, by repeated squaring written with the binomial-free recurrence
    (kept separate from mpmath's complex_int_pow: left-to-right bits instead of right-to-left)"""
    re, im = 1, 0
    for bit in bin(n)[2:]:
        re, im = re * re - im * im, 2 * re * im
        if bit == '1':
            re, im = re * am - im * bm, re * bm + im * am
    return re, im


def common_grid(a, b):
    """two finite raw reals -> (A, B, e) signed ints on the common exponent e = min exponent (zero allowed)"""
    (sa, ma, ea, _), (sb, mb, eb, _) = a, b
    ma, mb = int(ma), int(mb)
    if not ma and not mb:
        return 0, 0, 0
    if not ma:
        return 0, (-mb if sb else mb), eb
    if not mb:
        return (-ma if sa else ma), 0, ea
    e = min(ea, eb)
    A = ma << (ea - e)
    B = mb << (eb - e)
    return (-A if sa else A), (-B if sb else B), e


def frac_of_raw(t):
    sign, man, exp, bc = t
    man = int(man)
    if sign:
        man = -man
    if exp >= 0:
        return Fraction(man << exp)
    return Fraction(man, 1 << (-exp))


# ---------------------------------------------------------------------------------------
# Python objects equal to raw values / reference hashes
# ---------------------------------------------------------------------------------------

def as_float(raw):
    """the Python float exactly equal to a raw real, or None"""
    sign, man, exp, bc = raw
    if not man:
        if raw == Q.fzero:
            return 0.0
        if raw == Q.finf:
            return math.inf
        if raw == Q.fninf:
            return -math.inf
        return math.nan
    if bc > 53:
        return None
    top = exp + bc          # value in [2^(top-1), 2^top)
    if top > 1024:
        return None
    if exp < -1074:
        return None
    v = math.ldexp(int(man), exp)
    return -v if sign else v


def as_int(raw, cap=200_000):
    sign, man, exp, bc = raw
    if not man:
        return 0 if raw == Q.fzero else None
    if exp < 0 or exp + bc > cap:
        return None
    v = int(man) << exp
    return -v if sign else v


_W = Q._sys.hash_info.width
_IMAG = Q._sys.hash_info.imag


def complex_hash_ref(hre, him):
    """CPython's rule for combining component hashes into hash(complex): unsigned wrap, reinterpret signed, -1 -> -2"""
    h = (hre + _IMAG * him) % (1 << _W)
    if h >= 1 << (_W - 1):
        h -= 1 << _W
    if h == -1:
        h = -2
    return h


def rid(t):
    """compact identity of a raw real for case idents (hex mantissa: repr of huge ints in decimal is quadratic)"""
    return (t[0], '%x' % t[1], t[2])


def iroot(N, n):
    """floor of the n-th root of a non-negative int (integer Newton iteration from above)"""
    if N < 2 or n == 1:
        return N
    x = 1 << -(-N.bit_length() // n)
    while True:
        y = ((n - 1) * x + N // x ** (n - 1)) // n
        if y >= x:
            return x
        x = y
