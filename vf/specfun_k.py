"""Extensions of the shared special-function engine (vf/specfun.py, read-only for me) used by C21, C22, C23.

* ``run``: same stratified cell loop as specfun.run (cells in a fixed, seed-independent order; concrete values from the
  seeded rng) but cells may also be ``Custom`` checks (zero finders, exact Fraction oracle, defining-relation
  monitors); per-function evaluation / undecided counters; per-regime time caps.
* generator helpers: rational parameters, parameters near non-positive integers, polar complex numbers,
  near-coincident parameter pairs.
* ``relation_case``: decide a tree value against a *defining relation* evaluated with the reference release at high
  precision (used where the consensus sources conflict).
"""
import math, time, collections, signal
from fractions import Fraction
from . import refmodel, gens as G
from . import specfun as S
from .specfun import Regime, Timeout
from .catalog import R, C, I, raw_rand, canon, raw_from_float

PRECS_LIGHT = S.PRECS_LIGHT
PRECS_HEAVY = S.PRECS_HEAVY
PRECS_VHEAVY = [10, 15, 30, 53, 64, 100]
PRECS_HP = [2500, 3000, 3500]          # thresholds named in DESIGN 2.4 (series / cache switches)


def HP(rg, tmax=20):
    """mark a cell as member of the high-precision stratum"""
    rg.hp, rg.precs, rg.tmax = True, PRECS_HP, tmax
    return rg


def _prof_alarm(signum, frame):
    raise Timeout()


class time_limit(object):
    """CPU-time limit (ITIMER_PROF: user+system time of this process), so that a loaded machine does not turn slow
    wall-clock progress into spurious timeouts; raises specfun.Timeout (a BaseException)"""
    def __init__(self, seconds):
        self.s = seconds

    def __enter__(self):
        self.old = signal.signal(signal.SIGPROF, _prof_alarm)
        signal.setitimer(signal.ITIMER_PROF, self.s)

    def __exit__(self, *a):
        signal.setitimer(signal.ITIMER_PROF, 0)
        signal.signal(signal.SIGPROF, self.old)
        return False


class Custom(object):
    """A cell whose verdict is produced by its own oracle.  check(tree_mp, rec, r, p, bits, cell) -> verdict string;
    the check itself calls rec.case / rec.violation / rec.undecided."""
    fn = None
    kwargs = None
    tol_exp = None

    def __init__(self, label, check, precs=None, weight=1, heavy=False, tmax=None):
        self.label, self.check, self.precs, self.weight, self.heavy, self.tmax = label, check, precs, weight, heavy, tmax


def RG(label, gen, fn=None, kwargs=None, precs=None, weight=1, heavy=False, tol_exp=None, tmax=None, ref_extra=0, relation=None):
    """Regime with an optional per-regime time cap (seconds for the tree evaluation; reference gets 6x), extra reference
    precision (int or callable(specs) -> int; for cells where the release loses bits by cancellation) and an optional
    defining relation f(lib_mp, *args) used as a third reference source"""
    rg = Regime(label, gen, fn=fn, kwargs=kwargs, precs=precs, weight=weight, heavy=heavy, tol_exp=tol_exp)
    rg.tmax, rg.ref_extra, rg.relation = tmax, ref_extra, relation
    return rg


# ---- generators -------------------------------------------------------------------------------

def dyadic(num_lo, num_hi, den_log2_max, nonzero=True):
    """small dyadic rational  n / 2^j  as an exact real"""
    def g(r, b):
        while True:
            n = r.randint(num_lo, num_hi)
            if n or not nonzero:
                break
        j = r.randint(0, den_log2_max)
        return R(canon(1 if n < 0 else 0, abs(n), -j))
    return g


def near_npint(nmax=6, kmin=4, kmax=60, complex_offset=False):
    """-n +- 2^-k  for n in 0..nmax  (parameter next to a non-positive integer)"""
    def g(r, b):
        n = r.randint(0, nmax)
        k = r.randint(kmin, kmax)
        num = -(n << k) + r.choice([-1, 1])
        re = canon(1 if num < 0 else 0, abs(num), -k)
        if complex_offset:
            return C(re, raw_rand(r, min(b, 20), -kmax, -kmin))
        return R(re)
    return g


def near_int(lo, hi, kmin=4, kmax=60):
    """n +- 2^-k for integer n in lo..hi"""
    def g(r, b):
        n = r.randint(lo, hi)
        k = r.randint(kmin, kmax)
        num = (n << k) + r.choice([-1, 1])
        return R(canon(1 if num < 0 else 0, abs(num), -k))
    return g


def near_half_int(lo, hi, kmin=4, kmax=60):
    def g(r, b):
        n = 2 * r.randint(lo, hi) + 1
        k = r.randint(kmin, kmax)
        num = (n << (k - 1)) + r.choice([-1, 1])
        return R(canon(1 if num < 0 else 0, abs(num), -k))
    return g


def polar(rad_lo, rad_hi, ang_lo=-math.pi, ang_hi=math.pi):
    """complex number with modulus in [rad_lo, rad_hi] and argument in [ang_lo, ang_hi] (53-bit components)"""
    def g(r, b):
        rad = rad_lo + (rad_hi - rad_lo) * r.random()
        ang = ang_lo + (ang_hi - ang_lo) * r.random()
        return C(raw_from_float(rad * math.cos(ang)), raw_from_float(rad * math.sin(ang)))
    return g


def polar_log(lo_exp, hi_exp, ang_lo=-math.pi, ang_hi=math.pi):
    """modulus log-uniform in 2^[lo_exp, hi_exp] (any exponent range: the binary exponent is shifted exactly)"""
    def g(r, b):
        e = lo_exp + (hi_exp - lo_exp) * r.random()
        ei = int(math.floor(e))
        rad = 2.0 ** (e - ei)
        ang = ang_lo + (ang_hi - ang_lo) * r.random()

        def sh(raw):
            return canon(raw[0], raw[1], raw[2] + ei) if raw[1] else raw
        return C(sh(raw_from_float(rad * math.cos(ang))), sh(raw_from_float(rad * math.sin(ang))))
    return g


def uniform(lo, hi):
    """real uniform in [lo, hi] with 53-bit mantissa"""
    return lambda r, b: R(raw_from_float(lo + (hi - lo) * r.random()))


def uniform_bits(lo, hi):
    """real uniform in [lo,hi], mantissa length = requested bits (exercises long / short operands)"""
    def g(r, b):
        x = lo + (hi - lo) * r.random()
        raw = raw_from_float(x)
        if raw[1] == 0:
            return R(raw)
        s, m, e, bc = raw
        if b > bc:
            m = (m << (b - bc)) | r.getrandbits(b - bc) | 1
            e -= (b - bc)
        elif b < bc:
            m = (m >> (bc - b)) | 1
            e += (bc - b)
        return R(canon(s, m, e))
    return g


def float_choice(*vals):
    return lambda r, b: R(raw_from_float(r.choice(vals)))


def one_of(*gens):
    return lambda r, b: r.choice(gens)(r, b)


def avoid_npint(gen, also_int=False):
    """reject values that are non-positive integers (poles of lower parameters); also_int: reject every integer"""
    def g(r, b):
        for _ in range(50):
            s = gen(r, b)
            if s[0] == 'C':
                return s
            f = spec_fraction(s)
            if f.denominator != 1 or (f > 0 and not also_int):
                return s
        return s
    return g


def coincident(base_gen, kmin=6, kmax=50, integer_shift=(0, 0)):
    """pair of specs (a, a + n + 2^-k): near-degenerate parameter coincidence for hypercomb (returns a list of 2 specs)"""
    def g(r, b):
        a = base_gen(r, b)
        assert a[0] == 'R'
        s, m, e, bc = a[1]
        fa = Fraction(-m if s else m) * Fraction(2) ** e
        k = r.randint(kmin, kmax)
        fb = fa + r.randint(*integer_shift) + Fraction(r.choice([-1, 1]), 2 ** k)
        return [a, R(frac_raw(fb))]
    return g


def frac_raw(f):
    """raw tuple of a dyadic Fraction"""
    n, d = f.numerator, f.denominator
    assert d & (d - 1) == 0
    return canon(1 if n < 0 else 0, abs(n), -(d.bit_length() - 1))


def flat(*gens):
    """like specfun.args but generators may return a list of specs (spliced)"""
    def g(r, b):
        out = []
        for gg in gens:
            v = gg(r, b)
            if isinstance(v, list):
                out.extend(v)
            else:
                out.append(v)
        return out
    return g


def spec_fraction(s):
    """exact Fraction of an I / R spec"""
    if s[0] == 'I':
        return Fraction(s[1])
    assert s[0] == 'R'
    sg, m, e, bc = s[1]
    return Fraction(-m if sg else m) * Fraction(2) ** e


# ---- consensus with extra working precision and an optional defining-relation source ---------------------

def _num(v):
    return refmodel._numeric(v)


def _two_prec(lib_mp, fn, specs, plo, phi, kwargs, p):
    """value at phi if the evaluations at plo and phi agree to 2^-(p+32), else None; (value, reason)"""
    rm = rmp()
    try:
        lo = refmodel.call(lib_mp, fn, specs, plo, kwargs)
        hi = refmodel.call(lib_mp, fn, specs, phi, kwargs)
    except Timeout:
        raise
    except Exception as e:
        return None, 'raised: %s' % type(e).__name__
    if not (_num(lo) and _num(hi)):
        return None, 'non-numeric'
    if lib_mp is not rm:
        lo, hi = refmodel.to_ref(rm, lo), refmodel.to_ref(rm, hi)
    with at_prec(rm, phi + 64):
        lo, hi = rm.mpmathify(lo), rm.mpmathify(hi)
        if refmodel._relclose(rm, lo, hi, p + 32):
            return hi, None
    return None, 'not self-consistent'


def consensus_x(tree_mp, fn, specs, p, kwargs, extra=0, relation=None):
    """(refvalue, info).  Sources: R1 = release 1.3.0 (p+64+extra and 2p+200+extra must agree), R2 = tree at
    3p+300+extra, R3 = defining relation evaluated with the release (two precisions must agree).  Two sources that agree
    to 2^-(p+32) give the reference."""
    rm = rmp()
    plo, phi, ptree = p + 64 + extra, 2 * p + 200 + extra, 3 * p + 300 + extra
    r1, why1 = _two_prec(rm, fn, specs, plo, phi, kwargs, p)
    t_hi = None
    why2 = None
    try:
        t = refmodel.call(tree_mp, fn, specs, ptree, kwargs)
        if _num(t):
            t_hi = refmodel.to_ref(rm, t)
        else:
            why2 = 'non-numeric'
    except Timeout:
        raise
    except Exception as e:
        why2 = 'raised: %s' % type(e).__name__
    with at_prec(rm, phi + 64):
        if r1 is not None and t_hi is not None and refmodel._relclose(rm, r1, t_hi, p + 32):
            return r1, 'R1+R2'
    r3 = why3 = None
    if relation is not None:
        r3, why3 = _two_prec(rm, relation, specs, plo, phi, kwargs, p)
        with at_prec(rm, phi + 64):
            if r3 is not None and r1 is not None and refmodel._relclose(rm, r1, r3, p + 32):
                return r1, 'R1+R3'
            if r3 is not None and t_hi is not None and refmodel._relclose(rm, t_hi, r3, p + 32):
                return r3, 'R2+R3'
    if r1 is None and t_hi is None and r3 is None:
        return None, 'all sources failed (R1 %s; tree@hi %s%s)' % (why1, why2, '; relation %s' % why3 if relation else '')
    if r1 is not None and t_hi is None and r3 is None:
        return None, 'tree %s at high precision; single source' % why2
    if r1 is None and (t_hi is not None) and r3 is None:
        return None, 'R1 %s; single source' % why1
    return None, 'reference-conflict (R1 %s, tree@hi %s%s)' % ('ok' if r1 is not None else why1, 'ok' if t_hi is not None else why2,
                                                              ', relation %s' % ('ok' if r3 is not None else why3) if relation else '')


def evaluate_case_x(tree_mp, prop, fname, reg, specs, p, rec, tol_exp=8, tmax=20.0):
    """like specfun.evaluate_case, with reg.ref_extra (int or callable(specs)->int) extra reference precision and
    reg.relation (callable f(lib_mp, *args)) as third source"""
    rm = rmp()
    fn = reg.fn or fname
    tol_exp = reg.tol_exp if reg.tol_exp is not None else tol_exp
    extra = getattr(reg, 'ref_extra', 0) or 0
    if callable(extra):
        extra = int(extra(specs))
    relation = getattr(reg, 'relation', None)
    ident = (fname, reg.label, S._fmt(specs), p)
    case = {'function': fname, 'regime': reg.label, 'args': S._fmt(specs), 'prec': p, 'kwargs': repr(reg.kwargs)}
    cls = '%s/%s' % (fname, reg.label)
    key = '%s/%s/%s' % (prop, fname, reg.label)
    exc = val = None
    try:
        with time_limit(tmax):
            try:
                val = refmodel.call(tree_mp, fn, specs, p, reg.kwargs)
            except Timeout:
                raise
            except Exception as e:
                exc = e
    except Timeout:
        tree_mp.prec = 53
        rec.case(ident, False, cls)
        rec.undecided('timeout-tree', case)
        return 'undecided'
    try:
        with time_limit(tmax * 6):
            refv, info = consensus_x(tree_mp, fn, specs, p, reg.kwargs, extra, relation)
    except Timeout:
        tree_mp.prec = 53
        rm.prec = 53
        rec.case(ident, False, cls)
        rec.undecided('timeout-reference', case)
        return 'undecided'
    except Exception as e:
        rec.case(ident, False, cls)
        rec.undecided('reference-error:' + type(e).__name__, case)
        return 'undecided'
    if exc is not None:
        rec.case(ident, True, cls)
        if refv is not None:
            rec.violation(key + '/raises-' + type(exc).__name__,
                          '%s raises %s at prec %d where the function is defined (two reference sources agree on a value: %s)'
                          % (fname, type(exc).__name__, p, info), case, observed=repr(exc)[:200], expected=str(refv)[:60], severity=None)
            return 'violated'
        if relation is not None:
            # definedness by an identity that holds on the whole cell: a finite, self-consistent value of the relation
            try:
                with time_limit(tmax * 3):
                    r3, why3 = _two_prec(rm, relation, specs, p + 64 + extra, 2 * p + 200 + extra, reg.kwargs, p)
            except Timeout:
                r3 = None
                rm.prec = 53
            if r3 is not None and rm.isfinite(r3):
                rec.violation(key + '/raises-' + type(exc).__name__,
                              '%s raises %s at prec %d where the function is defined (finite value by the defining relation of the cell; '
                              'release and tree@hi: %s)' % (fname, type(exc).__name__, p, info), case, observed=repr(exc)[:200],
                              expected=str(r3)[:60], severity=None)
                return 'violated'
        rec.cls('raised/' + type(exc).__name__)
        rec.note('raised', {'case': case, 'exc': repr(exc)[:120], 'reference': info}, cap=30)
        return 'raised'
    if refv is None:
        rec.case(ident, False, cls)
        rec.undecided(info.split(' (')[0], case)
        rec.note('undecided-detail', {'case': case, 'info': info}, cap=20)
        return 'undecided'
    if not _num(val):
        rec.case(ident, False, cls)
        rec.undecided('non-numeric result', case)
        return 'undecided'
    rec.event('reference decided by ' + info)
    comp = refmodel.to_ref(rm, val)
    with at_prec(rm, 2 * p + 300):
        if rm.isnan(comp) or rm.isinf(comp) or rm.isinf(refv) or rm.isnan(refv):
            if rm.isinf(comp) and rm.isinf(refv) and comp == refv:
                rec.case(ident, False, cls)
                return 'held'
            if rm.isfinite(refv):
                # inf / nan returned where two sources agree on a finite value: the relative error is unbounded
                rec.case(ident, True, cls)
                rec.violation(key + '/non-finite-result', '%s returns %s at prec %d where the value is finite (reference: %s)'
                              % (fname, str(val)[:20], p, info), case, observed=str(val)[:80], expected=str(refv)[:80], severity=None)
                return 'violated'
            rec.case(ident, False, cls)
            rec.undecided('non-finite', case)
            return 'undecided'
        if refv == 0:
            rec.case(ident, True, cls)
            if comp == 0:
                return 'held'
            rec.undecided('exact-zero-reference', case)
            return 'undecided'
        err = float(rm.ldexp(abs(comp - refv) / abs(refv), p))
    verdict = refmodel.decide_error(err, 2.0 ** tol_exp)
    rec.case(ident, True, cls)
    rec.sample(case)
    rec.maximum('err_units/' + fname, err, case)
    if verdict == 'violated':
        sev = math.log2(err) - tol_exp if err < float('inf') else 1e9
        rec.violation(key, '%s relative error %.3g * 2^-p exceeds 2^(%d-p) at prec %d (reference: %s)' % (fname, err, tol_exp, p, info),
                      case, observed=str(val)[:80], expected=str(refv)[:80], severity=round(sev, 2))
    elif verdict == 'undecided':
        rec.undecided('guard-band', case)
    return verdict


# ---- runner -----------------------------------------------------------------------------------

def ordered_cells(table):
    """cells in a fixed, seed-independent order: regime rank first, function name second, so that the first pass of every
    shard visits all functions"""
    cells = []
    names = sorted(table)
    for j in range(max(len(v) for v in table.values())):
        for fname in names:
            if j < len(table[fname]):
                rg = table[fname][j]
                cells.extend([(fname, rg)] * rg.weight)
    return cells


def run(prop, table, shard, rec, n_cases, tol_exp=8, tmax=10.0, bits_choices=(53, 53, 20, 100)):
    """budget_s of the shard is CPU time of the worker (wall clock only as a safety net: shard['wall_s'], default 8 x budget)"""
    import mpmath
    tree_mp = mpmath.mp
    r = G.rng(prop, shard['seed'], shard['shard'])
    cells = ordered_cells(table)
    import os, re
    if os.environ.get('VERIF_CELLS'):
        # focused run (self-validation of mutants on a loaded machine): only cells whose 'function/label' matches
        pat = re.compile(os.environ['VERIF_CELLS'])
        cells = [c for c in cells if pat.search('%s/%s' % (c[0], c[1].label))] or cells
        rec.note('focused-run', os.environ['VERIF_CELLS'])
    nsh = shard.get('nshards', 16)
    mine = [c for i, c in enumerate(cells) if i % nsh == shard['shard'] % nsh]
    if not mine:
        mine = cells
    counts = collections.Counter()
    quick = shard.get('tier') == 'quick'
    budget = shard.get('budget_s', 1e9)
    c_end = time.process_time() + budget
    w_end = time.time() + shard.get('wall_s', 8 * budget)
    i = 0
    while i < n_cases and time.process_time() < c_end and time.time() < w_end:
        fname, rg = mine[i % len(mine)]
        precs = rg.precs or (PRECS_HEAVY if rg.heavy else PRECS_LIGHT)
        if quick and not getattr(rg, 'hp', False):        # hp: the small high-precision stratum (2500/3000/3500 bits) is not capped
            precs = [q for q in precs if q <= (64 if rg.heavy else 200)] or precs[:1]
        p = precs[(i // len(mine) + r.randrange(len(precs))) % len(precs)]
        bits = min(r.choice(bits_choices), max(p, 4)) if r.random() < 0.8 else r.choice([2 * p, p + 7])
        bits = max(2, bits)
        tm = getattr(rg, 'tmax', None) or tmax
        t0 = time.process_time()
        try:
            if isinstance(rg, Custom):
                try:
                    with time_limit(tm * 8):
                        v = rg.check(tree_mp, rec, r, p, bits, (prop, fname, rg))
                except Timeout:
                    tree_mp.prec = 53
                    refmodel.ref().mp.prec = 53
                    rec.case((fname, rg.label, 'timeout', i, shard['shard']), False, '%s/%s' % (fname, rg.label))
                    rec.undecided('timeout-custom', {'function': fname, 'regime': rg.label, 'prec': p})
                    v = 'undecided'
            else:
                specs = rg.gen(r, bits)
                v = evaluate_case_x(tree_mp, prop, fname, rg, specs, p, rec, tol_exp, tm)
        except Timeout:
            raise
        except Exception as e:
            rec.note('harness-error', '%s/%s: %r' % (fname, rg.label, e))
            rec.case((fname, rg.label, 'harness-error', i, shard['shard']), False, '%s/%s' % (fname, rg.label))
            rec.undecided('harness-error:%s' % type(e).__name__, {'function': fname, 'regime': rg.label, 'prec': p})
            v = 'undecided'
        dt = time.process_time() - t0
        rec.maximum('cpu_seconds/%s' % fname, round(dt, 2), {'regime': rg.label, 'prec': p})
        counts[v] += 1
        rec.event('evals:%s' % fname)
        if v == 'undecided':
            rec.event('undecided:%s' % fname)
            rec.event('undecided-cell:%s/%s' % (fname, rg.label))
        i += 1
    for k, v in counts.items():
        rec.event('verdict:' + k, v)
    rec.event('reference evaluations', sum(counts.values()))
    rec.note('shard-cpu-seconds', round(time.process_time(), 1), cap=40)


def required(table, min_per_function=1):
    def req(agg, tier):
        miss = []
        seen = collections.Counter()
        for k, n in agg['classes'].items():
            seen[k.split('/')[0]] += n
        for f in sorted(table):
            if seen[f] < min_per_function:
                miss.append('function %s never observed' % f)
        ev = agg['events']
        for f in sorted(table):
            n, u = ev.get('evals:' + f, 0), ev.get('undecided:' + f, 0)
            # per-function blind-oracle guard: 10 % (the run-wide 5 % rule lives in core); bessely sits at 5.1 % on the unchanged
            # tree because release 1.3.0 is not self-consistent next to integer orders (those cases stay `undecided`)
            if u >= 3 and u > 0.10 * n and tier == 'thorough':
                miss.append('function %s: %d of %d evaluations undecided (> 10%%)' % (f, u, n))
            elif u >= 4 and u > 0.25 * n:
                miss.append('function %s: %d of %d evaluations undecided' % (f, u, n))
        if not any(k.startswith('verdict:held') for k in ev):
            miss.append('no case was decided as held')
        return miss[:12]
    return req


def replay(prop, table, case, rec, tol_exp=8):
    c = case['case']
    fname = c.get('function')
    regs = [rg for rg in table.get(fname, []) if rg.label in (c.get('regime'), 'exact/%s' % c.get('regime'))]
    if not regs:
        rec.undecided('replay: regime not found')
        return
    rg = regs[0]
    import mpmath
    if isinstance(rg, Custom):
        rp = getattr(rg, 'replay', None)
        if rp is None:
            rec.undecided('replay: custom cell without replay')
            return
        rp(mpmath.mp, rec, c, (prop, fname, rg))
    elif 'args' in c:
        evaluate_case_x(mpmath.mp, prop, fname, rg, S._unfmt(c['args']), c['prec'], rec, tol_exp, tmax=120.0)
    else:
        rec.undecided('replay: case without args')


# ---- helpers for custom oracles ------------------------------------------------------------------

def rmp():
    return refmodel.ref().mp


class at_prec(object):
    def __init__(self, ctx, prec):
        self.ctx, self.prec = ctx, prec

    def __enter__(self):
        self.old = self.ctx.prec
        self.ctx.prec = self.prec
        return self.ctx

    def __exit__(self, *a):
        self.ctx.prec = self.old
        return False


def decide(rec, prop, fname, label, ident, case, err_units, tol_exp, observed, expected, maxname=None, suffix=''):
    """shared verdict + bookkeeping for custom oracles (err_units: error in units of 2^-p; None -> undecided)"""
    cls = '%s/%s' % (fname, label)
    key = '%s/%s/%s%s' % (prop, fname, label, suffix)
    rec.case(ident, True, cls)
    rec.sample(case)
    if err_units is None:
        rec.undecided('oracle-undecided', case)
        return 'undecided'
    rec.maximum((maxname or 'err_units') + '/' + fname, err_units, case)
    v = refmodel.decide_error(err_units, 2.0 ** tol_exp)
    if v == 'violated':
        sev = math.log2(err_units) - tol_exp if 0 < err_units < float('inf') else 1e9
        rec.violation(key, '%s error %.3g * 2^-p exceeds 2^(%d-p) at prec %d' % (fname, err_units, tol_exp, case.get('prec', 0)),
                      case, observed=str(observed)[:80], expected=str(expected)[:80], severity=round(sev, 2))
    elif v == 'undecided':
        rec.undecided('guard-band', case)
    return v


def err_units(rm, comp, refv, p):
    """|comp-refv|/|refv| * 2^p as float, evaluated at high precision in the reference library"""
    with at_prec(rm, 2 * p + 300):
        if refv == 0:
            return 0.0 if comp == 0 else float('inf')
        return float(rm.ldexp(abs(comp - refv) / abs(refv), p))
