"""exact_strings -- decimal-literal side of the exact oracle (helpers for C07 / C08 / C09; no mpmath import).

A decimal literal denotes  n * 10**E  (n signed int, E int of ANY size) or a rational p/q.  Nothing here forms
10**E unless |E| <= EXACT_E; beyond that 5**|E| is enclosed between two wp-bit integers by binary exponentiation
with outward truncation (exact integer arithmetic, no logarithms), and a comparison that the enclosure cannot
decide after refinement is reported as None (-> `undecided` in the checks).

  parse_literal(s)          independent parser -> ('dec', n, E) | ('frac', p, q) | ('special', name) | None
  cmp_raw_dec(raw, n, E)    sign of (raw - n*10**E): -1 / 0 / +1, or None (undecided)
  cmp_raw_frac(raw, p, q)   sign of (raw - p/q)
  round_dec(n, E, p, mode)  correctly rounded canonical raw tuple of n*10**E (None when undecidable)
  in_envelope_dec / _frac   10**-100 <= |v| <= 10**100 (exact)
  decimal_of_raw(raw)       exact decimal expansion (n, E) of a dyadic raw value
  nearest_ok(raw, S, k, nd) is S*10**k a nearest nd-significant-digit decimal to raw?  True/False/None
"""
import re
from fractions import Fraction
from . import exactq as Q

EXACT_E = 200000
_P5 = {}


def pow5(k):
    """exact 5**k (small cache: the generators re-use a handful of large exponents)"""
    v = _P5.get(k)
    if v is None:
        v = 5 ** k
        if k > 2000:
            if len(_P5) > 40:
                _P5.clear()
            _P5[k] = v
    return v


_LIT = re.compile(r'^([+-]?)(\d*)(?:\.(\d*))?(?:[eE]([+-]?\d+))?$')


def parse_literal(s):
    """Independent parser of what Python's float() accepts as a decimal literal (no underscores), plus 'p/q'."""
    t = s.strip()
    if '/' in t:
        a, b = t.split('/')
        try:
            p, q = int(a.strip()), int(b.strip())
        except ValueError:
            return None
        if q == 0:
            return None
        return ('frac', p, q)
    low = t.lower()
    if low in ('inf', '+inf'):
        return ('special', Q.PINF)
    if low == '-inf':
        return ('special', Q.NINF)
    if low == 'nan':
        return ('special', Q.NAN)
    m = _LIT.match(t)
    if not m:
        return None
    sg, ip, fp, ex = m.groups()
    fp = fp or ''
    if not ip and not fp:
        return None
    n = int((ip + fp) or '0')
    E = (int(ex) if ex else 0) - len(fp)
    if n:
        # normalise: no trailing decimal zeros in n (keeps n small; value unchanged)
        while n % 10 == 0:
            z = len(str(n)) - len(str(n).rstrip('0'))
            n //= 10 ** z
            E += z
    else:
        E = 0
    return ('dec', -n if sg == '-' else n, E)


def dec_to_ex(n, E):
    """exact Ex of n*10**E, only for |E| <= EXACT_E"""
    if n == 0:
        return Q.Ex(0)
    if abs(E) > EXACT_E:
        raise OverflowError('decimal exponent too large for exact expansion')
    if E >= 0:
        return Q.Ex(n * pow5(E), 1, E)
    return Q.Ex(n, pow5(-E), E)


def pow5_bounds(k, wp):
    """(lo, hi, a) with lo*2**a <= 5**k <= hi*2**a, lo/hi ints of about wp bits; lo == hi iff nothing was lost.
    Binary exponentiation; the lower bound is truncated down and the upper bound up at every step."""
    lo = hi = 1
    a = 0
    blo = bhi = 5
    ba = 0
    while 1:
        if k & 1:
            lo = lo * blo
            hi = hi * bhi
            a += ba
            sh = hi.bit_length() - wp
            if sh > 0:
                lo >>= sh
                hi = -((-hi) >> sh)
                a += sh
        k >>= 1
        if not k:
            break
        blo = blo * blo
        bhi = bhi * bhi
        ba += ba
        sh = bhi.bit_length() - wp
        if sh > 0:
            blo >>= sh
            bhi = -((-bhi) >> sh)
            ba += sh
    return lo, hi, a


def _cmp_mag(m, e, N, D, e2):
    """sign of  m*2**e - (N/D)*2**e2  for positive ints m, N, D (exponents of any size)"""
    bm, bn, bd = m.bit_length(), N.bit_length(), D.bit_length()
    # L = m*D*2^e in [2^(bm+bd-2+e), 2^(bm+bd+e)),  R = N*2^e2 in [2^(bn-1+e2), 2^(bn+e2))
    if bm + bd - 2 + e >= bn + e2:
        return 1
    if bm + bd + e <= bn - 1 + e2:
        return -1
    L = m * D
    sh = e - e2
    if sh >= 0:
        L <<= sh
        R = N
    else:
        R = N << (-sh)
    return (L > R) - (L < R)


def cmp_raw_frac(raw, p, q):
    """sign of (raw - p/q); raw finite"""
    sign, man, exp, bc = raw
    if q < 0:
        p, q = -p, -q
    sr = 0 if not man else (-1 if sign else 1)
    sv = (p > 0) - (p < 0)
    if sr != sv:
        return (sr > sv) - (sr < sv)
    if sr == 0:
        return 0
    c = _cmp_mag(int(man), exp, abs(p), q, 0)
    return c * sr


def cmp_raw_dec(raw, n, E, max_wp=None):
    """sign of (raw - n*10**E) for a finite raw tuple; None when the enclosure of 10**E cannot decide it."""
    sign, man, exp, bc = raw
    sr = 0 if not man else (-1 if sign else 1)
    sv = (n > 0) - (n < 0)
    if sr != sv:
        return (sr > sv) - (sr < sv)
    if sr == 0:
        return 0
    man = int(man)
    N = abs(n)
    if abs(E) <= EXACT_E:
        if E >= 0:
            c = _cmp_mag(man, exp, N * pow5(E), 1, E)
        else:
            c = _cmp_mag(man, exp, N, pow5(-E), E)
        return c * sr
    # quick decision on magnitudes: 10^E = 5^E 2^E, 2.32 < log2(5) < 2.33
    k = abs(E)
    wp = max(bc, N.bit_length()) + 2 * k.bit_length() + 40
    cap = max_wp or (8 * wp + 4096)
    while 1:
        lo, hi, a = pow5_bounds(k, wp)
        if E > 0:
            # v = N*F*2^E, F in [lo,hi]*2^a
            c1 = _cmp_mag(man, exp, N * lo, 1, a + E)     # raw vs lower bound of v
            c2 = _cmp_mag(man, exp, N * hi, 1, a + E)     # raw vs upper bound of v
        else:
            # v = N*2^E/F ; lower bound of v uses hi, upper bound uses lo
            c1 = _cmp_mag(man, exp, N, hi, E - a)
            c2 = _cmp_mag(man, exp, N, lo, E - a)
        if c1 < 0:            # below the lower bound
            return -sr
        if c2 > 0:            # above the upper bound
            return sr
        if lo == hi:          # exact power: c1 == c2
            return c1 * sr
        if c1 == 0 and c2 == 0:
            return 0
        wp *= 2
        if wp > cap:
            return None


def round_dec(n, E, p, mode):
    """correct rounding of n*10**E to p bits -> canonical raw tuple; None when |E| is too large and the
    enclosure does not pin the rounding"""
    if n == 0:
        return Q.fzero
    if abs(E) <= EXACT_E:
        return Q.round_to(dec_to_ex(n, E), p, mode)
    k = abs(E)
    wp = p + abs(n).bit_length() + 2 * k.bit_length() + 40
    for _ in range(3):
        lo, hi, a = pow5_bounds(k, wp)
        if E > 0:
            r1 = Q.round_to(Q.Ex(n * lo, 1, a + E), p, mode)
            r2 = Q.round_to(Q.Ex(n * hi, 1, a + E), p, mode)
        else:
            r1 = Q.round_to(Q.Ex(n, hi, E - a), p, mode)
            r2 = Q.round_to(Q.Ex(n, lo, E - a), p, mode)
        if r1 == r2:
            return r1
        wp *= 2
    return None


def round_frac(pn, qn, p, mode):
    return Q.round_to(Q.Ex(pn, qn, 0), p, mode)


_T100 = 10 ** 100


def in_envelope_dec(n, E):
    """10**-100 <= |n*10**E| <= 10**100, exactly"""
    if n == 0:
        return False
    N = abs(n)
    D = len(str(N)) if N.bit_length() < 40000 else None
    if D is None:
        # digits ~ bits*log10(2); bracket safely
        dlo = (N.bit_length() - 1) * 30102 // 100000
        dhi = N.bit_length() * 30103 // 100000 + 1
    else:
        dlo = dhi = D
    # 10^(dlo-1) <= N < 10^dhi
    if dlo - 1 + E > 100:
        return False
    if dhi + E <= -100:
        return False
    # E is now within about 100 + digits of 0: exact comparison
    if E >= 0:
        v_num, v_den = N * 10 ** E, 1
    else:
        v_num, v_den = N, 10 ** (-E)
    return v_num * _T100 >= v_den and v_num <= _T100 * v_den


def in_envelope_frac(p, q):
    p, q = abs(p), abs(q)
    if p == 0:
        return False
    return p * _T100 >= q and p <= _T100 * q


def decimal_of_raw(raw):
    """exact decimal expansion of a finite nonzero dyadic raw value: (n, E) with value == n*10**E (n signed)"""
    sign, man, exp, bc = raw
    man = int(man)
    if exp >= 0:
        n, E = man << exp, 0
    else:
        n, E = man * pow5(-exp), exp
    return (-n if sign else n), E


def digits_to_literal(n, E, style='fixed', exp_shift=0):
    """write n*10**E as a literal.  style 'fixed' (needs moderate E) or 'exp' (mantissa digits 'e' exponent);
    exp_shift moves the decimal point inside the mantissa for style 'exp'."""
    sg = '-' if n < 0 else ''
    ds = str(abs(n))
    if style == 'fixed':
        if E >= 0:
            return sg + ds + '0' * E
        k = -E
        if k >= len(ds):
            return sg + '0.' + '0' * (k - len(ds)) + ds
        return sg + ds[:-k] + '.' + ds[-k:]
    # exp style: d.ddd e X  with the point after exp_shift+1 digits (clipped)
    pos = min(max(1, 1 + exp_shift), len(ds))
    mant = ds[:pos] + ('.' + ds[pos:] if pos < len(ds) else '')
    X = E + (len(ds) - pos)
    return sg + mant + 'e' + str(X)


# ---------------------------------------------------------------------------------------
# printing side: is S*10**k a nearest nd-significant-digit decimal to the value of raw ?
# ---------------------------------------------------------------------------------------

def nearest_ok(raw, S, k, nd):
    """raw finite nonzero; the printed decimal is S*10**k (S signed int != 0, no trailing zeros required).
    Returns (verdict, detail): verdict True/False/None(undecided).  The printed value must have <= nd significant
    digits and raw must lie in the closed interval between the half-way points to the two adjacent nd-digit
    decimals."""
    sign, man, exp, bc = raw
    if (S < 0) != bool(sign):
        return False, 'sign'
    A = abs(S)
    ds = str(A)
    z = len(ds) - len(ds.rstrip('0'))
    sig = len(ds) - z
    if sig > nd:
        return False, 'more than n significant digits'
    # rescale to exactly nd digits: A' = A * 10^(nd-len), k' = k - (nd-len)
    pad = nd - len(ds)
    if pad >= 0:
        A = A * 10 ** pad
        k = k - pad
    else:
        A = A // 10 ** (-pad)       # exact: the dropped digits are zeros (sig <= nd)
        k = k + (-pad)
    araw = (0, man, exp, bc)
    # upper half-way point: (A + 1/2) * 10^k = (10A+5) * 10^(k-1)
    c_hi = cmp_raw_dec(araw, 10 * A + 5, k - 1)
    if c_hi is None:
        return None, 'upper boundary undecided'
    if c_hi > 0:
        return False, 'value above the upper half-way point'
    # lower half-way point: spacing below A is 10^k unless A == 10^(nd-1) (then 10^(k-1))
    if A == 10 ** (nd - 1):
        c_lo = cmp_raw_dec(araw, 100 * A - 5, k - 2)
    else:
        c_lo = cmp_raw_dec(araw, 10 * A - 5, k - 1)
    if c_lo is None:
        return None, 'lower boundary undecided'
    if c_lo < 0:
        return False, 'value below the lower half-way point'
    return True, ('tie' if (c_hi == 0 or c_lo == 0) else 'interior')


def excess_units(raw, S, k, nd, extra=80):
    """how far (in units of the last of nd printed places) the value of raw is from the printed S*10**k, minus the
    permitted half unit -- as a float, for severity ranking only (approximate for |k| > EXACT_E: 5**|k| is replaced by
    the lower end of a very narrow enclosure).  Same padding of S to nd digits as nearest_ok."""
    sign, man, exp, bc = raw
    A = abs(S)
    ds = str(A)
    pad = nd - len(ds)
    if pad >= 0:
        A *= 10 ** pad
        k -= pad
    else:
        A //= 10 ** (-pad)
        k += -pad
    man = int(man)
    # V ~ |x| / 10**k * 2**extra
    kk = abs(k)
    if kk <= EXACT_E:
        f, a = pow5(kk), 0
    else:
        f, _hi, a = pow5_bounds(kk, bc + 4 * nd + extra + 2 * kk.bit_length() + 60)
    if k >= 0:
        # |x| / (f 2^a 2^k)
        sh = exp - k - a + extra
        num, den = man, f
    else:
        sh = exp - k + a + extra
        num, den = man * f, 1
    if sh >= 0:
        V = (num << sh) // den
    else:
        V = num // (den << (-sh))
    d = abs(V - (A << extra))
    return d / float(1 << extra) - 0.5


def nearest_ok_fraction(raw, S, k, nd):
    """Twin of nearest_ok written with Fractions and exactq.nearest_decimals (moderate exponents only)."""
    x = Q.from_raw(raw).fraction()
    s = Fraction(S) * Fraction(10) ** k
    if Q.sigdigits(s) > nd:
        return False
    lo, hi = Q.nearest_decimals(x, nd)
    return abs(s - x) <= min(abs(lo - x), abs(hi - x))


_NUM = re.compile(r'^([+-]?)(\d*)\.?(\d*)(?:e([+-]?\d+))?$')


def parse_printed(s):
    """parse a printed real literal into (S, k) with value S*10**k, S signed, keeping all printed digits
    (so len(str(|S|)) counts leading-digit-to-last-digit); None if it is not of the expected shape"""
    m = _NUM.match(s)
    if not m:
        return None
    sg, ip, fp, ex = m.groups()
    if not ip and not fp:
        return None
    S = int((ip + fp))
    k = (int(ex) if ex else 0) - len(fp)
    return (-S if sg == '-' else S), k


def selftest(n=3000, seed=5):
    """enclosure comparison against the exact one, parser against exactq.parse_decimal"""
    import random
    r = random.Random(seed)
    bad = 0
    global EXACT_E
    for i in range(n):
        E = r.choice([1, -1]) * r.choice([r.randint(401, 3000), r.randint(1, 50), 10000])
        nn = r.randint(1, 10 ** r.choice([1, 5, 17, 40])) * r.choice([1, -1])
        p = r.choice([5, 53, 100])
        ex = dec_to_ex(nn, E)
        for mode in 'nfc':
            raw = Q.round_to(ex, p, mode)
            want = Q.cmp(Q.from_raw(raw), ex) if ex.d == 1 else None
            c_exact = cmp_raw_dec(raw, nn, E)
            save = EXACT_E
            EXACT_E = 0
            try:
                c_enc = cmp_raw_dec(raw, nn, E)
                r_enc = round_dec(nn, E, p, mode)
            finally:
                EXACT_E = save
            if c_enc is not None and c_enc != c_exact:
                bad += 1
            if want is not None and want != c_exact:
                bad += 1
            if r_enc is not None and r_enc != raw:
                bad += 1
            if mode == 'f' and c_exact > 0 or mode == 'c' and c_exact < 0:
                bad += 1
    for s in ['1.5', '-.5e-3', '12.e4', '0001.2300E+05', '+7', '1e-400', '123456789.000']:
        k = parse_literal(s)
        a = dec_to_ex(k[1], k[2]).fraction()
        b = Q.parse_decimal(s).fraction()
        if a != b:
            bad += 1
    return bad


if __name__ == '__main__':
    import sys
    b = selftest()
    print('exact_strings selftest mismatches:', b)
    sys.exit(1 if b else 0)
