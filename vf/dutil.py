"""Helpers shared by the cross-cutting monitors C01 / C10 (builderD): per-call wall-clock cap, recognition of raw
tuples in primitive return values, table of libmp primitive code objects, and the runner that executes a part of
the repository's own test-suite with a monitor plugged in (vf/pytest_monitor.py)."""
import os, sys, signal, json, glob, time, subprocess, tempfile, collections

LIBMP_MODULES = ('libmpf', 'libmpc', 'libmpi', 'libelefun', 'libhyper', 'gammazeta', 'libintmath')
PRIMITIVE_RX = r'(mpf_|mpc_|mpi_|mpci_|from_|normalize)'


class CaseTimeout(BaseException):
    """raised inside the running call when its wall-clock cap expires (not an Exception subclass)"""


class time_limit(object):
    """``with time_limit(2.0): f()``  -> CaseTimeout inside f after 2 s of *CPU time of this process* (main thread,
    SIGVTALRM / ITIMER_VIRTUAL), so that a loaded machine does not change which calls are cut."""

    def __init__(self, seconds):
        self.seconds = seconds

    def _fire(self, signum, frame):
        raise CaseTimeout()

    def __enter__(self):
        self.old = signal.signal(signal.SIGVTALRM, self._fire)
        # nestable: an enclosing limit keeps running (the shorter of the two deadlines is armed)
        self.outer = signal.getitimer(signal.ITIMER_VIRTUAL)[0]
        self.t0 = time.process_time()
        arm = self.seconds if not self.outer else min(self.seconds, self.outer)
        signal.setitimer(signal.ITIMER_VIRTUAL, arm)
        return self

    def __exit__(self, *a):
        if self.outer:
            left = self.outer - (time.process_time() - self.t0)
            signal.setitimer(signal.ITIMER_VIRTUAL, left if left > 0.001 else 0.001)
        else:
            signal.setitimer(signal.ITIMER_VIRTUAL, 0)
            signal.signal(signal.SIGVTALRM, self.old)
        return False


def _isint(x):
    return isinstance(x, int) and not isinstance(x, bool)


def raws_in(v, depth=0):
    """raw 4-tuples found in a primitive's return value: the value itself, or members of a pair / triple / quad
    (nested at most twice: mpc = (re, im), mpci = ((a, b), (c, d))), or of a list of those.  Anything else
    (fixed-point integers, Python ints/bools/strings, (value, int) mixtures' non-tuple parts) is ignored."""
    tv = type(v)
    if tv is tuple:
        n = len(v)
        if n == 4 and _isint(v[0]) and _isint(v[1]) and _isint(v[2]) and _isint(v[3]):
            yield v
        elif depth < 2 and 2 <= n <= 4:
            for x in v:
                if type(x) is tuple:
                    for t in raws_in(x, depth + 1):
                        yield t
    elif tv is list and depth == 0 and len(v) <= 64:
        for x in v:
            if type(x) is tuple:
                for t in raws_in(x, 1):
                    yield t


def primitive_codes():
    """code object -> 'module:function' for the libmp primitives named mpf_*/mpc_*/mpi_*/mpci_*/from_*/normalize*"""
    from . import instrument as I
    codes = {}
    for m in LIBMP_MODULES:
        for code, name in I.code_objects_of_module('mpmath.libmp.' + m, PRIMITIVE_RX).items():
            codes.setdefault(code, m + ':' + name)
    return codes


# ---------------------------------------------------------------------------------------
# the repository's own test-suite as a workload
# ---------------------------------------------------------------------------------------
# ordered: the arithmetic / conversion / function files first (most relevant for C01/C10), slow calculus files last
DEFAULT_SUITE_FILES = ['test_basic_ops.py', 'test_convert.py', 'test_division.py', 'test_mpmath.py', 'test_power.py',
                       'test_bitwise.py', 'test_compatibility.py', 'test_interval.py', 'test_hp.py', 'test_trig.py',
                       'test_pickle.py', 'test_str.py', 'test_special.py', 'test_functions.py', 'test_functions2.py',
                       'test_gammazeta.py', 'test_elliptic.py', 'test_summation.py', 'test_matrices.py',
                       'test_linalg.py', 'test_calculus.py', 'test_diff.py', 'test_quad.py', 'test_rootfinding.py',
                       'test_identify.py', 'test_ode.py', 'test_levin.py', 'test_eigen.py', 'test_eigen_symmetric.py']


def run_suite(monitor, files=None, timeout=600, nproc=1, extra_env=None):
    """Run (part of) <VERIF_REPO>/mpmath/tests with the plugin vf.pytest_monitor and the given monitor name
    ('C01' / 'C10').  Returns {'status': 'ok'|'timeout'|'error', 'returncode', 'results': [per-process dicts], 'tail'}.
    Optional workload: failures of the suite itself are reported, not asserted."""
    repo = os.environ.get('VERIF_REPO', '/repo')
    root = os.path.dirname(os.path.dirname(os.path.abspath(__file__)))
    tdir = os.path.join(repo, 'mpmath', 'tests')
    if not os.path.isdir(tdir):
        return {'status': 'error', 'returncode': None, 'results': [], 'tail': 'no test directory ' + tdir}
    if files is None:
        files = DEFAULT_SUITE_FILES
    files = [f for f in files if os.path.exists(os.path.join(tdir, f))]
    outdir = tempfile.mkdtemp(prefix='vf-suite-')
    env = dict(os.environ)
    env['PYTHONPATH'] = root + os.pathsep + repo + (os.pathsep + env['PYTHONPATH'] if env.get('PYTHONPATH') else '')
    env['VF_MONITOR'] = monitor
    env['VF_MONITOR_OUT'] = os.path.join(outdir, 'mon')
    env['PYTHONDONTWRITEBYTECODE'] = '1'
    env.setdefault('MPMATH_NOGMPY', '1')
    env.update(extra_env or {})
    cmd = [sys.executable, '-m', 'pytest', '-q', '--no-header', '-p', 'no:cacheprovider', '-p', 'vf.pytest_monitor']
    if nproc > 1:
        cmd += ['-n', str(nproc)]
    cmd += [os.path.join('mpmath', 'tests', f) for f in files]
    t0 = time.time()
    try:
        p = subprocess.run(cmd, cwd=repo, env=env, stdout=subprocess.PIPE, stderr=subprocess.STDOUT, timeout=timeout)
        status, rc, tail = 'ok', p.returncode, p.stdout.decode(errors='replace')[-600:]
    except subprocess.TimeoutExpired as e:
        status, rc, tail = 'timeout', None, (e.stdout or b'').decode(errors='replace')[-600:]
    results = []
    for f in sorted(glob.glob(env['VF_MONITOR_OUT'] + '.*.json')):
        try:
            results.append(json.load(open(f)))
        except Exception:
            pass
    for f in glob.glob(os.path.join(outdir, '*')):
        try:
            os.unlink(f)
        except OSError:
            pass
    try:
        os.rmdir(outdir)
    except OSError:
        pass
    return {'status': status, 'returncode': rc, 'results': results, 'tail': tail, 'wall': time.time() - t0,
            'files': files}
