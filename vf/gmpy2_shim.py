"""Semantic stand-in for the integer API of gmpy2 (and of legacy gmpy 1.x) that mpmath's ``BACKEND == 'gmpy'``
code uses.  gmpy2 is not installed on this machine and is not in the wheelhouse; with this module placed in
``sys.modules`` *before* mpmath is imported (in a C37 child process only) every line of mpmath's gmpy-conditional code
executes: gmpy_mpf_mul, gmpy_mpf_mul_int, gmpy_trailing, bitcount = gmpy.bit_length / gmpy_bitcount, numeral_gmpy,
isqrt/sqrtrem/ifac rebinding, the gmpy-only EXP_COSH_CUTOFF / COS_SIN_CACHE_PREC tuning.

``mpz`` is an ``int`` subclass closed under integer arithmetic (exact Python int semantics = the semantics of GMP
integers with floor division, floor modulus, two's-complement bit operations, as gmpy2 documents them).
The optional C fast paths ``_mpmath_normalize`` / ``_mpmath_create`` are deliberately NOT defined: mpmath then runs its
own Python ``normalize`` / ``from_man_exp``, as it does with gmpy2 builds that lack them.

    install('gmpy2')   -> module ``gmpy2``  (version 2.1.5: bit_length, bit_scan1, isqrt, isqrt_rem, fac, digits, mpz)
    install('legacy')  -> module ``gmpy``   (version 1.17:  mpz.numdigits, mpz.scan1, sqrt, sqrtrem, fac, digits); an
                          import of gmpy2 fails, so that mpmath's ``version() < '2'`` branches run.

What this cannot show: a divergence caused by a bug inside the real gmpy2 C library, or by gmpy2's mpz not being an
``int`` subclass.
"""
import sys, math, types

_DIG = '0123456789abcdefghijklmnopqrstuvwxyz'
_DIG62 = '0123456789ABCDEFGHIJKLMNOPQRSTUVWXYZabcdefghijklmnopqrstuvwxyz'


def _digits(n, base=10):
    n = int(n)
    base = int(base)
    if not 2 <= base <= 62:
        raise ValueError('base must be in the interval 2 ... 62')
    if n < 0:
        return '-' + _digits(-n, base)
    if base == 10:
        return int.__repr__(n)
    if base == 16:
        return '%x' % n
    if base == 8:
        return '%o' % n
    if base == 2:
        return bin(n)[2:]
    if n == 0:
        return '0'
    tab = _DIG if base <= 36 else _DIG62
    # divide and conquer (independent of mpmath's numeral code: splits on powers base**(2**k))
    pows = [base]
    while pows[-1] * pows[-1] <= n:
        pows.append(pows[-1] * pows[-1])

    def rec(v, k, pad):
        if k < 0:
            return tab[v]
        hi, lo = divmod(v, pows[k])
        if hi == 0 and not pad:
            return rec(lo, k - 1, False)
        return rec(hi, k - 1, pad) + rec(lo, k - 1, True)
    return rec(n, len(pows) - 1, False)


def _make_mpz(flavor):
    class mpz(int):
        __slots__ = ()

        def __new__(cls, x=0, base=None):
            if base is not None:
                return int.__new__(cls, x, base)
            if type(x) is float:
                if x != x or x in (math.inf, -math.inf):
                    raise (ValueError if x != x else OverflowError)("mpz() does not support NaN/Infinity")
                return int.__new__(cls, int(x))
            return int.__new__(cls, x)

        def __repr__(self):
            return 'mpz(%s)' % int.__repr__(self)

        def __str__(self):
            return int.__repr__(self)

        def __reduce__(self):
            # gmpy2's mpz pickles through its binary form; mpmath never pickles one (to_pickable converts), keep it simple
            return (type(self), (int(self),))

        def digits(self, base=10):
            return _digits(self, base)

    def _bin(name):
        f = getattr(int, name)

        def op(self, other):
            r = f(self, other)
            if r is NotImplemented:
                return r
            return mpz(r)
        op.__name__ = name
        return op

    for nm in ('add', 'sub', 'mul', 'floordiv', 'mod', 'lshift', 'rshift', 'and', 'or', 'xor'):
        setattr(mpz, '__%s__' % nm, _bin('__%s__' % nm))
        setattr(mpz, '__r%s__' % nm, _bin('__r%s__' % nm))

    def _un(name):
        f = getattr(int, name)

        def op(self):
            return mpz(f(self))
        op.__name__ = name
        return op
    for nm in ('neg', 'pos', 'abs', 'invert'):
        setattr(mpz, '__%s__' % nm, _un('__%s__' % nm))

    def __pow__(self, other, mod=None):
        r = int.__pow__(self, other) if mod is None else int.__pow__(self, other, mod)
        if r is NotImplemented or type(r) is float:
            return r
        return mpz(r)

    def __rpow__(self, other, mod=None):
        r = int.__rpow__(self, other) if mod is None else int.__rpow__(self, other, mod)
        if r is NotImplemented or type(r) is float:
            return r
        return mpz(r)

    def __divmod__(self, other):
        r = int.__divmod__(self, other)
        if r is NotImplemented:
            return r
        return (mpz(r[0]), mpz(r[1]))

    def __rdivmod__(self, other):
        r = int.__rdivmod__(self, other)
        if r is NotImplemented:
            return r
        return (mpz(r[0]), mpz(r[1]))
    mpz.__pow__, mpz.__rpow__, mpz.__divmod__, mpz.__rdivmod__ = __pow__, __rpow__, __divmod__, __rdivmod__

    def _scan1(self, n=0):
        """index of the first 1-bit at position >= n (two's complement view), None if there is none"""
        v = int(self) >> n
        if v == 0:
            return None
        return n + ((v & -v).bit_length() - 1)

    def _numdigits(self, base=10):
        v = abs(int(self))
        base = int(base)
        if base == 2:
            return max(1, v.bit_length())        # GMP: mpz_sizeinbase(0, 2) == 1
        return max(1, len(_digits(v, base)))
    if flavor == 'gmpy2':
        mpz.bit_scan1 = _scan1
        mpz.num_digits = _numdigits
        # bit_length is inherited from int: returns a plain int, as gmpy2 does
    else:
        mpz.scan1 = _scan1
        mpz.numdigits = _numdigits
    mpz.__name__ = mpz.__qualname__ = 'mpz'
    return mpz


def _isqrt_pair(mpz, n):
    n = int(n)
    if n < 0:
        raise ValueError('isqrt() of negative number')
    r = math.isqrt(n)
    return mpz(r), mpz(n - r * r)


def build(flavor='gmpy2'):
    """a fresh module object of the requested flavour (not yet registered)"""
    assert flavor in ('gmpy2', 'legacy')
    mpz = _make_mpz(flavor)
    mod = types.ModuleType('gmpy2' if flavor == 'gmpy2' else 'gmpy')
    mod.__doc__ = 'C37 semantic shim (%s flavour); see vf/gmpy2_shim.py' % flavor
    mod.__file__ = __file__
    mod.VF_SHIM = flavor
    mod.mpz = mpz
    mod.digits = lambda x, base=10: _digits(x, base)

    def fac(n):
        n = int(n)
        if n < 0:
            raise ValueError('fac() of negative number')
        return mpz(math.factorial(n))
    mod.fac = fac
    if flavor == 'gmpy2':
        mod.version = lambda: '2.1.5'
        mod.bit_length = lambda x: int(x).bit_length()
        mod.bit_scan1 = lambda x, n=0: mpz(x).bit_scan1(n)
        mod.isqrt = lambda x: _isqrt_pair(mpz, x)[0]
        mod.isqrt_rem = lambda x: _isqrt_pair(mpz, x)
    else:
        mod.version = lambda: '1.17'
        mod.sqrt = lambda x: _isqrt_pair(mpz, x)[0]
        mod.sqrtrem = lambda x: _isqrt_pair(mpz, x)
    return mod


def install(flavor='gmpy2'):
    """register the shim; must run before ``import mpmath``"""
    assert 'mpmath' not in sys.modules, 'install the shim before importing mpmath'
    mod = build(flavor)
    if flavor == 'gmpy2':
        sys.modules['gmpy2'] = mod
    else:
        sys.modules['gmpy2'] = None      # import gmpy2 -> ImportError
        sys.modules['gmpy'] = mod
    return mod


def selftest(n=3000, seed=7):
    """the shim against plain int arithmetic"""
    import random
    r = random.Random(seed)
    bad = 0
    for flavor in ('gmpy2', 'legacy'):
        m = build(flavor)
        Z = m.mpz
        for i in range(n):
            a = r.getrandbits(r.choice([1, 8, 64, 300])) * r.choice([1, -1])
            b = (r.getrandbits(r.choice([1, 8, 64, 200])) + 1) * r.choice([1, -1])
            k = r.randrange(0, 70)
            A, B = Z(a), Z(b)
            pairs = [(A + B, a + b), (A - B, a - b), (A * B, a * b), (A // B, a // b), (A % B, a % b), (a + B, a + b),
                     (a - B, a - b), (a * B, a * b), (a // B, a // b), (a % B, a % b), (A << k, a << k), (A >> k, a >> k),
                     (A & B, a & b), (A | B, a | b), (A ^ B, a ^ b), (-A, -a), (abs(A), abs(a)), (~A, ~a),
                     (A ** (k % 7), a ** (k % 7)), (pow(A, k, abs(B)), pow(a, k, abs(b))), (1 << Z(k), 1 << k)]
            q = divmod(A, B)
            pairs += [(q[0], divmod(a, b)[0]), (q[1], divmod(a, b)[1])]
            for x, y in pairs:
                if type(x) is not Z or int(x) != y:
                    bad += 1
            if hash(A) != hash(a) or (A < B) != (a < b) or type(A == B) is not bool or str(A) != str(a):
                bad += 1
            for base in (2, 3, 7, 10, 16, 36):
                if int(m.digits(a, base), base) != a:
                    bad += 1
            if a:
                t = (a & -a).bit_length() - 1
                got = A.bit_scan1() if flavor == 'gmpy2' else A.scan1()
                if got != t:
                    bad += 1
            sq = (m.isqrt_rem if flavor == 'gmpy2' else m.sqrtrem)(abs(a))
            if sq[0] ** 2 + sq[1] != abs(a) or (sq[0] + 1) ** 2 <= abs(a) or type(sq[0]) is not Z:
                bad += 1
    return bad


if __name__ == '__main__':
    b = selftest()
    print('gmpy2_shim selftest mismatches:', b)
    sys.exit(1 if b else 0)
